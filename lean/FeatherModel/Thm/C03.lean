import FeatherModel.Lemmas.TinyReject
import FeatherModel.Lemmas.TinyDup

/-!
# C03 — Tiny v2 files round-trip and are written canonically

Model: `FeatherModel/Model/Tiny.lean` (`Tiny.write`, `Tiny.write?`, `Tiny.read n` for `quill::tiny_v2::{write_vec, read::<N>}`,
`quill/src/lines.rs`, `add_child`), the code after the fixes a79b1fd (injective comment escaping), 4f3eba6 (`write`
refuses cells a tiny file cannot hold) and the header section fix (`read` consumes the property lines of the header, so
the comment of the mapping set itself round-trips). Mapping sets are association lists in `IndexMap` order; `n` (the const generic
`N`) is a value, so every theorem below is for **every** number of namespaces (`2 ≤ n` is part of the domain), not only 2..4.

* round trip: `read_write`, `read_write_content`, `read_write_canonical`, `write_succeeds` on the decidable domain
  `Tiny.writable n m` (all comments, also the one of the mapping set itself, are arbitrary); `unescape_escape`,
  `escape_injective`;
* what `write` refuses: `write_rejects_iff`, `write_rejects_where`, `write_accepts` — a refused set is an `Err`, never a
  corrupted file or a panic (regressions `name_tab_cr_lf_rejected`, `non_utf8_rejected`);
* order independence: `write_perm`, `write_perm_dec`, `write_perm_classes`, `write_canon`, `sort_key_separates_*`;
* fixed point: `write_fixed_point`;
* reading never merges, loses or re-parents: `step_appends`, `read_counts`, `read_wf`, `read_closed_classes_final`,
  `read_dup_class / _field / _method / _param`, `read_dup`, `read_error_propagates`;
* the header's own section: `read_toplevel_doc` (the comment of the set comes from the comment line of the header section
  and from nowhere else), `header_unknown_property_ignored`, `header_two_comments_error`, `header_deeper_line_error`,
  `read_header_bad`, `indented_after_ignored_toplevel_error`, `comment_after_class_is_class_comment`;
* regression of the repaired defect: `toplevel_doc_roundtrip` (was `toplevel_doc_witness`).
-/

namespace Thm.C03
open Tiny

/-! ## 0. non-vacuity: concrete members of the domains -/

/-- two namespaces; a nested class name, a non-BMP name (U+1F600), absent names, multi-line comments, a parameter without
source name; classes and parameters inserted in non-canonical order -/
def exM : Mappings :=
  { ns := [[97], [98]], doc := none,
    classes := [
      ([112, 47, 65, 36, 66],
        { names := [some [112, 47, 65, 36, 66], some [128512]], doc := some [120, 10, 121],
          fields := [(([102], [73]), { desc := [73], names := [some [102], none], doc := none })],
          methods := [(([109], [40, 41, 86]),
            { desc := [40, 41, 86], names := [some [109], some [110]], doc := some [100],
              params := [(1, { index := 1, names := [none, some [122]], doc := some [112, 10, 113] }),
                         (0, { index := 0, names := [none, none], doc := none })] })] }),
      ([65], { names := [some [65], none], doc := none, fields := [], methods := [] })] }

/-- the same content, other insertion order at two levels -/
def exM' : Mappings :=
  { exM with classes := [
      ([65], { names := [some [65], none], doc := none, fields := [], methods := [] }),
      ([112, 47, 65, 36, 66],
        { names := [some [112, 47, 65, 36, 66], some [128512]], doc := some [120, 10, 121],
          fields := [(([102], [73]), { desc := [73], names := [some [102], none], doc := none })],
          methods := [(([109], [40, 41, 86]),
            { desc := [40, 41, 86], names := [some [109], some [110]], doc := some [100],
              params := [(0, { index := 0, names := [none, none], doc := none }),
                         (1, { index := 1, names := [none, some [122]], doc := some [112, 10, 113] })] })] })] }

def exM3 : Mappings :=
  { ns := [[97], [98], [99]], doc := none,
    classes := [([66], { names := [some [66], none, some [67]], doc := none, fields := [], methods := [] }),
                ([65], { names := [some [65], some [120], none], doc := some [100], fields := [], methods := [] })] }

def exM4 : Mappings :=
  { ns := [[97], [98], [99], [100]], doc := none,
    classes := [
      ([66],
        { names := [some [66], none, none, some [67]], doc := none, fields := [],
          methods := [(([60, 105, 110, 105, 116, 62], [40, 41, 86]),
            { desc := [40, 41, 86], names := [some [60, 105, 110, 105, 116, 62], none, none, none], doc := none,
              params := [(3, { index := 3, names := [none, none, none, none], doc := none })] })] })] }

/-- a class comment holding the two characters backslash, `n` (read back as a line feed before fix a79b1fd) -/
def exBsN : Mappings :=
  { ns := [[97], [98]], doc := none,
    classes := [([65], { names := [some [65], some [66]], doc := some [120, 92, 110, 121], fields := [], methods := [] })] }

example : writable 2 exM = true := by decide
example : canon exM ≠ exM := by decide
example : writable 2 exM' = true ∧ contentEqB exM exM' = true ∧ exM ≠ exM' := by decide
example : writable 3 exM3 = true ∧ canon exM3 ≠ exM3 := by decide
example : writable 4 exM4 = true := by decide
example : writable 2 exBsN = true := by decide

/-- comments with everything that used to break: `a\\b`, backslash-`n`, TAB, LF, a trailing CR, a lone backslash at the end -/
def exDocs : Mappings :=
  { ns := [[97], [98]], doc := none,
    classes := [
      ([65],
        { names := [some [65], some [66]], doc := some [97, 92, 92, 98, 92, 110, 9, 10, 13],
          fields := [(([102], [73]), { desc := [73], names := [some [102], none], doc := some [92] })],
          methods := [(([109], [40, 41, 86]),
            { desc := [40, 41, 86], names := [some [109], none], doc := some [92, 116, 92, 114, 13, 10, 92, 92, 110],
              params := [(0, { index := 0, names := [none, none], doc := some [9, 9, 92] })] })] })] }

example : writable 2 exDocs = true := by decide
example : read 2 (write exDocs) = some (canon exDocs) := by decide

/-- a comment on the mapping set itself: two lines, a TAB, a backslash, backslash-`n`, a CR at the end -/
def exTop : Mappings := { exM with doc := some [116, 111, 112, 10, 9, 92, 32, 92, 110, 13] }
/-- the empty comment on the mapping set (written as `\tc\t`) -/
def exTopEmpty : Mappings := { exM3 with doc := some [] }

example : writable 2 exTop = true ∧ writable 3 exTopEmpty = true := by decide
example : read 2 (write exTop) = some (canon exTop) ∧ (canon exTop).doc = exTop.doc := by decide
example : read 3 (write exTopEmpty) = some (canon exTopEmpty) := by decide
/-- the domain is inhabited for every `n ≥ 2`, with and without a comment on the set -/
example (n : Nat) (h : 2 ≤ n) (d : Option JStr) : writable n { ns := List.replicate n [97], doc := d, classes := [] } = true := by
  simp [writable, wf, keysNodup, h, cellOk, isSurrogate]

/-! ## 1. round trip -/

/-- on the domain `write` returns its text -/
theorem write_succeeds {n : Nat} {m : Mappings} (h : writable n m = true) : write? m = some (write m) := by
  simp [write?, writable_writeOk h]

/-- **`unescape` undoes `escape` for every comment** (fix a79b1fd; before it, backslash-`n` came back as a line feed) -/
theorem unescape_escape (d : JStr) : unescape (escape d) = d := Tiny.unescape_escape d

/-- `escape` is injective: two comments are never written alike -/
theorem escape_injective {a b : JStr} (h : escape a = escape b) : a = b := Tiny.escape_injective h

/-- an escaped comment is one cell of one line: no TAB, LF, CR -/
theorem escape_one_cell (d : JStr) : 9 ∉ escape d ∧ 10 ∉ escape d ∧ 13 ∉ escape d := escape_clean d

/-- **`read (write m) = ok (canon m)`**: everything comes back — namespaces, the comment of the mapping set itself, every
class / field / method / parameter with its names per namespace, descriptor, index and comment (any comment) — each level
in the order `write` emits it. For every `n`. -/
theorem read_write {n : Nat} {m : Mappings} (h : writable n m = true) : read n (write m) = some (canon m) :=
  read_write_writable h

/-- `canon` only reorders: same entries under the same keys at every level -/
theorem canon_content (m : Mappings) : ContentEq m (canon m) := contentEq_canon m

/-- the round trip gives back the same mapping set up to insertion order -/
theorem read_write_content {n : Nat} {m : Mappings} (h : writable n m = true) :
    ∃ r, read n (write m) = some r ∧ ContentEq m r :=
  ⟨canon m, read_write h, contentEq_canon m⟩

/-- sets in canonical order come back exactly -/
theorem read_write_canonical {n : Nat} {m : Mappings} (h : writable n m = true) :
    read n (write (canon m)) = some (canon m) := by
  rw [write_canon]
  exact read_write h

example : read 2 (write exM) = some (canon exM) := by decide

/-! ## 2. the text depends on the content only -/

/-- **`write` is invariant under the insertion order at every level** (`ContentEq`: the entry lists are permutations of
each other, recursively). `wf` = keys unique and derived from the entries, the invariant of every set built through
quill's API; `write_perm_wf_witness` shows it is needed. -/
theorem write_perm {a b : Mappings} (ha : wf a = true) (hb : wf b = true) (h : ContentEq a b) : write? a = write? b :=
  write?_congr ha hb h

/-- the same with the decidable content test the oracle uses -/
theorem write_perm_dec {a b : Mappings} (ha : wf a = true) (hb : wf b = true) (h : contentEqB a b = true) :
    write? a = write? b :=
  write?_congr ha hb (contentEqB_sound h)

/-- special case: any permutation of the class list -/
theorem write_perm_classes {m : Mappings} {cs : AList JStr Class} (hm : wf m = true)
    (hcs : wf { m with classes := cs } = true) (h : m.classes.Perm cs) : write? { m with classes := cs } = write? m :=
  (write?_congr hm hcs (contentEq_of_perm h)).symm

/-- `write` does not distinguish a set from its canonical form (no hypotheses) -/
theorem write_canon (m : Mappings) : write? (canon m) = write? m := write?_canon m

example : write? exM = write? exM' := write_perm_dec (by decide) (by decide) (by decide)

/-- the sort keys separate the entries of a well-formed level (so the stable sort has exactly one result) -/
theorem sort_key_separates_classes {m : Mappings} (h : wf m = true) :
    ∀ p q, p ∈ m.classes.values → q ∈ m.classes.values → classLe p q = true → classLe q p = true → p = q :=
  wf_classes_inj h

theorem sort_key_separates_fields {c : Class} (h : wfClass c = true) :
    ∀ p q, p ∈ c.fields.values → q ∈ c.fields.values → fieldLe p q = true → fieldLe q p = true → p = q :=
  wfClass_fields_inj h

theorem sort_key_separates_methods {c : Class} (h : wfClass c = true) :
    ∀ p q, p ∈ c.methods.values → q ∈ c.methods.values → methodLe p q = true → methodLe q p = true → p = q :=
  wfClass_methods_inj h

theorem sort_key_separates_params {m : Method} (h : wfMethod m = true) :
    ∀ p q, p ∈ m.params.values → q ∈ m.params.values → paramLe p q = true → paramLe q p = true → p = q :=
  wfMethod_params_inj h

/-- two entries with the same names under different keys (impossible through quill's API, possible through the public
fields): the comment of whichever was inserted first is written first -/
def exBadKeys (first second : JStr) : Mappings :=
  { ns := [[97], [98]], doc := none,
    classes := [([88], { names := [some [65], none], doc := some first, fields := [], methods := [] }),
                ([89], { names := [some [65], none], doc := some second, fields := [], methods := [] })] }

/-- without `wf` the text depends on the insertion order -/
theorem write_perm_wf_witness :
    (exBadKeys [49] [50]).classes.Perm
        [([89], { names := [some [65], none], doc := some [50], fields := [], methods := [] }),
         ([88], { names := [some [65], none], doc := some [49], fields := [], methods := [] })] ∧
      wf (exBadKeys [49] [50]) = false ∧
      write? (exBadKeys [49] [50]) ≠ write? { exBadKeys [49] [50] with classes :=
        [([89], { names := [some [65], none], doc := some [50], fields := [], methods := [] }),
         ([88], { names := [some [65], none], doc := some [49], fields := [], methods := [] })] } :=
  ⟨List.Perm.swap _ _ _, by decide, by decide⟩

/-! ## 3. fixed point -/

/-- **`write (read (write m)) = write m`**, byte for byte -/
theorem write_fixed_point {n : Nat} {m : Mappings} (h : writable n m = true) :
    ∃ r, read n (write m) = some r ∧ write? r = write? m ∧ write? m = some (write m) :=
  ⟨canon m, read_write h, write?_canon m, write_succeeds h⟩

/-- stated through the canonical form -/
theorem write_fixed_point_canon {n : Nat} {m : Mappings} (h : writable n m = true) :
    read n (write m) = some (canon m) ∧ write? (canon m) = some (write m) := by
  refine ⟨read_write h, ?_⟩
  rw [write?_canon, write_succeeds h]

example : ∃ r, read 2 (write exDocs) = some r ∧ write? r = write? exDocs :=
  let ⟨r, h1, h2, _⟩ := write_fixed_point (n := 2) (m := exDocs) (by decide)
  ⟨r, h1, h2⟩

/-! ## 3b. what `write` refuses -/

/-- **`write` fails exactly when** some namespace, present name or descriptor does not pass `cell`
(`writeOk` is the conjunction over all of them); the failure is a clean `Err` (`write? = none`), there is no other outcome -/
theorem write_rejects_iff (m : Mappings) : write? m = none ↔ writeOk m = false := write?_none_iff m

/-- spelled out: a refused set has a namespace, a present name (class, field, method or parameter row) or a descriptor
containing TAB, LF, CR or a lone surrogate (`BadCell`) — and every such set is refused -/
theorem write_rejects_where (m : Mappings) : write? m = none ↔
    (∃ s ∈ m.ns, BadCell s) ∨
    ∃ e ∈ m.classes, BadNames e.2.names ∨
      (∃ f ∈ e.2.fields, BadCell f.2.desc ∨ BadNames f.2.names) ∨
      (∃ me ∈ e.2.methods, BadCell me.2.desc ∨ BadNames me.2.names ∨ ∃ p ∈ me.2.params, BadNames p.2.names) :=
  (write?_none_iff m).trans (writeOk_false_iff m)

theorem bad_cell_iff (s : JStr) : cellOk s = false ↔ (9 ∈ s ∨ 10 ∈ s ∨ 13 ∈ s ∨ ∃ c ∈ s, isSurrogate c = true) :=
  cellOk_false_iff s

/-- everything else is written (comments never make `write` fail) -/
theorem write_accepts {m : Mappings} (h : writeOk m = true) : write? m = some (write m) := write?_of_writeOk h

/-- no file corruption: on the domain, splitting the written text into lines gives back exactly the lines `write` emitted
(no cell or comment can break the line structure) -/
theorem written_lines_intact {n : Nat} {m : Mappings} (h : writable n m = true) :
    lines (write m) = writeLines m := by
  simp only [writable, Bool.and_eq_true, decide_eq_true_eq, beq_iff_eq, List.all_eq_true, Bool.not_eq_true'] at h
  obtain ⟨⟨⟨⟨_, _⟩, hns⟩, _⟩, hcls⟩ := h
  have hhead := header_parsed (ns := m.ns) (fun s hs => (hns s hs).2)
  have hparsed : Parsed (writeLines m)
      ({ indent := 0, first := TINY, fields := [50] :: [48] :: m.ns } ::
        (docT 1 m.doc ++ (sortBy classLe m.classes.values).flatMap classT)) := by
    unfold writeLines
    apply Parsed.cons hhead.1 hhead.2
    apply (docLines_parsed 1 m.doc).append
    apply Parsed.flatMap
    intro c hc
    have := mem_sortBy.mp hc
    simp only [AList.values, List.mem_map] at this
    obtain ⟨⟨k, v⟩, he, rfl⟩ := this
    exact classLines_parsed (hcls (k, v) he)
  unfold write
  exact lines_write _ hparsed.ok

/-! ## 4. reading never merges, loses or re-parents -/

/-- **one accepted line, one change**: `TreeStep κ` (file `Lemmas/TinyStep.lean`) lists the only possibilities —
nothing (`skip`); a fresh class appended under a key not yet present; or a change of the *last* class only: its absent
comment set, a fresh field / method appended under a new key, or a change of its *last* field (absent comment set) / *last*
method (absent comment set, fresh parameter appended under a new index, absent comment of its last parameter set). `κ` is
determined by the line and the kind of the member opened last (`lineKind`). -/
theorem step_appends {n : Nat} {s s' : St} {l : TLine} (h : step n s l = some s') :
    TreeStep (lineKind s.kind l) s.classes s'.classes ∧ s'.kind = kindAfter s.kind l :=
  ⟨(step_treeStep h).1, (step_treeStep h).2.1⟩

/-- **no merge, no loss**: a successful `read` yields exactly one class / field / method / parameter / comment per line
that `lineKinds` (a function of the text alone) classifies as such, and the mapping set has a comment exactly when the
header section has a comment line. The body (`bodyPart`) is what stands from the first line at indentation 0 on, the
header section (`headerPart`) what stands before it. -/
theorem read_counts {n : Nat} {t : List Nat} {m : Mappings} (h : read n t = some m) (κ : LineKind) (hκ : κ ≠ .skip) :
    countOf κ m.classes = (lineKinds .field (bodyPart (textLines t).tail)).count κ ∧
    docN m.doc = (headerDocLines (textLines t).tail).length := by
  obtain ⟨hd, ls, s, ht, _, _, hsec, _, hrun, hc⟩ := read_some h
  have := run_counts (n := n) κ hκ (bodyPart ls) _ s hrun
  rw [ht, hc, this]
  refine ⟨?_, (headerSec_none_doc hsec).2⟩
  cases κ <;> simp [countOf] at hκ ⊢

/-- **no duplicate or misfiled entry**: in the result every key is unique and is the key derived from its entry (first
name, descriptor / index) -/
theorem read_wf {n : Nat} {t : List Nat} {m : Mappings} (h : read n t = some m) : wf m = true := by
  obtain ⟨hd, ls, s, _, _, _, _, _, hrun, hc⟩ := read_some h
  rw [wf_eq_wfCs, hc]
  exact run_wf (bodyPart ls) _ s hrun rfl

/-- **no re-parenting**: once a class entry is followed by another one it is final — whatever the rest of the text is,
it stays, unchanged, at its place -/
theorem read_closed_classes_final {n : Nat} {s s' : St} {ls : List TLine} (h : run n s ls = some s')
    {closed : AList JStr Class} {last : JStr × Class} (hs : s.classes = closed ++ [last]) :
    ∃ rest, rest ≠ [] ∧ s'.classes = closed ++ rest :=
  run_frozen ls s s' h hs

/-- **duplicate keys are errors** (positions `i < j` in the body, i.e. counted from the first line at indentation 0; `m`
the method line for parameters): two class lines with the same first name; two field (method) lines of one class with the
same descriptor and first name; two parameter lines of one method with the same index -/
theorem read_dup {n : Nat} {t : List Nat} {m i j : Nat} (h : dupAt (bodyPart (textLines t).tail) m i j = true) :
    read n t = none := by
  cases ht : textLines t with
  | nil => simp [Tiny.read, ht]
  | cons hd ls =>
    rw [ht] at h
    exact read_none_of_run_none ht (fun s => run_dupAt h)

theorem read_dup_class {n : Nat} {t : List Nat} {hd : TLine} {pre mid post : List TLine} {l1 l2 : TLine}
    (ht : textLines t = hd :: (pre ++ l1 :: (mid ++ l2 :: post)))
    (h1 : l1.indent = 0 ∧ l1.first = C_) (h2 : l2.indent = 0 ∧ l2.first = C_)
    (hk : l1.fields.head? = l2.fields.head?) : read n t = none := by
  obtain ⟨pre', hp⟩ := bodyPart_split pre l1 (mid ++ l2 :: post) h1.1
  exact read_none_of_run_none ht (fun _ => by rw [hp]; exact run_dup_class h1 h2 hk)

/-- `hbody`: the two lines stand in the body, not in the header section (where `f` lines are ignored property lines) -/
theorem read_dup_field {n : Nat} {t : List Nat} {hd : TLine} {pre mid post : List TLine} {l1 l2 : TLine}
    (ht : textLines t = hd :: (pre ++ l1 :: (mid ++ l2 :: post))) (hbody : ∃ l ∈ pre, l.indent = 0)
    (h1 : l1.indent = 1 ∧ l1.first = F_) (h2 : l2.indent = 1 ∧ l2.first = F_) (hmid : ∀ l ∈ mid, 1 ≤ l.indent)
    (hk : l1.fields.take 2 = l2.fields.take 2) : read n t = none :=
  read_none_of_tail_none ht hbody (fun _ _ => run_dup_field h1 h2 hmid hk)

theorem read_dup_method {n : Nat} {t : List Nat} {hd : TLine} {pre mid post : List TLine} {l1 l2 : TLine}
    (ht : textLines t = hd :: (pre ++ l1 :: (mid ++ l2 :: post))) (hbody : ∃ l ∈ pre, l.indent = 0)
    (h1 : l1.indent = 1 ∧ l1.first = M_) (h2 : l2.indent = 1 ∧ l2.first = M_) (hmid : ∀ l ∈ mid, 1 ≤ l.indent)
    (hk : l1.fields.take 2 = l2.fields.take 2) : read n t = none :=
  read_none_of_tail_none ht hbody (fun _ _ => run_dup_method h1 h2 hmid hk)

theorem read_dup_param {n : Nat} {t : List Nat} {hd : TLine} {pre mid0 mid post : List TLine} {lm l1 l2 : TLine}
    (ht : textLines t = hd :: (pre ++ lm :: (mid0 ++ l1 :: (mid ++ l2 :: post)))) (hbody : ∃ l ∈ pre, l.indent = 0)
    (hm : lm.indent = 1 ∧ lm.first = M_) (hmid0 : ∀ l ∈ mid0, 2 ≤ l.indent)
    (h1 : l1.indent = 2 ∧ l1.first = P_) (h2 : l2.indent = 2 ∧ l2.first = P_) (hmid : ∀ l ∈ mid, 2 ≤ l.indent)
    (hk : (l1.fields.head?).bind parseUsize = (l2.fields.head?).bind parseUsize) : read n t = none :=
  read_none_of_tail_none ht hbody (fun _ _ => run_dup_param hm hmid0 h1 h2 hmid hk)

/-- two `f` lines with one key directly after the header are property lines of the header section, ignored like every
unknown line: `hbody` cannot be dropped. `tiny 2 0 a b / ⇥f I x y / ⇥f I x y` -/
theorem read_dup_field_header_witness :
    read 2 [116, 105, 110, 121, 9, 50, 9, 48, 9, 97, 9, 98, 10, 9, 102, 9, 73, 9, 120, 9, 121, 10, 9, 102, 9, 73, 9, 120, 9, 121, 10]
      = some { ns := [[97], [98]], doc := none, classes := [] } := by decide

/-- a line the reader rejects makes the whole `read` fail, whatever follows -/
theorem read_error_propagates {n : Nat} {s0 s : St} {pre post : List TLine} {l : TLine}
    (h1 : run n s0 pre = some s) (h2 : step n s l = none) : run n s0 (pre ++ l :: post) = none :=
  run_none_of_step_none pre s0 s l post h1 h2

/-- `tiny 2 0 a b / c A B / c A C` -/
example : read 2 [116, 105, 110, 121, 9, 50, 9, 48, 9, 97, 9, 98, 10, 99, 9, 65, 9, 66, 10, 99, 9, 65, 9, 67, 10] = none :=
  read_dup (m := 0) (i := 0) (j := 1) (by decide)

example : ∃ m, read 2 (write exM) = some m ∧ countOf .par m.classes = 2 ∧ countOf .doc m.classes = 3 := by
  refine ⟨canon exM, by decide, by decide, by decide⟩

/-! ## 4b. the header's own section: the property lines (indentation 1) directly after the header line -/

/-- **where the comment of the mapping set comes from**: it is the (unescaped) cell of the comment line of the header
section — the lines before the first line at indentation 0 — and nothing that stands later can set or change it; there
is a comment exactly when there is such a line (`read_counts`) -/
theorem read_toplevel_doc {n : Nat} {t : List Nat} {m : Mappings} (h : read n t = some m) :
    m.doc = headerDoc (textLines t).tail ∧ ∀ l ∈ headerPart (textLines t).tail, l.indent = 1 := by
  obtain ⟨hd, ls, s, ht, _, _, hsec, _, _, _⟩ := read_some h
  rw [ht, List.tail_cons]
  exact ⟨(headerSec_none_doc hsec).1, headerSec_indents ls none _ _ hsec⟩

/-- **unknown header properties are ignored**: a property line other than `c` in the header section (e.g.
`⇥escaped-names`) can be deleted without changing the outcome of `read` — result or error -/
theorem header_unknown_property_ignored {n : Nat} {t t' : List Nat} {hd : TLine} {pre post : List TLine} {l : TLine}
    (ht : textLines t = hd :: (pre ++ l :: post)) (ht' : textLines t' = hd :: (pre ++ post))
    (hpre : ∀ x ∈ pre, x.indent ≠ 0) (hl : l.indent = 1) (hf : l.first ≠ C_) : read n t = read n t' :=
  read_congr ht ht' (headerSec_ignores pre none l post hpre hl hf)

/-- the same through the decidable position test the oracle uses -/
theorem header_unknown_property_ignored_at {n : Nat} {t t' : List Nat} {k : Nat}
    (hh : (textLines t).head? = (textLines t').head?) (h : ignoredAt (textLines t).tail (textLines t').tail k = true) :
    read n t = read n t' :=
  read_eq_of_ignoredAt hh h

/-- **two comments in the header section are an error** (`add_comment`: only one comment is allowed) -/
theorem header_two_comments_error {n : Nat} {t : List Nat} {hd : TLine} {pre mid post : List TLine} {l1 l2 : TLine}
    (ht : textLines t = hd :: (pre ++ l1 :: (mid ++ l2 :: post)))
    (hpre : ∀ x ∈ pre, x.indent ≠ 0) (hmid : ∀ x ∈ mid, x.indent ≠ 0)
    (h1 : l1.indent = 1 ∧ l1.first = C_) (h2 : l2.indent = 1 ∧ l2.first = C_) : read n t = none :=
  read_none_of_headerSec_none ht (headerSec_two_comments pre none l1 mid l2 post hpre hmid h1.1 h1.2 h2.1 h2.2)

/-- **a line deeper than a property line is an error** in the header section (e.g. a comment at indentation 2) -/
theorem header_deeper_line_error {n : Nat} {t : List Nat} {hd : TLine} {pre post : List TLine} {l : TLine}
    (ht : textLines t = hd :: (pre ++ l :: post)) (hpre : ∀ x ∈ pre, x.indent ≠ 0) (hl : 2 ≤ l.indent) : read n t = none :=
  read_none_of_headerSec_none ht (headerSec_deep_none pre none l post hpre hl)

/-- both through the decidable test the oracle uses -/
theorem read_header_bad {n : Nat} {t : List Nat} (h : headerBad (textLines t).tail = true) : read n t = none :=
  read_none_of_headerBad h

/-- **the header section is only accepted directly after the header**: later, an indented line directly after a line at
indentation 0 that is no class line (an ignored line opens nothing) is an error, as it always was -/
theorem indented_after_ignored_toplevel_error {n : Nat} {t : List Nat} {hd : TLine} {pre post : List TLine} {l0 l : TLine}
    (ht : textLines t = hd :: (pre ++ l0 :: l :: post)) (h0 : l0.indent = 0 ∧ l0.first ≠ C_) (hl : 1 ≤ l.indent) :
    read n t = none := by
  obtain ⟨pre', hp⟩ := bodyPart_split pre l0 (l :: post) h0.1
  exact read_none_of_run_none ht (fun _ => by rw [hp]; exact run_orphan_indent h0.1 h0.2 hl)

/-- through the decidable position test the oracle uses -/
theorem indented_after_ignored_toplevel_error_at {n : Nat} {t : List Nat} {k : Nat}
    (h : orphanAt (textLines t).tail k = true) : read n t = none :=
  read_none_of_orphanAt h

/-- `tiny 2 0 a b / ⇥x y / ⇥c top / ⇥escaped-names / c A B` against the same text without the two unknown property lines -/
example : read 2 (jstr "tiny\t2\t0\ta\tb\n\tx\ty\n\tc\ttop\n\tescaped-names\nc\tA\tB\n")
    = read 2 (jstr "tiny\t2\t0\ta\tb\n\tc\ttop\nc\tA\tB\n") ∧
    read 2 (jstr "tiny\t2\t0\ta\tb\n\tc\ttop\nc\tA\tB\n") =
      some { ns := [[97], [98]], doc := some (jstr "top"),
             classes := [([65], { names := [some [65], some [66]], doc := none, fields := [], methods := [] })] } := by
  decide

/-- two header comments; a header comment at indentation 2; a header comment after an ignored line at indentation 0 -/
example : read 2 (jstr "tiny\t2\t0\ta\tb\n\tc\tone\n\tc\ttwo\n") = none ∧
    read 2 (jstr "tiny\t2\t0\ta\tb\n\t\tc\tdeep\n") = none ∧
    read 2 (jstr "tiny\t2\t0\ta\tb\nx\n\tc\tlate\n") = none := by decide

/-- **after the first class there is no header section**: a `c` line at indentation 1 there is the comment of that class
(a second one the usual error), the comment of the set stays absent; other property lines there are the class's unknown
sub-lines (ignored, as before) -/
theorem comment_after_class_is_class_comment :
    read 2 (jstr "tiny\t2\t0\ta\tb\nc\tA\tB\n\tc\tx\n\tescaped-names\n") =
      some { ns := [[97], [98]], doc := none,
             classes := [([65], { names := [some [65], some [66]], doc := some [120], fields := [], methods := [] })] } ∧
    read 2 (jstr "tiny\t2\t0\ta\tb\n\tc\ttop\nc\tA\tB\n\tc\tx\n\tc\ty\n") = none := by decide

/-! ## 5. regressions of the fixed defects (all replayed against the real code) -/

/-- (was `comment_backslash_n_witness`) a comment `x\ny` (backslash, `n`) now comes back as it was -/
theorem comment_backslash_n_regression : read 2 (write exBsN) = some (canon exBsN) ∧ canon exBsN = exBsN := by decide

/-- (was `escape_not_injective_witness`) a line feed and the two characters backslash, `n` are written differently -/
theorem escape_lf_vs_backslash_n_regression : escape [10] = [92, 110] ∧ escape [92, 110] = [92, 92, 110] := by decide

def exDoc (d : JStr) : Mappings :=
  { ns := [[97], [98]], doc := none,
    classes := [([65], { names := [some [65], some [66]], doc := some d, fields := [], methods := [] })] }

/-- (was `doc_cr_tab_witness`) a comment ending in CR and a comment containing TAB come back as they were -/
theorem doc_cr_tab_regression :
    read 2 (write (exDoc [100, 13])) = some (exDoc [100, 13]) ∧ read 2 (write (exDoc [100, 9, 101])) = some (exDoc [100, 9, 101]) := by
  decide

/-- (was `toplevel_doc_witness`) the comment of the mapping set itself is written as a property line of the header
section; `read` used to reject that line ("expected an indentation of 0"), now it comes back — also the empty comment and
one with two lines, a TAB, backslashes and a CR -/
theorem toplevel_doc_roundtrip :
    write? { exM3 with doc := some [116] } = some (write { exM3 with doc := some [116] }) ∧
    read 3 (write { exM3 with doc := some [116] }) = some (canon { exM3 with doc := some [116] }) ∧
    read 3 (write exTopEmpty) = some (canon exTopEmpty) ∧ (canon exTopEmpty).doc = some [] ∧
    read 2 (write exTop) = some (canon exTop) ∧ (canon exTop).doc = some [116, 111, 112, 10, 9, 92, 32, 92, 110, 13] := by
  decide

def exName (name : JStr) : Mappings :=
  { ns := [[97], [98]], doc := none,
    classes := [([65], { names := [some [65], some name], doc := none, fields := [], methods := [] })] }

def exDesc (desc : JStr) : Mappings :=
  { ns := [[97], [98]], doc := none,
    classes := [
      ([65],
        { names := [some [65], none], doc := none, methods := [],
          fields := [(([102], desc), { desc := desc, names := [some [102], none], doc := none })] })] }

/-- (were `name_tab_witness`, `name_cr_witness`, `name_lf_witness`, `fixed_point_cr_lf_name_witness`) names with TAB, with a
trailing CR, with LF and TABs (`B⏎c⇥C⇥D`, which used to make the reader see a second class) are refused by `write` -/
theorem name_tab_cr_lf_rejected :
    write? (exName [66, 9, 67]) = none ∧ write? (exName [66, 13]) = none ∧ write? (exName [66, 10]) = none ∧
    write? (exName [66, 10, 99, 9, 67, 9, 68]) = none ∧ write? (exDesc [73, 9, 120]) = none ∧
    write? { exName [66] with ns := [[97], [98, 13]] } = none := by decide

/-- (was `surrogate_witness`) a name or descriptor that is not UTF-8 (lone surrogate U+D800) is refused: an `Err`, where
the code used to panic (name) or to write U+FFFD (descriptor) -/
theorem non_utf8_rejected : write? (exName [66, 55296]) = none ∧ write? (exDesc [76, 55296, 59]) = none := by decide

/-- a class without a name in the first namespace is written but cannot be read back (outside `wf`) -/
theorem no_source_name_witness :
    read 2 (write { exBsN with classes := [([65], { names := [none, some [66]], doc := none, fields := [], methods := [] })] }) = none := by
  decide

end Thm.C03
