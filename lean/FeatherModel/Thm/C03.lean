import FeatherModel.Model.Tiny

namespace Thm.C03
open Tiny

theorem stub : escape [] = [] := rfl

end Thm.C03
