import FeatherModel.Lemmas.TinyEscape
import FeatherModel.Lemmas.TinyDup

/-!
# C03 — Tiny v2 files round-trip and are written canonically

Model: `FeatherModel/Model/Tiny.lean` (`Tiny.write`, `Tiny.write?`, `Tiny.read n` for `quill::tiny_v2::{write_vec, read::<N>}`,
`quill/src/lines.rs`, `add_child`). Mapping sets are association lists in `IndexMap` order; `n` (the const generic `N`)
is a value, so every theorem below is for **every** number of namespaces (`2 ≤ n` is part of the domain), not only 2..4.

* round trip: `read_write`, `read_write_content`, `read_write_canonical`, `write_succeeds` on the decidable domain
  `Tiny.writable n m`; the witnesses of section 5 show that each condition of the domain is needed;
* order independence: `write_perm`, `write_perm_dec`, `write_perm_classes`, `write_canon`, `sort_key_separates_*`;
* fixed point: `write_fixed_point` (on the wider domain `Tiny.writableE`: comments may contain backslash-`n`),
  `read_write_escaped`;
* reading never merges, loses or re-parents: `step_appends`, `read_counts`, `read_wf`, `read_closed_classes_final`,
  `read_dup_class / _field / _method / _param`, `read_dup`, `read_error_propagates`.
-/

namespace Thm.C03
open Tiny

/-! ## 0. non-vacuity: concrete members of the domains -/

/-- two namespaces; a nested class name, a non-BMP name (U+1F600), absent names, multi-line comments, a parameter without
source name; classes and parameters inserted in non-canonical order -/
def exM : Mappings :=
  { ns := [[97], [98]], doc := none,
    classes := [
      ([112, 47, 65, 36, 66],
        { names := [some [112, 47, 65, 36, 66], some [128512]], doc := some [120, 10, 121],
          fields := [(([102], [73]), { desc := [73], names := [some [102], none], doc := none })],
          methods := [(([109], [40, 41, 86]),
            { desc := [40, 41, 86], names := [some [109], some [110]], doc := some [100],
              params := [(1, { index := 1, names := [none, some [122]], doc := some [112, 10, 113] }),
                         (0, { index := 0, names := [none, none], doc := none })] })] }),
      ([65], { names := [some [65], none], doc := none, fields := [], methods := [] })] }

/-- the same content, other insertion order at two levels -/
def exM' : Mappings :=
  { exM with classes := [
      ([65], { names := [some [65], none], doc := none, fields := [], methods := [] }),
      ([112, 47, 65, 36, 66],
        { names := [some [112, 47, 65, 36, 66], some [128512]], doc := some [120, 10, 121],
          fields := [(([102], [73]), { desc := [73], names := [some [102], none], doc := none })],
          methods := [(([109], [40, 41, 86]),
            { desc := [40, 41, 86], names := [some [109], some [110]], doc := some [100],
              params := [(0, { index := 0, names := [none, none], doc := none }),
                         (1, { index := 1, names := [none, some [122]], doc := some [112, 10, 113] })] })] })] }

def exM3 : Mappings :=
  { ns := [[97], [98], [99]], doc := none,
    classes := [([66], { names := [some [66], none, some [67]], doc := none, fields := [], methods := [] }),
                ([65], { names := [some [65], some [120], none], doc := some [100], fields := [], methods := [] })] }

def exM4 : Mappings :=
  { ns := [[97], [98], [99], [100]], doc := none,
    classes := [
      ([66],
        { names := [some [66], none, none, some [67]], doc := none, fields := [],
          methods := [(([60, 105, 110, 105, 116, 62], [40, 41, 86]),
            { desc := [40, 41, 86], names := [some [60, 105, 110, 105, 116, 62], none, none, none], doc := none,
              params := [(3, { index := 3, names := [none, none, none, none], doc := none })] })] })] }

/-- a class comment holding the two characters backslash, `n` -/
def exBsN : Mappings :=
  { ns := [[97], [98]], doc := none,
    classes := [([65], { names := [some [65], some [66]], doc := some [120, 92, 110, 121], fields := [], methods := [] })] }

example : writable 2 exM = true := by decide
example : canon exM ≠ exM := by decide
example : writable 2 exM' = true ∧ contentEqB exM exM' = true ∧ exM ≠ exM' := by decide
example : writable 3 exM3 = true ∧ canon exM3 ≠ exM3 := by decide
example : writable 4 exM4 = true := by decide
example : writable 2 exBsN = false ∧ writableE 2 exBsN = true := by decide
/-- the domain is inhabited for every `n ≥ 2` -/
example (n : Nat) (h : 2 ≤ n) : writable n { ns := List.replicate n [97], doc := none, classes := [] } = true := by
  simp [writable, wf, keysNodup, h, cellOk, isSurrogate]

/-! ## 1. round trip -/

/-- on the domain `write` returns its text (no panic) -/
theorem write_succeeds {n : Nat} {m : Mappings} (h : writable n m = true) : write? m = some (write m) := by
  simp [write?, writable_displayable h]

/-- **`read (write m) = ok (canon m)`**: everything comes back — namespaces, every class / field / method / parameter with
its names per namespace, descriptor, index and comment — each level in the order `write` emits it. For every `n`. -/
theorem read_write {n : Nat} {m : Mappings} (h : writable n m = true) : read n (write m) = some (canon m) :=
  read_write_writable h

/-- `canon` only reorders: same entries under the same keys at every level -/
theorem canon_content (m : Mappings) : ContentEq m (canon m) := contentEq_canon m

/-- the round trip gives back the same mapping set up to insertion order -/
theorem read_write_content {n : Nat} {m : Mappings} (h : writable n m = true) :
    ∃ r, read n (write m) = some r ∧ ContentEq m r :=
  ⟨canon m, read_write h, contentEq_canon m⟩

/-- sets in canonical order come back exactly -/
theorem read_write_canonical {n : Nat} {m : Mappings} (h : writable n m = true) :
    read n (write (canon m)) = some (canon m) := by
  rw [write_canon]
  exact read_write h

example : read 2 (write exM) = some (canon exM) := by decide

/-! ## 2. the text depends on the content only -/

/-- **`write` is invariant under the insertion order at every level** (`ContentEq`: the entry lists are permutations of
each other, recursively). `wf` = keys unique and derived from the entries, the invariant of every set built through
quill's API; `write_perm_wf_witness` shows it is needed. -/
theorem write_perm {a b : Mappings} (ha : wf a = true) (hb : wf b = true) (h : ContentEq a b) : write? a = write? b :=
  write?_congr ha hb h

/-- the same with the decidable content test the oracle uses -/
theorem write_perm_dec {a b : Mappings} (ha : wf a = true) (hb : wf b = true) (h : contentEqB a b = true) :
    write? a = write? b :=
  write?_congr ha hb (contentEqB_sound h)

/-- special case: any permutation of the class list -/
theorem write_perm_classes {m : Mappings} {cs : AList JStr Class} (hm : wf m = true)
    (hcs : wf { m with classes := cs } = true) (h : m.classes.Perm cs) : write? { m with classes := cs } = write? m :=
  (write?_congr hm hcs (contentEq_of_perm h)).symm

/-- `write` does not distinguish a set from its canonical form (no hypotheses) -/
theorem write_canon (m : Mappings) : write? (canon m) = write? m := write?_canon m

example : write? exM = write? exM' := write_perm_dec (by decide) (by decide) (by decide)

/-- the sort keys separate the entries of a well-formed level (so the stable sort has exactly one result) -/
theorem sort_key_separates_classes {m : Mappings} (h : wf m = true) :
    ∀ p q, p ∈ m.classes.values → q ∈ m.classes.values → classLe p q = true → classLe q p = true → p = q :=
  wf_classes_inj h

theorem sort_key_separates_fields {c : Class} (h : wfClass c = true) :
    ∀ p q, p ∈ c.fields.values → q ∈ c.fields.values → fieldLe p q = true → fieldLe q p = true → p = q :=
  wfClass_fields_inj h

theorem sort_key_separates_methods {c : Class} (h : wfClass c = true) :
    ∀ p q, p ∈ c.methods.values → q ∈ c.methods.values → methodLe p q = true → methodLe q p = true → p = q :=
  wfClass_methods_inj h

theorem sort_key_separates_params {m : Method} (h : wfMethod m = true) :
    ∀ p q, p ∈ m.params.values → q ∈ m.params.values → paramLe p q = true → paramLe q p = true → p = q :=
  wfMethod_params_inj h

/-- two entries with the same names under different keys (impossible through quill's API, possible through the public
fields): the comment of whichever was inserted first is written first -/
def exBadKeys (first second : JStr) : Mappings :=
  { ns := [[97], [98]], doc := none,
    classes := [([88], { names := [some [65], none], doc := some first, fields := [], methods := [] }),
                ([89], { names := [some [65], none], doc := some second, fields := [], methods := [] })] }

/-- without `wf` the text depends on the insertion order -/
theorem write_perm_wf_witness :
    (exBadKeys [49] [50]).classes.Perm
        [([89], { names := [some [65], none], doc := some [50], fields := [], methods := [] }),
         ([88], { names := [some [65], none], doc := some [49], fields := [], methods := [] })] ∧
      wf (exBadKeys [49] [50]) = false ∧
      write? (exBadKeys [49] [50]) ≠ write? { exBadKeys [49] [50] with classes :=
        [([89], { names := [some [65], none], doc := some [50], fields := [], methods := [] }),
         ([88], { names := [some [65], none], doc := some [49], fields := [], methods := [] })] } :=
  ⟨List.Perm.swap _ _ _, by decide, by decide⟩

/-! ## 3. fixed point -/

/-- what comes back on the wider domain `writableE` (comments may contain backslash-`n`): the canonical form of the set
whose comments went through `unescape ∘ escape` -/
theorem read_write_escaped {n : Nat} {m : Mappings} (h : writableE n m = true) :
    read n (write m) = some (canon (reDocM m)) :=
  read_write_writableE h

/-- **`write (read (write m)) = write m`**, byte for byte, also where the round trip itself fails because of backslash-`n` -/
theorem write_fixed_point {n : Nat} {m : Mappings} (h : writableE n m = true) :
    ∃ r, read n (write m) = some r ∧ write? r = write? m ∧ write? m = some (write m) := by
  refine ⟨canon (reDocM m), read_write_writableE h, ?_, ?_⟩
  · rw [write?_canon, write?_reDoc]
  · rw [← write?_reDoc, write_succeeds (writable_reDoc h), write_reDoc]

/-- the domain of the round trip is part of the domain of the fixed point -/
theorem writable_subdomain {n : Nat} {m : Mappings} (h : writable n m = true) : writableE n m = true :=
  writableE_of_writable h

/-- on the narrow domain, stated through the canonical form -/
theorem write_fixed_point_canon {n : Nat} {m : Mappings} (h : writable n m = true) :
    read n (write m) = some (canon m) ∧ write? (canon m) = some (write m) := by
  refine ⟨read_write h, ?_⟩
  rw [write?_canon, write_succeeds h]

example : ∃ r, read 2 (write exBsN) = some r ∧ r ≠ canon exBsN ∧ write? r = write? exBsN := by
  obtain ⟨r, h1, h2, _⟩ := write_fixed_point (n := 2) (m := exBsN) (by decide)
  refine ⟨r, h1, ?_, h2⟩
  intro e
  rw [e] at h1
  revert h1
  decide

/-! ## 4. reading never merges, loses or re-parents -/

/-- **one accepted line, one change**: `TreeStep κ` (file `Lemmas/TinyStep.lean`) lists the only possibilities —
nothing (`skip`); a fresh class appended under a key not yet present; or a change of the *last* class only: its absent
comment set, a fresh field / method appended under a new key, or a change of its *last* field (absent comment set) / *last*
method (absent comment set, fresh parameter appended under a new index, absent comment of its last parameter set). `κ` is
determined by the line and the kind of the member opened last (`lineKind`). -/
theorem step_appends {n : Nat} {s s' : St} {l : TLine} (h : step n s l = some s') :
    TreeStep (lineKind s.kind l) s.classes s'.classes ∧ s'.kind = kindAfter s.kind l :=
  ⟨(step_treeStep h).1, (step_treeStep h).2.1⟩

/-- **no merge, no loss**: a successful `read` yields exactly one class / field / method / parameter / comment per line
that `lineKinds` (a function of the text alone) classifies as such -/
theorem read_counts {n : Nat} {t : List Nat} {m : Mappings} (h : read n t = some m) (κ : LineKind) (hκ : κ ≠ .skip) :
    countOf κ m.classes = (lineKinds .field (textLines t).tail).count κ := by
  obtain ⟨hd, ls, s, ht, _, _, _, _, hrun, hc⟩ := read_some h
  have := run_counts (n := n) κ hκ ls _ s hrun
  rw [ht, hc, this]
  cases κ <;> simp [countOf] at hκ ⊢

/-- **no duplicate or misfiled entry**: in the result every key is unique and is the key derived from its entry (first
name, descriptor / index) -/
theorem read_wf {n : Nat} {t : List Nat} {m : Mappings} (h : read n t = some m) : wf m = true := by
  obtain ⟨hd, ls, s, _, _, _, _, _, hrun, hc⟩ := read_some h
  rw [wf_eq_wfCs, hc]
  exact run_wf ls _ s hrun rfl

/-- **no re-parenting**: once a class entry is followed by another one it is final — whatever the rest of the text is,
it stays, unchanged, at its place -/
theorem read_closed_classes_final {n : Nat} {s s' : St} {ls : List TLine} (h : run n s ls = some s')
    {closed : AList JStr Class} {last : JStr × Class} (hs : s.classes = closed ++ [last]) :
    ∃ rest, rest ≠ [] ∧ s'.classes = closed ++ rest :=
  run_frozen ls s s' h hs

/-- **duplicate keys are errors** (positions `i < j` in the body, `m` the method line for parameters): two class lines with
the same first name; two field (method) lines of one class with the same descriptor and first name; two parameter lines of
one method with the same index -/
theorem read_dup {n : Nat} {t : List Nat} {m i j : Nat} (h : dupAt (textLines t).tail m i j = true) : read n t = none := by
  cases ht : textLines t with
  | nil => simp [Tiny.read, ht]
  | cons hd ls =>
    rw [ht] at h
    exact read_none_of_run_none ht (fun s => run_dupAt h)

theorem read_dup_class {n : Nat} {t : List Nat} {hd : TLine} {pre mid post : List TLine} {l1 l2 : TLine}
    (ht : textLines t = hd :: (pre ++ l1 :: (mid ++ l2 :: post)))
    (h1 : l1.indent = 0 ∧ l1.first = C_) (h2 : l2.indent = 0 ∧ l2.first = C_)
    (hk : l1.fields.head? = l2.fields.head?) : read n t = none :=
  read_none_of_run_none ht (fun _ => run_dup_class h1 h2 hk)

theorem read_dup_field {n : Nat} {t : List Nat} {hd : TLine} {pre mid post : List TLine} {l1 l2 : TLine}
    (ht : textLines t = hd :: (pre ++ l1 :: (mid ++ l2 :: post)))
    (h1 : l1.indent = 1 ∧ l1.first = F_) (h2 : l2.indent = 1 ∧ l2.first = F_) (hmid : ∀ l ∈ mid, 1 ≤ l.indent)
    (hk : l1.fields.take 2 = l2.fields.take 2) : read n t = none :=
  read_none_of_run_none ht (fun _ => run_dup_field h1 h2 hmid hk)

theorem read_dup_method {n : Nat} {t : List Nat} {hd : TLine} {pre mid post : List TLine} {l1 l2 : TLine}
    (ht : textLines t = hd :: (pre ++ l1 :: (mid ++ l2 :: post)))
    (h1 : l1.indent = 1 ∧ l1.first = M_) (h2 : l2.indent = 1 ∧ l2.first = M_) (hmid : ∀ l ∈ mid, 1 ≤ l.indent)
    (hk : l1.fields.take 2 = l2.fields.take 2) : read n t = none :=
  read_none_of_run_none ht (fun _ => run_dup_method h1 h2 hmid hk)

theorem read_dup_param {n : Nat} {t : List Nat} {hd : TLine} {pre mid0 mid post : List TLine} {lm l1 l2 : TLine}
    (ht : textLines t = hd :: (pre ++ lm :: (mid0 ++ l1 :: (mid ++ l2 :: post))))
    (hm : lm.indent = 1 ∧ lm.first = M_) (hmid0 : ∀ l ∈ mid0, 2 ≤ l.indent)
    (h1 : l1.indent = 2 ∧ l1.first = P_) (h2 : l2.indent = 2 ∧ l2.first = P_) (hmid : ∀ l ∈ mid, 2 ≤ l.indent)
    (hk : (l1.fields.head?).bind parseUsize = (l2.fields.head?).bind parseUsize) : read n t = none :=
  read_none_of_run_none ht (fun _ => run_dup_param hm hmid0 h1 h2 hmid hk)

/-- a line the reader rejects makes the whole `read` fail, whatever follows -/
theorem read_error_propagates {n : Nat} {s0 s : St} {pre post : List TLine} {l : TLine}
    (h1 : run n s0 pre = some s) (h2 : step n s l = none) : run n s0 (pre ++ l :: post) = none :=
  run_none_of_step_none pre s0 s l post h1 h2

/-- `tiny 2 0 a b / c A B / c A C` -/
example : read 2 [116, 105, 110, 121, 9, 50, 9, 48, 9, 97, 9, 98, 10, 99, 9, 65, 9, 66, 10, 99, 9, 65, 9, 67, 10] = none :=
  read_dup (m := 0) (i := 0) (j := 1) (by decide)

example : ∃ m, read 2 (write exM) = some m ∧ countOf .par m.classes = 2 ∧ countOf .doc m.classes = 3 := by
  refine ⟨canon exM, by decide, by decide, by decide⟩

/-! ## 5. what the format cannot express: each condition of `writable` is needed (all replayed against the real code) -/

/-- `escape` is not injective: a line feed and the two characters backslash, `n` are written alike -/
theorem escape_not_injective_witness : escape [10] = escape [92, 110] ∧ ([10] : JStr) ≠ [92, 110] := by decide

/-- a comment `x\ny` (backslash, `n`) reads back as `x⏎y` -/
theorem comment_backslash_n_witness :
    read 2 (write exBsN) = some { exBsN with classes :=
      [([65], { names := [some [65], some [66]], doc := some [120, 10, 121], fields := [], methods := [] })] } ∧
    read 2 (write exBsN) ≠ some (canon exBsN) := by decide

/-- the comment of the mapping set itself is written at indentation 1 — where `read` expects indentation 0 -/
theorem toplevel_doc_witness :
    write? { exM3 with doc := some [116] } = some (write { exM3 with doc := some [116] }) ∧
    read 3 (write { exM3 with doc := some [116] }) = none := by decide

def exName (name : JStr) : Mappings :=
  { ns := [[97], [98]], doc := none,
    classes := [([65], { names := [some [65], some name], doc := none, fields := [], methods := [] })] }

/-- a TAB in a name: one cell too many, `read` fails -/
theorem name_tab_witness : namesOk validClass 2 [some [65], some [66, 9, 67]] = false ∧ read 2 (write (exName [66, 9, 67])) = none := by
  decide

/-- a CR at the end of the last name of a row is dropped silently (`BufRead::lines`) -/
theorem name_cr_witness : read 2 (write (exName [66, 13])) = some (exName [66]) := by decide

/-- LF and TAB in a name (`B⏎c⇥C⇥D`, a valid `ObjClassName`): the reader sees a second class that was never there -/
theorem name_lf_witness :
    read 2 (write (exName [66, 10, 99, 9, 67, 9, 68])) = some { exName [66] with classes :=
      [([65], { names := [some [65], some [66]], doc := none, fields := [], methods := [] }),
       ([67], { names := [some [67], some [68]], doc := none, fields := [], methods := [] })] } := by decide

/-- a comment ending in CR loses it; a comment containing TAB cannot be read -/
theorem doc_cr_tab_witness :
    read 2 (write { exBsN with classes := [([65], { names := [some [65], some [66]], doc := some [100, 13], fields := [], methods := [] })] })
      = some { exBsN with classes := [([65], { names := [some [65], some [66]], doc := some [100], fields := [], methods := [] })] } ∧
    read 2 (write { exBsN with classes := [([65], { names := [some [65], some [66]], doc := some [100, 9, 101], fields := [], methods := [] })] })
      = none := by decide

/-- the fixed point fails for names with CR or LF: the text written after reading differs from the first text -/
theorem fixed_point_cr_lf_name_witness :
    (∃ r, read 2 (write (exName [66, 13])) = some r ∧ write r ≠ write (exName [66, 13])) ∧
    (∃ r, read 2 (write (exName [66, 10])) = some r ∧ write r ≠ write (exName [66, 10])) :=
  ⟨⟨exName [66], by decide, by decide⟩, ⟨exName [66], by decide, by decide⟩⟩

def exDesc (desc : JStr) : Mappings :=
  { ns := [[97], [98]], doc := none,
    classes := [
      ([65],
        { names := [some [65], none], doc := none, methods := [],
          fields := [(([102], desc), { desc := desc, names := [some [102], none], doc := none })] })] }

/-- a name that is not UTF-8 (lone surrogate U+D800): `write` yields no text (the real code panics); a descriptor with a
lone surrogate is written with U+FFFD and comes back changed -/
theorem surrogate_witness :
    write? (exName [66, 55296]) = none ∧
    read 2 (write (exDesc [76, 55296, 59])) = some (exDesc [76, 65533, 59]) := by
  decide

/-- a class without a name in the first namespace cannot be read back -/
theorem no_source_name_witness :
    read 2 (write { exBsN with classes := [([65], { names := [none, some [66]], doc := none, fields := [], methods := [] })] }) = none := by
  decide

end Thm.C03
