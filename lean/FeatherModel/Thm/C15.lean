import FeatherModel.Model.BridgeMap
import FeatherModel.Lemmas.BridgeSelect
import FeatherModel.Lemmas.BridgeFuel
import FeatherModel.Lemmas.BridgeApply
import FeatherModel.Lemmas.BridgeIndexRefs

/-!
# C15 — bridge targets inherit the bridge's mapped name, nothing else changes

Model: `Model/Bridge.lean` (index, bridge predicate, selection loop, insertion loop), `Model/BridgeMap.lean` (the
whole of `add_specialized_methods_to_mappings` with the C06 remapper model), declarative vocabulary in
`Model/BridgeSpec.lean` (`Reach`, `Compat`, `Potential`, `IsBridgePair`, `foldHigher`, `lastTouch`, `methodAt`).

All statements are for every jar description / index / mapping set / fuel. The fuel only bounds the hierarchy walks of
the Rust code, which have no visited set and do not terminate on a cyclic hierarchy: results do not depend on it
(`select_fuel_independent`) and some fuel suffices on every acyclic hierarchy (`select_terminates`).
-/

namespace Thm.C15

open Bridge

/-! ## the index in terms of the jar -/

/-- the class set is the set of class names of the jar -/
theorem index_classes (jar : JarDesc) (c : JStr) : c ∈ (ofJar jar).classes ↔ ∃ cd, cd ∈ jar ∧ cd.name = c :=
  ofJar_classes jar c

/-- recorded parents of `c`: the super class (unless it is `java/lang/Object`) and the interfaces of every class
description named `c` -/
theorem index_parents (jar : JarDesc) (c p : JStr) :
    p ∈ nexts (ofJar jar).parents c ↔ ∃ cd, cd ∈ jar ∧ cd.name = c ∧ directSupers cd p :=
  ofJar_parents jar c p

/-- the children map is the converse of the parents map -/
theorem index_children (jar : JarDesc) (c p : JStr) :
    c ∈ nexts (ofJar jar).children p ↔ p ∈ nexts (ofJar jar).parents c := by
  rw [ofJar_children, ofJar_parents]

/-- "the body invokes exactly one distinct method": the recorded call set of `b` is `[s]` iff the invoke instructions
(virtual, special, static, interface; receivers that are array classes and `invokedynamic` do not count) of the
bodies declared for `b` name `s` and nothing else -/
theorem index_single_call (jar : JarDesc) (b s : MRef) :
    AList.lookup b (ofJar jar).refs = some [s] ↔ ∀ t, Invoked jar b t ↔ t = s :=
  ofJar_refs_single jar b s

/-- every entry of the method table comes from a declaration of the jar, with the access flags declared there -/
theorem index_methods_declared (jar : JarDesc) (b : MRef) (acc : Access)
    (h : AList.lookup b (ofJar jar).methods = some acc) : Declared jar b acc :=
  ofJar_methods_declared jar b acc h

theorem index_methods_unique (jar : JarDesc) : ((ofJar jar).methods.map Prod.fst).Nodup :=
  ofJar_methods_nodup jar

/-! ## hierarchy walks -/

/-- `get_ancestors` returns (with repetitions) exactly the classes reachable through one or more parent edges -/
theorem ancestors_iff_reach (idx : Index) (fuel : Nat) (c : JStr) (as : List JStr)
    (h : ancestors idx fuel c = some as) (a : JStr) : a ∈ as ↔ Reach idx.parents c a :=
  ancestors_mem idx fuel c as h a

/-- `get_descendants`, likewise over the child edges -/
theorem descendants_iff_reach (idx : Index) (fuel : Nat) (c : JStr) (ds : List JStr)
    (h : descendants idx fuel c = some ds) (a : JStr) : a ∈ ds ↔ Reach idx.children c a :=
  descendants_mem idx fuel c ds h a

/-- fuel independence: a result obtained with some fuel is the result for every larger fuel -/
theorem select_fuel_independent (idx : Index) (f f' : Nat) (st : SelState) (h : select idx f = some st) (hle : f ≤ f') :
    select idx f' = some st :=
  selectWith_mono idx (walksOf_le idx hle) st h

/-- fuel sufficiency: on an acyclic hierarchy (a rank strictly decreasing along the parent edges, one along the child
edges) `get_specialized_methods` terminates -/
theorem select_terminates (idx : Index) (rankP rankC : JStr → Nat)
    (hp : ∀ c p, p ∈ nexts idx.parents c → rankP p < rankP c)
    (hc : ∀ p c, c ∈ nexts idx.children p → rankC c < rankC p) :
    ∃ fuel st, select idx fuel = some st := by
  obtain ⟨F, hF⟩ := walksOf_total idx rankP rankC hp hc
  obtain ⟨st, hst⟩ := selectWith_total idx hF
  exact ⟨F, st, hst⟩

/-! ## which pairs are selected -/

/-- **Bridge characterisation.** For an index with unique method keys (every index built from a jar,
`index_methods_unique`): `(b, s)` is in `bridge_to_specialized` iff `b` is synthetic, its recorded call set is exactly
`{s}`, and it is flagged as a bridge or is inheritable (not private / static / final) with both descriptors parsing,
the same arity, position-wise bridge-compatible parameter types and bridge-compatible return types (`Potential`,
`Compat`: through the class hierarchy recorded for the jar). -/
theorem bridge_iff_index (idx : Index) (hnd : (idx.methods.map Prod.fst).Nodup) (fuel : Nat) (st : SelState)
    (h : select idx fuel = some st) (b s : MRef) : (b, s) ∈ st.1 ↔ IsBridgePair idx b s := by
  have hc := select_fst idx (walksOf idx fuel) hnd st h
  rw [candidates_mem idx fuel idx.methods st.1 hc b s]
  unfold IsBridgePair
  constructor
  · rintro ⟨acc, hm, rest⟩
    exact ⟨acc, lookup_of_mem_nodup hnd hm, rest⟩
  · rintro ⟨acc, hm, rest⟩
    exact ⟨acc, mem_keys_of_lookup hm, rest⟩

/-- the same for a jar -/
theorem bridge_iff (jar : JarDesc) (fuel : Nat) (st : SelState) (h : select (ofJar jar) fuel = some st) (b s : MRef) :
    (b, s) ∈ st.1 ↔ IsBridgePair (ofJar jar) b s :=
  bridge_iff_index (ofJar jar) (ofJar_methods_nodup jar) fuel st h b s

/-- ... with the call-set condition spelled out on the instructions of the jar -/
theorem bridge_iff_jar (jar : JarDesc) (fuel : Nat) (st : SelState) (h : select (ofJar jar) fuel = some st) (b s : MRef) :
    (b, s) ∈ st.1 ↔ ∃ acc, AList.lookup b (ofJar jar).methods = some acc ∧ acc.synthetic = true ∧
      (∀ t, Invoked jar b t ↔ t = s) ∧ (acc.bridge = true ∨ Potential (ofJar jar) b acc s) := by
  rw [bridge_iff jar fuel st h b s]
  unfold IsBridgePair
  constructor
  · rintro ⟨acc, h1, h2, h3, h4⟩
    exact ⟨acc, h1, h2, (index_single_call jar b s).mp h3, h4⟩
  · rintro ⟨acc, h1, h2, h3, h4⟩
    exact ⟨acc, h1, h2, (index_single_call jar b s).mpr h3, h4⟩

/-- the result is in the order of the method table and has one entry per bridge -/
theorem bridges_are_candidates (idx : Index) (hnd : (idx.methods.map Prod.fst).Nodup) (fuel : Nat) (st : SelState)
    (h : select idx fuel = some st) :
    (st.1.map Prod.fst).Sublist (idx.methods.map Prod.fst) ∧ (st.1.map Prod.fst).Nodup := by
  have hc := select_fst idx (walksOf idx fuel) hnd st h
  have hs := candidates_keys idx (walksOf idx fuel) idx.methods st.1 hc
  exact ⟨hs, hs.nodup hnd⟩

/-- a bridge has one specialized method -/
theorem bridge_unique_delegate (jar : JarDesc) (fuel : Nat) (st : SelState) (h : select (ofJar jar) fuel = some st)
    (b s s' : MRef) (h1 : (b, s) ∈ st.1) (h2 : (b, s') ∈ st.1) : s = s' := by
  obtain ⟨_, _, _, r1, _⟩ := (bridge_iff jar fuel st h b s).mp h1
  obtain ⟨_, _, _, r2, _⟩ := (bridge_iff jar fuel st h b s').mp h2
  rw [r1] at r2
  simpa using r2

/-- no other method is selected: ordinary (non-synthetic) methods -/
theorem ordinary_method_not_selected (jar : JarDesc) (fuel : Nat) (st : SelState) (h : select (ofJar jar) fuel = some st)
    (b s : MRef) (acc : Access) (hb : AList.lookup b (ofJar jar).methods = some acc) (hs : acc.synthetic = false) :
    (b, s) ∉ st.1 := by
  intro hm
  obtain ⟨acc', h1, h2, _⟩ := (bridge_iff jar fuel st h b s).mp hm
  rw [hb] at h1
  cases h1
  simp [hs] at h2

/-- ... synthetic methods invoking no method, or several distinct ones -/
theorem zero_or_several_calls_not_selected (jar : JarDesc) (fuel : Nat) (st : SelState)
    (h : select (ofJar jar) fuel = some st) (b s : MRef)
    (hcalls : (¬ ∃ t, Invoked jar b t) ∨ ∃ t t', Invoked jar b t ∧ Invoked jar b t' ∧ t ≠ t') : (b, s) ∉ st.1 := by
  intro hm
  obtain ⟨_, _, _, h3, _⟩ := (bridge_iff_jar jar fuel st h b s).mp hm
  rcases hcalls with hno | ⟨t, t', ht, ht', hne⟩
  · exact hno ⟨s, (h3 s).mpr rfl⟩
  · exact hne (((h3 t).mp ht).trans ((h3 t').mp ht').symm)

/-- ... unflagged synthetics that are private, static or final, or whose signatures are not compatible -/
theorem unflagged_incompatible_not_selected (jar : JarDesc) (fuel : Nat) (st : SelState)
    (h : select (ofJar jar) fuel = some st) (b s : MRef) (acc : Access)
    (hb : AList.lookup b (ofJar jar).methods = some acc) (hflag : acc.bridge = false)
    (hbad : acc.priv = true ∨ acc.static = true ∨ acc.final = true ∨ ¬ Potential (ofJar jar) b acc s) :
    (b, s) ∉ st.1 := by
  intro hm
  obtain ⟨acc', h1, _, _, h4⟩ := (bridge_iff jar fuel st h b s).mp hm
  rw [hb] at h1
  cases h1
  rcases h4 with h4 | h4
  · simp [hflag] at h4
  · have ⟨p1, p2, p3, _⟩ := h4
    rcases hbad with hbad | hbad | hbad | hbad
    · simp [p1] at hbad
    · simp [p2] at hbad
    · simp [p3] at hbad
    · exact hbad h4

/-! ## tie-break (`specialized_to_bridge`) -/

/-- `get_higher_method b1 b2` answers `b1` exactly when the class of `b2` is a proper descendant of the class of `b1` -/
theorem higher_iff (idx : Index) (fuel : Nat) (b1 b2 r : MRef) (h : higher (walksOf idx fuel) b1 b2 = some r) :
    (Reach idx.children b1.cls b2.cls → r = b1) ∧ (¬ Reach idx.children b1.cls b2.cls → r = b2) :=
  higher_spec idx fuel b1 b2 r h

/-- the bridge recorded for a specialized method `s` is the fold of `get_higher_method` over the bridges selected for
`s`, in the order of the method table: the first one is recorded, a later one replaces the recorded one iff the
recorded one's class is a proper descendant of the later one's class (`foldHigher`, `higher_iff`) -/
theorem s2b_spec (idx : Index) (hnd : (idx.methods.map Prod.fst).Nodup) (fuel : Nat) (st : SelState)
    (h : select idx fuel = some st) (s : MRef) :
    foldHigher (walksOf idx fuel) none ((st.1.filter fun p => p.2 == s).map Prod.fst) = some (AList.lookup s st.2) := by
  have hc := select_fst idx (walksOf idx fuel) hnd st h
  have h' := h
  unfold select selectWith at h'
  rw [hc] at h'
  simp only at h'
  have := foldSel_snd (walksOf idx fuel) s st.1 ([], []) st h'
  simpa [AList.lookup] using this

/-! ## the insertion loop (for any remapper `namedOf`) -/

/-- what an inserted / overwritten entry looks like: descriptor and name row come from the pair, comment and
parameters are kept (empty for a new entry) -/
theorem newEntry_spec (old : Option Method) (s : MRef) (named : JStr) :
    (newEntry old s named).desc = s.desc ∧ (newEntry old s named).names = [mkName s.name, mkName named] ∧
    (newEntry old s named).doc = (old.map (·.doc)).join ∧ (newEntry old s named).params = (old.map (·.params)).getD [] := by
  cases old <;> simp [newEntry]

/-- header, class keys and their order are unchanged -/
theorem apply_header (namedOf : MRef → Option JStr) (ps : List (MRef × MRef)) (m m' : Mappings)
    (h : applyPairs namedOf ps m = some m') :
    m'.ns = m.ns ∧ m'.doc = m.doc ∧ m'.classes.map Prod.fst = m.classes.map Prod.fst := by
  have r := applyPairs_rel namedOf ps m m' h
  exact ⟨r.ns, r.doc, r.keys⟩

/-- no class appears -/
theorem apply_absent_class (namedOf : MRef → Option JStr) (ps : List (MRef × MRef)) (m m' : Mappings)
    (h : applyPairs namedOf ps m = some m') (c : JStr) (hc : AList.lookup c m.classes = none) :
    AList.lookup c m'.classes = none :=
  (applyPairs_rel namedOf ps m m' h).absent c hc

/-- names, comment and fields of every class are unchanged; its method keys keep their positions, new ones are appended -/
theorem apply_class_info (namedOf : MRef → Option JStr) (ps : List (MRef × MRef)) (m m' : Mappings)
    (h : applyPairs namedOf ps m = some m') (c : JStr) (cl : Class) (hc : AList.lookup c m.classes = some cl) :
    ∃ cl', AList.lookup c m'.classes = some cl' ∧ cl'.names = cl.names ∧ cl'.doc = cl.doc ∧ cl'.fields = cl.fields ∧
      ∃ extra, cl'.methods.map Prod.fst = cl.methods.map Prod.fst ++ extra := by
  obtain ⟨cl', h1, r⟩ := (applyPairs_rel namedOf ps m m' h).present c cl hc
  exact ⟨cl', h1, r.names, r.doc, r.fields, r.order⟩

theorem methodAt_rel (namedOf : MRef → Option JStr) (ps : List (MRef × MRef)) (m m' : Mappings)
    (h : applyPairs namedOf ps m = some m') (c : JStr) (k : MemberKey) :
    methodAt m' c k = match AList.lookup c m.classes with
      | none => none
      | some _ => foldF namedOf ps c k (methodAt m c k) := by
  have r := applyPairs_rel namedOf ps m m' h
  unfold methodAt
  cases hc : AList.lookup c m.classes with
  | none => simp [r.absent c hc]
  | some cl =>
    obtain ⟨cl', h1, rc⟩ := r.present c cl hc
    simp [h1, rc.entries k]

/-- **Frame.** A method entry `(c, k)` that no pair writes — no pair `(b, s)` with `b.cls = c` and
`(s.name, s.desc) = k` — is exactly what it was (present with the same content, or absent) -/
theorem apply_untouched (namedOf : MRef → Option JStr) (ps : List (MRef × MRef)) (m m' : Mappings)
    (h : applyPairs namedOf ps m = some m') (c : JStr) (k : MemberKey) (hno : lastTouch ps c k = none) :
    methodAt m' c k = methodAt m c k := by
  rw [methodAt_rel namedOf ps m m' h c k]
  cases hc : AList.lookup c m.classes with
  | none => simp [methodAt, hc]
  | some cl => simp [foldF_eq, hno]

/-- **Effect.** If `(b, s)` is the last pair writing `(c, k)` and `c` is a class of the mapping set, the entry afterwards
is `newEntry` of the old entry: name row `[s.name, namedOf b]`, descriptor `s.desc`, comment and parameters kept -/
theorem apply_touched (namedOf : MRef → Option JStr) (ps : List (MRef × MRef)) (m m' : Mappings)
    (h : applyPairs namedOf ps m = some m') (c : JStr) (k : MemberKey) (b s : MRef)
    (hlast : lastTouch ps c k = some (b, s)) (cl : Class) (hc : AList.lookup c m.classes = some cl) :
    ∃ named, namedOf b = some named ∧ methodAt m' c k = some (newEntry (methodAt m c k) s named) := by
  have hmem : (b, s) ∈ ps := by
    unfold lastTouch at hlast
    have := List.mem_of_getLast? hlast
    exact (List.mem_filter.mp this).1
  obtain ⟨named, hn⟩ := applyPairs_named namedOf ps m m' h (b, s) hmem
  refine ⟨named, hn, ?_⟩
  rw [methodAt_rel namedOf ps m m' h c k]
  simp [hc, foldF_eq, hlast, hn]

/-- a pair whose bridge class is not a class of the mapping set inserts nothing (`apply_absent_class`, `apply_header`);
a pair that is the only one writing its entry is the last one -/
theorem lastTouch_of_unique (ps : List (MRef × MRef)) (c : JStr) (k : MemberKey) (p : MRef × MRef) (hp : p ∈ ps)
    (ht : touches c k p = true) (huniq : ∀ q, q ∈ ps → touches c k q = true → q = p) : lastTouch ps c k = some p := by
  unfold lastTouch
  cases hl : (ps.filter (touches c k)).getLast? with
  | none =>
    have : p ∈ ps.filter (touches c k) := List.mem_filter.mpr ⟨hp, ht⟩
    rw [List.getLast?_eq_none_iff.mp hl] at this
    simp at this
  | some q =>
    have hq := List.mem_filter.mp (List.mem_of_getLast? hl)
    rw [huniq q hq.1 hq.2]

/-! ## `add_specialized_methods_to_mappings` end to end -/

/-- a successful run decomposes into: set-up (namespaces, both remappers, providers), selection, remapping of the
selected pairs with the calamus remapper, insertion with the named remapper -/
theorem add_spec (jar : JarDesc) (libs : List JarDesc) (cal m m' : Mappings) (fuel : Nat)
    (h : addFull jar libs cal m fuel = some (some m')) :
    ∃ su st ps, setup jar libs cal m = some su ∧ select (ofJar jar) fuel = some st ∧
      remapPairs (su.interOf fuel) st.1 [] = some ps ∧ applyPairs (su.namedOf fuel) ps m = some m' := by
  unfold addFull at h
  cases hsu : setup jar libs cal m with
  | none => simp [hsu] at h
  | some su =>
    simp only [hsu] at h
    cases hst : select (ofJar jar) fuel with
    | none => simp [hst] at h
    | some st =>
      simp only [hst] at h
      unfold addWith at h
      split at h
      · simp at h
      · cases hps : remapPairs (su.interOf fuel) st.1 [] with
        | none => simp [hps] at h
        | some ps =>
          simp only [hps] at h
          split at h
          · simp at h
          · simp at h
            exact ⟨su, st, ps, rfl, rfl, hps, h⟩

/-- a failing set-up (a namespace missing, a remapper that cannot be built) is an error, whatever the jar -/
theorem add_setup_error (jar : JarDesc) (libs : List JarDesc) (cal m : Mappings) (fuel : Nat)
    (h : setup jar libs cal m = none) : addFull jar libs cal m fuel = some none := by
  simp [addFull, h]

/-- every pair the insertion loop sees is the calamus image of a bridge pair of the jar (`bridge_iff`) -/
theorem add_pairs_are_bridges (jar : JarDesc) (fuel : Nat) (st : SelState) (h : select (ofJar jar) fuel = some st)
    (f : MRef → Option MRef) (ps : AList MRef MRef) (hps : remapPairs f st.1 [] = some ps) (p : MRef × MRef) (hp : p ∈ ps) :
    ∃ b s, IsBridgePair (ofJar jar) b s ∧ f b = some p.1 ∧ f s = some p.2 := by
  rcases remapPairs_sound f st.1 [] ps hps p hp with h1 | ⟨q, hq, h1, h2⟩
  · simp at h1
  · exact ⟨q.1, q.2, (bridge_iff jar fuel st h q.1 q.2).mp hq, h1, h2⟩

/-- **No other method causes a rename, every entry not concerned is returned unchanged.** After a successful run the
mapping set has the same namespaces, comment, classes (keys, order, names, comments, fields); and a method entry
`(c, k)` is exactly what it was unless some bridge pair `(b, s)` of the jar (`IsBridgePair`) has intermediary images
`b'`, `s'` with `b'.cls = c` and `(s'.name, s'.desc) = k`. -/
theorem add_untouched (jar : JarDesc) (libs : List JarDesc) (cal m m' : Mappings) (fuel : Nat) (su : Setup)
    (hsu : setup jar libs cal m = some su) (h : addFull jar libs cal m fuel = some (some m')) :
    m'.ns = m.ns ∧ m'.doc = m.doc ∧ m'.classes.map Prod.fst = m.classes.map Prod.fst ∧
    (∀ c, AList.lookup c m.classes = none → AList.lookup c m'.classes = none) ∧
    (∀ c cl, AList.lookup c m.classes = some cl → ∃ cl', AList.lookup c m'.classes = some cl' ∧
        cl'.names = cl.names ∧ cl'.doc = cl.doc ∧ cl'.fields = cl.fields ∧
        ∃ extra, cl'.methods.map Prod.fst = cl.methods.map Prod.fst ++ extra) ∧
    ∀ c k, (∀ b s b' s', IsBridgePair (ofJar jar) b s → su.interOf fuel b = some b' → su.interOf fuel s = some s' →
        touches c k (b', s') = false) → methodAt m' c k = methodAt m c k := by
  obtain ⟨su', st, ps, h1, h2, h3, h4⟩ := add_spec jar libs cal m m' fuel h
  rw [hsu] at h1
  cases h1
  obtain ⟨e1, e2, e3⟩ := apply_header _ ps m m' h4
  refine ⟨e1, e2, e3, fun c hc => apply_absent_class _ ps m m' h4 c hc,
    fun c cl hc => apply_class_info _ ps m m' h4 c cl hc, ?_⟩
  intro c k hno
  apply apply_untouched _ ps m m' h4 c k
  unfold lastTouch
  cases hl : (ps.filter (touches c k)).getLast? with
  | none => rfl
  | some q =>
    have hq := List.mem_filter.mp (List.mem_of_getLast? hl)
    obtain ⟨b, s, hbs, hb, hs⟩ := add_pairs_are_bridges jar fuel st h2 _ ps h3 q hq.1
    have := hno b s q.1 q.2 hbs hb hs
    rw [this] at hq
    simp at hq

/-- **The delegate receives the bridge's name.** Let `(b, s)` be a bridge pair of the jar with intermediary images
`b'`, `s'`, such that no other bridge has the intermediary reference `b'` and no bridge pair with another intermediary
bridge reference writes the same entry (at most one bridge per delegate and class). If `b'.cls` is a class of the
mapping set, then after a successful run the entry `(s'.name, s'.desc)` of that class has the name row
`[s'.name, named]` where `named` is the name the named remapper (through inheritance) gives to `b'`, the descriptor
`s'.desc`, and the comment and parameters it had before (none if it is new). -/
theorem add_touched (jar : JarDesc) (libs : List JarDesc) (cal m m' : Mappings) (fuel : Nat) (su : Setup)
    (hsu : setup jar libs cal m = some su) (h : addFull jar libs cal m fuel = some (some m'))
    (b s b' s' : MRef) (hpair : IsBridgePair (ofJar jar) b s)
    (hb : su.interOf fuel b = some b') (hs : su.interOf fuel s = some s')
    (hinj : ∀ b2 s2, IsBridgePair (ofJar jar) b2 s2 → su.interOf fuel b2 = some b' → b2 = b)
    (huniq : ∀ b2 s2 b2' s2', IsBridgePair (ofJar jar) b2 s2 → su.interOf fuel b2 = some b2' →
      su.interOf fuel s2 = some s2' → touches b'.cls (s'.name, s'.desc) (b2', s2') = true → b2' = b')
    (cl : Class) (hcl : AList.lookup b'.cls m.classes = some cl) :
    ∃ named, su.namedOf fuel b' = some named ∧
      methodAt m' b'.cls (s'.name, s'.desc) = some (newEntry (methodAt m b'.cls (s'.name, s'.desc)) s' named) := by
  obtain ⟨su', st, ps, h1, h2, h3, h4⟩ := add_spec jar libs cal m m' fuel h
  rw [hsu] at h1
  cases h1
  -- every pair of `ps` with bridge reference `b'` is `(b', s')`
  have hall : ∀ q, q ∈ ps → q.1 = b' → q = (b', s') := by
    intro q hq hq1
    obtain ⟨b2, s2, hbs, hb2, hs2⟩ := add_pairs_are_bridges jar fuel st h2 _ ps h3 q hq
    have e := hinj b2 s2 hbs (hq1 ▸ hb2)
    subst e
    obtain ⟨_, _, _, r1, _⟩ := hbs
    obtain ⟨_, _, _, r2, _⟩ := hpair
    rw [r1] at r2
    have e2 : s2 = s := by simpa using r2
    subst e2
    rw [hs] at hs2
    cases hs2
    cases q
    simp only at hq1
    rw [hq1]
  -- there is one
  have hmem : (b', s') ∈ ps := by
    have hsel : (b, s) ∈ st.1 := (bridge_iff jar fuel st h2 b s).mpr hpair
    obtain ⟨_, hcomp⟩ := remapPairs_complete _ st.1 [] ps h3
    obtain ⟨b0, s0, v, e1, _, e3⟩ := hcomp (b, s) hsel
    rw [hb] at e1
    cases e1
    have := mem_keys_of_lookup e3
    have := hall _ this rfl
    cases this
    exact mem_keys_of_lookup e3
  have htouch : touches b'.cls (s'.name, s'.desc) (b', s') = true := by simp [touches]
  have hlast : lastTouch ps b'.cls (s'.name, s'.desc) = some (b', s') := by
    apply lastTouch_of_unique ps _ _ (b', s') hmem htouch
    intro q hq hqt
    obtain ⟨b2, s2, hbs, hb2, hs2⟩ := add_pairs_are_bridges jar fuel st h2 _ ps h3 q hq
    have := huniq b2 s2 q.1 q.2 hbs hb2 hs2 hqt
    exact hall q hq this
  exact apply_touched _ ps m m' h4 b'.cls (s'.name, s'.desc) b' s' hlast cl hcl

/-! ## non-vacuity -/

/-- covariant return (flagged), generic parameter erased to a bound two levels up (unflagged synthetic), a private
near-miss, a synthetic calling two methods: exactly the first two are selected -/
example :
    let mk := fun (n d : String) (fl : Nat) (code : Option (List Insn)) => ({ name := jstr n, desc := jstr d, flags := fl, code := code } : MethodDesc)
    let jar : JarDesc := [
      { name := jstr "Sub", super := some (jstr "Mid"), ifaces := [], methods := [
          mk "get" "()LTop;" 0x1041 (some [.other, .invoke (jstr "Sub") (jstr "get") (jstr "()LSub;")]),
          mk "get" "()LSub;" 1 (some [.other]),
          mk "set" "(LTop;)V" 0x1001 (some [.invoke (jstr "Sub") (jstr "set") (jstr "(LSub;)V")]),
          mk "set" "(LSub;)V" 1 (some [.other]),
          mk "cmp" "(LTop;)I" 0x1002 (some [.invoke (jstr "Sub") (jstr "cmp") (jstr "(LSub;)I")]),
          mk "two" "()V" 0x1041 (some [.invoke (jstr "Sub") (jstr "a") (jstr "()V"), .invoke (jstr "Sub") (jstr "b") (jstr "()V")])] },
      { name := jstr "Mid", super := some (jstr "Top"), ifaces := [], methods := [] },
      { name := jstr "Top", super := some (jstr "java/lang/Object"), ifaces := [], methods := [] }]
    (select (ofJar jar) 10).map (·.1) = some [
      (⟨jstr "Sub", jstr "get", jstr "()LTop;"⟩, ⟨jstr "Sub", jstr "get", jstr "()LSub;"⟩),
      (⟨jstr "Sub", jstr "set", jstr "(LTop;)V"⟩, ⟨jstr "Sub", jstr "set", jstr "(LSub;)V"⟩)] := by
  decide

/-- the whole function on a jar with one bridge: the delegate `a(LSub;)V` of the bridge `a(LTop;)V` in class `C_1`
gets the name the mapping set gives to the bridge *in the super class* `C_2` (inheritance), its comment survives,
nothing else changes -/
example :
    let jar : JarDesc := [
      { name := jstr "Sub", super := some (jstr "Top"), ifaces := [], methods := [
          { name := jstr "a", desc := jstr "(LTop;)V", flags := 0x1041, code := some [.invoke (jstr "Sub") (jstr "a") (jstr "(LSub;)V")] },
          { name := jstr "a", desc := jstr "(LSub;)V", flags := 1, code := some [.other] }] },
      { name := jstr "Top", super := some (jstr "java/lang/Object"), ifaces := [], methods := [] }]
    let cal : Mappings := { ns := [jstr "official", jstr "intermediary"], doc := none, classes := [
      (jstr "Sub", { names := [some (jstr "Sub"), some (jstr "C_1")], doc := none, fields := [], methods := [
        ((jstr "a", jstr "(LSub;)V"), { desc := jstr "(LSub;)V", names := [some (jstr "a"), some (jstr "m_1")], doc := none, params := [] })] }),
      (jstr "Top", { names := [some (jstr "Top"), some (jstr "C_2")], doc := none, fields := [], methods := [
        ((jstr "a", jstr "(LTop;)V"), { desc := jstr "(LTop;)V", names := [some (jstr "a"), some (jstr "m_2")], doc := none, params := [] })] })] }
    let m : Mappings := { ns := [jstr "intermediary", jstr "named"], doc := none, classes := [
      (jstr "C_1", { names := [some (jstr "C_1"), some (jstr "Impl")], doc := none, fields := [], methods := [
        ((jstr "m_1", jstr "(LC_1;)V"), { desc := jstr "(LC_1;)V", names := [some (jstr "m_1"), some (jstr "old")], doc := some (jstr "keep"), params := [] })] }),
      (jstr "C_2", { names := [some (jstr "C_2"), some (jstr "Base")], doc := none, fields := [], methods := [
        ((jstr "m_2", jstr "(LC_2;)V"), { desc := jstr "(LC_2;)V", names := [some (jstr "m_2"), some (jstr "accept")], doc := none, params := [] })] })] }
    addFull jar [] cal m 10 = some (some { m with classes := [
      (jstr "C_1", { names := [some (jstr "C_1"), some (jstr "Impl")], doc := none, fields := [], methods := [
        ((jstr "m_1", jstr "(LC_1;)V"), { desc := jstr "(LC_1;)V", names := [some (jstr "m_1"), some (jstr "accept")], doc := some (jstr "keep"), params := [] })] }),
      (jstr "C_2", { names := [some (jstr "C_2"), some (jstr "Base")], doc := none, fields := [], methods := [
        ((jstr "m_2", jstr "(LC_2;)V"), { desc := jstr "(LC_2;)V", names := [some (jstr "m_2"), some (jstr "accept")], doc := none, params := [] })] })] }) := by
  decide

end Thm.C15
