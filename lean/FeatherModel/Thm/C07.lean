import FeatherModel.Lemmas.RemapTree
import FeatherModel.Lemmas.RemapShape
import FeatherModel.Lemmas.RemapJar
import FeatherModel.Lemmas.RemapInner
import FeatherModel.Gen.RemapFields

/-!
# C07 — remapping a jar renames every reference consistently and nothing else

Property theorems only. Model of `dukebox/src/remap.rs`: `FeatherModel/Model/RemapTree.lean` (impl by impl, as it is
after the repairs of enum constants, record components, module data and unknown attributes);
independent traversal `refsClass`, the remapper's answers `applyRef`, the shape `eraseClass`:
`FeatherModel/Model/RemapSpec.lean`; `Gen/RemapFields.lean` is translated from `remap.rs` and duke's tree definitions
on every run.

The remapper is an arbitrary `Remapper` (four possibly failing functions); all theorems hold for every remapper and every
class tree (annotations and bootstrap arguments nested to any depth).
-/

namespace Thm.C07
open RemapTree

/-! ## References -/

/-- **`remap_refs`, full strength.** The references of the result, collected by the independent traversal `refsClass`
(declarations, instructions, handles, bootstrap arguments, exception tables, stack-map types, annotations incl. enum
constants, inner-class / enclosing-method / nest / permitted-subclass records, descriptors of locals, module services and
main class, record components with their annotations), are — position by position, in order — what the remapper answers
for the original references (`applyRef`, owner = the class being remapped); and the remap fails exactly when one of these
answers fails. No hypothesis on the class or on the remapper. -/
theorem remap_refs (r : Remapper) (c : ClassFile) :
    (remapClass r c).map refsClass = omapM (applyRef r c.name) (refsClass c) :=
  class_ok r c

/-- the remap fails only when the remapper fails on one of the class's references -/
theorem remap_fails_only_on_reference (r : Remapper) (c : ClassFile) (h : remapClass r c = none) :
    ∃ x ∈ refsClass c, applyRef r c.name x = none := by
  have h1 := remap_refs r c
  rw [h] at h1
  generalize refsClass c = xs at h1
  induction xs with
  | nil => simp [omapM] at h1
  | cons x xs ih =>
    simp only [omapM] at h1
    cases hx : applyRef r c.name x with
    | none => exact ⟨x, by simp, hx⟩
    | some y =>
      simp only [hx] at h1
      cases hxs : omapM (applyRef r c.name) xs with
      | none =>
        obtain ⟨z, hz, hzn⟩ := ih (by simp [hxs])
        exact ⟨z, by simp [hz], hzn⟩
      | some ys => simp [hxs] at h1

/-- the class an enum constant is looked up in is read off the descriptor text by the specification (`classOfDesc`:
between `L` and the final `;`) and asked of duke's descriptor parser by `remap.rs` (`objectClassOf`): the same, namely
the JVMS production `ObjectType: L ClassName ;` -/
theorem enum_class_of_descriptor (t k : JStr) :
    (classOfDesc t = some k ↔ DescriptorGrammar.ClassName k ∧ t = Descriptor.cL :: k ++ [Descriptor.SEMI]) ∧
    classOfDesc t = objectClassOf t :=
  ⟨classOfDesc_iff t k, classOfDesc_eq t⟩

/-! ### Concrete values for the examples and witnesses: a remapper renaming class `A` to `B` -/

def A : JStr := [65]
def B : JStr := [66]
def LA : JStr := [76, 65, 59]          -- "LA;"
def LB : JStr := [76, 66, 59]
def unitLA : JStr := [40, 41, 76, 65, 59]  -- "()LA;"
def unitLB : JStr := [40, 41, 76, 66, 59]
def nameF : JStr := [102]              -- "f"
def nameG : JStr := [103]              -- "g"

/-- `A -> B`, field `A.f:LA; -> g`; descriptors `LA;`, `()LA;` rewritten accordingly -/
def rAB : Remapper where
  mapClass n := some (if n = A then B else n)
  mapDesc d := some (if d = LA then LB else if d = unitLA then unitLB else d)
  mapField o n d := some (if o = A ∧ n = nameF then nameG else n, if d = LA then LB else d)
  mapMethod _ n d := some (n, if d = unitLA then unitLB else d)

def nil : Opaque := .list []

def emptyClass (name : JStr) : ClassFile :=
  { shape := nil, name := name, superClass := none, interfaces := [], fields := [], methods := [], innerClasses := none,
    enclosingMethod := none, signature := none, rva := [], ria := [], rvta := [], rita := [], module := none,
    modulePackages := none, moduleMainClass := none, nestHost := none, nestMembers := none,
    permittedSubclasses := none, recordComponents := [], attributes := [] }

def emptyRecordComponent (name desc : JStr) : RecordComponent :=
  { name := name, desc := desc, signature := none, rva := [], ria := [], rvta := [], rita := [], attributes := [] }

def emptyMethod (name desc : JStr) : Method :=
  { shape := nil, name := name, desc := desc, code := none, exceptions := none, signature := none, rva := [], ria := [],
    rvta := [], rita := [], annotationDefault := none, parameters := nil, attributes := [] }

def codeOf (is : List Insn) : Code :=
  { shape := nil, insns := is.map fun i => ⟨nil, none, i⟩, exceptions := [], lvs := none, rvta := [], rita := [],
    attributes := [] }

def someHandle : Handle := .method nil ⟨B, nameF, unitLB⟩

/-- a class `X extends A` with a field `f:LA;`, a method using `A` in every instruction kind and an annotation -/
def exampleClass : ClassFile :=
  { emptyClass [88] with
    superClass := some A
    fields := [{ shape := nil, name := nameF, desc := LA, signature := none, rva := [.mk LA [.mk nameF (.cls LA)]],
                 ria := [], rvta := [], rita := [], attributes := [] }]
    methods := [{ emptyMethod nameG unitLA with
      code := some (codeOf [.cls nil A, .field nil ⟨A, nameF, LA⟩, .method nil ⟨[91, 76, 65, 59], nameG, unitLA⟩,
                            .ldc (.handle (.field nil ⟨A, nameF, LA⟩)), .plain nil]) }] }

/-- non-vacuity: a class full of references that are all renamed -/
example : (remapClass rAB exampleClass).map refsClass = omapM (applyRef rAB exampleClass.name) (refsClass exampleClass) ∧
    (remapClass rAB exampleClass).map refsClass ≠ some (refsClass exampleClass) ∧
    (remapClass rAB exampleClass).isSome = true := by decide

/-- a lambda `() -> A`: `invokedynamic f()LA;` -/
def indyClass : ClassFile :=
  { emptyClass [88] with methods := [{ emptyMethod nameG unitLA with code := some (codeOf [.indy nameF unitLA someHandle []]) }] }

/-- **regression (invokedynamic descriptor; a witness of the gap before the fix 45d38a4).** The descriptor `()LA;` of
the `invokedynamic` is renamed to `()LB;`. -/
theorem remap_refs_indy_fixed :
    (remapClass rAB indyClass).map refsClass = omapM (applyRef rAB indyClass.name) (refsClass indyClass) ∧
    (remapClass rAB indyClass).map refsClass =
      some [.cls [88], .methodDecl nameG unitLB, .dynDesc unitLB, .methodRef ⟨B, nameF, unitLB⟩] := by decide

/-- `ldc` of a dynamic constant of type `LA;` -/
def condyClass : ClassFile :=
  { emptyClass [88] with
    methods := [{ emptyMethod nameG unitLA with code := some (codeOf [.ldc (.dynamic (.mk nameF LA someHandle []))]) }] }

/-- **regression (dynamic constant descriptor).** -/
theorem remap_refs_condy_fixed :
    (remapClass rAB condyClass).map refsClass = omapM (applyRef rAB condyClass.name) (refsClass condyClass) ∧
    (remapClass rAB condyClass).map refsClass =
      some [.cls [88], .methodDecl nameG unitLB, .dynDesc LB, .methodRef ⟨B, nameF, unitLB⟩] := by decide

/-- `@Q(g = A.f, g = A[].f, g = A."f/")` where the mappings rename the enum constant `A.f` to `g` -/
def enumClass : ClassFile :=
  { emptyClass [88] with
    rva := [.mk [76, 81, 59] [.mk nameG (.enum LA nameF), .mk nameG (.enum (91 :: LA) nameF),
                              .mk nameG (.enum LA [102, 47])]] }

/-- **regression (enum constant in an annotation; `remap_refs_enum_witness` before the fix).** The constant `f` of the
enum `A` is renamed to `g` along with the field `A.f`; with an array descriptor (no class to look the constant up in) or
a name that cannot be a field name it is kept. -/
theorem remap_refs_enum_fixed :
    (remapClass rAB enumClass).map refsClass = omapM (applyRef rAB enumClass.name) (refsClass enumClass) ∧
    (remapClass rAB enumClass).map refsClass =
      some [.cls [88], .desc [76, 81, 59], .enumConst LB nameG, .enumConst (91 :: LA) nameF, .enumConst LB [102, 47]] := by
  decide

/-- a record `A(A f, A "f/")` whose first component is annotated `@A(A.f)` -/
def recordClass : ClassFile :=
  { emptyClass A with
    recordComponents := [{ emptyRecordComponent nameF LA with ria := [.mk LA [.mk nameG (.enum LA nameF)]] },
                         emptyRecordComponent [102, 47] LA] }

/-- **regression (record components; `remap_refs_record_witness` before the fix).** The component `f:LA;` is renamed like
the field `A.f:LA;` (to `g:LB;`), its annotation is remapped; a component whose name cannot be a field name keeps it and
has its descriptor remapped. -/
theorem remap_refs_record_fixed :
    (remapClass rAB recordClass).map refsClass = omapM (applyRef rAB recordClass.name) (refsClass recordClass) ∧
    (remapClass rAB recordClass).map refsClass =
      some [.cls B, .recordDecl nameG LB, .desc LB, .enumConst LB nameG, .recordDecl [102, 47] LB] := by decide

/-- a module descriptor: `uses A; provides A with X, A;`, main class `A` -/
def moduleClass : ClassFile :=
  { emptyClass [88] with
    module := some { shape := nil, uses := [A], provides := [⟨A, [[88], A]⟩] }
    modulePackages := some [A]
    moduleMainClass := some A }

/-- **regression (module data; part of `remap_shape_witness` before the fix).** The service classes and the main class
are renamed, the package list is not a list of classes and is copied. -/
theorem remap_refs_module_fixed :
    (remapClass rAB moduleClass).map refsClass = omapM (applyRef rAB moduleClass.name) (refsClass moduleClass) ∧
    (remapClass rAB moduleClass).map refsClass =
      some [.cls [88], .clsAny B, .clsAny B, .clsAny [88], .clsAny B, .clsAny B] ∧
    (remapClass rAB moduleClass).map (·.modulePackages) = some (some [A]) := by decide

/-! ## Shape -/

/-- **`remap_shape`, full strength.** Everything that is not a reference position — flags, version, the instruction
stream with operands and labels, constants, line numbers, type-annotation targets, signatures, element names, module and
package names, unknown attributes at every level, the number and order of all lists — is unchanged. No hypothesis. -/
theorem remap_shape (r : Remapper) (c c' : ClassFile) (h : remapClass r c = some c') :
    eraseClass c' = eraseClass c :=
  class_shape r c c' h

example : ∃ c', remapClass rAB exampleClass = some c' ∧ eraseClass c' = eraseClass exampleClass := by
  cases h : remapClass rAB exampleClass with
  | none => exact absurd h (by decide)
  | some c' => exact ⟨c', rfl, remap_shape rAB _ _ h⟩

/-- a class with an unknown attribute at every level, module data and a record component -/
def fullClass : ClassFile :=
  { emptyClass A with
    attributes := [nil]
    module := some { shape := nil, uses := [A], provides := [] }
    modulePackages := some [A]
    moduleMainClass := some A
    fields := [{ shape := nil, name := nameF, desc := LA, signature := none, rva := [], ria := [], rvta := [], rita := [],
                 attributes := [nil] }]
    methods := [{ emptyMethod nameG unitLA with code := some { codeOf [] with attributes := [nil] }, attributes := [nil] }]
    recordComponents := [{ emptyRecordComponent nameF LA with attributes := [nil] }] }

/-- **regression (dropped content; `remap_shape_witness` before the fixes).** Unknown attributes of the class, a field,
a method, its code and a record component, the module data and the record components are all still there after the
remap, and the shape is the shape of the input. -/
theorem remap_shape_fixed :
    ∀ c', remapClass rAB fullClass = some c' →
      eraseClass c' = eraseClass fullClass ∧
      c'.attributes.length = 1 ∧ c'.fields.map (·.attributes.length) = [1] ∧
      c'.methods.map (·.attributes.length) = [1] ∧
      c'.methods.map (fun m => m.code.map (·.attributes.length)) = [some 1] ∧
      c'.recordComponents.map (fun rc => (rc.name, rc.desc, rc.attributes.length)) = [(nameG, LB, 1)] ∧
      c'.module.map (·.uses) = some [B] ∧ c'.modulePackages = some [A] ∧ c'.moduleMainClass = some B := by
  intro c' h
  refine ⟨remap_shape rAB _ _ h, ?_⟩
  have h2 : (remapClass rAB fullClass).map (fun d => (d.attributes.length, d.fields.map (·.attributes.length),
      d.methods.map (·.attributes.length), d.methods.map (fun m => m.code.map (·.attributes.length)))) =
      some (1, [1], [1], [some 1]) := by decide
  have h3 : (remapClass rAB fullClass).map (fun d =>
      (d.recordComponents.map (fun rc => (rc.name, rc.desc, rc.attributes.length)), d.module.map (·.uses))) =
      some ([(nameG, LB, 1)], some [B]) := by decide
  have h4 : (remapClass rAB fullClass).map (fun d => (d.modulePackages, d.moduleMainClass)) =
      some (some [A], some B) := by decide
  rw [h] at h2 h3 h4
  simp only [Option.map_some, Option.some.injEq, Prod.mk.injEq] at h2 h3 h4
  exact ⟨h2.1, h2.2.1, h2.2.2.1, h2.2.2.2, h3.1, h3.2, h4.1, h4.2⟩

/-- a field with generic signature `LA;` and descriptor `LA;` -/
def sigClass : ClassFile :=
  { emptyClass [88] with
    fields := [{ shape := nil, name := nameF, desc := LA, signature := some LA, rva := [], ria := [], rvta := [],
                 rita := [], attributes := [] }] }

/-- **witness (signatures).** Signatures are outside the traversal (no remapper primitive answers for them) and are
copied: after renaming `A` to `B` the field's descriptor says `LB;`, its generic signature still `LA;`. -/
theorem signature_unmapped_witness :
    (remapClass rAB sigClass).map (fun c => c.fields.map fun f => (f.desc, f.signature)) = some [(LB, some LA)] := by
  decide

/-- **witness (annotation element names).** `@A(f = …)` names the method `f` of the annotation interface `A`: it is
copied whatever the remapper says. -/
theorem element_name_unmapped_witness (r : Remapper) (t n : JStr) (v : ElementValue) (a : Annotation)
    (h : remapAnnotation r (.mk t [.mk n v]) = some a) : ∃ t' v', a = .mk t' [.mk n v'] := by
  simp only [remapAnnotation, remapPairs, remapPair] at h
  cases h1 : r.mapDesc t <;> simp only [h1] at h
  · simp at h
  cases h2 : remapElementValue r v <;> simp only [h2] at h
  · simp at h
  simp at h
  exact ⟨_, _, h.symm⟩

/-! ## Inner names -/

/-- **`remap_inner_name`.** `InnerClass.inner_name` is no question a remapper answers; it follows from the answer for
the class name. What `remap.rs` makes of it is `expectedInnerName`: an inner name that was the simple name spelled out
by the old class name (after the last `$` of the last `/`-separated part, digits of a local class skipped) is the simple
name spelled out by the new class name, when that spells one; every other inner name is unchanged. -/
theorem remap_inner_name (r : Remapper) (i j : InnerClass) (h : remapInnerClass r i = some j) :
    j.innerName = expectedInnerName i.inner j.inner i.innerName :=
  innerClass_innerName r i j h

/-- … in particular an entry whose class is not renamed keeps its inner name, whatever it is -/
theorem remap_inner_name_unrenamed (r : Remapper) (i j : InnerClass) (h : remapInnerClass r i = some j)
    (hn : j.inner = i.inner) : j.innerName = i.innerName := by
  rw [remap_inner_name r i j h, hn]
  simp only [expectedInnerName]
  cases i.innerName with
  | none => rfl
  | some s =>
    simp only [Option.map_some, Option.some.injEq]
    by_cases hs : spelledSimpleName i.inner = some s
    · simp [hs]
    · simp [hs]

/-- the meaning of "after the last": `rsplit_once` in `remap.rs`, `reverse`/`takeWhile` in the specification -/
theorem inner_name_after_last (c : Nat) (s : JStr) : afterLast c s = lastPiece c s ∧ simpleName s = spelledSimpleName s :=
  ⟨afterLast_eq_lastPiece c s, simpleName_eq s⟩

def dollar (a b : JStr) : JStr := a ++ [36] ++ b

/-- every class becomes `B` (a name without `$`) -/
def rMergeB : Remapper := { rAB with mapClass := fun _ => some B }

/-- `A$f → B$g`, `A$1f → B$2g`, everything else as `rAB` -/
def rInner : Remapper :=
  { rAB with mapClass := fun n => some (if n = dollar A nameF then dollar B nameG
                                        else if n = dollar A (49 :: nameF) then dollar B (50 :: nameG) else n) }

/-- **regression (inner names; `inner_name_unmapped_witness` before the fix).** The member class `A$f` and the local
class `A$1f`, both with inner name `f`, are renamed to `B$g` and `B$2g`: the inner name becomes `g`. An inner name that
is not what the class name spells out (`g` for `A$f`) and the inner name of a class whose new name has no `$` are kept. -/
theorem remap_inner_name_fixed :
    (omapM (remapInnerClass rInner)
        [⟨dollar A nameF, some A, some nameF, nil⟩, ⟨dollar A (49 :: nameF), none, some nameF, nil⟩,
         ⟨dollar A nameF, some A, some nameG, nil⟩, ⟨dollar A nameF, none, none, nil⟩]).map
      (·.map fun j => (j.inner, j.innerName)) =
      some [(dollar B nameG, some nameG), (dollar B (50 :: nameG), some nameG), (dollar B nameG, some nameG),
            (dollar B nameG, none)] ∧
    (remapInnerClass rMergeB ⟨dollar A nameF, none, some nameF, nil⟩).map (fun j => (j.inner, j.innerName)) =
      some (B, some nameF) := by decide

/-! ## Entry names and entries -/

/-- an entry named `<n>.class` is stored under `map_class(n).class` -/
theorem entry_name_class (r : Remapper) (n : JStr) :
    remapEntryName r (n ++ dotClass) = (r.mapClass n).map (· ++ dotClass) := by
  simp [remapEntryName, stripDotClass_append]

/-- every other entry keeps its name -/
theorem entry_name_other (r : Remapper) (n : JStr) (h : stripDotClass n = none) : remapEntryName r n = some n := by
  simp [remapEntryName, h]

/-- **a class entry is stored under the name of its remapped class**: an entry named after its class (`wellNamed`)
is named after its remapped class again, and its class is `remapClass` of the original -/
theorem entry_class_stored (r : Remapper) (n : JStr) (a : Opaque) (c : ClassFile) (n' : JStr) (e' : Entry)
    (hw : wellNamed (n, ⟨a, .cls c⟩) = true) (h : remapEntry r (n, ⟨a, .cls c⟩) = some (n', e')) :
    ∃ c', remapClass r c = some c' ∧ e' = ⟨a, .cls c'⟩ ∧ n' = c'.name ++ dotClass ∧ r.mapClass c.name = some c'.name := by
  simp only [wellNamed, beq_iff_eq] at hw
  subst hw
  simp only [remapEntry, entry_name_class] at h
  cases h1 : r.mapClass c.name <;> simp only [h1, Option.map_none, Option.map_some] at h
  · simp at h
  simp only [remapContent] at h
  cases h2 : remapClass r c <;> simp only [h2, Option.map_none, Option.map_some] at h
  · simp at h
  rename_i nm c'
  simp at h
  have hname : c'.name = nm := by
    unfold remapClass at h2
    rw [h1] at h2
    simp only at h2
    repeat (split at h2; · simp at h2)
    simp at h2; subst h2; rfl
  exact ⟨c', rfl, h.2.symm, by rw [hname]; exact h.1.symm, by rw [hname]⟩

/-- **non-class entries and their content are unchanged** (name decided by the name, content by the content) -/
theorem entry_other_unchanged (r : Remapper) (n : JStr) (a : Opaque) (d : Opaque) (h : stripDotClass n = none) :
    remapEntry r (n, ⟨a, .other d⟩) = some (n, ⟨a, .other d⟩) ∧ remapEntry r (n, ⟨a, .dir⟩) = some (n, ⟨a, .dir⟩) := by
  simp [remapEntry, remapContent, entry_name_other r n h]

/-- the jar: fold of `IndexMap::insert` over the entry-wise image, failing when one entry fails -/
theorem remap_jar_fold (r : Remapper) (j : Jar) :
    remapJar r j = (omapM (remapEntry r) j).map (fun es => es.foldl (fun a ne => AList.insert ne.1 ne.2 a) []) :=
  remapJarLoop_fold r j []

/-- **`remap_jar`, proved domain**: when the remapped entry names are pairwise different, the result is the entry-wise
image of the jar, in order (nothing lost, nothing added). -/
theorem remap_jar_partial (r : Remapper) (j : Jar) (es : List (JStr × Entry)) (h : omapM (remapEntry r) j = some es)
    (hn : (es.map Prod.fst).Nodup) : remapJar r j = some es := by
  rw [remap_jar_fold, h]
  simp only [Option.map_some]
  rw [foldl_insert_nodup es [] (by simpa using hn)]
  rfl

def dirEntry : Entry := ⟨nil, .dir⟩

/-- a remapper sending two classes to one name -/
def rMerge : Remapper := { rAB with mapClass := fun _ => some B }

example : remapJar rAB [(A ++ dotClass, dirEntry), ([120], dirEntry)] =
    some [(B ++ dotClass, dirEntry), ([120], dirEntry)] := by
  exact remap_jar_partial _ _ _ rfl (by decide)

/-- **witness (colliding names).** Two entries whose names the remapper maps to one name: the second replaces the
first (`IndexMap::insert`), one entry is lost. -/
theorem remap_jar_collision_witness :
    (remapJar rMerge [(A ++ dotClass, dirEntry), ([88] ++ dotClass, dirEntry)]).map List.length = some 1 := by decide

/-! ## Coverage of struct fields (translated table) -/

open Gen.RemapFields

/-- `custom` positions: computed by the impl from a remapper call on several fields at once; the model shows they are
the remapper's answers (`remap_refs`: `fieldDecl`, `methodDecl`, `recordDecl`, `enumConst`, `methodRef` / `clsAny` of
`EnclosingMethod`) resp. follow from them (`remap_inner_name`) -/
def customHandled : List Nat :=
  [id_Field_name, id_Field_descriptor, id_Method_name, id_Method_descriptor, id_EnclosingMethod_class,
   id_EnclosingMethod_method, id_RecordComponent_name, id_RecordComponent_descriptor, id_ElementValue_Enum_const_name,
   id_InnerClass_inner_name]

/-- unknown attributes: raw bytes that nobody can interpret (they may or may not name something); copied byte for byte
at every level, which is all a remapper can do with them (`remap_shape`) -/
def opaqueKept : List Nat :=
  [id_ClassFile_attributes, id_Field_attributes, id_Method_attributes, id_Code_attributes, id_RecordComponent_attributes]

/-- positions whose type can carry a reference and which `remap.rs` copies: each one is an open finding -/
def exceptions : List Nat :=
  [ id_InvokeDynamic_name, id_ConstantDynamic_name,
    id_ClassFile_signature, id_Field_signature, id_Method_signature, id_Lv_signature, id_RecordComponent_signature,
    id_ElementValuePair_name ]

/-- the full statement: every position that can carry a reference is remapped (or is an uninterpretable attribute) -/
def FullCoverage : Prop :=
  ∀ row ∈ table, row.carries = true →
    row.treat = .remapped ∨ (row.treat = .custom ∧ row.id ∈ customHandled) ∨ (row.treat = .kept ∧ row.id ∈ opaqueKept)

/-- **`field_coverage`, as far as it holds**: every field of every struct and every payload of every enum variant
with a `Mappable` impl whose type can carry a reference is remapped, or is an unknown attribute copied verbatim — except
the listed positions. Nothing is dropped any more. Decided on the table translated from the current `remap.rs` and duke
tree definitions. -/
example : exceptions.length = 8 ∧ opaqueKept.length = 5 := by decide

theorem field_coverage_partial :
    ∀ row ∈ table, row.carries = true →
      row.treat = .remapped ∨ (row.treat = .custom ∧ row.id ∈ customHandled) ∨
      (row.treat = .kept ∧ row.id ∈ opaqueKept) ∨ row.id ∈ exceptions := by
  decide +kernel

/-- **witness**: the full statement is false for the current code -/
theorem field_coverage_witness : ¬ FullCoverage := by
  intro h
  exact absurd (h ⟨id_Field_signature, .kept, true⟩ (by decide) rfl) (by decide)

/-- the exception list is tight: every entry is a reference-carrying position that is copied -/
theorem field_coverage_exceptions_tight :
    ∀ i ∈ exceptions, ∃ row ∈ table, row.id = i ∧ row.carries = true ∧ row.treat = .kept := by
  decide +kernel

/-- **regression (dropped positions)**: no position of the tree is dropped by `remap.rs` any more (record components,
module data and unknown attributes were, before the fixes) -/
theorem nothing_dropped : ∀ row ∈ table, row.treat ≠ .dropped := by
  decide +kernel

/-- no position without references is touched: what is remapped carries references -/
theorem nothing_else_touched : ∀ row ∈ table, row.carries = false → row.treat = .kept := by
  decide +kernel

end Thm.C07
