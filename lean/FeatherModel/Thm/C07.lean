import FeatherModel.Lemmas.RemapTree
import FeatherModel.Lemmas.RemapShape
import FeatherModel.Lemmas.RemapJar
import FeatherModel.Gen.RemapFields

/-!
# C07 — remapping a jar renames every reference consistently and nothing else

Property theorems only. Model of `dukebox/src/remap.rs`: `FeatherModel/Model/RemapTree.lean` (impl by impl, as it is);
independent traversal `refsClass`, the remapper's answers `applyRef`, the shape `eraseClass`:
`FeatherModel/Model/RemapSpec.lean`; `Gen/RemapFields.lean` is translated from `remap.rs` and duke's tree definitions
on every run.

The remapper is an arbitrary `Remapper` (four possibly failing functions); all theorems hold for every remapper and every
class tree (annotations and bootstrap arguments nested to any depth).
-/

namespace Thm.C07
open RemapTree

/-! ## References -/

/-- **What `remap.rs` does, exactly.** On the reference positions of the class (record components, which it drops,
excepted) it acts position by position as `codeApply` — the remapper's answer everywhere except that the constant name of
an enum element value is copied — and it fails exactly when
one of these answers fails. Full strength, no hypothesis. -/
theorem remap_refs_code (r : Remapper) (c : ClassFile) :
    (remapClass r c).map refsClass = omapM (codeApply r c.name) (refsClass (strip c)) :=
  class_ok r c

theorem strip_of_kept {c : ClassFile} (h : Kept c = true) : strip c = c := by
  obtain ⟨shape, name, sup, itfs, fields, methods, ics, em, sig, rva, ria, rvta, rita, mod, mp, mmc, nh, nm, ps, rcs, attrs⟩ := c
  simp only [Kept, Bool.and_eq_true, List.all_eq_true, Option.isNone_iff_eq_none, List.isEmpty_iff] at h
  obtain ⟨⟨⟨⟨⟨⟨hf, hm⟩, h1⟩, h2⟩, h3⟩, h4⟩, h5⟩ := h
  have hf' : fields.map stripField = fields := by
    conv => rhs; rw [← List.map_id fields]
    apply List.map_congr_left
    intro f hfm
    have := hf f hfm
    simp only [keptField, List.isEmpty_iff] at this
    cases f; simp_all [stripField]
  have hm' : methods.map stripMethod = methods := by
    conv => rhs; rw [← List.map_id methods]
    apply List.map_congr_left
    intro m hmm
    have := hm m hmm
    simp only [keptMethod, Bool.and_eq_true, List.isEmpty_iff] at this
    obtain ⟨ha, hc⟩ := this
    obtain ⟨_, _, _, code, _, _, _, _, _, _, _, _, attributes⟩ := m
    cases code with
    | none => simp_all [stripMethod]
    | some cd =>
      simp only [keptCode, List.isEmpty_iff] at hc
      cases cd; simp_all [stripMethod, stripCode]
  simp_all [strip]

/-- **`remap_refs`, proved domain.** For a class with nothing that `remap.rs` drops (`Kept`: no module data, no record
components, no unknown attributes) and a remapper whose answers at the positions `remap.rs` copies are the identity
(`Agree`: it does not rename any enum constant used in an annotation), the references of the result are the remapper's answers for the original references, in order;
and the remap fails exactly when an answer fails. Weaker than the property text, which has no such hypotheses — see the
`_witness` theorems. -/
theorem remap_refs_partial (r : Remapper) (c : ClassFile) (hk : Kept c = true) (ha : Agree r c = true) :
    (remapClass r c).map refsClass = omapM (applyRef r c.name) (refsClass c) := by
  rw [remap_refs_code, strip_of_kept hk]
  simp only [Agree, List.all_eq_true, beq_iff_eq] at ha
  generalize refsClass c = xs at ha
  induction xs with
  | nil => rfl
  | cons x xs ih =>
    simp only [omapM, ha x (by simp), ih (fun y hy => ha y (by simp [hy]))]

/-- the remap fails only when the remapper fails on one of the class's references -/
theorem remap_fails_only_on_reference (r : Remapper) (c : ClassFile) (h : remapClass r c = none) :
    ∃ x ∈ refsClass (strip c), codeApply r c.name x = none := by
  have h1 := remap_refs_code r c
  rw [h] at h1
  generalize refsClass (strip c) = xs at h1
  induction xs with
  | nil => simp [omapM] at h1
  | cons x xs ih =>
    simp only [omapM] at h1
    cases hx : codeApply r c.name x with
    | none => exact ⟨x, by simp, hx⟩
    | some y =>
      simp only [hx] at h1
      cases hxs : omapM (codeApply r c.name) xs with
      | none =>
        obtain ⟨z, hz, hzn⟩ := ih (by simp [hxs])
        exact ⟨z, by simp [hz], hzn⟩
      | some ys => simp [hxs] at h1

/-! ### Concrete values for the examples and witnesses: a remapper renaming class `A` to `B` -/

def A : JStr := [65]
def B : JStr := [66]
def LA : JStr := [76, 65, 59]          -- "LA;"
def LB : JStr := [76, 66, 59]
def unitLA : JStr := [40, 41, 76, 65, 59]  -- "()LA;"
def unitLB : JStr := [40, 41, 76, 66, 59]
def nameF : JStr := [102]              -- "f"
def nameG : JStr := [103]              -- "g"

/-- `A -> B`, field `A.f:LA; -> g`; descriptors `LA;`, `()LA;` rewritten accordingly -/
def rAB : Remapper where
  mapClass n := some (if n = A then B else n)
  mapDesc d := some (if d = LA then LB else if d = unitLA then unitLB else d)
  mapField o n d := some (if o = A ∧ n = nameF then nameG else n, if d = LA then LB else d)
  mapMethod _ n d := some (n, if d = unitLA then unitLB else d)

def nil : Opaque := .list []

def emptyClass (name : JStr) : ClassFile :=
  { shape := nil, name := name, superClass := none, interfaces := [], fields := [], methods := [], innerClasses := none,
    enclosingMethod := none, signature := none, rva := [], ria := [], rvta := [], rita := [], module := none,
    modulePackages := none, moduleMainClass := none, nestHost := none, nestMembers := none,
    permittedSubclasses := none, recordComponents := [], attributes := [] }

def emptyMethod (name desc : JStr) : Method :=
  { shape := nil, name := name, desc := desc, code := none, exceptions := none, signature := none, rva := [], ria := [],
    rvta := [], rita := [], annotationDefault := none, parameters := nil, attributes := [] }

def codeOf (is : List Insn) : Code :=
  { shape := nil, insns := is.map fun i => ⟨nil, none, i⟩, exceptions := [], lvs := none, rvta := [], rita := [],
    attributes := [] }

def someHandle : Handle := .method nil ⟨B, nameF, unitLB⟩

/-- a class `X extends A` with a field `f:LA;`, a method using `A` in every instruction kind and an annotation -/
def exampleClass : ClassFile :=
  { emptyClass [88] with
    superClass := some A
    fields := [{ shape := nil, name := nameF, desc := LA, signature := none, rva := [.mk LA [.mk nameF (.cls LA)]],
                 ria := [], rvta := [], rita := [], attributes := [] }]
    methods := [{ emptyMethod nameG unitLA with
      code := some (codeOf [.cls nil A, .field nil ⟨A, nameF, LA⟩, .method nil ⟨[91, 76, 65, 59], nameG, unitLA⟩,
                            .ldc (.handle (.field nil ⟨A, nameF, LA⟩)), .plain nil]) }] }

/-- non-vacuity: the hypotheses of `remap_refs_partial` hold for a class full of references that are all renamed -/
example : Kept exampleClass = true ∧ Agree rAB exampleClass = true ∧
    (remapClass rAB exampleClass).map refsClass ≠ some (refsClass exampleClass) := by decide

/-- a lambda `() -> A`: `invokedynamic f()LA;` -/
def indyClass : ClassFile :=
  { emptyClass [88] with methods := [{ emptyMethod nameG unitLA with code := some (codeOf [.indy nameF unitLA someHandle []]) }] }

/-- **regression (invokedynamic descriptor; a witness of the gap before the fix 45d38a4).** The class is inside the
proved domain and the descriptor `()LA;` of the `invokedynamic` is renamed to `()LB;`. -/
theorem remap_refs_indy_fixed :
    Kept indyClass = true ∧ Agree rAB indyClass = true ∧
    (remapClass rAB indyClass).map refsClass = omapM (applyRef rAB indyClass.name) (refsClass indyClass) ∧
    (remapClass rAB indyClass).map refsClass =
      some [.cls [88], .methodDecl nameG unitLB, .dynDesc unitLB, .methodRef ⟨B, nameF, unitLB⟩] := by decide

/-- `ldc` of a dynamic constant of type `LA;` -/
def condyClass : ClassFile :=
  { emptyClass [88] with
    methods := [{ emptyMethod nameG unitLA with code := some (codeOf [.ldc (.dynamic (.mk nameF LA someHandle []))]) }] }

/-- **regression (dynamic constant descriptor).** -/
theorem remap_refs_condy_fixed :
    Kept condyClass = true ∧ Agree rAB condyClass = true ∧
    (remapClass rAB condyClass).map refsClass = omapM (applyRef rAB condyClass.name) (refsClass condyClass) ∧
    (remapClass rAB condyClass).map refsClass =
      some [.cls [88], .methodDecl nameG unitLB, .dynDesc LB, .methodRef ⟨B, nameF, unitLB⟩] := by decide

/-- `@Ann(A.f)` where the mappings rename the enum constant `A.f` to `g` -/
def enumClass : ClassFile := { emptyClass [88] with rva := [.mk [76, 81, 59] [.mk nameG (.enum LA nameF)]] }

/-- **witness (enum constant in an annotation).** The enum type is renamed, the constant is not. -/
theorem remap_refs_enum_witness :
    Kept enumClass = true ∧
    (remapClass rAB enumClass).map refsClass ≠ omapM (applyRef rAB enumClass.name) (refsClass enumClass) := by decide

/-- a record `A(A f)` -/
def recordClass : ClassFile := { emptyClass A with recordComponents := [⟨nameF, LA, nil⟩] }

/-- **witness (record components).** Outside `Kept`: the component `f:LA;` has no counterpart in the result at all. -/
theorem remap_refs_record_witness :
    Agree rAB recordClass = true ∧
    (remapClass rAB recordClass).map refsClass ≠ omapM (applyRef rAB recordClass.name) (refsClass recordClass) := by decide

/-! ## Shape -/

/-- **`remap_shape`, exactly.** Everything that is not a reference position is what it was in the class without module
data, record components and unknown attributes. Full strength for the code as it is. -/
theorem remap_shape (r : Remapper) (c c' : ClassFile) (h : remapClass r c = some c') :
    eraseClass c' = eraseClass (strip c) :=
  class_shape r c c' h

/-- **`remap_shape`, proved domain**: for a class with nothing to drop, all non-name content is unchanged. -/
theorem remap_shape_partial (r : Remapper) (c c' : ClassFile) (hk : Kept c = true) (h : remapClass r c = some c') :
    eraseClass c' = eraseClass c := by
  rw [remap_shape r c c' h, strip_of_kept hk]

example : ∃ c', remapClass rAB exampleClass = some c' ∧ eraseClass c' = eraseClass exampleClass := by
  cases h : remapClass rAB exampleClass with
  | none => exact absurd h (by decide)
  | some c' => exact ⟨c', rfl, remap_shape_partial rAB _ _ (by decide) h⟩

/-- **witness (dropped content).** An unknown attribute, the module data and the record components are gone after
the remap, whatever the remapper. -/
theorem remap_shape_witness :
    let c := { emptyClass A with attributes := [nil], module := some nil, recordComponents := [⟨nameF, LA, nil⟩] }
    ∀ c', remapClass rAB c = some c' →
      c'.attributes.length ≠ c.attributes.length ∧ c'.module.isSome ≠ c.module.isSome ∧
      c'.recordComponents.length ≠ c.recordComponents.length := by
  intro c c' h
  have h2 : (remapClass rAB c).map (fun d => (d.attributes.length, d.module.isSome, d.recordComponents.length)) =
      some (0, false, 0) := by decide
  rw [h] at h2
  simp only [Option.map_some, Option.some.injEq, Prod.mk.injEq] at h2
  obtain ⟨h3, h4, h5⟩ := h2
  simp [h3, h4, h5, c, nil]

/-- a field with generic signature `LA;` and descriptor `LA;` -/
def sigClass : ClassFile :=
  { emptyClass [88] with
    fields := [{ shape := nil, name := nameF, desc := LA, signature := some LA, rva := [], ria := [], rvta := [],
                 rita := [], attributes := [] }] }

/-- **witness (signatures).** Signatures are outside the traversal (no remapper primitive answers for them) and are
copied: after renaming `A` to `B` the field's descriptor says `LB;`, its generic signature still `LA;`. -/
theorem signature_unmapped_witness :
    (remapClass rAB sigClass).map (fun c => c.fields.map fun f => (f.desc, f.signature)) = some [(LB, some LA)] := by
  decide

/-- **witness (annotation element names, inner names).** `@A(f = …)` names the method `f` of the annotation interface
`A`, `InnerClass.inner_name` the simple name of the class: both are copied whatever the remapper says. -/
theorem element_name_unmapped_witness (r : Remapper) (t n : JStr) (v : ElementValue) (a : Annotation)
    (h : remapAnnotation r (.mk t [.mk n v]) = some a) : ∃ t' v', a = .mk t' [.mk n v'] := by
  simp only [remapAnnotation, remapPairs, remapPair] at h
  cases h1 : r.mapDesc t <;> simp only [h1] at h
  · simp at h
  cases h2 : remapElementValue r v <;> simp only [h2] at h
  · simp at h
  simp at h
  exact ⟨_, _, h.symm⟩

theorem inner_name_unmapped_witness (r : Remapper) (i j : InnerClass) (h : remapInnerClass r i = some j) :
    j.innerName = i.innerName := by
  simp only [remapInnerClass] at h
  cases h1 : mapClassAny r i.inner <;> simp only [h1] at h
  · simp at h
  cases h2 : ooptM (mapClassAny r) i.outer <;> simp only [h2] at h
  · simp at h
  simp at h; subst h; rfl

/-! ## Entry names and entries -/

/-- an entry named `<n>.class` is stored under `map_class(n).class` -/
theorem entry_name_class (r : Remapper) (n : JStr) :
    remapEntryName r (n ++ dotClass) = (r.mapClass n).map (· ++ dotClass) := by
  simp [remapEntryName, stripDotClass_append]

/-- every other entry keeps its name -/
theorem entry_name_other (r : Remapper) (n : JStr) (h : stripDotClass n = none) : remapEntryName r n = some n := by
  simp [remapEntryName, h]

/-- **a class entry is stored under the name of its remapped class**: an entry named after its class (`wellNamed`)
is named after its remapped class again, and its class is `remapClass` of the original -/
theorem entry_class_stored (r : Remapper) (n : JStr) (a : Opaque) (c : ClassFile) (n' : JStr) (e' : Entry)
    (hw : wellNamed (n, ⟨a, .cls c⟩) = true) (h : remapEntry r (n, ⟨a, .cls c⟩) = some (n', e')) :
    ∃ c', remapClass r c = some c' ∧ e' = ⟨a, .cls c'⟩ ∧ n' = c'.name ++ dotClass ∧ r.mapClass c.name = some c'.name := by
  simp only [wellNamed, beq_iff_eq] at hw
  subst hw
  simp only [remapEntry, entry_name_class] at h
  cases h1 : r.mapClass c.name <;> simp only [h1, Option.map_none, Option.map_some] at h
  · simp at h
  simp only [remapContent] at h
  cases h2 : remapClass r c <;> simp only [h2, Option.map_none, Option.map_some] at h
  · simp at h
  rename_i nm c'
  simp at h
  have hname : c'.name = nm := by
    unfold remapClass at h2
    rw [h1] at h2
    simp only at h2
    repeat (split at h2; · simp at h2)
    simp at h2; subst h2; rfl
  exact ⟨c', rfl, h.2.symm, by rw [hname]; exact h.1.symm, by rw [hname]⟩

/-- **non-class entries and their content are unchanged** (name decided by the name, content by the content) -/
theorem entry_other_unchanged (r : Remapper) (n : JStr) (a : Opaque) (d : Opaque) (h : stripDotClass n = none) :
    remapEntry r (n, ⟨a, .other d⟩) = some (n, ⟨a, .other d⟩) ∧ remapEntry r (n, ⟨a, .dir⟩) = some (n, ⟨a, .dir⟩) := by
  simp [remapEntry, remapContent, entry_name_other r n h]

/-- the jar: fold of `IndexMap::insert` over the entry-wise image, failing when one entry fails -/
theorem remap_jar_fold (r : Remapper) (j : Jar) :
    remapJar r j = (omapM (remapEntry r) j).map (fun es => es.foldl (fun a ne => AList.insert ne.1 ne.2 a) []) :=
  remapJarLoop_fold r j []

/-- **`remap_jar`, proved domain**: when the remapped entry names are pairwise different, the result is the entry-wise
image of the jar, in order (nothing lost, nothing added). -/
theorem remap_jar_partial (r : Remapper) (j : Jar) (es : List (JStr × Entry)) (h : omapM (remapEntry r) j = some es)
    (hn : (es.map Prod.fst).Nodup) : remapJar r j = some es := by
  rw [remap_jar_fold, h]
  simp only [Option.map_some]
  rw [foldl_insert_nodup es [] (by simpa using hn)]
  rfl

def dirEntry : Entry := ⟨nil, .dir⟩

/-- a remapper sending two classes to one name -/
def rMerge : Remapper := { rAB with mapClass := fun _ => some B }

example : remapJar rAB [(A ++ dotClass, dirEntry), ([120], dirEntry)] =
    some [(B ++ dotClass, dirEntry), ([120], dirEntry)] := by
  exact remap_jar_partial _ _ _ rfl (by decide)

/-- **witness (colliding names).** Two entries whose names the remapper maps to one name: the second replaces the
first (`IndexMap::insert`), one entry is lost. -/
theorem remap_jar_collision_witness :
    (remapJar rMerge [(A ++ dotClass, dirEntry), ([88] ++ dotClass, dirEntry)]).map List.length = some 1 := by decide

/-! ## Coverage of struct fields (translated table) -/

open Gen.RemapFields

/-- `custom` positions: computed by the impl from a remapper call on several fields at once; the model shows they are
the remapper's answers (`remap_refs_code`: `fieldDecl`, `methodDecl`, `methodRef` / `clsAny` of `EnclosingMethod`) -/
def customHandled : List Nat :=
  [id_Field_name, id_Field_descriptor, id_Method_name, id_Method_descriptor, id_EnclosingMethod_class,
   id_EnclosingMethod_method]

/-- positions whose type can carry a reference and which `remap.rs` does not remap: each one is a finding -/
def exceptions : List Nat :=
  [ -- copied although they carry references
    id_InvokeDynamic_name, id_ConstantDynamic_name,
    id_ClassFile_signature, id_Field_signature, id_Method_signature, id_Lv_signature,
    id_ElementValue_Enum_const_name, id_ElementValuePair_name, id_InnerClass_inner_name,
    -- dropped
    id_ClassFile_record_components, id_ClassFile_module, id_ClassFile_module_packages, id_ClassFile_module_main_class,
    id_ClassFile_attributes, id_Field_attributes, id_Method_attributes, id_Code_attributes ]

/-- the full statement: every position that can carry a reference is remapped -/
def FullCoverage : Prop :=
  ∀ row ∈ table, row.carries = true → row.treat = .remapped ∨ (row.treat = .custom ∧ row.id ∈ customHandled)

/-- **`field_coverage`, as far as it holds**: every field of every struct and every payload of every enum variant
with a `Mappable` impl whose type can carry a reference is remapped — except the listed positions. Decided on the table
translated from the current `remap.rs` and duke tree definitions. -/
example : exceptions.length = 17 := by decide

theorem field_coverage_partial :
    ∀ row ∈ table, row.carries = true →
      row.treat = .remapped ∨ (row.treat = .custom ∧ row.id ∈ customHandled) ∨ row.id ∈ exceptions := by
  decide +kernel

/-- **witness**: the full statement is false for the current code -/
theorem field_coverage_witness : ¬ FullCoverage := by
  intro h
  exact absurd (h ⟨id_Field_signature, .kept, true⟩ (by decide) rfl) (by decide)

/-- the exception list is tight: every entry is a reference-carrying position that is kept or dropped -/
theorem field_coverage_exceptions_tight :
    ∀ i ∈ exceptions, ∃ row ∈ table, row.id = i ∧ row.carries = true ∧ (row.treat = .kept ∨ row.treat = .dropped ∨
      (row.treat = .custom ∧ i = id_InnerClass_inner_name)) := by
  decide +kernel

/-- no position without references is touched: what is remapped or dropped carries references -/
theorem nothing_else_touched : ∀ row ∈ table, row.carries = false → row.treat = .kept := by
  decide +kernel

end Thm.C07
