import FeatherModel.Lemmas.MavenText
import FeatherModel.Lemmas.MavenPom
import FeatherModel.Lemmas.MavenSim
import FeatherModel.Lemmas.MavenAcyclic

/-!
# C19 — Maven dependency resolution follows nearest-wins mediation and scope rules

Property theorems only.  Model: `Model/Maven.lean` (scope table, `Display` / `FromStr` tables of `DependencyScope` come
from `Gen/ScopeTable.lean`, regenerated from `maven_dependency_resolver/src/lib.rs` by `translate/scope_to_lean.py`).
Specifications: `Spec/MavenScope.lean` (Maven's documented scope table), `Spec/MavenPom.lean` (effective-POM and
transitive-dependency rules), `Spec/MavenLevels.lean` (level-order mediation trace, `Pruned`, `levelOrder`).

All statements are for every universe of POM documents, every list of repositories, every forest (any width, any depth).
The recursive model functions take fuel (the Rust code has no recursion limiter and does not terminate on cyclic
universes); `Eff`, `DepTreeOf`, `Resolves` are their fuel-free readings ("some amount of fuel gives this answer"),
`*_fuel_independent` show the answer never depends on the amount, `resolve_terminates_acyclic` that on acyclic
universes (a rank function decreasing along parent, import and dependency edges) a computable amount always suffices.
-/

namespace Thm.C19
open Maven

/-! ## Scope table -/

/-- the table translated from the Rust source = Maven's documented table (with `system` treated like `provided`),
for every pair of scopes; `none` = the dependency is omitted -/
theorem scope_table_maven (left top : Scope) :
    (theScopeTable left top).map Scope.toSpec = Spec.MavenScope.table left.toSpec top.toSpec := by
  cases left <;> cases top <;> decide

/-- the same on the raw translator output: every arm list entry of `the_scope_table`, evaluated with Rust's
first-match-wins semantics, gives the documented cell; in particular the arms are exhaustive -/
theorem scope_table_translated :
    ∀ l ∈ Spec.MavenScope.S.all, ∀ t ∈ Spec.MavenScope.S.all,
      evalArms Gen.ScopeTable.arms l.id t.id = Spec.MavenScope.tableId l.id t.id := by
  decide

/-- `enum DependencyScope` has exactly the five scopes the model knows -/
theorem scope_variants_complete :
    Gen.ScopeTable.variants.length = 5 ∧ ∀ s ∈ Spec.MavenScope.S.all, s.id ∈ Gen.ScopeTable.variants := by
  decide

/-- `Display for DependencyScope` prints the names used in POM files -/
theorem scope_names_maven (s : Scope) : s.print = s.toSpec.name := by
  cases s <;> decide

/-- `FromStr ∘ Display = id` on scopes -/
theorem scope_print_parse (s : Scope) : Scope.parse s.print = some s :=
  scope_parse_print s

/-! ## Transitive dependencies: scopes compose by the table, optional and non-transitive scopes are cut -/

/-- the loop over `pom.dependencies` in `get_dependencies_tree` requests a subtree exactly for the dependencies selected
by `transitive` (declaration order, composed scope), stopping at the first failure -/
theorem scopes_compose (rec : Coord → Scope → Res (Tree Found)) (scope : Scope) (deps : List DepDone) :
    depChildren rec scope deps = mapRes (fun p => rec p.1 p.2) (transitive scope deps) :=
  depChildren_eq rec scope deps

/-- an optional dependency is never followed -/
theorem optional_cut (scope : Scope) (d : DepDone) (rest : List DepDone) (h : d.optional = some true) :
    transitive scope (d :: rest) = transitive scope rest := by
  simp [transitive, h]

/-- a dependency declared `test`, `provided` or `system` is never followed, whatever the scope of the depending node -/
theorem nontransitive_cut (scope : Scope) (d : DepDone) (rest : List DepDone)
    (h : d.scope = some .test ∨ d.scope = some .provided ∨ d.scope = some .system) :
    transitive scope (d :: rest) = transitive scope rest := by
  have : Spec.MavenScope.table scope.toSpec (d.scope.getD .compile).toSpec = none := by
    rcases h with h | h | h <;> rw [h] <;> cases scope <;> rfl
  simp only [transitive, List.filterMap_cons, this, Option.map_none, ite_self]

/-- a non-optional dependency whose table cell is a scope is followed with that scope (declared scope omitted =
`compile`) -/
theorem transitive_follow (scope : Scope) (d : DepDone) (rest : List DepDone) (s : Spec.MavenScope.S)
    (ho : d.optional ≠ some true)
    (ht : Spec.MavenScope.table scope.toSpec (d.scope.getD .compile).toSpec = some s) :
    transitive scope (d :: rest) = (d.coord, Scope.ofSpec s) :: transitive scope rest := by
  simp [transitive, ho, ht]

example : transitive .runtime
    [{ coord := default, scope := none, optional := none }, { coord := default, scope := some .test, optional := none },
     { coord := default, scope := some .runtime, optional := some true }] = [(default, .runtime)] := by decide

/-! ## Repositories -/

/-- `try_resolvers`: the POM comes from the first repository (in list order) that serves the URL; a document that does
not parse, or whose `modelVersion` is not `4.0.0`, is an error, not a reason to try the next repository -/
theorem try_resolvers_first (U : Universe) (rs : List Resolver) (c : Coord) (r : Resolver) (pom : Pom) :
    tryGetPom U rs c = .ok (r, pom) ↔
      ∃ pre post, rs = pre ++ r :: post ∧ (∀ q ∈ pre, AList.lookup (c.pomUrl q) U = none) ∧
        AList.lookup (c.pomUrl r) U = some (some pom) ∧ pom.modelVersion = jstr "4.0.0" := by
  induction rs with
  | nil =>
    simp only [tryGetPom]
    constructor
    · intro h; cases h
    · rintro ⟨pre, post, h, _⟩; simp at h
  | cons q qs ih =>
    rw [tryGetPom]
    cases hq : AList.lookup (c.pomUrl q) U with
    | none =>
      simp only [ih]
      constructor
      · rintro ⟨pre, post, h1, h2, h3, h4⟩
        refine ⟨q :: pre, post, by simp [h1], ?_, h3, h4⟩
        intro x hx
        rcases List.mem_cons.1 hx with hx | hx
        · subst hx; exact hq
        · exact h2 x hx
      · rintro ⟨pre, post, h1, h2, h3, h4⟩
        cases pre with
        | nil =>
          simp only [List.nil_append, List.cons.injEq] at h1
          rw [← h1.1, hq] at h3
          cases h3
        | cons x xs =>
          simp only [List.cons_append, List.cons.injEq] at h1
          exact ⟨xs, post, h1.2, fun y hy => h2 y (by simp [hy]), h3, h4⟩
    | some o =>
      have hnotpre : ∀ pre post, q :: qs = pre ++ r :: post → (∀ x ∈ pre, AList.lookup (c.pomUrl x) U = none) →
          pre = [] ∧ q = r := by
        intro pre post h1 h2
        cases pre with
        | nil => simp only [List.nil_append, List.cons.injEq] at h1; exact ⟨rfl, h1.1⟩
        | cons x xs =>
          simp only [List.cons_append, List.cons.injEq] at h1
          have := h2 x (by simp)
          rw [← h1.1, hq] at this
          cases this
      cases o with
      | none =>
        simp only []
        constructor
        · intro h; cases h
        · rintro ⟨pre, post, h1, h2, h3, _⟩
          obtain ⟨_, e⟩ := hnotpre pre post h1 h2
          rw [← e, hq] at h3
          cases h3
      | some p =>
        simp only []
        constructor
        · intro h
          split at h
          · rename_i hv
            simp only [Res.ok.injEq, Prod.mk.injEq] at h
            obtain ⟨e1, e2⟩ := h
            subst e1 e2
            exact ⟨[], qs, rfl, by simp, hq, hv⟩
          · cases h
        · rintro ⟨pre, post, h1, h2, h3, h4⟩
          obtain ⟨_, e⟩ := hnotpre pre post h1 h2
          subst e
          rw [hq] at h3
          simp only [Option.some.injEq] at h3
          subst h3
          simp [h4]

/-! ## Effective POMs -/

/-- fuel independence: an `ok` answer of `get_merged_pom` is the answer for every larger amount of fuel -/
theorem effective_pom_fuel_independent (U : Universe) (rs : List Resolver) {n m : Nat} (h : n ≤ m) (c : Coord)
    (x : Resolver × PomDone) (hx : getMergedPom U rs n c = .ok x) : getMergedPom U rs m c = .ok x :=
  Res.le_ok (getMergedPom_mono U rs h c) hx

/-- … and so is an error -/
theorem effective_pom_error_fuel_independent (U : Universe) (rs : List Resolver) {n m : Nat} (h : n ≤ m) (c : Coord)
    (hx : getMergedPom U rs n c = .err) : getMergedPom U rs m c = .err :=
  Res.le_err (getMergedPom_mono U rs h c) hx

/-- an artifact has at most one effective POM -/
theorem effective_pom_functional (U : Universe) (rs : List Resolver) (c : Coord) (r r' : Resolver) (e e' : PomDone)
    (h : Eff U rs c r e) (h' : Eff U rs c r' e') : r = r' ∧ e = e' := by
  obtain ⟨n, hn⟩ := h
  obtain ⟨m, hm⟩ := h'
  have h1 := effective_pom_fuel_independent U rs (Nat.le_max_left n m) c _ hn
  have h2 := effective_pom_fuel_independent U rs (Nat.le_max_right n m) c _ hm
  rw [h1] at h2
  simp only [Res.ok.injEq, Prod.mk.injEq] at h2
  exact h2

/-- **effective POM = Maven's rule** (`Spec/MavenPom.lean`, `EffRule`): the document comes from the first repository
serving it; group and version are inherited from the parent's effective POM when omitted; the effective dependency
management is the own entries with import-scoped BOMs replaced in place by their effective dependency management,
followed by the parent's; the effective dependencies are the own ones completed from the first matching managed entry,
followed by the parent's.  Both directions: what the parent-stack loop of `get_merged_pom` computes satisfies the rule,
and everything the rule derives is computed. -/
theorem effective_pom_spec (U : Universe) (rs : List Resolver) (c : Coord) (r : Resolver) (e : PomDone) :
    Eff U rs c r e ↔ EffRule U rs (EffPom U rs) c r e := by
  constructor
  · rintro ⟨n, hn⟩
    cases n with
    | zero => rw [getMergedPom] at hn; cases hn
    | succ n =>
      obtain ⟨pom, stack, parent, h1, h2, h3, h4⟩ := (getMergedPom_ok_iff U rs n c r e).1 hn
      obtain ⟨own, deps, coord, hc, ho, hd, he⟩ := (mergeParent_ok_iff _ _ _ _).1 h4
      refine ⟨pom, parent, own, deps, coord, h1, parentEff_of_chain U rs n _ stack parent h2 h3, hc, ?_, hd, he⟩
      exact managed_of_makeDMOwn (fun c b hb => (impOf_ok_iff U rs n c b).1 hb |>.elim fun r hr => ⟨r, n, hr⟩) _ _ ho
  · rintro ⟨pom, par, own, deps, coord, h1, hp, hc, hm, hd, he⟩
    obtain ⟨N1, hN1⟩ := chain_of_parentEff U rs _ _ hp
    obtain ⟨N2, hN2⟩ := makeDMOwn_of_managed U rs hm
    refine ⟨max N1 N2 + 1, ?_⟩
    obtain ⟨stack, hs1, hs2⟩ := hN1 (max N1 N2) (Nat.le_max_left _ _)
    rw [getMergedPom_ok_iff]
    refine ⟨pom, stack, par, h1, hs1, hs2, ?_⟩
    rw [mergeParent_ok_iff]
    exact ⟨own, deps, coord, hc, hN2 _ (Nat.le_max_right _ _), hd, he⟩

/-- inheritance of group and version; artifact id, packaging (type) are the POM's own; a parent must have packaging `pom` -/
theorem inherit_group_version (p : PomDone) (child : Pom) (c : Coord) (h : inheritCoord (some p) child = some c) :
    p.coord.type_ = jstr "pom" ∧ c.group = child.group.getD p.coord.group ∧
      c.version = child.version.getD p.coord.version ∧ c.artifact = child.artifact ∧
      c.type_ = child.packaging.getD (jstr "jar") ∧ c.classifier = none := by
  simp only [inheritCoord] at h
  split at h
  · rename_i ht
    simp only [Option.some.injEq] at h
    subst h
    exact ⟨ht, rfl, rfl, rfl, rfl, rfl⟩
  · cases h

/-- without a parent, group and version must be present -/
theorem inherit_none (child : Pom) (c : Coord) (h : inheritCoord none child = some c) :
    child.group = some c.group ∧ child.version = some c.version ∧ c.artifact = child.artifact := by
  unfold inheritCoord at h
  cases hg : child.group with
  | none => rw [hg] at h; simp at h
  | some g =>
    cases hv : child.version with
    | none => rw [hg, hv] at h; simp at h
    | some v =>
      rw [hg, hv] at h
      simp only [Option.some.injEq] at h
      subst h
      exact ⟨rfl, rfl, rfl⟩

/-- a dependency with a managed entry of the same (group, artifact, classifier, type): omitted version, scope and
optional flag are filled in from the **first** such entry, explicit ones win -/
theorem managed_fill (dm : List DepDone) (x : RawDep Scope) (m : DepDone)
    (h : dm.find? (fun i => i.coord.matchesBesidesVersion x.group x.artifact
          (orDefaultClassifier x.classifier (x.type_.getD (jstr "jar"))) (x.type_.getD (jstr "jar"))) = some m) :
    fillDep dm x = some
      { coord := { group := x.group, artifact := x.artifact, version := x.version.getD m.coord.version,
                   classifier := orDefaultClassifier x.classifier (x.type_.getD (jstr "jar")),
                   type_ := x.type_.getD (jstr "jar") },
        scope := x.scope <|> m.scope, optional := x.optional <|> m.optional } := by
  unfold fillDep
  simp only [h]
  cases x.scope <;> cases x.optional <;> rfl

/-- without a managed entry a dependency must carry its own version; nothing is filled in -/
theorem unmanaged_fill (dm : List DepDone) (x : RawDep Scope)
    (h : dm.find? (fun i => i.coord.matchesBesidesVersion x.group x.artifact
          (orDefaultClassifier x.classifier (x.type_.getD (jstr "jar"))) (x.type_.getD (jstr "jar"))) = none) :
    fillDep dm x = x.version.map fun v =>
      { coord := { group := x.group, artifact := x.artifact, version := v,
                   classifier := orDefaultClassifier x.classifier (x.type_.getD (jstr "jar")),
                   type_ := x.type_.getD (jstr "jar") },
        scope := x.scope, optional := x.optional } := by
  unfold fillDep
  simp only [h]
  cases x.version <;> rfl

/-- precedence among managed entries: own entries and imports in declaration order, then the parent's -/
theorem managed_lookup_order (own par : List DepDone) (p : DepDone → Bool) :
    (own ++ par).find? p = (own.find? p <|> par.find? p) := by
  rw [List.find?_append]
  cases own.find? p <;> rfl

/-! ## Dependency tree -/

theorem dep_tree_fuel_independent (U : Universe) (rs : List Resolver) {n m : Nat} (h : n ≤ m) (c : Coord) (s : Scope)
    (t : Tree Found) (ht : depTree U rs n c s = .ok t) : depTree U rs m c s = .ok t :=
  Res.le_ok (depTree_mono U rs h c s) ht

/-- **dependency tree = rule** (`TreeRule`): a node for the requested artifact (with the repository its POM came from
and the requested scope) and, in declaration order, the trees of the dependencies of its effective POM that `transitive`
selects, each requested with its composed scope -/
theorem dep_tree_spec (U : Universe) (rs : List Resolver) (c : Coord) (s : Scope) (t : Tree Found) :
    DepTreeOf U rs c s t ↔ TreeRule U rs (DepTreeOf U rs) c s t := by
  constructor
  · rintro ⟨n, hn⟩
    cases n with
    | zero => rw [depTree] at hn; cases hn
    | succ n =>
      rw [depTree] at hn
      cases h1 : getMergedPom U rs n c with
      | err => rw [h1] at hn; cases hn
      | fuel => rw [h1] at hn; cases hn
      | ok p =>
        obtain ⟨r, e⟩ := p
        rw [h1] at hn
        simp only [] at hn
        cases h2 : depChildren (fun c s => depTree U rs n c s) s e.deps with
        | err => rw [h2] at hn; cases hn
        | fuel => rw [h2] at hn; cases hn
        | ok cs =>
          rw [h2] at hn
          simp only [Res.ok.injEq] at hn
          rw [depChildren_eq] at h2
          exact ⟨r, e, cs, ⟨n, h1⟩, treesFor_of_mapRes (fun p t ht => ⟨n, ht⟩) _ _ h2, hn.symm⟩
  · rintro ⟨r, e, cs, ⟨k, hk⟩, hcs, ht⟩
    obtain ⟨N, hN⟩ := mapRes_of_treesFor U rs hcs
    refine ⟨max k N + 1, ?_⟩
    rw [depTree, effective_pom_fuel_independent U rs (Nat.le_max_left k N) c _ hk]
    simp only []
    rw [depChildren_eq, hN _ (Nat.le_max_right k N), ht]

/-! ## Mediation: queue = level order, nearest wins, first declared breaks ties, losers' subtrees are discarded -/

/-- the queue of `Forest::breadth_first_retain` serves the forest level by level: its run equals the specification that
finishes a whole level (threading the closure's state left to right) before starting the next one; any closure, any
forest -/
theorem cleanUp_levelorder {α σ : Type} (f : σ → α → Bool × σ) (s : σ) (q : List (Tree α)) :
    queueRun f s q = levelRun f s q :=
  queueRun_eq_levelRun f _ s q (Nat.le_refl _)

/-- `Forest::into_breadth_first` lists a forest level by level -/
theorem bfs_levelorder {α : Type} (forest : List (Tree α)) : bfs forest = levelOrder forest :=
  bfs_eq_levelOrder _ forest (Nat.le_refl _)

/-- **result = kept nodes of the level trace**: what `clean_up_dependencies` followed by `into_breadth_first` returns
is, in order, the considered nodes (roots; then the children of the kept nodes of the previous level, in order) whose id
has not been seen before.  `considered` is defined in `Spec/MavenLevels.lean` without any queue; the code's shrinking
`HashSet` of all ids is shown equivalent to the growing set of ids seen. -/
theorem mediation_result {α ι : Type} [DecidableEq ι] (idOf : α → ι) (forest : List (Tree α)) :
    bfs (cleanUpBy idOf forest) = keptOf (considered (firstSeen idOf) [] forest) := by
  unfold cleanUpBy
  rw [bfs_bfsRetain, removeFirst_firstSeen]

/-- **nearest wins, declaration order breaks ties**: a considered node is kept iff no node considered before it — that
is, no considered node of a smaller depth and no earlier considered node of the same depth — has the same id -/
theorem mediation_nearest {α ι : Type} [DecidableEq ι] (idOf : α → ι) (forest : List (Tree α))
    (pre : List (α × Bool)) (x : α × Bool) (post : List (α × Bool))
    (h : considered (firstSeen idOf) [] forest = pre ++ x :: post) :
    x.2 = true ↔ ∀ y ∈ pre, idOf y.1 ≠ idOf x.1 := by
  rw [considered_pass] at h
  exact firstSeen_first idOf _ pre x post h

/-- the same with depths spelled out: the node at position `pre.length` of level `d` of the trace is kept iff its id
occurs neither in a level above nor earlier in its own level -/
theorem mediation_nearest_depth {α ι : Type} [DecidableEq ι] (idOf : α → ι) (forest : List (Tree α))
    (above : List (List (α × Bool))) (lvl : List (α × Bool)) (below : List (List (α × Bool)))
    (hl : levels (firstSeen idOf) [] forest = above ++ lvl :: below)
    (pre : List (α × Bool)) (x : α × Bool) (post : List (α × Bool)) (hx : lvl = pre ++ x :: post) :
    x.2 = true ↔ (∀ l ∈ above, ∀ y ∈ l, idOf y.1 ≠ idOf x.1) ∧ ∀ y ∈ pre, idOf y.1 ≠ idOf x.1 := by
  have h : considered (firstSeen idOf) [] forest = (above.flatten ++ pre) ++ x :: (post ++ below.flatten) := by
    unfold considered
    rw [hl, hx]
    simp
  rw [mediation_nearest idOf forest _ x _ h]
  constructor
  · intro hh
    exact ⟨fun l hl y hy => hh y (List.mem_append_left _ (List.mem_flatten.2 ⟨l, hl, hy⟩)),
      fun y hy => hh y (List.mem_append_right _ hy)⟩
  · rintro ⟨h1, h2⟩ y hy
    rcases List.mem_append.1 hy with hy | hy
    · obtain ⟨l, hl, hyl⟩ := List.mem_flatten.1 hy
      exact h1 l hl y hyl
    · exact h2 y hy

/-- **rivals' subtrees are discarded, kept nodes keep their ancestors**: the retained forest is obtained from the full
forest by deleting whole subtrees, siblings keeping their order -/
theorem mediation_closed {α ι : Type} [DecidableEq ι] (idOf : α → ι) (forest : List (Tree α)) :
    Pruned forest (cleanUpBy idOf forest) :=
  bfsRetain_pruned _ _ forest

/-- **no duplicates**: the resolved list contains every id (group, artifact, classifier, type) at most once -/
theorem bfs_order_nodup {α ι : Type} [DecidableEq ι] (idOf : α → ι) (forest : List (Tree α)) :
    ((bfs (cleanUpBy idOf forest)).map idOf).Nodup := by
  unfold cleanUpBy
  rw [bfs_bfsRetain, considered_pass]
  exact (removeFirst_kept_nodup idOf _ _).1

/-- every resolved dependency is a node of the full forest -/
theorem mediation_subset {α ι : Type} [DecidableEq ι] (idOf : α → ι) (forest : List (Tree α)) :
    ∀ a ∈ bfs (cleanUpBy idOf forest), a ∈ nodesList forest := by
  intro a ha
  rw [mediation_result] at ha
  simp only [keptOf, List.mem_map, List.mem_filter] at ha
  obtain ⟨x, ⟨hx, _⟩, rfl⟩ := ha
  exact considered_mem _ _ forest x hx

/-- the roots are always considered first: a root loses only against an earlier root -/
theorem mediation_roots {α ι : Type} [DecidableEq ι] (idOf : α → ι) (forest : List (Tree α)) :
    ∃ rest, considered (firstSeen idOf) [] forest = verdicts (firstSeen idOf) [] forest ++ rest ∧
      (verdicts (firstSeen idOf) [] forest).map Prod.fst = forest.map Tree.data := by
  refine ⟨(levelsFrom (firstSeen idOf) (filterS (firstSeen idOf) [] forest).1
    (filterS (firstSeen idOf) [] forest).2).flatten, rfl, ?_⟩
  rw [verdicts_eq_verdictsL, verdictsL_map_fst]

/-! ## The resolved list -/

theorem resolve_fuel_independent (U : Universe) (rs : List Resolver) {n m : Nat} (h : n ≤ m)
    (roots : List (Coord × Scope)) (l : List Found) (hl : resolve U rs n roots = .ok l) : resolve U rs m roots = .ok l :=
  Res.le_ok (resolve_mono U rs h roots) hl

theorem resolve_error_fuel_independent (U : Universe) (rs : List Resolver) {n m : Nat} (h : n ≤ m)
    (roots : List (Coord × Scope)) (hl : resolve U rs n roots = .err) : resolve U rs m roots = .err :=
  Res.le_err (resolve_mono U rs h roots) hl

/-- **`get_maven_dependencies` = specification**: the answer is `l` iff the roots have dependency trees (by the tree
rule, effective POMs by the effective-POM rule) and `l` is the list of kept nodes of the nearest-wins level trace of that
forest, ids being (group, artifact, classifier, type) -/
theorem resolve_spec (U : Universe) (rs : List Resolver) (roots : List (Coord × Scope)) (l : List Found) :
    Resolves U rs roots l ↔
      ∃ forest, TreesFor (DepTreeOf U rs) roots forest ∧
        l = keptOf (considered (firstSeen (fun f : Found => f.coord.collisionId)) [] forest) := by
  constructor
  · rintro ⟨n, hn⟩
    unfold resolve at hn
    cases h1 : depForest U rs n roots with
    | err => rw [h1] at hn; cases hn
    | fuel => rw [h1] at hn; cases hn
    | ok forest =>
      rw [h1] at hn
      simp only [Res.ok.injEq] at hn
      rw [depForest_eq] at h1
      refine ⟨forest, treesFor_of_mapRes (fun p t ht => ⟨n, ht⟩) _ _ h1, ?_⟩
      rw [← hn]
      exact mediation_result _ forest
  · rintro ⟨forest, hf, hl⟩
    obtain ⟨N, hN⟩ := mapRes_of_treesFor U rs hf
    refine ⟨N, ?_⟩
    unfold resolve
    rw [depForest_eq, hN N (Nat.le_refl _), hl]
    simp only [Res.ok.injEq]
    exact mediation_result _ forest

/-- **breadth-first order without duplicates**: the resolved list is the level-order listing of a forest obtained from
the full dependency forest of the roots by deleting whole subtrees, and no (group, artifact, classifier, type) occurs
twice in it -/
theorem resolve_breadth_first_nodup (U : Universe) (rs : List Resolver) (roots : List (Coord × Scope)) (l : List Found)
    (h : Resolves U rs roots l) :
    ∃ full kept, TreesFor (DepTreeOf U rs) roots full ∧ Pruned full kept ∧ l = levelOrder kept ∧
      (l.map (fun f => f.coord.collisionId)).Nodup := by
  obtain ⟨n, hn⟩ := h
  unfold resolve at hn
  cases h1 : depForest U rs n roots with
  | err => rw [h1] at hn; cases hn
  | fuel => rw [h1] at hn; cases hn
  | ok forest =>
    rw [h1] at hn
    simp only [Res.ok.injEq] at hn
    rw [depForest_eq] at h1
    refine ⟨forest, cleanUp forest, treesFor_of_mapRes (fun p t ht => ⟨n, ht⟩) _ _ h1, mediation_closed _ forest, ?_, ?_⟩
    · rw [← hn, bfs_levelorder]
    · rw [← hn]
      exact bfs_order_nodup _ forest
/-- on an acyclic universe — a rank function on coordinates that decreases from a POM to its parent, to the BOMs it
imports and from an artifact to the dependencies of its effective POM — resolution terminates: fuel
`maxRank + 2` always gives an answer (`ok` or `err`), which by fuel independence is the answer -/
theorem resolve_terminates_acyclic (U : Universe) (rs : List Resolver) (rank : Coord → Nat)
    (hr : Ranked U rs rank) (roots : List (Coord × Scope)) (bound : Nat) (hb : ∀ p ∈ roots, rank p.1 ≤ bound) :
    resolve U rs (bound + 2) roots ≠ .fuel :=
  resolve_ne_fuel U rs rank hr roots bound hb

/-- a universe with one repository URL: artifact `g:a:1` without parent, management or dependencies -/
def exPom : Pom :=
  { modelVersion := jstr "4.0.0", parent := none, group := some [103], artifact := [97], version := some [49],
    packaging := none, depMgmt := [], deps := [] }

def exUniverse : Universe := [([117, 47, 103, 47, 97, 47, 49, 47, 97, 45, 49, 46, 112, 111, 109], some exPom)]

/-- the hypothesis of `resolve_terminates_acyclic` is satisfiable by a non-empty universe -/
example (rs : List Resolver) : Ranked exUniverse rs (fun _ => 0) := by
  have key : ∀ c r pom, tryGetPom exUniverse rs c = .ok (r, pom) → pom = exPom := by
    intro c r pom h
    obtain ⟨pre, post, _, _, h3, _⟩ := (try_resolvers_first exUniverse rs c r pom).1 h
    simp only [exUniverse, AList.lookup] at h3
    split at h3
    · simp only [Option.some.injEq] at h3; exact h3.symm
    · cases h3
  refine ⟨?_, ?_, ?_⟩
  · intro c r pom pc h hp
    rw [key c r pom h] at hp
    cases hp
  · intro c r pom x v h hx
    rw [key c r pom h] at hx
    cases hx
  · intro c r e d he hd
    obtain ⟨pom, par, own, deps, coord, h1, hp, _, _, hf, hE⟩ := (effective_pom_spec exUniverse rs c r e).1 he
    have hk := key c r pom h1
    subst hk
    have hpar : par = none := hp
    subst hpar
    simp only [exPom, fillDeps, Option.some.injEq] at hf
    subst hf hE
    simp [parDeps] at hd

def exCoord : Coord := { group := [103], artifact := [97], version := [49], classifier := none, type_ := [106, 97, 114] }
def exFound : Found := { resolver := { name := [114], maven := [117] }, coord := exCoord, scope := .compile }

/-- and it resolves: the artifact itself, nothing else -/
example : Resolves exUniverse [{ name := [114], maven := [117] }] [(exCoord, .compile)] [exFound] := by
  have ht : DepTreeOf exUniverse [{ name := [114], maven := [117] }] exCoord .compile (.node exFound []) :=
    ⟨2, by rfl⟩
  refine (resolve_spec _ _ _ _).2 ⟨[.node exFound []], TreesFor.cons ht TreesFor.nil, ?_⟩
  simp [considered, levels, verdicts, filterS, firstSeen, levelsFrom_cons, levelsFrom_nil, keptOf, Tree.data,
    Tree.children]

/-! ## Printing and re-parsing -/

/-- `FromStr ∘ Display = id` on coordinates whose fields contain no `:` -/
theorem coord_print_parse_partial (c : Coord) (h : c.colonFree) : Coord.parse c.print = some c :=
  coord_parse_print c h

example : Coord.colonFree
    { group := [111, 114, 103], artifact := [97], version := [49, 46, 48], classifier := some [120], type_ := [106, 97, 114] } := by
  refine ⟨by decide, by decide, by decide, by decide, ?_⟩
  intro k hk
  cases hk
  decide

/-- group `a:b`, artifact `c`, type `j`, version `1` -/
def witnessCoord : Coord := { group := [97, 58, 98], artifact := [99], version := [49], classifier := none, type_ := [106] }

/-- a `:` inside a field cannot survive (the format has no escaping) -/
theorem coord_print_parse_witness : Coord.parse witnessCoord.print ≠ some witnessCoord := by
  decide

/-- `TryFrom<&str> ∘ Display` on resolved dependencies: coordinate and scope survive, the repository is re-created from
its URL (its name is not printed); for coordinates without `:` in a field and without `" @ "` in their printed form -/
theorem found_print_parse_partial (f : Found) (h : f.coord.colonFree) (hs : splitOnceAt f.coord.print = none) :
    Found.parse f.print =
      some { resolver := { name := f.resolver.maven, maven := f.resolver.maven }, coord := f.coord, scope := f.scope } :=
  found_parse_print f h hs

/-- artifact `x @ y` found in repository `u` -/
def witnessFound : Found :=
  { resolver := { name := [114], maven := [117] },
    coord := { group := [103], artifact := [120, 32, 64, 32, 121], version := [49], classifier := none, type_ := [106] },
    scope := .compile }

/-- `" @ "` inside the coordinate is taken for the separator -/
theorem found_print_parse_witness : Found.parse witnessFound.print = none := by
  decide

example : Coord.colonFree witnessFound.coord := by
  refine ⟨by decide, by decide, by decide, by decide, ?_⟩
  intro k hk
  cases hk

end Thm.C19
