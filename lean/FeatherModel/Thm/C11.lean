import FeatherModel.Lemmas.InnerNames
import FeatherModel.Lemmas.AList

/-!
# C11 — inner-class name extension and contraction are consistent and inverse
Property theorems only. Model: `FeatherModel/Model/InnerNames.lean`.
-/

namespace Thm.C11
open InnerNames

/-- every class entry is stored under its first-namespace name (`ToKey`) -/
def KeysConsistent (m : Mappings) : Prop :=
  ∀ k c, (k, c) ∈ m.classes → c.names[0]? = some (some k)

/-! ## split / join are mutually inverse -/

theorem split_join {s p i : JStr} (h : split s = some (p, i)) : join p i = s := by
  obtain ⟨h1, _⟩ := split_some h
  simp [join, h1]

theorem join_split {p i : JStr} (hp : p ≠ []) (hi : i ≠ []) (hps : p.getLast? ≠ some SLASH)
    (his : SLASH ∉ i) (hid : DOLLAR ∉ i) : split (join p i) = some (p, i) := by
  unfold split join
  rw [rsplitOnce_append p i hid]
  simp [hp, hi, hps, his]

/-- `split` succeeds exactly on strings of the shape `p ++ "$" ++ i` with a usable parent and a simple inner name -/
theorem split_none_iff {s : JStr} :
    split s = none ↔ ¬ ∃ p i, s = p ++ DOLLAR :: i ∧ DOLLAR ∉ i ∧ p ≠ [] ∧ i ≠ [] ∧
      p.getLast? ≠ some SLASH ∧ SLASH ∉ i := by
  constructor
  · intro h ⟨p, i, hs, hd, hp, hi, hps, his⟩
    have := join_split hp hi hps his hd
    unfold join at this
    rw [← hs, h] at this
    simp at this
  · intro h
    cases hs : split s with
    | none => rfl
    | some q =>
      obtain ⟨p, i⟩ := q
      exact absurd ⟨p, i, split_some hs⟩ h

example : split (jstr "a/Outer$Inner") = some (jstr "a/Outer", jstr "Inner") := by decide

/-! ## extension -/

/-- the recursion of `map` needs no more fuel than the length of the source name -/
theorem extName_fuel (m : Mappings) (ns : Nat) :
    ∀ (n : Nat) (name b : JStr) (f1 f2 : Nat), name.length < n → name.length < f1 → name.length < f2 →
      extName m ns f1 name b = extName m ns f2 name b := by
  intro n
  induction n with
  | zero => intro name b f1 f2 h; omega
  | succ n ih =>
    intro name b f1 f2 hn h1 h2
    cases f1 with
    | zero => omega
    | succ f1 =>
      cases f2 with
      | zero => omega
      | succ f2 =>
        simp only [extName]
        cases hs : split name with
        | none => rfl
        | some q =>
          obtain ⟨parent, inner⟩ := q
          have hl := split_length hs
          simp only
          cases getClassName m parent ns with
          | none => rfl
          | some mp =>
            simp only
            rw [ih parent mp f1 f2 (by omega) (by omega) (by omega)]

/-- frame: extension changes nothing but the names of the chosen namespace -/
theorem extend_frame {m m' : Mappings} {nsName : JStr} (h : extend m nsName = some m') :
    m'.ns = m.ns ∧ m'.doc = m.doc ∧
    m'.classes.map (fun e => (e.1, e.2.doc, e.2.fields, e.2.methods)) =
      m.classes.map (fun e => (e.1, e.2.doc, e.2.fields, e.2.methods)) ∧
    ∀ ns, m.getNamespace nsName = some ns → ∀ j, j ≠ ns →
      m'.classes.map (fun e => e.2.names[j]?) = m.classes.map (fun e => e.2.names[j]?) := by
  unfold extend at h
  cases hns : m.getNamespace nsName with
  | none => rw [hns] at h; simp at h
  | some ns =>
    rw [hns] at h
    simp only at h
    split at h
    · simp at h
    · rename_i cs hcs
      simp only [Option.some.injEq] at h
      subst h
      refine ⟨rfl, rfl, ?_, ?_⟩
      · apply AList.mapValsM_map _ _ hcs
        intro k v w _ hf
        split at hf
        · simp only [Option.some.injEq] at hf; subst hf; rfl
        · simp at hf
      · intro ns' hns' j hj
        simp only [Option.some.injEq] at hns'
        subst hns'
        apply AList.mapValsM_map _ _ hcs
        intro k v w _ hf
        split at hf
        · rename_i n hn
          simp only [Option.some.injEq] at hf; subst hf
          simp only
          unfold extendNames at hn
          split at hn
          · simp at hn
          · split at hn
            · simp at hn
            · split at hn
              · split at hn
                · split at hn
                  · simp only [Option.some.injEq] at hn; subst hn
                    rw [List.getElem?_set_ne (Ne.symm hj)]
                  · simp at hn
                · simp at hn
              · simp only [Option.some.injEq] at hn; subst hn; rfl
        · simp at hf

/-- spec, top-level classes: the name is unchanged -/
theorem extend_toplevel {m m' : Mappings} {nsName : JStr} {ns : Nat} {k : JStr} {c : Class}
    (h : extend m nsName = some m') (hns : m.getNamespace nsName = some ns)
    (hc : AList.lookup k m.classes = some c) (hsrc : c.names[0]? = some (some k))
    (htop : split k = none) :
    ∃ c', AList.lookup k m'.classes = some c' ∧ c'.names[ns]? = c.names[ns]? := by
  unfold extend at h
  rw [hns] at h
  simp only at h
  split at h
  · simp at h
  · rename_i cs hcs
    simp only [Option.some.injEq] at h
    subst h
    obtain ⟨w, hw, hl⟩ := AList.mapValsM_lookup_some hcs hc
    refine ⟨w, hl, ?_⟩
    split at hw
    · rename_i n hn
      simp only [Option.some.injEq] at hw; subst hw
      simp only
      unfold extendNames at hn
      split at hn
      · simp at hn
      · split at hn
        · simp at hn
        · split at hn
          · rename_i b hb
            rw [hsrc] at hn
            simp only at hn
            have : extName m ns (k.length + 1) k b = some b := by
              simp [extName, htop]
            rw [this] at hn
            simp only [Option.some.injEq] at hn; subst hn
            rw [hb]
            by_cases hlt : ns < c.names.length
            · simp [hlt]
            · have : c.names[ns]? = none := by simp at hlt; exact List.getElem?_eq_none hlt
              rw [this] at hb; simp at hb
          · simp only [Option.some.injEq] at hn; subst hn; rfl
    · simp at hw

/-- spec, nested classes: the new name is the *new* name of the outer class, `$`, the class's own old name -/
theorem extend_nested {m m' : Mappings} {nsName : JStr} {ns : Nat} {k p i b : JStr} {c : Class}
    (hk : KeysConsistent m)
    (h : extend m nsName = some m') (hns : m.getNamespace nsName = some ns)
    (hc : AList.lookup k m.classes = some c) (hsrc : c.names[0]? = some (some k))
    (hb : c.names[ns]? = some (some b))
    (hsplit : split k = some (p, i)) :
    ∃ c' cp' pn, AList.lookup k m'.classes = some c' ∧ AList.lookup p m'.classes = some cp' ∧
      cp'.names[ns]? = some (some pn) ∧ c'.names[ns]? = some (some (join pn b)) := by
  unfold extend at h
  rw [hns] at h
  simp only at h
  split at h
  · simp at h
  · rename_i cs hcs
    simp only [Option.some.injEq] at h
    subst h
    obtain ⟨w, hw, hl⟩ := AList.mapValsM_lookup_some hcs hc
    split at hw
    · rename_i n hn
      simp only [Option.some.injEq] at hw; subst hw
      unfold extendNames at hn
      split at hn
      · simp at hn
      · rename_i hns0
        split at hn
        · simp at hn
        · rw [hb, hsrc] at hn
          simp only at hn
          split at hn
          · rename_i b' hb'
            simp only [Option.some.injEq] at hn; subst hn
            -- unfold one step of extName on k
            simp only [extName, hsplit] at hb'
            cases hgp : getClassName m p ns with
            | none => rw [hgp] at hb'; simp at hb'
            | some mp =>
              rw [hgp] at hb'
              simp only at hb'
              cases hrec : extName m ns k.length p mp with
              | none => rw [hrec] at hb'; simp at hb'
              | some r =>
                rw [hrec] at hb'
                simp only [Option.some.injEq] at hb'
                subst hb'
                -- the parent entry
                unfold getClassName at hgp
                cases hlp : AList.lookup p m.classes with
                | none => rw [hlp] at hgp; simp at hgp
                | some cp =>
                  rw [hlp] at hgp
                  simp only at hgp
                  have hpsrc := hk p cp (AList.lookup_mem hlp)
                  obtain ⟨wp, hwp, hlp'⟩ := AList.mapValsM_lookup_some hcs hlp
                  split at hgp
                  · rename_i mp' hmp'
                    simp only [Option.some.injEq] at hgp; subst hgp
                    split at hwp
                    · rename_i np hnp
                      simp only [Option.some.injEq] at hwp; subst hwp
                      unfold extendNames at hnp
                      simp only [hns0, if_false] at hnp
                      split at hnp
                      · simp at hnp
                      · rw [hmp', hpsrc] at hnp
                        simp only at hnp
                        have hlen := split_length hsplit
                        rw [extName_fuel m ns (k.length + 1) p mp' (p.length + 1) k.length (by omega) (by omega) (by omega), hrec] at hnp
                        simp only [Option.some.injEq] at hnp; subst hnp
                        refine ⟨_, _, r, hl, hlp', ?_, ?_⟩
                        · simp only
                          have : ns < cp.names.length := by
                            rcases Nat.lt_or_ge ns cp.names.length with hlt | hlt
                            · exact hlt
                            · have : cp.names[ns]? = none := List.getElem?_eq_none hlt
                              rw [this] at hmp'; simp at hmp'
                          simp [List.getElem?_set, this]
                        · simp only
                          have : ns < c.names.length := by
                            rcases Nat.lt_or_ge ns c.names.length with hlt | hlt
                            · exact hlt
                            · have : c.names[ns]? = none := List.getElem?_eq_none hlt
                              rw [this] at hb; simp at hb
                          simp [List.getElem?_set, this]
                    · simp at hwp
                  · simp at hgp
          · simp at hn
    · simp at hw

/-- extension fails (rather than guessing) when the outer class is absent from the set or unnamed in the namespace -/
theorem extend_fails_missing_outer {m : Mappings} {nsName : JStr} {ns : Nat} {k p i b : JStr} {c : Class}
    (hns : m.getNamespace nsName = some ns)
    (hc : (k, c) ∈ m.classes) (hsrc : c.names[0]? = some (some k))
    (hb : c.names[ns]? = some (some b))
    (hsplit : split k = some (p, i))
    (hmissing : getClassName m p ns = none) :
    extend m nsName = none := by
  have hen : extendNames m ns c.names = none := by
    unfold extendNames
    split
    · rfl
    · split
      · rfl
      · rw [hb, hsrc]
        simp [extName, hsplit, hmissing]
  unfold extend
  rw [hns]
  simp only
  rw [AList.mapValsM_none_of_mem hc (by simp only [hen])]

/-- the first namespace cannot be extended: it would desynchronise names and keys -/
theorem extend_first_namespace_fails {m : Mappings} {nsName : JStr} {k : JStr} {c : Class}
    (hns : m.getNamespace nsName = some 0) (hc : (k, c) ∈ m.classes) :
    extend m nsName = none := by
  unfold extend
  rw [hns]
  simp only
  rw [AList.mapValsM_none_of_mem hc (by simp [extendNames])]

/-- an unknown namespace is an error for both operations -/
theorem unknown_namespace_fails {m : Mappings} {nsName : JStr} (hns : m.getNamespace nsName = none) :
    extend m nsName = none ∧ contract m nsName = none := by
  simp [extend, contract, hns]

/-! ## contraction -/

/-- contraction keeps only the innermost simple name, in the chosen namespace only -/
theorem contract_spec {m : Mappings} {nsName : JStr} {ns : Nat} (hns : m.getNamespace nsName = some ns) :
    ∃ m', contract m nsName = some m' ∧ m'.ns = m.ns ∧ m'.doc = m.doc ∧
      m'.classes.map (fun e => (e.1, e.2.doc, e.2.fields, e.2.methods)) =
        m.classes.map (fun e => (e.1, e.2.doc, e.2.fields, e.2.methods)) ∧
      (∀ j, j ≠ ns → m'.classes.map (fun e => e.2.names[j]?) = m.classes.map (fun e => e.2.names[j]?)) ∧
      m'.classes.map (fun e => e.2.names[ns]?) = m.classes.map (fun e =>
        match e.2.names[ns]? with
        | some (some b) => (match split b with | some (_, inner) => some (some inner) | none => some (some b))
        | o => o) := by
  refine ⟨{ m with classes := AList.mapVals (fun c => { c with names := contractNames ns c.names }) m.classes },
    by simp [contract, hns], rfl, rfl, ?_, ?_, ?_⟩
  · simp [AList.mapVals, List.map_map, Function.comp_def]
  · intro j hj
    simp only [AList.mapVals, List.map_map, Function.comp_def]
    apply List.map_congr_left
    intro e _
    simp only [contractNames]
    split
    · split
      · rw [List.getElem?_set_ne (Ne.symm hj)]
      · rfl
    · rfl
  · simp only [AList.mapVals, List.map_map, Function.comp_def]
    apply List.map_congr_left
    intro e _
    simp only [contractNames]
    split
    · rename_i b hb
      split
      · rename_i inner hs
        have : ns < e.2.names.length := by
          rcases Nat.lt_or_ge ns e.2.names.length with hlt | hlt
          · exact hlt
          · have : e.2.names[ns]? = none := List.getElem?_eq_none hlt
            rw [this] at hb; simp at hb
        rw [List.getElem?_set_self this, hb]
        simp [hs]
      · rename_i hsn
        simp [hb, hsn]
    · rename_i hne
      split
      · rename_i b hb; exact absurd hb (hne b)
      · rfl

/-- the domain on which contraction undoes extension: names in the namespace are non-empty, do not end in `/`,
are simple (no `$`, no `/`) for nested classes and cannot be split for top-level classes -/
def Simple (m : Mappings) (ns : Nat) : Prop :=
  ∀ k c, (k, c) ∈ m.classes → ∀ b, c.names[ns]? = some (some b) →
    b ≠ [] ∧ b.getLast? ≠ some SLASH ∧
      (match split k with
       | some _ => DOLLAR ∉ b ∧ SLASH ∉ b
       | none => split b = none)

theorem extName_suffix (m : Mappings) (ns : Nat) :
    ∀ (fuel : Nat) (name mapped r : JStr), extName m ns fuel name mapped = some r → ∃ pre, r = pre ++ mapped := by
  intro fuel
  induction fuel with
  | zero => intro name mapped r h; simp [extName] at h
  | succ f ih =>
    intro name mapped r h
    simp only [extName] at h
    split at h
    · split at h
      · simp at h
      · split at h
        · simp at h
        · rename_i r' _
          simp only [Option.some.injEq] at h
          subst h
          exact ⟨r' ++ [DOLLAR], by simp [join]⟩
    · simp only [Option.some.injEq] at h
      subst h
      exact ⟨[], rfl⟩

/-- contracting an extended set returns the original whenever the original names were simple -/
theorem contract_extend {m m' : Mappings} {nsName : JStr} {ns : Nat}
    (hk : KeysConsistent m) (hns : m.getNamespace nsName = some ns) (hs : Simple m ns)
    (h : extend m nsName = some m') : contract m' nsName = some m := by
  have hframe := extend_frame h
  unfold extend at h
  rw [hns] at h
  simp only at h
  split at h
  · simp at h
  · rename_i cs hcs
    simp only [Option.some.injEq] at h
    subst h
    have hns' : Mappings.getNamespace { m with classes := cs } nsName = some ns := hns
    unfold contract
    rw [hns']
    simp only [Option.some.injEq]
    have : AList.mapVals (fun c => { c with names := contractNames ns c.names }) cs = m.classes := by
      apply AList.mapVals_mapValsM hcs
      intro k c w hmem hf
      split at hf
      · rename_i n hn
        simp only [Option.some.injEq] at hf; subst hf
        simp only
        have hsrc := hk k c hmem
        suffices hsuff : contractNames ns n = c.names by rw [hsuff]
        unfold extendNames at hn
        split at hn
        · simp at hn
        · split at hn
          · simp at hn
          · split at hn
            · rename_i b hb
              rw [hsrc] at hn
              simp only at hn
              obtain ⟨hb1, hb2, hb3⟩ := hs k c hmem b hb
              have hlt : ns < c.names.length := by
                rcases Nat.lt_or_ge ns c.names.length with hlt | hlt
                · exact hlt
                · have : c.names[ns]? = none := List.getElem?_eq_none hlt
                  rw [this] at hb; simp at hb
              have hset : c.names.set ns (some b) = c.names := by
                apply List.ext_getElem?
                intro j
                by_cases hj : ns = j
                · subst hj; rw [List.getElem?_set_self hlt]; exact hb.symm
                · rw [List.getElem?_set_ne hj]
              cases hsp : split k with
              | none =>
                rw [hsp] at hb3
                simp only [extName, hsp, Option.some.injEq] at hn
                subst hn
                simp only [contractNames, hset, hb, hb3]
              | some q =>
                obtain ⟨p, i⟩ := q
                rw [hsp] at hb3
                simp only [extName, hsp] at hn
                cases hmp : getClassName m p ns with
                | none => rw [hmp] at hn; simp at hn
                | some mp =>
                  rw [hmp] at hn
                  simp only at hn
                  cases hr : extName m ns k.length p mp with
                  | none => rw [hr] at hn; simp at hn
                  | some r =>
                    rw [hr] at hn
                    simp only [Option.some.injEq] at hn
                    subst hn
                    -- the parent's name is well-shaped, hence so is its extension
                    unfold getClassName at hmp
                    cases hlp : AList.lookup p m.classes with
                    | none => rw [hlp] at hmp; simp at hmp
                    | some cp =>
                      rw [hlp] at hmp
                      simp only at hmp
                      split at hmp
                      · rename_i mp' hmp'
                        simp only [Option.some.injEq] at hmp; subst hmp
                        obtain ⟨hp1, hp2, _⟩ := hs p cp (AList.lookup_mem hlp) mp' hmp'
                        obtain ⟨pre, hpre⟩ := extName_suffix m ns _ _ _ _ hr
                        have hr1 : r ≠ [] := by
                          rw [hpre]; intro hnil
                          have := List.append_eq_nil_iff.mp hnil
                          exact hp1 this.2
                        have hr2 : r.getLast? ≠ some SLASH := by
                          rw [hpre, List.getLast?_append]
                          obtain ⟨x, hx⟩ := Option.isSome_iff_exists.mp
                            (by simpa using hp1 : mp'.getLast?.isSome = true)
                          rw [hx] at hp2 ⊢
                          simpa using hp2
                        have hsj := join_split hr1 hb1 hr2 hb3.2 hb3.1
                        simp only [contractNames, List.getElem?_set, hlt, if_true, hsj, List.set_set, hset]
                      · simp at hmp
            · simp only [Option.some.injEq] at hn; subst hn
              rename_i hnone
              simp only [contractNames]
      · simp at hf
    rw [this]

/-- the hypotheses of `contract_extend` are satisfiable by a set with a package, a nested class and a missing name -/
example :
    let m : Mappings := { ns := [jstr "a", jstr "b"], doc := none, classes := [
      (jstr "p/A", { names := [some (jstr "p/A"), some (jstr "q/X")], doc := none, fields := [], methods := [] }),
      (jstr "p/A$B", { names := [some (jstr "p/A$B"), some (jstr "Y")], doc := none, fields := [], methods := [] }),
      (jstr "C", { names := [some (jstr "C"), none], doc := none, fields := [], methods := [] })] }
    (extend m (jstr "b")).map (fun m' => m'.classes.map (fun e => e.2.names[1]?)) =
      some [some (some (jstr "q/X")), some (some (jstr "q/X$Y")), some none] ∧
    ((extend m (jstr "b")).bind (fun m' => contract m' (jstr "b"))) = some m := by decide

/-- when a top-level target name itself contains a usable `$`, contraction does not undo extension -/
theorem contract_extend_dollar_witness :
    let m : Mappings := { ns := [jstr "a", jstr "b"], doc := none, classes := [
      (jstr "A", { names := [some (jstr "A"), some (jstr "X$Y")], doc := none, fields := [], methods := [] })] }
    ((extend m (jstr "b")).bind (fun m' => contract m' (jstr "b"))) ≠ some m := by decide

end Thm.C11
