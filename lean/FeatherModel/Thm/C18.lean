import FeatherModel.Lemmas.DescriptorDoc
import FeatherModel.Lemmas.InnerNames
import FeatherModel.Thm.C11

/-!
# C18 — descriptor and name types accept and print exactly the JVMS grammar they claim

Property theorems only.  Model: `FeatherModel/Model/Descriptor.lean` (+ `Model/InnerNames.lean` for split/join);
specification: `FeatherModel/Spec/DescriptorGrammar.lean` (JVMS §4.2, §4.3, transcribed independently of the model).
All statements are over arbitrary strings (`JStr = List Nat`, any length, any code points).
-/

namespace Thm.C18
open Descriptor DescriptorGrammar

/-! ## the parsers accept exactly the grammar, with the structure the grammar assigns -/

/-- `FieldDescriptorSlice::parse` succeeds with `t` exactly when `s` is a JVMS field descriptor denoting `t` -/
theorem parse_accepts_iff (s : JStr) (t : Ty) : parseField s = some t ↔ FieldTy s t :=
  parseField_iff s t

/-- `MethodDescriptorSlice::parse` -/
theorem parse_method_accepts_iff (s : JStr) (ps : List Ty) (rt : Option Ty) :
    parseMethod s = some (ps, rt) ↔ MethodTy s (ps, rt) :=
  parseMethod_iff s (ps, rt)

/-- `ReturnDescriptorSlice::parse` -/
theorem parse_return_accepts_iff (s : JStr) (t : Option Ty) : parseReturn s = some t ↔ ReturnTy s t :=
  parseReturn_iff s t

/-- rejection is exactly "outside the grammar" (trailing garbage, missing parentheses, illegal class names, …) -/
theorem parse_rejects_iff (s : JStr) :
    (parseField s = none ↔ ¬ ∃ t, FieldTy s t) ∧
    (parseMethod s = none ↔ ¬ ∃ m, MethodTy s m) ∧
    (parseReturn s = none ↔ ¬ ∃ t, ReturnTy s t) := by
  refine ⟨?_, ?_, ?_⟩
  · constructor
    · intro h ⟨t, ht⟩; rw [(parseField_iff s t).mpr ht] at h; simp at h
    · intro h
      cases hp : parseField s with
      | none => rfl
      | some t => exact absurd ⟨t, (parseField_iff s t).mp hp⟩ h
  · constructor
    · intro h ⟨t, ht⟩; rw [(parseMethod_iff s t).mpr ht] at h; simp at h
    · intro h
      cases hp : parseMethod s with
      | none => rfl
      | some t => exact absurd ⟨t, (parseMethod_iff s t).mp hp⟩ h
  · constructor
    · intro h ⟨t, ht⟩; rw [(parseReturn_iff s t).mpr ht] at h; simp at h
    · intro h
      cases hp : parseReturn s with
      | none => rfl
      | some t => exact absurd ⟨t, (parseReturn_iff s t).mp hp⟩ h

/-- the fuel of the parameter loop is irrelevant once it covers the input (`parseMethod` passes the length) -/
theorem read_params_fuel (s : JStr) (f1 f2 : Nat) (h1 : s.length ≤ f1) (h2 : s.length ≤ f2) :
    readParams f1 s = readParams f2 s :=
  readParams_fuel s f1 f2 h1 h2

/-- the strings that the unfixed code accepted (`L;`, `La.b;`, `La//b;`, `L[I;`) are rejected now, also as
parameters, array elements and return types -/
theorem lax_class_names_rejected :
    parseField (jstr "L;") = none ∧ parseField (jstr "La.b;") = none ∧ parseField (jstr "La//b;") = none ∧
    parseField (jstr "L[I;") = none ∧ parseField (jstr "[La/;") = none ∧
    parseMethod (jstr "(L;)V") = none ∧ parseMethod (jstr "()L/a;") = none ∧ parseReturn (jstr "[[L;") = none := by
  decide

example : parseMethod (jstr "(I[[Ljava/lang/Object;D)V") =
    some ([.prim .I, .arr 2 (.obj (jstr "java/lang/Object")), .prim .D], none) := by decide +kernel

/-! ## printing and parsing are mutually inverse -/

/-- whatever the grammar relates to a structure is what the printer prints for it -/
theorem grammar_print {s : JStr} {t : Ty} (h : FieldTy s t) : printTy t = some s :=
  printTy_of_FieldTy h

/-- parse then print reproduces the original string (field) -/
theorem parse_print {s : JStr} {t : Ty} (h : parseField s = some t) : printTy t = some s :=
  printTy_of_FieldTy ((parseField_iff s t).mp h)

theorem parse_print_method {s : JStr} {ps : List Ty} {rt : Option Ty} (h : parseMethod s = some (ps, rt)) :
    printMethod ps rt = some s :=
  printMethod_of_MethodTy ((parseMethod_iff s (ps, rt)).mp h)

theorem parse_print_return {s : JStr} {t : Option Ty} (h : parseReturn s = some t) : printReturn t = some s :=
  printReturn_of_ReturnTy ((parseReturn_iff s t).mp h)

/-- print then parse reproduces the structure, for every well-formed structure (`Array` dimension 1..255, class
names valid object class names); in particular the printer's `assert!` does not fire on well-formed values.
`wf` is not an ad-hoc restriction: by `wf_iff_denoted` it is exactly "the structure of some descriptor"; the two kinds
of Rust values outside it are exhibited by `print_parse_dim0_witness` (documented in the Rust doc comment of `Type`:
"you should never construct the `Type::Array` variant with a dimension of zero") and `print_assert_witness`. -/
theorem print_parse {t : Ty} (h : t.wf = true) : ∃ s, printTy t = some s ∧ parseField s = some t := by
  obtain ⟨s, h1, h2⟩ := FieldTy_of_wf h
  exact ⟨s, h1, (parseField_iff s t).mpr h2⟩

theorem print_parse_method {ps : List Ty} {rt : Option Ty} (hp : ∀ t ∈ ps, t.wf = true)
    (hr : ∀ t, rt = some t → t.wf = true) :
    ∃ s, printMethod ps rt = some s ∧ parseMethod s = some (ps, rt) := by
  obtain ⟨a, ha1, ha2⟩ := ParamsTy_of_wf ps hp
  obtain ⟨b, hb1, hb2⟩ := ReturnTy_of_wf hr
  exact ⟨LPAREN :: a ++ RPAREN :: b, by simp [printMethod, ha1, hb1],
    (parseMethod_iff _ _).mpr (MethodTy.mk ha2 hb2)⟩

theorem print_parse_return {t : Option Ty} (h : ∀ x, t = some x → x.wf = true) :
    ∃ s, printReturn t = some s ∧ parseReturn s = some t := by
  obtain ⟨s, h1, h2⟩ := ReturnTy_of_wf h
  exact ⟨s, h1, (parseReturn_iff s t).mpr h2⟩

/-- the parser only produces well-formed structures (so the two round trips compose) -/
theorem parse_wf {s : JStr} {t : Ty} (h : parseField s = some t) : t.wf = true := by
  have hf := flat_of_FieldTy ((parseField_iff s t).mp h)
  cases t with
  | prim p => rfl
  | obj n => exact (validObj_iff n).mpr hf.1
  | arr d b =>
    obtain ⟨h1, h2, p, hp, _⟩ := hf
    have hb : b.wf = true := by
      cases hp with
      | prim q => rfl
      | obj hn => exact (validObj_iff _).mpr hn
    simp [Ty.wf, h1, h2, hb]

/-- the well-formed structures are exactly the structures the grammar assigns to some descriptor -/
theorem wf_iff_denoted (t : Ty) : t.wf = true ↔ ∃ s, FieldTy s t := by
  constructor
  · intro h
    obtain ⟨s, _, hf⟩ := FieldTy_of_wf h
    exact ⟨s, hf⟩
  · intro ⟨s, hf⟩
    exact parse_wf ((parseField_iff s t).mpr hf)

/-- outside `wf` (1): `Type::Array(0, ArrayType::D)` is a Rust value different from `Type::D`; it prints as `D`, which
parses to `Type::D` -/
theorem print_parse_dim0_witness :
    (Ty.arr 0 (.prim .D)).wf = false ∧ printTy (.arr 0 (.prim .D)) = some (jstr "D") ∧
    parseField (jstr "D") = some (.prim .D) ∧ Ty.arr 0 (.prim .D) ≠ .prim .D := by decide

/-- a descriptor denotes one structure and a structure has one descriptor -/
theorem grammar_functional {s s' : JStr} {t t' : Ty} (h : FieldTy s t) (h' : FieldTy s' t') : s = s' ↔ t = t' := by
  constructor
  · intro e; subst e
    have a := (parseField_iff s t).mpr h
    have b := (parseField_iff s t').mpr h'
    rw [a] at b; exact Option.some.inj b
  · intro e; subst e
    have a := printTy_of_FieldTy h
    have b := printTy_of_FieldTy h'
    rw [a] at b; exact Option.some.inj b

example : (Ty.arr 3 (.obj (jstr "a/B$C"))).wf = true ∧
    printTy (.arr 3 (.obj (jstr "a/B$C"))) = some (jstr "[[[La/B$C;") := by decide

/-- the printer's `assert!(!class_name.starts_with('['))` in the `Type::Object` arm cannot fire for a value built
through safe API (`Type::Object` holds an `ObjClassName`, valid object class names do not start with `[`;
`from_inner_unchecked` is `unsafe`) -/
theorem print_obj_assert_unreachable {n : JStr} (h : validObj n = true) : printTy (.obj n) = some (cL :: n ++ [SEMI]) := by
  have hn := (validObj_iff n).mp h
  simp [printTy, startsWithBracket_false_of_not_mem (ClassName_no_bracket hn)]

/-- outside `wf` (2): …but the one in the `ArrayType::Object` arm can: that slot holds a `ClassName`, `ClassName::try_from("[I")`
succeeds (also after b182f7d: `[I` is an array field descriptor, hence a valid class name), and `ParsedFieldDescriptor(Type::Array(1, ArrayType::Object("[I"))).write()` panics.  (The correspondence
run replays this: request `desc-print field (arr 1 (obj #5b.49))`, both sides answer `ok panic`.) -/
theorem print_assert_witness :
    validClass (jstr "[I") = true ∧ printTy (.arr 1 (.obj (jstr "[I"))) = none := by decide

/-! ## the 255-dimension cap -/

/-- 255 dimensions are accepted … -/
theorem dims_cap_accept {p : JStr} {b : Base} (h : BaseTy p b) :
    parseField (List.replicate 255 LBRACKET ++ p) = some (.arr 255 b) :=
  (parseField_iff _ _).mpr (FieldTy_of_flat ⟨by omega, by omega, p, h, rfl⟩)

/-- … 256 or more are rejected (an error: no wrap-around of the `u8` counter, no truncation, no panic), whatever
follows; as a field, as a return descriptor and as the first parameter of a method descriptor.  This is the JVMS rule
(§4.3.2: "valid only if it represents 255 or fewer dimensions"), so the cap is *not* a deviation from the grammar:
`parse_accepts_iff` is stated against `FieldTy`, which carries the same bound. -/
theorem dims_cap_reject (n : Nat) (h : 256 ≤ n) (s : JStr) :
    parseField (List.replicate n LBRACKET ++ s) = none ∧ parseReturn (List.replicate n LBRACKET ++ s) = none ∧
    parseMethod (LPAREN :: (List.replicate n LBRACKET ++ s)) = none := by
  have hb := readBrackets_over n 0 s (by omega) (by omega)
  have hr : readFieldType (List.replicate n LBRACKET ++ s) = none := by simp [readFieldType, hb]
  refine ⟨by simp [parseField, hr], ?_, ?_⟩
  · cases n with
    | zero => omega
    | succ n =>
      rw [List.replicate_succ, List.cons_append] at hr ⊢
      simp only [parseReturn, readReturn, hr]
      rw [if_neg (by decide)]
  · simp only [parseMethod, if_true, readParams_over n h s]

/-- the other JVMS validity rule for descriptors, §4.3.3 "total length of 255 or less", is *not* enforced by
`MethodDescriptorSlice::parse`: 256 `int` parameters parse.  (It is not part of the grammar the property names;
recorded so that the comparison with JVMS is complete.  `get_arguments_size` refuses such input with an error, see
`args_size_spec`.) -/
theorem method_length_limit_not_enforced :
    parseMethod (LPAREN :: (List.replicate 256 cI ++ jstr ")V")) = some (List.replicate 256 (.prim .I), none) := by
  decide +kernel

theorem dims_cap :
    parseField (List.replicate 255 LBRACKET ++ jstr "I") = some (.arr 255 (.prim .I)) ∧
    parseField (List.replicate 256 LBRACKET ++ jstr "I") = none :=
  ⟨dims_cap_accept (BaseTy.prim .I), (dims_cap_reject 256 (Nat.le_refl _) _).1⟩

/-! ## `get_arguments_size` -/

/-- on a method descriptor: 1 (the implicit `this`, always counted) + 2 per `long`/`double` + 1 per other parameter
(arrays of `long`/`double` included); the return descriptor is ignored.  The accumulator is a `u8`: above 255 the
result is an error (cf30e8c; it was a panic of the overflow-checked build before; JVMS §4.3.3 limits method descriptors
to 255 slots, so this is outside valid class files). -/
theorem args_size_spec {s : JStr} {ps : List Ty} {rt : Option Ty} (h : MethodTy s (ps, rt)) :
    argsSize s = if 1 + slotsSum ps ≤ 255 then .ok (1 + slotsSum ps) else .err := by
  cases h with
  | mk hp hr =>
    rename_i a r
    have e : (LPAREN :: a) ++ RPAREN :: r = LPAREN :: (a ++ RPAREN :: r) := rfl
    rw [e]
    simp only [argsSize, if_true]
    exact argsLoop_params hp _ 1 r (by simp) (by omega)

example : argsSize (jstr "(IDLjava/lang/Thread;[J)Ljava/lang/Object;") = .ok 6 := by decide +kernel

/-! ## name predicates = their declarative specifications -/

/-- field, parameter and local variable names: non-empty, none of `. ; [ /` -/
theorem valid_unqualified_spec (s : JStr) :
    validUnqualified s = true ↔ s ≠ [] ∧ ∀ c ∈ s, c ≠ DOT ∧ c ≠ SEMI ∧ c ≠ LBRACKET ∧ c ≠ SLASH :=
  validUnqualified_iff s

/-- method names: additionally no `<` `>`, except for the two special names -/
theorem valid_method_spec (s : JStr) :
    validMethod s = true ↔ s = jstr "<init>" ∨ s = jstr "<clinit>" ∨
      (s ≠ [] ∧ ∀ c ∈ s, c ≠ DOT ∧ c ≠ SEMI ∧ c ≠ LBRACKET ∧ c ≠ SLASH ∧ c ≠ cLT ∧ c ≠ cGT) :=
  validMethod_iff s

/-- object class names: the JVMS `ClassName` -/
theorem valid_obj_spec (s : JStr) : validObj s = true ↔ ClassName s := validObj_iff s

/-- … i.e. `/`-joined unqualified names (which implies: does not start with `[`) -/
theorem valid_obj_joined (s : JStr) :
    validObj s = true ↔ ∃ parts : List JStr, parts ≠ [] ∧ (∀ p ∈ parts, Ident p) ∧ s = [SLASH].intercalate parts := by
  rw [validObj_iff, ClassName_iff_joined]

theorem valid_obj_not_bracket {s : JStr} (h : validObj s = true) : s.head? ≠ some LBRACKET := by
  intro e
  have := startsWithBracket_false_of_not_mem (ClassName_no_bracket ((validObj_iff s).mp h))
  rw [(startsWithBracket_iff s).mpr e] at this
  simp at this

/-- array class names **as coded** (since b182f7d): starts with `[` and `FieldDescriptorSlice::parse` accepts it -/
theorem valid_arr_as_coded (s : JStr) :
    validArr s = true ↔ s.head? = some LBRACKET ∧ (parseField s).isSome = true := by
  rw [validArr_iff, ArrayDescriptor_iff_parse]

/-- `ArrClassName` = its **documentation** ("Array class names always start with `[` followed by a field descriptor" /
error text "must be an array field descriptor"): exactly the JVMS array field descriptors (1 to 255 dimensions, then a
base type or `L ClassName ;`).  Full strength, every string. -/
theorem valid_arr_doc (s : JStr) : validArr s = true ↔ ArrayDescriptor s := validArr_iff s

/-- `ClassName` = its documentation: an object class name or an array class name.  Full strength, every string. -/
theorem valid_class_doc (s : JStr) : validClass s = true ↔ AnyClassName s := validClass_iff s

/-- every array field descriptor is accepted as `ArrClassName` and as `ClassName` -/
theorem arr_name_complete {s : JStr} (h : ArrayDescriptor s) : validArr s = true ∧ validClass s = true :=
  ⟨(validArr_iff s).mpr h, (validClass_iff s).mpr (Or.inr h)⟩

/-- the former gap (before b182f7d every `[`-prefixed string was accepted) is empty: nothing outside the documented
meaning is accepted by either predicate, and the three name types partition as documented -/
theorem arr_name_gap (s : JStr) :
    (validArr s = true → ArrayDescriptor s) ∧ (validClass s = true → AnyClassName s) ∧
    (validClass s = true ↔ validObj s = true ∨ validArr s = true) ∧ ¬ (validObj s = true ∧ validArr s = true) := by
  refine ⟨(validArr_iff s).mp, (validClass_iff s).mp, ?_, ?_⟩
  · rw [validClass_iff, validObj_iff, validArr_iff]
  · intro ⟨ho, ha⟩
    have h1 := startsWithBracket_false_of_not_mem (ClassName_no_bracket ((validObj_iff s).mp ho))
    have h2 := (startsWithBracket_iff s).mpr (ArrayDescriptor_head ((validArr_iff s).mp ha))
    rw [h1] at h2; cases h2

example : validArr (jstr "[[La/b;") = true ∧ validClass (jstr "[[La/b;") = true ∧ validClass (jstr "a/b") = true := by
  decide

/-- REGRESSION (repaired by b182f7d, former `arr_name_bracket_only_witness`): `[`, `[x`, `[V`, `[L;` are rejected as
`ArrClassName` and as `ClassName` (the repo's `#[ignore]`d tests `invalid_arr_class_names` / `invalid_class_names`
list `[` and `[V`) -/
theorem arr_name_bracket_only_rejected :
    validArr (jstr "[") = false ∧ validClass (jstr "[") = false ∧ validArr (jstr "[x") = false ∧
    validClass (jstr "[x") = false ∧ validArr (jstr "[V") = false ∧ validClass (jstr "[V") = false ∧
    validArr (jstr "[L;") = false ∧ validArr (jstr "[I") = true := by decide

/-- REGRESSION: more than 255 dimensions are not an array class name, whatever follows -/
theorem arr_name_over_255_rejected (n : Nat) (h : 256 ≤ n) (s : JStr) :
    validArr (List.replicate n LBRACKET ++ s) = false ∧ validClass (List.replicate n LBRACKET ++ s) = false := by
  have hp := (dims_cap_reject n h s).1
  have ha : validArr (List.replicate n LBRACKET ++ s) = false := by simp [validArr, hp]
  refine ⟨ha, ?_⟩
  cases n with
  | zero => omega
  | succ n =>
    rw [List.replicate_succ, List.cons_append] at ha ⊢
    simp [validClass, startsWithBracket, ha]

/-- the descriptor *newtypes* (`FieldDescriptor`, `MethodDescriptor`, `ReturnDescriptor`) do not validate at all:
their `check_valid` is `Ok(())` with a `TODO: parse the desc and fail if invalid`, so `FieldDescriptor::is_valid("foo")`
and `TryFrom` succeed and only `parse()` rejects (the repo's `#[ignore]`d tests `invalid_field_descriptors`,
`invalid_method_descriptors`, `invalid_return_descriptors` list this).  The property statement speaks about *parsing*
for descriptors, which is exact (`parse_accepts_iff`); this witness records the difference between the type and its
parser. -/
theorem descriptor_newtype_unchecked_witness :
    validDescriptorNewtype (jstr "foo") = true ∧ parseField (jstr "foo") = none ∧
    parseMethod (jstr "foo") = none ∧ parseReturn (jstr "foo") = none := by decide

/-- `ArrClassNameSlice::dimension` on array descriptors -/
theorem dimension_spec {s : JStr} {d : Nat} {b : Base} (h : FieldTy s (.arr d b)) : dimension s = some d :=
  dimension_of_FieldTy h

/-- REGRESSION (former `dimension_256_witness`: 256 brackets were a valid `ArrClassName` on which `dimension()`
panicked).  For every valid `ArrClassName` the count fits the `u8` (`as u8` does not truncate) and is not 0 (the
`assert_ne!` cannot fire): `dimension()` is total on the type and returns the number of leading `[`, 1..255. -/
theorem dimension_total {s : JStr} (h : validArr s = true) :
    ∃ d, dimension s = some d ∧ 1 ≤ d ∧ d ≤ 255 ∧ d = countBrackets s := by
  obtain ⟨d, b, hf⟩ := (validArr_iff s).mp h
  obtain ⟨h1, h2, p, hp, hs⟩ := flat_of_FieldTy hf
  refine ⟨d, dimension_of_FieldTy hf, h1, h2, ?_⟩
  subst hs
  obtain ⟨c, rest, hc, hcb, _⟩ := BaseTy_head hp
  rw [countBrackets_replicate d p (by rw [hc]; simpa using hcb)]

/-- the model's `none` (= panic) answer of `dimension` is unreachable through a valid `ArrClassName` -/
theorem dimension_no_panic (s : JStr) (h : validArr s = true) : dimension s ≠ none := by
  obtain ⟨d, hd, _⟩ := dimension_total h
  rw [hd]; exact fun e => by cases e

/-- `FieldDescriptor::from_class` -/
theorem from_class_spec (n : JStr) :
    (ClassName n → FieldTy (fromClass n) (.obj n)) ∧ (ArrayDescriptor n → fromClass n = n) := by
  constructor
  · intro h
    have := startsWithBracket_false_of_not_mem (ClassName_no_bracket h)
    simp only [fromClass, this, Bool.false_eq_true, if_false]
    exact FieldTy.obj h
  · intro h
    have := ArrayDescriptor_head h
    simp [fromClass, (startsWithBracket_iff n).mpr this]

/-- `ObjClassNameSlice::get_simple_name`: "the part after the last `/`", the whole name if there is none -/
theorem simple_name_spec (p q : JStr) (h : SLASH ∉ q) :
    simpleName (p ++ SLASH :: q) = q ∧ simpleName q = q :=
  ⟨simpleName_after_last p q h, simpleName_no_slash q h⟩

example : simpleName (jstr "org/example/ClassName") = jstr "ClassName" := by decide

/-! ## inner-class split / join (shared with C11) -/

theorem split_join {s p i : JStr} (h : InnerNames.split s = some (p, i)) : InnerNames.join p i = s :=
  Thm.C11.split_join h

/-- the two accessors `get_inner_class_parent` / `get_inner_class_name` are the two halves of the split: they are both
present or both absent, and when present they recombine to the name -/
theorem inner_parts_are_split (s : JStr) :
    (InnerNames.innerParent s).isSome = (InnerNames.innerName s).isSome ∧
    ∀ p i, InnerNames.innerParent s = some p → InnerNames.innerName s = some i → InnerNames.join p i = s := by
  unfold InnerNames.innerParent InnerNames.innerName
  cases h : InnerNames.split s with
  | none => simp
  | some pi =>
    obtain ⟨p, i⟩ := pi
    refine ⟨by simp, ?_⟩
    intro p' i' hp hi
    simp only [Option.map_some, Option.some.injEq] at hp hi
    subst hp; subst hi
    exact Thm.C11.split_join h

example : InnerNames.innerParent (jstr "a/B$C") = some (jstr "a/B") ∧ InnerNames.innerName (jstr "a/B$C") = some (jstr "C") ∧
    InnerNames.innerName (jstr "com/sun/proxy/$Proxy0") = none := by decide

theorem join_split {p i : JStr} (hp : p ≠ []) (hi : i ≠ []) (hps : p.getLast? ≠ some InnerNames.SLASH)
    (his : InnerNames.SLASH ∉ i) (hid : InnerNames.DOLLAR ∉ i) :
    InnerNames.split (InnerNames.join p i) = some (p, i) :=
  Thm.C11.join_split hp hi hps his hid

/-- the `// SAFETY:` claim of `from_inner_class`: joining two object class names gives an object class name -/
theorem join_valid {p i : JStr} (hp : validObj p = true) (hi : validObj i = true) :
    validObj (InnerNames.join p i) = true :=
  (validObj_iff _).mpr (ClassName_join ((validObj_iff p).mp hp) ((validObj_iff i).mp hi))

/-- on valid names `join` is undone by `split` whenever the inner name is simple (no `/`, no `$`) -/
theorem join_split_valid {p i : JStr} (hp : validObj p = true) (hi : validUnqualified i = true)
    (hid : InnerNames.DOLLAR ∉ i) : InnerNames.split (InnerNames.join p i) = some (p, i) := by
  have hcp := (validObj_iff p).mp hp
  have hii := (validUnqualified_iff i).mp hi
  refine Thm.C11.join_split (ClassName_ne_nil hcp) hii.1 ?_ (Ident_no_slash hii) hid
  -- a class name does not end in `/`
  clear hp hi hid hii
  induction hcp with
  | one h =>
    rename_i a
    intro e
    have hm : InnerNames.SLASH ∈ a := List.mem_of_getLast? e
    exact Ident_no_slash h hm
  | cons h hr ih =>
    rename_i a rest
    rw [List.getLast?_append]
    have : (SLASH :: rest).getLast? = rest.getLast? := by
      cases rest with
      | nil => exact absurd rfl (ClassName_ne_nil hr)
      | cons x xs => simp [List.getLast?_cons_cons]
    rw [this]
    cases hl : rest.getLast? with
    | none =>
      cases rest with
      | nil => exact absurd rfl (ClassName_ne_nil hr)
      | cons x xs => simp [List.getLast?_eq_none_iff] at hl
    | some x =>
      rw [hl] at ih
      simpa using ih

example : InnerNames.split (jstr "a/Outer$Inner") = some (jstr "a/Outer", jstr "Inner") := by decide

end Thm.C18
