import FeatherModel.Lemmas.DescGrammar
import FeatherModel.Lemmas.RemapperC
import FeatherModel.Lemmas.RemapProv

/-!
# C06 — remappers answer names and descriptors consistently with the mappings

Property theorems only. Models: `Model/Remapper.lean` (A/B remapper of `quill/src/remapper.rs`), `Model/MapDesc.lean`
(`map_desc`); specification of descriptors: `Spec/DescGrammar.lean` (JVMS §4.3 derivation trees and their printer).

Reading guide
* descriptors: `mapDesc_grammar` (shape preserved, exactly the class names rewritten, for every field / method / return
  descriptor of the grammar and any renaming), `mapDesc_tokens`/`mapDesc_accepts`/`mapDesc_rejects` (the same on raw
  strings, and the exact set of rejected strings), `mapDesc_rejects_automaton` (the decidable form the oracle evaluates);
* classes: `mapClass_spec` (counterpart of the last row naming the class in both namespaces, else unchanged),
  `mapClass_unmapped`, `mapClass_mapped`, `mapClassAny_array`, `remapperB_class`;
* members: `declares_spec` (what a class table contains), `member_resolution` (+ `fuel_independent`, `acyclic_fuel`):
  first declaration in pre-order over the provider's graph from the owner (the owner, then its super types in
  declaration order, recursively). `member_resolution_nearest` is the statement of the property text at full strength
  (classes without a mapping are searched through and contribute nothing), `member_resolution_unmapped_regression` the
  former counterexample (before `c873813` a class without a mapping hid the declarations of its super types),
  `unmapped_owner`, `member_resolution_own` (shadowing), `member_resolution_nowhere`;
* fallbacks: `fallback_spec`, `fallback_grammar`, `mref_array`, `ref_obj`;
* round trips X→Y→X: `roundtrip_class`, `roundtrip_desc`, `roundtrip_member` (+ `_query`) under the decidable hypothesis
  `injOn pairs img c` ("every row whose target is the image of `c` has source `c`": for a mapped name that it is the only
  source of its image, for an unmapped name that it is not a target), with `_witness`es outside it.
  `roundtrip_desc` additionally needs the images to be usable inside `L…;` (`validName`: non-empty, no `;`), which every
  checked `ObjClassName` satisfies; `roundtrip_desc_witness` is an unchecked name with a `;`.
* the provider carried into the other namespace (`JarSuperProv::remap`, `Model/RemapProv.lean`): `prov_remap_spec`
  (row-wise characterisation), `prov_remap_keys`, `prov_remap_set`, `prov_remap_keeps_edges` (every edge `(c, s)` of a
  surviving row becomes the edge `(map c, map s)`, nothing is dropped or added; names the mappings do not know stay,
  `prov_remap_unmapped`), `prov_remap_keeps_edges_inj` (unique keys + injective renaming: every row survives),
  `prov_remap_collision_witness` (two keys with one image: the earlier row's edges are gone — `IndexMap::insert`),
  `prov_remap_preorder` (the search order on the carried provider is the image of the search order), and the round trip
  of an *inherited* member through the carried provider, `roundtrip_inherited` (+ `roundtrip_inherited_hit`);
* history independence: `seq_pointwise`, `seq_history_independent`, `seq_prefix_irrelevant` (+ `seq_fresh`, `seq_length`,
  `seq_append`, `seq_reverse`, `seq_repeat`): the answers of one instance to a sequence of questions are the answers of a
  fresh instance to every single question (ops `map-seq`, `oracle-seq-history-independent`).
-/

namespace Thm.C06
open Remapper MapDesc Spec.Desc

/-! ## descriptors -/

/-- On a raw string that is a sequence of non-`L` characters and `L name ;` groups, `map_desc` rewrites exactly the
names and copies everything else. -/
theorem mapDesc_tokens (f : JStr → JStr) (ts : List Tok) (h : ∀ t ∈ ts, t.WF) :
    mapDesc f (render ts) = some (render (ts.map (Tok.map f))) :=
  mapDesc_render f ts h

/-- For every field, method and return descriptor of the JVMS grammar (any array nesting, any class names) and every
renaming `f`: the result is the descriptor of the same shape with every class name `n` replaced by `f n`. -/
theorem mapDesc_grammar (f : JStr → JStr) (d : Desc) (h : d.WF) :
    mapDesc f (print d) = some (print (d.map f)) :=
  mapDesc_print f d h

/-- `Desc.map` touches the class names only (left to right) -/
theorem mapDesc_grammar_names (f : JStr → JStr) (t : FieldTy) : (t.map f).names = t.names.map f :=
  FieldTy.names_map f t

example : mapDesc (fun n => n ++ jstr "!") (jstr "([[LL;IL$;)[La/b;") = some (jstr "([[LL!;IL$!;)[La/b!;") := by decide

example : (Desc.method { params := [.arr (.arr (.obj (jstr "L"))), .prim .I], ret := some (.obj (jstr "é")) }).WF :=
  (parse?_sound (s := jstr "([[LL;I)Lé;") (by decide)).2

/-- the accepted strings -/
theorem mapDesc_accepts (f : JStr → JStr) (s : JStr) :
    (mapDesc f s).isSome ↔ ∃ ts, (∀ t ∈ ts, t.WF) ∧ s = render ts :=
  mapDesc_isSome_iff f s

/-- `map_desc` fails exactly on strings that, after a well-scanned prefix, have an `L` followed by `;` or by no `;` -/
theorem mapDesc_rejects (f : JStr → JStr) (s : JStr) :
    mapDesc f s = none ↔
      ∃ ts rest, (∀ t ∈ ts, t.WF) ∧ s = render ts ++ MapDesc.CH_L :: rest ∧
        (rest.head? = some MapDesc.SEMI ∨ MapDesc.SEMI ∉ rest) :=
  mapDesc_none_iff f s

/-- rejection does not depend on the mappings -/
theorem mapDesc_rejects_indep (f g : JStr → JStr) (s : JStr) : (mapDesc f s).isNone = (mapDesc g s).isNone :=
  mapDesc_isNone_indep f g s

/-- decidable form: `map_desc` fails exactly on the strings outside the regular language
`( non-L | L non-; non-;* ; )*` (automaton `MapDesc.accepts`, evaluated by the oracle `oracle-desc-rejects`) -/
theorem mapDesc_rejects_automaton (f : JStr → JStr) (s : JStr) : mapDesc f s = none ↔ accepts s = false := by
  rw [← mapDesc_isSome_accepts f s]
  cases mapDesc f s <;> simp

example : accepts (jstr "([[LL;IL$;)[La/b;") = true ∧ accepts (jstr "(L;)V") = false ∧ accepts (jstr "[La") = false := by
  decide

/-- a descriptor of the grammar is never rejected -/
theorem mapDesc_grammar_total (f : JStr → JStr) (d : Desc) (h : d.WF) : mapDesc f (print d) ≠ none := by
  rw [mapDesc_grammar f d h]; simp

/-! ## class names -/

/-- `remapper_a(src, dst).map_class`: the `dst`-name of the *last* row that has `c` as `src`-name and a `dst`-name;
`c` itself if there is no such row. -/
theorem mapClass_spec (m : Mappings) (src dst : Nat) (c : JStr) :
    mapClass (aTable m src dst) c =
      match lastPair (classPairs m src dst) c with
      | some y => y
      | none => c := by
  simp only [mapClass, mapClassFail, aTable, lookup_tableOf]
  rfl

theorem mapClassFail_spec (m : Mappings) (src dst : Nat) (c : JStr) :
    mapClassFail (aTable m src dst) c = lastPair (classPairs m src dst) c := by
  simp only [mapClassFail, aTable, lookup_tableOf]

/-- unmapped names are left alone -/
theorem mapClass_unmapped (m : Mappings) (src dst : Nat) (c : JStr)
    (h : ∀ p ∈ classPairs m src dst, p.1 ≠ c) : mapClass (aTable m src dst) c = c := by
  rw [mapClass_spec]
  cases hl : lastPair (classPairs m src dst) c with
  | none => rfl
  | some y => exact absurd rfl (h _ (lastPair_some hl))

/-- a mapped name goes to a name some row pairs it with -/
theorem mapClass_mapped (m : Mappings) (src dst : Nat) (c y : JStr)
    (h : mapClassFail (aTable m src dst) c = some y) : (c, y) ∈ classPairs m src dst := by
  rw [mapClassFail_spec] at h
  exact lastPair_some h

/-- the rows: both names present -/
theorem classPairs_spec (m : Mappings) (src dst : Nat) (p : JStr × JStr) :
    p ∈ classPairs m src dst ↔
      ∃ e ∈ m.classes, nameAt e.2.names src = some p.1 ∧ nameAt e.2.names dst = some p.2 :=
  mem_pairsOf

/-- namespaces that do not exist are refused -/
theorem remapperA_none_iff (m : Mappings) (src dst : Nat) :
    remapperA m src dst = none ↔ ¬ (src < m.ns.length ∧ dst < m.ns.length) := by
  unfold remapperA
  split <;> simp_all

/-- the class half of `remapper_b(src, dst)` is `remapper_a(src, dst)` -/
theorem remapperB_class {m : Mappings} {src dst : Nat} {r : BTable} (h : remapperB m src dst = some r) (c : JStr) :
    mapClassFail (classTable r) c = mapClassFail (aTable m src dst) c ∧
    mapClass (classTable r) c = mapClass (aTable m src dst) c :=
  ⟨classTable_lookup_eq h c, mapClass_classTable h c⟩

/-- array class names: the element type is rewritten like a field descriptor -/
theorem mapClassAny_array (t : ATable) (e : FieldTy) (h : e.WF) :
    mapClassAny t (printField (.arr e)) = some (printField (.arr (e.map (mapClass t)))) := by
  have := mapDesc_grammar (mapClass t) (.field (.arr e)) h
  simpa [mapClassAny, mapDescWith, printField, Spec.Desc.LBRACK, Remapper.LBRACK, print, Desc.map, FieldTy.map]
    using this

theorem mapClassAny_obj (t : ATable) (c : JStr) (h : c.head? ≠ some Remapper.LBRACK) :
    mapClassAny t c = some (mapClass t c) := by
  simp [mapClassAny, h]

/-! ## member tables -/

inductive Kind where
  | field | method

def Kind.sel : Kind → BClass → AList MemberKey MemberKey
  | .field => BClass.fields
  | .method => BClass.methods

def Kind.members : Kind → Class → List (JStr × Names)
  | .field => fieldMembers
  | .method => methodMembers

theorem bclassOf_sel (k : Kind) {ts td : ATable} {s d : Nat} {c : Class} {bc : BClass}
    (h : bclassOf ts td s d c = some bc) :
    ∃ rows, memberRows ts td s d (k.members c) = some rows ∧ k.sel bc = tableOf rows := by
  unfold bclassOf at h
  split at h
  · rename_i nt fr mr h1 h2 h3
    simp only [Option.some.injEq] at h
    subst h
    cases k
    · exact ⟨fr, h2, rfl⟩
    · exact ⟨mr, h3, rfl⟩
  · simp at h

/-- the rows of a member table: members with both names, keyed by the `src`-name and the stored descriptor renamed
from the first namespace to `src`; values likewise for `dst` -/
theorem memberRows_spec (ts td : ATable) (s d : Nat) (mems : List (JStr × Names)) (rows : List (MemberKey × MemberKey))
    (h : memberRows ts td s d mems = some rows) :
    rows = mems.filterMap (fun e =>
      match nameAt e.2 s, nameAt e.2 d, mapDescWith ts e.1, mapDescWith td e.1 with
      | some nf, some nt, some df, some dt => some ((nf, df), (nt, dt))
      | _, _, _, _ => none) := by
  induction mems generalizing rows with
  | nil => simp [memberRows] at h; subst h; rfl
  | cons e rest ih =>
    obtain ⟨desc, names⟩ := e
    simp only [memberRows] at h
    simp only [List.filterMap_cons]
    cases h1 : nameAt names s with
    | none => rw [h1] at h; simp only at h; simpa using ih rows h
    | some nf =>
      cases h2 : nameAt names d with
      | none => rw [h1, h2] at h; simp only at h; simpa using ih rows h
      | some nt =>
        rw [h1, h2] at h
        simp only at h
        cases h3 : mapDescWith ts desc with
        | none => rw [h3] at h; simp at h
        | some df =>
          cases h4 : mapDescWith td desc with
          | none => rw [h3, h4] at h; simp at h
          | some dt =>
            rw [h3, h4] at h
            simp only at h
            cases h5 : memberRows ts td s d rest with
            | none => rw [h5] at h; simp at h
            | some rows' =>
              rw [h5] at h
              simp only [Option.some.injEq] at h
              subst h
              simp [ih rows' h5]

/-- what a class of the B remapper declares for a key: taken from the last row carrying the class name (with a
`dst`-name); inside it the last member row with that key wins -/
theorem declares_spec (k : Kind) {m : Mappings} {src dst : Nat} {r : BTable} (h : remapperB m src dst = some r)
    (o : JStr) (key : MemberKey) :
    declares k.sel r key o =
      match selectedRow m src dst o with
      | none => none
      | some row =>
        match memberRows (aTable m 0 src) (aTable m 0 dst) src dst (k.members row) with
        | none => none
        | some rows => lastPair rows key := by
  have hb := remapperB_lookup h o
  unfold selectedRow declares
  cases hl : lastMatch (rowFor src dst o) m.classes with
  | none => rw [hl] at hb; simp only at hb; simp [hb]
  | some e =>
    rw [hl] at hb
    obtain ⟨bc, hb1, hb2⟩ := hb
    obtain ⟨rows, hr1, hr2⟩ := bclassOf_sel k hb1
    simp only [hb2, hr1, hr2, lookup_tableOf]

/-! ## super-type search -/

/-- a definite answer does not depend on the fuel -/
theorem fuel_independent (sel : BClass → AList MemberKey MemberKey) (r : BTable) (sup : Supers) (key : MemberKey)
    {f1 f2 : Nat} {o : JStr} {r1 r2 : Option MemberKey}
    (h1 : mapMemberFail sel r sup f1 o key = some r1) (h2 : mapMemberFail sel r sup f2 o key = some r2) : r1 = r2 := by
  rcases Nat.le_total f1 f2 with hle | hle
  · have := mapMemberFail_mono sel r sup key hle h1
    rw [h2] at this
    exact (Option.some.inj this).symm
  · have := mapMemberFail_mono sel r sup key hle h2
    rw [h1] at this
    exact Option.some.inj this

theorem fuel_mono (sel : BClass → AList MemberKey MemberKey) (r : BTable) (sup : Supers) (key : MemberKey)
    {f f' : Nat} (hle : f ≤ f') {o : JStr} {res : Option MemberKey}
    (h : mapMemberFail sel r sup f o key = some res) : mapMemberFail sel r sup f' o key = some res :=
  mapMemberFail_mono sel r sup key hle h

/-- `map_field_fail` / `map_method_fail` = the first class, in pre-order over the provider's graph from the owner (the
owner, then its super types in declaration order, recursively), that declares the key. `order` is that pre-order, which
exists as soon as the traversal from `o` terminates (`acyclic_fuel`). Classes without a mapping declare nothing
(`declares_unmapped`) but are searched through. -/
theorem member_resolution (sel : BClass → AList MemberKey MemberKey) (r : BTable) (sup : Supers) (key : MemberKey)
    {f f' : Nat} {o : JStr} {order : List JStr} (hd : dfs sup f o = some order) (hle : f ≤ f') :
    mapMemberFail sel r sup f' o key = some (order.findSome? (declares sel r key)) :=
  mapMemberFail_mono sel r sup key hle (mapMemberFail_dfs sel r sup key f o order hd)

/-- a class without a mapping declares nothing -/
theorem declares_unmapped (sel : BClass → AList MemberKey MemberKey) (r : BTable) (key : MemberKey) (c : JStr)
    (h : AList.lookup c r = none) : declares sel r key c = none := by
  simp [declares, h]

/-- **Nearest declaring super type (full strength since `c873813`).** The statement of the property text: the answer is
the declaration of the first class along the pre-order of the provider's graph that has a mapping declaring the key — no
hypothesis about which classes of the hierarchy have a mapping (formerly `member_resolution_nearest_partial`, which
needed every class of the pre-order to have one). -/
theorem member_resolution_nearest (sel : BClass → AList MemberKey MemberKey) (r : BTable) (sup : Supers)
    (key : MemberKey) {f f' : Nat} {o : JStr} {order : List JStr} (hd : dfs sup f o = some order) (hle : f ≤ f') :
    mapMemberFail sel r sup f' o key =
      some ((order.filter fun c => (AList.lookup c r).isSome).findSome? (declares sel r key)) := by
  rw [member_resolution sel r sup key hd hle]
  congr 1
  clear hd
  induction order with
  | nil => rfl
  | cons c rest ih =>
    simp only [List.findSome?_cons, List.filter_cons]
    cases hl : AList.lookup c r with
    | none => simpa [declares_unmapped sel r key c hl] using ih
    | some cls =>
      simp only [Option.isSome_some, if_true, List.findSome?_cons]
      cases declares sel r key c with
      | some v => rfl
      | none => exact ih

/-- the pre-order itself is fuel independent -/
theorem dfs_fuel_mono (sup : Supers) {f f' : Nat} (hle : f ≤ f') {o : JStr} {order : List JStr}
    (h : dfs sup f o = some order) : dfs sup f' o = some order :=
  dfs_mono sup hle h

/-- what the pre-order is: the class followed by the pre-orders of its super types -/
theorem dfs_unfold (sup : Supers) (f : Nat) (o : JStr) :
    dfs sup (f + 1) o =
      match AList.lookup o sup with
      | none => some [o]
      | some ss =>
        match concatM (fun s => dfs sup f s) ss with
        | none => none
        | some l => some (o :: l) := by
  rw [dfs]
  rfl

/-- acyclic provider (a rank decreasing along its super-type edges): the fuel the driver uses, `number of provider
rows + 1`, always suffices -/
theorem acyclic_fuel (sup : Supers) (rank : JStr → Nat) (hr : Ranked sup rank) (o : JStr) :
    ∃ order, dfs sup (defaultFuel sup) o = some order := by
  apply dfs_path sup rank hr (defaultFuel sup) o [] List.nodup_nil (by simp) (by simp)
  simp [defaultFuel]

theorem member_resolution_acyclic (sel : BClass → AList MemberKey MemberKey) (r : BTable) (sup : Supers)
    (rank : JStr → Nat) (hr : Ranked sup rank) (o : JStr) (key : MemberKey) :
    ∃ order, dfs sup (defaultFuel sup) o = some order ∧
      ∀ f, defaultFuel sup ≤ f → mapMemberFail sel r sup f o key = some (order.findSome? (declares sel r key)) := by
  obtain ⟨order, h⟩ := acyclic_fuel sup rank hr o
  exact ⟨order, h, fun f hf => member_resolution sel r sup key h hf⟩

/-- an owner without a mapping passes the question on to its super types (before `c873813`: answered "no mapping") -/
theorem unmapped_owner (sel : BClass → AList MemberKey MemberKey) (r : BTable) (sup : Supers) (key : MemberKey)
    (f : Nat) (o : JStr) (h : AList.lookup o r = none) :
    mapMemberFail sel r sup (f + 1) o key =
      match AList.lookup o sup with
      | none => some none
      | some ss => firstSomeM (fun s => mapMemberFail sel r sup f s key) ss := by
  rw [mapMemberFail, declares_unmapped sel r key o h]
  rfl

/-- the owner declares the member itself: its own answer, whatever the super types say (shadowing) -/
theorem member_resolution_own (sel : BClass → AList MemberKey MemberKey) (r : BTable) (sup : Supers) (key v : MemberKey)
    (f : Nat) (o : JStr) (h : declares sel r key o = some v) : mapMemberFail sel r sup (f + 1) o key = some (some v) := by
  rw [mapMemberFail, h]

/-- declared nowhere along the search order: no answer (the caller falls back, `fallback_spec`) -/
theorem member_resolution_nowhere (sel : BClass → AList MemberKey MemberKey) (r : BTable) (sup : Supers) (key : MemberKey)
    {f f' : Nat} {o : JStr} {order : List JStr} (hd : dfs sup f o = some order) (hle : f ≤ f')
    (h : ∀ c ∈ order, declares sel r key c = none) : mapMemberFail sel r sup f' o key = some none := by
  rw [member_resolution sel r sup key hd hle]
  congr 1
  exact List.findSome?_eq_none_iff.mpr h

def fldU : MemberKey × Field :=
  ((jstr "f", jstr "I"), { desc := jstr "I", names := [some (jstr "f"), some (jstr "g")], doc := none })

def clsU (n t : String) (fields : AList MemberKey Field) : JStr × Class :=
  (jstr n, { names := [some (jstr n), some (jstr t)], doc := none, fields := fields, methods := [] })

/-- only `P` has a mapping (`P ↦ Q`, declaring `f:I ↦ g`) -/
def mU : Mappings := { ns := [jstr "official", jstr "named"], doc := none, classes := [clsU "P" "Q" [fldU]] }

/-- `C extends P` -/
def supU : Supers := [(jstr "C", [jstr "P"])]

/-- **Regression** (the former `member_resolution_unmapped_witness`, defect fixed in `c873813`): `P` declares `f:I ↦ g`,
`C` (not in the mappings) extends `P`. The pre-order from `C` is `[C, P]`, its first declaration of `f:I` is `g:I`, and
that is now the answer for `C.f` (it used to be "no mapping", leaving `C.f` unrenamed while `P.f` became `g`). -/
theorem member_resolution_unmapped_regression :
    dfs supU (defaultFuel supU) (jstr "C") = some [jstr "C", jstr "P"] ∧
    (remapperB mU 0 1).bind (fun r => AList.lookup (jstr "C") r) = none ∧
    (remapperB mU 0 1).bind (fun r => [jstr "C", jstr "P"].findSome? (declares BClass.fields r (jstr "f", jstr "I"))) =
      some (jstr "g", jstr "I") ∧
    (remapperB mU 0 1).bind (fun r => mapMemberFail BClass.fields r supU (defaultFuel supU) (jstr "C") (jstr "f", jstr "I")) =
      some (some (jstr "g", jstr "I")) ∧
    (remapperB mU 0 1).bind (fun r => mapMember BClass.fields r supU (defaultFuel supU) (jstr "C") (jstr "f", jstr "I")) =
      some (some (jstr "g", jstr "I")) ∧
    (remapperB mU 0 1).bind (fun r => mapMember BClass.fields r supU (defaultFuel supU) (jstr "P") (jstr "f", jstr "I")) =
      some (some (jstr "g", jstr "I")) := by
  decide

/-- a diamond with a class that has no mapping in the middle: `D extends B, C`; `B extends A`; `C extends A`; `A` and `C`
declare `f:I` (to different names), `B` is not in the mappings. Pre-order `[D, B, A, C, A]`; the first declaration is
`A`'s, found through `B`, although `C` is a direct super type — depth first, in declaration order. -/
def mD : Mappings :=
  { ns := [jstr "official", jstr "named"], doc := none,
    classes := [clsU "A" "A1" [fldU], clsU "D" "D1" [],
      clsU "C" "C1" [((jstr "f", jstr "I"), { desc := jstr "I", names := [some (jstr "f"), some (jstr "h")], doc := none })]] }

def supD : Supers := [(jstr "D", [jstr "B", jstr "C"]), (jstr "B", [jstr "A"]), (jstr "C", [jstr "A"])]

example :
    dfs supD (defaultFuel supD) (jstr "D") = some [jstr "D", jstr "B", jstr "A", jstr "C", jstr "A"] ∧
    (remapperB mD 0 1).bind (fun r => AList.lookup (jstr "B") r) = none ∧
    (remapperB mD 0 1).bind (fun r => mapMemberFail BClass.fields r supD (defaultFuel supD) (jstr "D") (jstr "f", jstr "I")) =
      some (some (jstr "g", jstr "I")) ∧
    (remapperB mD 0 1).bind (fun r => mapMemberFail BClass.fields r supD (defaultFuel supD) (jstr "C") (jstr "f", jstr "I")) =
      some (some (jstr "h", jstr "I")) ∧
    (remapperB mD 0 1).bind (fun r => mapMemberFail BClass.fields r supD (defaultFuel supD) (jstr "B") (jstr "x", jstr "I")) =
      some none := by
  decide

/-! ## fallbacks -/

/-- `map_field` / `map_method`: the search result if there is one, else the unchanged name with the remapped descriptor;
an error iff the descriptor is rejected -/
theorem fallback_spec (sel : BClass → AList MemberKey MemberKey) (r : BTable) (sup : Supers) (fuel : Nat)
    (o : JStr) (key : MemberKey) (res : Option MemberKey) (h : mapMemberFail sel r sup fuel o key = some res) :
    mapMember sel r sup fuel o key =
      some (match (generalizing := false) res with
        | some v => some v
        | none => (mapDescWith (classTable r) key.2).map (fun d => (key.1, d))) := by
  unfold mapMember fallback
  rw [h]
  cases res with
  | some v => rfl
  | none => cases mapDescWith (classTable r) key.2 <;> rfl

/-- the fallback on a descriptor of the grammar -/
theorem fallback_grammar (sel : BClass → AList MemberKey MemberKey) (r : BTable) (sup : Supers) (fuel : Nat)
    (o n : JStr) (d : Desc) (hd : d.WF) (h : mapMemberFail sel r sup fuel o (n, print d) = some none) :
    mapMember sel r sup fuel o (n, print d) = some (some (n, print (d.map (mapClass (classTable r))))) := by
  rw [fallback_spec sel r sup fuel o _ none h]
  simp [mapDescWith, mapDesc_grammar _ d hd]

/-- `map_method_ref` on an array owner: name and descriptor untouched, the class through `map_desc` -/
theorem mref_array (r : BTable) (sup : Supers) (fuel : Nat) (cls : JStr) (key : MemberKey)
    (h : cls.head? = some Remapper.LBRACK) :
    mapMethodRef r sup fuel cls key = some ((mapDescWith (classTable r) cls).map (fun c => (c, key))) := by
  unfold mapMethodRef
  simp only [h, if_true]
  cases mapDescWith (classTable r) cls <;> rfl

theorem mref_array_grammar (r : BTable) (sup : Supers) (fuel : Nat) (e : FieldTy) (he : e.WF) (key : MemberKey) :
    mapMethodRef r sup fuel (printField (.arr e)) key =
      some (some (printField (.arr (e.map (mapClass (classTable r)))), key)) := by
  rw [mref_array r sup fuel _ key (by simp [printField, Spec.Desc.LBRACK, Remapper.LBRACK])]
  have := mapClassAny_array (classTable r) e he
  simp only [mapClassAny, printField, List.head?_cons, Spec.Desc.LBRACK, Remapper.LBRACK, if_true] at this
  simp only [printField, Spec.Desc.LBRACK, this, Option.map_some]

/-- references to members of object classes: member through `map_field`/`map_method`, class through `map_class` -/
theorem ref_obj (sel : BClass → AList MemberKey MemberKey) (r : BTable) (sup : Supers) (fuel : Nat) (cls : JStr)
    (key k' : MemberKey) (h : mapMember sel r sup fuel cls key = some (some k')) :
    mapRefObj sel r sup fuel cls key = some (some (mapClass (classTable r) cls, k')) := by
  unfold mapRefObj
  rw [h]

/-! ## round trips -/

/-- class names: X→Y→X is the identity on every name that is the only source of its image (for an unmapped name:
that is not a target name) -/
theorem roundtrip_class (m : Mappings) (x y : Nat) (c : JStr)
    (h : injOn (classPairs m x y) (mapClass (aTable m x y) c) c = true) :
    mapClass (aTable m y x) (mapClass (aTable m x y) c) = c := by
  simp only [mapClass_eq_getD, mapClassFail, aTable, lookup_tableOf, classPairs_swap m x y] at h ⊢
  exact roundtrip_getD (classPairs m x y) c h

/-- the same through the B remappers -/
theorem roundtrip_class_b {m : Mappings} {x y : Nat} {rf rb : BTable}
    (hf : remapperB m x y = some rf) (hb : remapperB m y x = some rb) (c : JStr)
    (h : injOn (classPairs m x y) (mapClass (classTable rf) c) c = true) :
    mapClass (classTable rb) (mapClass (classTable rf) c) = c := by
  rw [mapClass_classTable hf] at h ⊢
  rw [mapClass_classTable hb]
  exact roundtrip_class m x y c h

def fldW (n t : String) : MemberKey × Field :=
  ((jstr n, jstr "I"), { desc := jstr "I", names := [some (jstr n), some (jstr t)], doc := none })

def clsW (n t : String) (fields : AList MemberKey Field) : JStr × Class :=
  (jstr n, { names := [some (jstr n), some (jstr t)], doc := none, fields := fields, methods := [] })

def mW : Mappings :=
  { ns := [jstr "official", jstr "named"], doc := none,
    classes := [clsW "A" "Z" [], clsW "B" "Z" [fldW "f" "h", fldW "g" "h"], clsW "S" "a;b" []] }

/-- two classes with the same target: `A ↦ Z ↦ B` -/
theorem roundtrip_class_witness :
    injOn (classPairs mW 0 1) (mapClass (aTable mW 0 1) (jstr "A")) (jstr "A") = false ∧
    mapClass (aTable mW 1 0) (mapClass (aTable mW 0 1) (jstr "A")) = jstr "B" := by
  decide

/-- the hypothesis holds for the other class -/
example : injOn (classPairs mW 0 1) (mapClass (aTable mW 0 1) (jstr "S")) (jstr "S") = true := by decide

/-- descriptors: X→Y→X is the identity on every descriptor of the grammar all of whose class names are the only source of
their image, the images being usable inside `L…;` (non-empty, no `;` — the invariant of a checked `ObjClassName`,
`duke::tree::names::is_valid_obj_class_name`; the mapping readers construct names checked) -/
theorem roundtrip_desc (m : Mappings) (x y : Nat) (d : Desc) (hwf : d.WF)
    (hinj : ∀ c ∈ d.names, injOn (classPairs m x y) (mapClass (aTable m x y) c) c = true)
    (hval : ∀ c ∈ d.names, validName (mapClass (aTable m x y) c)) :
    ∃ d', mapDescWith (aTable m x y) (print d) = some d' ∧ mapDescWith (aTable m y x) d' = some (print d) := by
  refine ⟨print (d.map (mapClass (aTable m x y))), mapDesc_grammar _ d hwf, ?_⟩
  unfold mapDescWith
  rw [mapDesc_grammar _ _ (Desc.wf_map _ d hval), Desc.map_map]
  rw [Desc.map_id_on (mapClass (aTable m y x) ∘ mapClass (aTable m x y)) d
    (fun c hc => roundtrip_class m x y c (hinj c hc))]

theorem roundtrip_desc_b {m : Mappings} {x y : Nat} {rf rb : BTable}
    (hf : remapperB m x y = some rf) (hb : remapperB m y x = some rb) (d : Desc) (hwf : d.WF)
    (hinj : ∀ c ∈ d.names, injOn (classPairs m x y) (mapClass (classTable rf) c) c = true)
    (hval : ∀ c ∈ d.names, validName (mapClass (classTable rf) c)) :
    ∃ d', mapDescWith (classTable rf) (print d) = some d' ∧ mapDescWith (classTable rb) d' = some (print d) := by
  have e1 : mapClass (classTable rf) = mapClass (aTable m x y) := funext (mapClass_classTable hf)
  have e2 : mapClass (classTable rb) = mapClass (aTable m y x) := funext (mapClass_classTable hb)
  unfold mapDescWith
  rw [e1] at hinj hval ⊢
  rw [e2]
  exact roundtrip_desc m x y d hwf hinj hval

/-- a target name containing `;` breaks the descriptor round trip although the class name itself is injectively named -/
theorem roundtrip_desc_witness :
    injOn (classPairs mW 0 1) (mapClass (aTable mW 0 1) (jstr "S")) (jstr "S") = true ∧
    (mapDescWith (aTable mW 0 1) (jstr "LS;")).bind (mapDescWith (aTable mW 1 0)) = some (jstr "La;b;") := by
  decide

/-- members: if the owner's table maps `key ↦ key'`, the owner is the only source of its image and, inside the row the
table was built from, `key` is the only source of `key'`, then the reverse remapper maps `key'` back to `key` in the
image of the owner. (Declared members; an *inherited* reference maps back through the provider of the other
namespace, `JarSuperProv::remap`: `roundtrip_inherited`.) -/
theorem roundtrip_member (k : Kind) {m : Mappings} {x y : Nat} {rf rb : BTable}
    (hf : remapperB m x y = some rf) (hb : remapperB m y x = some rb)
    {o : JStr} {cls : BClass} {row : Class} {rows : List (MemberKey × MemberKey)} {key key' : MemberKey}
    (ho : AList.lookup o rf = some cls) (hk : AList.lookup key (k.sel cls) = some key')
    (hrow : selectedRow m x y o = some row)
    (hrows : memberRows (aTable m 0 x) (aTable m 0 y) x y (k.members row) = some rows)
    (hc : injOn (classPairs m x y) cls.name o = true) (hm : injOn rows key' key = true) :
    declares k.sel rb key' cls.name = some key := by
  -- forward: the selected row
  have hfl := remapperB_lookup hf o
  unfold selectedRow at hrow
  cases hl : lastMatch (rowFor x y o) m.classes with
  | none => rw [hl] at hrow; simp at hrow
  | some e =>
    rw [hl] at hfl hrow
    simp only [Option.some.injEq] at hrow
    subst hrow
    obtain ⟨bc, hbc, hlook⟩ := hfl
    rw [ho] at hlook
    simp only [Option.some.injEq] at hlook
    subst hlook
    obtain ⟨rowsF, hr1, hr2⟩ := bclassOf_sel k hbc
    rw [hrows] at hr1
    simp only [Option.some.injEq] at hr1
    subst hr1
    have hname := bclassOf_name hbc
    obtain ⟨_, hrowfor⟩ := lastMatch_some hl
    have hxo : nameAt e.2.names x = some o := by
      simp only [rowFor, Bool.and_eq_true, beq_iff_eq] at hrowfor
      exact hrowfor.1
    -- backward: the same row is selected
    have hsel : lastMatch (rowFor y x cls.name) m.classes = some e := by
      apply lastMatch_transfer hl
      · simp [rowFor, hname, hxo]
      · intro e' he' hq
        simp only [rowFor, Bool.and_eq_true, beq_iff_eq] at hq ⊢
        obtain ⟨hq1, hq2⟩ := hq
        cases hx' : nameAt e'.2.names x with
        | none => simp [hx'] at hq2
        | some x' =>
          have hmem : (x', cls.name) ∈ classPairs m x y := mem_pairsOf.mpr ⟨e', he', hx', hq1⟩
          have := injOn_spec hc _ hmem rfl
          simp only at this
          subst this
          exact ⟨rfl, by simp [hq1]⟩
    have hbl := remapperB_lookup hb cls.name
    rw [hsel] at hbl
    obtain ⟨bc', hbc', hlook'⟩ := hbl
    obtain ⟨rowsB, hb1, hb2⟩ := bclassOf_sel k hbc'
    rw [memberRows_swap (aTable m 0 x) (aTable m 0 y) x y, hrows] at hb1
    simp only [Option.map_some, Option.some.injEq] at hb1
    subst hb1
    unfold declares
    rw [hlook']
    simp only [hb2]
    rw [hr2] at hk
    exact roundtrip_lookup rows key key' hk hm

/-- the row and its member rows named in `roundtrip_member` exist whenever the owner has a table -/
theorem roundtrip_member_rows (k : Kind) {m : Mappings} {x y : Nat} {rf : BTable} (hf : remapperB m x y = some rf)
    {o : JStr} {cls : BClass} (ho : AList.lookup o rf = some cls) :
    ∃ row rows, selectedRow m x y o = some row ∧
      memberRows (aTable m 0 x) (aTable m 0 y) x y (k.members row) = some rows ∧ k.sel cls = tableOf rows := by
  have hfl := remapperB_lookup hf o
  unfold selectedRow
  cases hl : lastMatch (rowFor x y o) m.classes with
  | none => rw [hl] at hfl; simp only at hfl; rw [ho] at hfl; simp at hfl
  | some e =>
    rw [hl] at hfl
    obtain ⟨bc, hbc, hlook⟩ := hfl
    rw [ho] at hlook
    simp only [Option.some.injEq] at hlook
    subst hlook
    obtain ⟨rows, h1, h2⟩ := bclassOf_sel k hbc
    exact ⟨e.2, rows, rfl, h1, h2⟩

/-- consequence for the queries: asking the reverse remapper about the mapped member of the mapped owner gives the
original back, whatever provider it uses (own table first) -/
theorem roundtrip_member_query (k : Kind) {m : Mappings} {x y : Nat} {rf rb : BTable}
    (hf : remapperB m x y = some rf) (hb : remapperB m y x = some rb)
    {o : JStr} {cls : BClass} {row : Class} {rows : List (MemberKey × MemberKey)} {key key' : MemberKey}
    (ho : AList.lookup o rf = some cls) (hk : AList.lookup key (k.sel cls) = some key')
    (hrow : selectedRow m x y o = some row)
    (hrows : memberRows (aTable m 0 x) (aTable m 0 y) x y (k.members row) = some rows)
    (hc : injOn (classPairs m x y) cls.name o = true) (hm : injOn rows key' key = true)
    (sup sup' : Supers) (f f' : Nat) :
    mapMemberFail k.sel rf sup (f + 1) o key = some (some key') ∧
    mapMemberFail k.sel rb sup' (f' + 1) (mapClass (classTable rf) o) key' = some (some key) := by
  have hd := roundtrip_member k hf hb ho hk hrow hrows hc hm
  have hmc : mapClass (classTable rf) o = cls.name := by
    simp [mapClass, mapClassFail, lookup_classTable, ho]
  constructor
  · exact member_resolution_own k.sel rf sup key key' f o (by simp [declares, ho, hk])
  · rw [hmc]
    exact member_resolution_own k.sel rb sup' key' key f' cls.name hd

/-- two fields of one class with the same target name and descriptor: `B.f ↦ Z.h ↦ B.g` -/
theorem roundtrip_member_witness :
    (remapperB mW 0 1).bind (fun rf => declares BClass.fields rf (jstr "f", jstr "I") (jstr "B")) =
      some (jstr "h", jstr "I") ∧
    (remapperB mW 1 0).bind (fun rb => declares BClass.fields rb (jstr "h", jstr "I") (jstr "Z")) =
      some (jstr "g", jstr "I") := by
  decide

/-! ## the round-trip hypotheses are satisfiable (set `mD`: three classes with distinct targets, `A` and `C` declare `f:I`) -/

/-- `roundtrip_desc`: a method descriptor with an array of a mapped class, an unmapped class and a mapped return type -/
example :
    parse? (jstr "([LA;LX;)LD;") =
      some (.method { params := [.arr (.obj (jstr "A")), .obj (jstr "X")], ret := some (.obj (jstr "D")) }) ∧
    (∀ c ∈ [jstr "A", jstr "X", jstr "D"],
      injOn (classPairs mD 0 1) (mapClass (aTable mD 0 1) c) c = true ∧ validName (mapClass (aTable mD 0 1) c)) ∧
    mapDescWith (aTable mD 0 1) (jstr "([LA;LX;)LD;") = some (jstr "([LA1;LX;)LD1;") ∧
    mapDescWith (aTable mD 1 0) (jstr "([LA1;LX;)LD1;") = some (jstr "([LA;LX;)LD;") := by
  decide

/-- `roundtrip_member`: `A.f:I ↦ A1.g:I ↦ A.f:I` -/
example :
    injOn (classPairs mD 0 1) (jstr "A1") (jstr "A") = true ∧
    (remapperB mD 0 1).bind (fun rf => declares BClass.fields rf (jstr "f", jstr "I") (jstr "A")) = some (jstr "g", jstr "I") ∧
    (remapperB mD 1 0).bind (fun rb => declares BClass.fields rb (jstr "g", jstr "I") (jstr "A1")) = some (jstr "f", jstr "I") := by
  decide

/-! ## the provider carried into the other namespace: `JarSuperProv::remap`

`remapper_b(X→Y, prov)` answers questions about names of X and walks the super types of `prov`, which are names of X.
The way back, `remapper_b(Y→X, prov')`, needs the inheritance graph in names of Y: `prov' = JarSuperProv::remap(re, prov)`
with `re` the X→Y remapper (`src/specialized_methods`, `src/sus.rs` of the binary crate do exactly this). `t` below is the
class table of `re` (`classTable rf` for a B remapper, `aTable` for an A remapper; equal by `remapperB_class`). -/

/-- **Row-wise characterisation.** The carried provider answers for a name `k` with the image of the *last* row whose key
has the image `k` (`IndexMap::insert` replaces the value of a key met again) — key and super types through `map_class`,
the super types collected by a loop of `IndexSet::insert` (`setOf`) — and knows no other names. -/
theorem prov_remap_spec (t : ATable) (s : Supers) (k : JStr) :
    AList.lookup k (remapSupers t s) =
      (lastMatch (fun e => mapClass t e.1 == k) s).map fun e => setOf (e.2.map (mapClass t)) :=
  lookup_remapSupers t s k

/-- the names the carried provider knows are exactly the images of the names the provider knows -/
theorem prov_remap_keys (t : ATable) (s : Supers) (k : JStr) :
    (AList.lookup k (remapSupers t s)).isSome ↔ ∃ e ∈ s, mapClass t e.1 = k :=
  mem_keys_remapSupers t s k

/-- the `IndexSet` of a row: the same elements, each once; a duplicate-free list is kept as it is -/
theorem prov_remap_set (l : List JStr) :
    (∀ x, x ∈ setOf l ↔ x ∈ l) ∧ (setOf l).Nodup ∧ (l.Nodup → setOf l = l) :=
  ⟨mem_setOf l, nodup_setOf l, setOf_of_nodup l⟩

/-- `remap` works provider by provider -/
theorem prov_remap_vec (t : ATable) (ps : List Supers) (i : Nat) :
    (remapProvs t ps)[i]? = (ps[i]?).map (remapSupers t) := by
  simp [remapProvs]

/-- **Every edge is kept.** If `(c, ss)` is the row that survives for its image (the last row among the keys with the image
of `c`; with an injective renaming: every row, `prov_remap_keeps_edges_inj`), the carried provider has a row for `map c`,
and its super types are exactly the images of `ss`: every edge `(c, s)` became `(map c, map s)`, nothing was dropped,
nothing was added. Super types the mappings do not name are kept under their own name (`prov_remap_unmapped`). -/
theorem prov_remap_keeps_edges (t : ATable) (s : Supers) (c : JStr) (ss : List JStr)
    (hsurv : lastMatch (fun e => mapClass t e.1 == mapClass t c) s = some (c, ss)) :
    ∃ ss', AList.lookup (mapClass t c) (remapSupers t s) = some ss' ∧
      (∀ sup ∈ ss, mapClass t sup ∈ ss') ∧ (∀ x ∈ ss', ∃ sup ∈ ss, mapClass t sup = x) ∧ ss'.Nodup := by
  refine ⟨setOf (ss.map (mapClass t)), ?_, ?_, ?_, nodup_setOf _⟩
  · rw [prov_remap_spec, hsurv]; rfl
  · intro sup hs
    exact (mem_setOf _ _).mpr (List.mem_map.mpr ⟨sup, hs, rfl⟩)
  · intro x hx
    obtain ⟨sup, hs, e⟩ := List.mem_map.mp ((mem_setOf _ _).mp hx)
    exact ⟨sup, hs, e⟩

/-- names the remapper does not know are kept unchanged, as key and as super type -/
theorem prov_remap_unmapped (t : ATable) (c : JStr) (ss : List JStr) (h : ∀ x ∈ c :: ss, mapClassFail t x = none) :
    remapRow t (c, ss) = (c, setOf ss) := by
  have hm : ∀ x ∈ c :: ss, mapClass t x = x := by
    intro x hx
    simp [mapClass, h x hx]
  unfold remapRow
  rw [hm c List.mem_cons_self]
  have : ss.map (mapClass t) = ss := by
    conv => rhs; rw [← List.map_id ss]
    exact List.map_congr_left (fun x hx => hm x (List.mem_cons_of_mem _ hx))
  rw [this]

/-- with the invariants of a `JarSuperProv` (unique keys, duplicate-free super types) and a renaming injective on the class
names involved, *every* row survives, with its super types in the same order -/
theorem prov_remap_keeps_edges_inj (t : ATable) (s : Supers) (c : JStr) (N : List JStr)
    (hinj : injOnList (mapClass t) N = true) (hc : c ∈ N) (hkeys : ∀ e ∈ s, e.1 ∈ N) (hsups : ∀ e ∈ s, ∀ x ∈ e.2, x ∈ N)
    (hnd : (s.map Prod.fst).Nodup) (hnds : ∀ e ∈ s, e.2.Nodup) :
    AList.lookup (mapClass t c) (remapSupers t s) = (AList.lookup c s).map (List.map (mapClass t)) :=
  lookup_remapSupers_inj t s c N hinj hc hkeys hsups hnd hnds

/-- the search order (`dfs`, what `map_*_fail` walks) on the carried `Vec` of providers from the image of `c` is the image of
the search order from `c` -/
theorem prov_remap_preorder (t : ATable) (ps : List Supers) (N : List JStr)
    (hinj : injOnList (mapClass t) N = true) (hN : ∀ x ∈ nodesOf ps, x ∈ N) (hwf : wfProvs ps = true)
    (fuel : Nat) (c : JStr) (hc : c ∈ N) :
    dfs (flattenProvs (remapProvs t ps)) fuel (mapClass t c) = (dfs (flattenProvs ps) fuel c).map (List.map (mapClass t)) :=
  dfs_remapProvs t ps N hinj hN hwf fuel c hc

/-- `A ↦ Z`, `B ↦ Z` -/
def tCol : ATable := [(jstr "A", jstr "Z"), (jstr "B", jstr "Z")]

/-- two keys with one image: the carried provider has one row `Z`, at the position of the first, with the super types of
the last — the edge `A → P` is gone. This is `IndexMap::insert`, and outside "everything the mappings name injectively". -/
theorem prov_remap_collision_witness :
    remapSupers tCol [(jstr "A", [jstr "P"]), (jstr "C", [jstr "A"]), (jstr "B", [jstr "Q"])] =
      [(jstr "Z", [jstr "Q"]), (jstr "C", [jstr "Z"])] ∧
    survives tCol [(jstr "A", [jstr "P"]), (jstr "C", [jstr "A"]), (jstr "B", [jstr "Q"])] (jstr "A") = false ∧
    survives tCol [(jstr "A", [jstr "P"]), (jstr "C", [jstr "A"]), (jstr "B", [jstr "Q"])] (jstr "B") = true := by
  decide

/-- **Round trip of an inherited member through the carried provider.** `rf` = `remapper_b(X→Y)`, `rb` = `remapper_b(Y→X)`,
`ps` the `Vec<JarSuperProv>` in names of X, `order` the search order from the owner `o`. If

* the providers satisfy their invariants and the X→Y class renaming is injective on the owner and the class names of the
  providers (`injOnList`, decidable: "the mappings name the classes involved injectively"),
* the X→Y remapper answers `key ↦ key'` for `o` — declared by `o` or inherited through any chain of super types, mapped
  or not (`hfwd`; by `member_resolution` this is `map_*_fail`'s answer),
* no class of the search order that does not declare `key` declares something else that is called `key'` in Y (`hmiss`:
  `key'` is not the image of another member on the way), and the classes declaring `key ↦ key'` declare `key' ↦ key` on the
  way back (`hhit`; by `roundtrip_member` / `roundtrip_inherited_hit` this follows from `injOn` for the class and the member),

then asking the Y→X remapper, built over `JarSuperProv::remap(rf, ps)`, about `key'` in the image of `o` gives `key` back. -/
theorem roundtrip_inherited (sel : BClass → AList MemberKey MemberKey) (rf rb : BTable) (ps : List Supers) (o : JStr)
    (key key' : MemberKey) {f f' : Nat} {order : List JStr}
    (hd : dfs (flattenProvs ps) f o = some order) (hle : f ≤ f')
    (hwf : wfProvs ps = true)
    (hinj : injOnList (mapClass (classTable rf)) (o :: nodesOf ps) = true)
    (hfwd : order.findSome? (declares sel rf key) = some key')
    (hmiss : ∀ d ∈ order, declares sel rf key d = none → declares sel rb key' (mapClass (classTable rf) d) = none)
    (hhit : ∀ d ∈ order, declares sel rf key d = some key' →
      declares sel rb key' (mapClass (classTable rf) d) = some key) :
    mapMemberFail sel rf (flattenProvs ps) f' o key = some (some key') ∧
    mapMemberFail sel rb (flattenProvs (remapProvs (classTable rf) ps)) f' (mapClass (classTable rf) o) key' =
      some (some key) := by
  constructor
  · rw [member_resolution sel rf _ key hd hle, hfwd]
  · have hd' := prov_remap_preorder (classTable rf) ps (o :: nodesOf ps) hinj
      (fun x hx => List.mem_cons_of_mem _ hx) hwf f o List.mem_cons_self
    rw [hd] at hd'
    rw [member_resolution sel rb _ key' hd' hle]
    congr 1
    exact findSome_back _ _ _ key key' order hfwd hmiss hhit

/-- `hhit` of `roundtrip_inherited` for one class, from the hypotheses of `roundtrip_member`: the class is the only source of
its image and, inside the row its table was built from, `key` is the only source of `key'` -/
theorem roundtrip_inherited_hit (k : Kind) {m : Mappings} {x y : Nat} {rf rb : BTable}
    (hf : remapperB m x y = some rf) (hb : remapperB m y x = some rb)
    {d : JStr} {cls : BClass} {row : Class} {rows : List (MemberKey × MemberKey)} {key key' : MemberKey}
    (ho : AList.lookup d rf = some cls) (hk : AList.lookup key (k.sel cls) = some key')
    (hrow : selectedRow m x y d = some row)
    (hrows : memberRows (aTable m 0 x) (aTable m 0 y) x y (k.members row) = some rows)
    (hc : injOn (classPairs m x y) cls.name d = true) (hm : injOn rows key' key = true) :
    declares k.sel rf key d = some key' ∧ declares k.sel rb key' (mapClass (classTable rf) d) = some key := by
  have hmc : mapClass (classTable rf) d = cls.name := by
    simp [mapClass, mapClassFail, lookup_classTable, ho]
  rw [hmc]
  exact ⟨by simp [declares, ho, hk], roundtrip_member k hf hb ho hk hrow hrows hc hm⟩

/-- `a ↦ pkg/Base` declaring `x:I ↦ counter`, `c ↦ pkg/Child`, `d ↦ pkg/Direct`; `lib/Mid` is not in the mappings -/
def mG : Mappings :=
  { ns := [jstr "obf", jstr "named"], doc := none,
    classes := [
      clsW "a" "pkg/Base" [((jstr "x", jstr "I"), { desc := jstr "I", names := [some (jstr "x"), some (jstr "counter")], doc := none })],
      (jstr "c", { names := [some (jstr "c"), some (jstr "pkg/Child")], doc := none, fields := [], methods := [] }),
      (jstr "d", { names := [some (jstr "d"), some (jstr "pkg/Direct")], doc := none, fields := [], methods := [] })] }

/-- `c extends lib/Mid extends a`, `d extends a` -/
def psG : List Supers :=
  [[(jstr "c", [jstr "lib/Mid"]), (jstr "lib/Mid", [jstr "a", jstr "java/io/Serializable"]), (jstr "d", [jstr "a"]),
    (jstr "a", [jstr "java/lang/Object"])]]

/-- non-vacuity with an unmapped intermediate class: the carried provider keeps the edges into and out of `lib/Mid`
(`pkg/Child → lib/Mid → pkg/Base`); the hypotheses of `roundtrip_inherited` hold for the field `x:I` asked through `c`;
`c.x ↦ counter` on the way there and `pkg/Child.counter ↦ x` on the way back -/
example :
    (remapperB mG 0 1).map (fun rf => remapProvs (classTable rf) psG) =
      some [[(jstr "pkg/Child", [jstr "lib/Mid"]), (jstr "lib/Mid", [jstr "pkg/Base", jstr "java/io/Serializable"]),
        (jstr "pkg/Direct", [jstr "pkg/Base"]), (jstr "pkg/Base", [jstr "java/lang/Object"])]] ∧
    wfProvs psG = true ∧
    (remapperB mG 0 1).map (fun rf => injOnList (mapClass (classTable rf)) (jstr "c" :: nodesOf psG)) = some true ∧
    dfs (flattenProvs psG) 5 (jstr "c") =
      some [jstr "c", jstr "lib/Mid", jstr "a", jstr "java/lang/Object", jstr "java/io/Serializable"] ∧
    (remapperB mG 0 1).bind (fun rf => (remapperB mG 1 0).map fun rb =>
      [jstr "c", jstr "lib/Mid", jstr "a", jstr "java/lang/Object", jstr "java/io/Serializable"].all fun d =>
        match declares BClass.fields rf (jstr "x", jstr "I") d with
        | none => declares BClass.fields rb (jstr "counter", jstr "I") (mapClass (classTable rf) d) == none
        | some v => v == (jstr "counter", jstr "I") &&
            declares BClass.fields rb (jstr "counter", jstr "I") (mapClass (classTable rf) d) == some (jstr "x", jstr "I")) =
      some true ∧
    (remapperB mG 0 1).bind (fun rf =>
      mapMemberFail BClass.fields rf (flattenProvs psG) 5 (jstr "c") (jstr "x", jstr "I")) =
      some (some (jstr "counter", jstr "I")) ∧
    (remapperB mG 0 1).bind (fun rf => (remapperB mG 1 0).bind fun rb =>
      mapMemberFail BClass.fields rb (flattenProvs (remapProvs (classTable rf) psG)) 5 (jstr "pkg/Child")
        (jstr "counter", jstr "I")) = some (some (jstr "x", jstr "I")) := by
  decide

/-! ## sequences of questions to one instance: answers do not depend on history

These are simple statements about the model — `mapSeq` is written without any state carried from one question to the
next, because the Rust remappers have none (`&self` methods over immutable tables). Their value is in the tie: the op
`map-seq` runs a whole list of questions against ONE `remapper_a` / `remapper_b` instance of the implementation and
compares with `mapSeq`, and `oracle-seq-history-independent` compares, on the implementation alone, the answers of one
instance to the sequence with the answers of a fresh instance to every single question (the right-hand side of
`seq_pointwise`, by `seq_fresh`). A remapper that caches in a way that changes answers fails both. -/

/-- the answers of one instance to a sequence of questions are the answers to the single questions -/
theorem seq_pointwise (i : Instance) (qs : List Query) : mapSeq i qs = qs.map (mapOne i) := by
  induction qs with
  | nil => rfl
  | cons q qs ih => simp [mapSeq, ih]

/-- a fresh instance asked one question -/
theorem seq_fresh (i : Instance) (q : Query) : mapSeq i [q] = [mapOne i q] := rfl

theorem seq_length (i : Instance) (qs : List Query) : (mapSeq i qs).length = qs.length := by
  simp [seq_pointwise]

theorem seq_append (i : Instance) (xs ys : List Query) : mapSeq i (xs ++ ys) = mapSeq i xs ++ mapSeq i ys := by
  simp [seq_pointwise]

/-- **history independence**: whatever was asked before (`pre`) and is asked afterwards (`post`), the answer to `q` is
the answer a fresh instance gives -/
theorem seq_history_independent (i : Instance) (pre post : List Query) (q : Query) :
    (mapSeq i (pre ++ q :: post))[pre.length]? = some (mapOne i q) := by
  rw [seq_append]
  have h : pre.length = (mapSeq i pre).length := (seq_length i pre).symm
  rw [h, List.getElem?_append_right (Nat.le_refl _)]
  simp [mapSeq]

/-- the same, comparing two histories directly: the answer to `q` does not depend on the prefix before it -/
theorem seq_prefix_irrelevant (i : Instance) (pre pre' post post' : List Query) (q : Query) :
    (mapSeq i (pre ++ q :: post))[pre.length]? = (mapSeq i (pre' ++ q :: post'))[pre'.length]? := by
  rw [seq_history_independent, seq_history_independent]

/-- asking in the opposite order gives the same answers in the opposite order (hit-then-miss = miss-then-hit) -/
theorem seq_reverse (i : Instance) (qs : List Query) : mapSeq i qs.reverse = (mapSeq i qs).reverse := by
  simp [seq_pointwise]

/-- asking a question twice gives the same answer twice -/
theorem seq_repeat (i : Instance) (q : Query) (mid : List Query) :
    (mapSeq i (q :: mid ++ [q])).head? = (mapSeq i (q :: mid ++ [q])).getLast? := by
  rw [seq_append, seq_fresh, List.getLast?_concat]
  rfl

/-- non-vacuity, on the diamond `mD` / `supD` (`B` has no mapping and sits between `D` and `A`): a miss through `B`
(`B.x:I`, declared nowhere), then hits through the same class (`B.f:I` and `D.f:I`, both found in `A` through `B`), then
the miss again - every question is answered as if it were the first -/
example :
    (instanceOf mD 0 1 supD).map (fun i => mapSeq i
      [.member true (jstr "B") (jstr "x", jstr "I"), .member true (jstr "B") (jstr "f", jstr "I"),
       .member true (jstr "D") (jstr "f", jstr "I"), .member true (jstr "B") (jstr "x", jstr "I"),
       .cls false (jstr "D"), .desc true (jstr "[LA;")]) =
    some [.member none (some (jstr "x", jstr "I")) (some (jstr "B", jstr "x", jstr "I")),
          .member (some (jstr "g", jstr "I")) (some (jstr "g", jstr "I")) (some (jstr "B", jstr "g", jstr "I")),
          .member (some (jstr "g", jstr "I")) (some (jstr "g", jstr "I")) (some (jstr "D1", jstr "g", jstr "I")),
          .member none (some (jstr "x", jstr "I")) (some (jstr "B", jstr "x", jstr "I")),
          .cls (some (jstr "D1")) (jstr "D1") (some (jstr "D1")), .desc (some (jstr "[LA1;"))] := by
  decide

end Thm.C06
