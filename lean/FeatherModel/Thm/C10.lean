import FeatherModel.Lemmas.DummyRemove
import FeatherModel.Lemmas.DummyInsert
import FeatherModel.Lemmas.InnerNames

/-!
# C10 — dummy-mapping filters remove exactly the placeholder entries
Property theorems only. Models: `FeatherModel/Model/Dummy.lean` (`removeDummy` mirrors the nested `retain` closures of
`quill/src/action/remove_dummy.rs`, `insertDummy` those of `insert_dummy.rs`); the top-down executable specification the
models are proved equal to is `FeatherModel/Model/DummySpec.lean`. All statements hold for every mapping set / diff.
-/

namespace Thm.C10
open Dummy DummySpec DummyDiff DummyList

/-! ## The documented rules, as propositions about an *input* entry -/

/-- the name in namespace `ns` is present and starts with `pfx` -/
def PrefixedAt (names : Names) (ns : Nat) (pfx : JStr) : Prop := ∃ n, names[ns]? = some (some n) ∧ pfx <+: n
/-- the name in namespace `ns` is present and equal to `s` -/
def NamedAt (names : Names) (ns : Nat) (s : JStr) : Prop := names[ns]? = some (some s)

def ParamSurvives (ns : Nat) (p : Param) : Prop :=
  p.doc ≠ none ∨ ¬ PrefixedAt p.names ns (jstr "p_")

def FieldSurvives (ns : Nat) (f : Field) : Prop :=
  f.doc ≠ none ∨ ¬ PrefixedAt f.names ns (jstr "f_")

def MethodSurvives (ns : Nat) (m : Method) : Prop :=
  m.doc ≠ none ∨ (∃ e ∈ m.params, ParamSurvives ns e.2) ∨
    ¬ (PrefixedAt m.names ns (jstr "m_") ∨ NamedAt m.names ns (jstr "<init>") ∨ NamedAt m.names ns (jstr "<clinit>"))

def ClassSurvives (ns : Nat) (c : Class) : Prop :=
  c.doc ≠ none ∨ (∃ e ∈ c.fields, FieldSurvives ns e.2) ∨ (∃ e ∈ c.methods, MethodSurvives ns e.2) ∨
    ¬ (PrefixedAt c.names ns (jstr "C_") ∨ PrefixedAt c.names ns (jstr "net/minecraft/unmapped/C_"))

private theorem prefixed_iff {names : Names} {ns : Nat} {pfx : JStr} :
    nameIs names ns (startsWith pfx) = true ↔ PrefixedAt names ns pfx := by
  rw [DummyRemove.nameIs_iff]
  unfold PrefixedAt
  simp only [DummyRemove.startsWith_iff]

private theorem doc_iff {d : Option JStr} : d.isSome = true ↔ d ≠ none := by
  cases d <;> simp

/-- the executable rule of the specification is the documented parameter rule -/
theorem survivesParam_iff (ns : Nat) (p : Param) : survivesParam ns p = true ↔ ParamSurvives ns p := by
  unfold survivesParam ParamSurvives dummyParamName
  rw [← DummyRemove.pfxP_eq, ← prefixed_iff]
  simp only [Bool.or_eq_true, Bool.not_eq_true', doc_iff, Bool.not_eq_true]

theorem survivesField_iff (ns : Nat) (f : Field) : survivesField ns f = true ↔ FieldSurvives ns f := by
  unfold survivesField FieldSurvives dummyFieldName
  rw [← DummyRemove.pfxF_eq, ← prefixed_iff]
  simp only [Bool.or_eq_true, Bool.not_eq_true', doc_iff, Bool.not_eq_true]

private theorem dummyMethod_iff {names : Names} {ns : Nat} :
    nameIs names ns dummyMethodName = true ↔
      (PrefixedAt names ns (jstr "m_") ∨ NamedAt names ns (jstr "<init>") ∨ NamedAt names ns (jstr "<clinit>")) := by
  rw [DummyRemove.nameIs_iff, ← DummyRemove.pfxM_eq, ← DummyRemove.nameInit_eq, ← DummyRemove.nameClinit_eq]
  unfold dummyMethodName PrefixedAt NamedAt
  simp only [Bool.or_eq_true, DummyRemove.startsWith_iff, beq_iff_eq]
  constructor
  · rintro ⟨n, hn, (h | h) | h⟩
    · exact Or.inl ⟨n, hn, h⟩
    · exact Or.inr (Or.inl (h ▸ hn))
    · exact Or.inr (Or.inr (h ▸ hn))
  · rintro (⟨n, hn, h⟩ | h | h)
    · exact ⟨n, hn, Or.inl (Or.inl h)⟩
    · exact ⟨_, h, Or.inl (Or.inr rfl)⟩
    · exact ⟨_, h, Or.inr rfl⟩

private theorem dummyClass_iff {names : Names} {ns : Nat} :
    nameIs names ns dummyClassName = true ↔
      (PrefixedAt names ns (jstr "C_") ∨ PrefixedAt names ns (jstr "net/minecraft/unmapped/C_")) := by
  rw [DummyRemove.nameIs_iff, ← DummyRemove.pfxC_eq, ← DummyRemove.pfxNMU_eq]
  unfold dummyClassName PrefixedAt
  simp only [Bool.or_eq_true, DummyRemove.startsWith_iff]
  constructor
  · rintro ⟨n, hn, h | h⟩
    · exact Or.inl ⟨n, hn, h⟩
    · exact Or.inr ⟨n, hn, h⟩
  · rintro (⟨n, hn, h⟩ | ⟨n, hn, h⟩)
    · exact ⟨n, hn, Or.inl h⟩
    · exact ⟨n, hn, Or.inr h⟩

theorem survivesMethod_iff (ns : Nat) (m : Method) : survivesMethod ns m = true ↔ MethodSurvives ns m := by
  unfold survivesMethod MethodSurvives
  rw [← dummyMethod_iff]
  simp only [Bool.or_eq_true, Bool.not_eq_true', doc_iff, Bool.not_eq_true, List.any_eq_true, survivesParam_iff, or_assoc]

theorem survivesClass_iff (ns : Nat) (c : Class) : survivesClass ns c = true ↔ ClassSurvives ns c := by
  unfold survivesClass ClassSurvives
  rw [← dummyClass_iff]
  simp only [Bool.or_eq_true, Bool.not_eq_true', doc_iff, Bool.not_eq_true, List.any_eq_true, survivesField_iff,
    survivesMethod_iff, or_assoc]

/-! ## `remove_dummy` -/

/-- **Functional specification.** The children-first code computes: keep exactly the classes whose rule (evaluated on the
input entry) holds, in their original order; every survivor is returned with the same key, names and comment, its
fields filtered by the field rule (surviving fields are returned as they are), its methods filtered by the method rule,
every surviving method with the same key, descriptor, names and comment and exactly its surviving parameters.
Namespaces and the top-level comment are untouched; the call fails exactly when the namespace name is unknown. -/
theorem removeDummy_spec (m : Mappings) (nsName : JStr) :
    removeDummy m nsName = (m.getNamespace nsName).map (fun ns =>
      { ns := m.ns, doc := m.doc,
        classes := (m.classes.filter (fun e => survivesClass ns e.2)).map (fun e => (e.1,
          { names := e.2.names, doc := e.2.doc,
            fields := e.2.fields.filter (fun f => survivesField ns f.2),
            methods := (e.2.methods.filter (fun me => survivesMethod ns me.2)).map (fun me => (me.1,
              { desc := me.2.desc, names := me.2.names, doc := me.2.doc,
                params := me.2.params.filter (fun p => survivesParam ns p.2) })) })) }) := by
  unfold removeDummy
  cases h : m.getNamespace nsName with
  | none => rfl
  | some ns =>
    simp only [Option.map_some, Option.some.injEq]
    rw [DummyRemove.removeDummyAt_eq]
    rfl

/-- the chosen namespace is found by name: the first column with that name is inspected; unknown name = failure -/
theorem removeDummy_namespace (m : Mappings) (nsName : JStr) :
    (removeDummy m nsName = none ↔ nsName ∉ m.ns) ∧
    (∀ m', removeDummy m nsName = some m' → ∃ ns, m.getNamespace nsName = some ns ∧ m.ns[ns]? = some nsName) := by
  unfold removeDummy Mappings.getNamespace
  constructor
  · rw [← DummyRemove.getNamespace_go_none nsName m.ns 0]
    cases Mappings.getNamespace.go nsName m.ns 0 <;> simp
  · intro m' h
    cases hg : Mappings.getNamespace.go nsName m.ns 0 with
    | none => rw [hg] at h; simp at h
    | some ns =>
      have := (DummyRemove.getNamespace_go_some nsName m.ns 0 ns hg).2
      exact ⟨ns, rfl, by simpa using this⟩

/-- membership form of the specification, with the documented rule: an entry is in the result iff the rule holds for the
input entry under the same key, and it is that entry pruned -/
theorem removeDummy_class_mem_iff {m m' : Mappings} {nsName : JStr} {ns : Nat}
    (hns : m.getNamespace nsName = some ns) (h : removeDummy m nsName = some m') (k : JStr) (c' : Class) :
    (k, c') ∈ m'.classes ↔ ∃ c, (k, c) ∈ m.classes ∧ ClassSurvives ns c ∧ c' = pruneClass ns c := by
  simp only [removeDummy, hns, Option.some.injEq] at h
  subst h
  rw [DummyRemove.removeDummyAt_eq, DummyRemove.removeSpecAt_eq']
  simp only [mem_pruneBy, survivesClass_iff]

/-- inside a surviving class: fields are kept iff their rule holds and are returned unchanged; methods are kept iff their
rule holds and are returned pruned; inside a surviving method parameters are kept iff their rule holds, unchanged -/
theorem removeDummy_member_mem_iff (ns : Nat) (c : Class) :
    (pruneClass ns c).names = c.names ∧ (pruneClass ns c).doc = c.doc ∧
    (∀ k f, (k, f) ∈ (pruneClass ns c).fields ↔ (k, f) ∈ c.fields ∧ FieldSurvives ns f) ∧
    (∀ k me', (k, me') ∈ (pruneClass ns c).methods ↔
      ∃ me, (k, me) ∈ c.methods ∧ MethodSurvives ns me ∧ me' = pruneMethod ns me) ∧
    (∀ me : Method, (pruneMethod ns me).desc = me.desc ∧ (pruneMethod ns me).names = me.names ∧
      (pruneMethod ns me).doc = me.doc ∧
      ∀ k p, (k, p) ∈ (pruneMethod ns me).params ↔ (k, p) ∈ me.params ∧ ParamSurvives ns p) := by
  refine ⟨rfl, rfl, ?_, ?_, ?_⟩
  · intro k f
    simp only [pruneClass, List.mem_filter, survivesField_iff]
  · intro k me'
    rw [DummyRemove.pruneClass_eq']
    simp only [mem_pruneBy, survivesMethod_iff]
  · intro me
    refine ⟨rfl, rfl, rfl, ?_⟩
    intro k p
    simp only [pruneMethod, List.mem_filter, survivesParam_iff]

/-- survivors keep their relative order at every level (`IndexMap::retain`) -/
theorem removeDummy_order {m m' : Mappings} {nsName : JStr} (h : removeDummy m nsName = some m') :
    (m'.classes.map Prod.fst).Sublist (m.classes.map Prod.fst) ∧
    ∀ ns c, ((pruneClass ns c).fields).Sublist c.fields ∧
      (((pruneClass ns c).methods).map Prod.fst).Sublist (c.methods.map Prod.fst) ∧
      ∀ me : Method, ((pruneMethod ns me).params).Sublist me.params := by
  unfold removeDummy at h
  cases hns : m.getNamespace nsName with
  | none => rw [hns] at h; simp at h
  | some ns =>
    rw [hns] at h
    simp only [Option.some.injEq] at h
    subst h
    rw [DummyRemove.removeDummyAt_eq, DummyRemove.removeSpecAt_eq']
    refine ⟨pruneBy_keys_sublist _ _ _, ?_⟩
    intro ns c
    refine ⟨List.filter_sublist, ?_, fun me => List.filter_sublist⟩
    rw [DummyRemove.pruneClass_eq']
    exact pruneBy_keys_sublist _ _ _

/-- applying the filter twice is the same as applying it once -/
theorem removeDummy_idem {m m' : Mappings} {nsName : JStr} (h : removeDummy m nsName = some m') :
    removeDummy m' nsName = some m' := by
  unfold removeDummy at h
  cases hns : m.getNamespace nsName with
  | none => rw [hns] at h; simp at h
  | some ns =>
    rw [hns] at h
    simp only [Option.some.injEq] at h
    subst h
    have hns' : (removeDummyAt m ns).getNamespace nsName = some ns := hns
    unfold removeDummy
    rw [hns']
    simp only [Option.some.injEq]
    rw [DummyRemove.removeDummyAt_eq, DummyRemove.removeDummyAt_eq, DummyRemove.removeSpecAt_idem]

/-- a retained child keeps all its ancestors: a surviving field / method / parameter of an input class is found in the
output below its (surviving) class and method -/
theorem child_kept_parent_kept {m m' : Mappings} {nsName : JStr} {ns : Nat}
    (hns : m.getNamespace nsName = some ns) (h : removeDummy m nsName = some m')
    {k : JStr} {c : Class} (hc : (k, c) ∈ m.classes) :
    (∀ fk f, (fk, f) ∈ c.fields → FieldSurvives ns f →
      ∃ c', (k, c') ∈ m'.classes ∧ (fk, f) ∈ c'.fields) ∧
    (∀ mk me, (mk, me) ∈ c.methods → MethodSurvives ns me →
      ∃ c', (k, c') ∈ m'.classes ∧ (mk, pruneMethod ns me) ∈ c'.methods) ∧
    (∀ mk me pk p, (mk, me) ∈ c.methods → (pk, p) ∈ me.params → ParamSurvives ns p →
      ∃ c' me', (k, c') ∈ m'.classes ∧ (mk, me') ∈ c'.methods ∧ (pk, p) ∈ me'.params) := by
  have hmem := removeDummy_class_mem_iff hns h k (pruneClass ns c)
  have hM := removeDummy_member_mem_iff ns c
  refine ⟨?_, ?_, ?_⟩
  · intro fk f hf hs
    have hcs : ClassSurvives ns c := Or.inr (Or.inl ⟨(fk, f), hf, hs⟩)
    exact ⟨pruneClass ns c, hmem.mpr ⟨c, hc, hcs, rfl⟩, (hM.2.2.1 fk f).mpr ⟨hf, hs⟩⟩
  · intro mk me hme hs
    have hcs : ClassSurvives ns c := Or.inr (Or.inr (Or.inl ⟨(mk, me), hme, hs⟩))
    exact ⟨pruneClass ns c, hmem.mpr ⟨c, hc, hcs, rfl⟩, (hM.2.2.2.1 mk _).mpr ⟨me, hme, hs, rfl⟩⟩
  · intro mk me pk p hme hp hs
    have hms : MethodSurvives ns me := Or.inr (Or.inl ⟨(pk, p), hp, hs⟩)
    have hcs : ClassSurvives ns c := Or.inr (Or.inr (Or.inl ⟨(mk, me), hme, hms⟩))
    exact ⟨pruneClass ns c, pruneMethod ns me, hmem.mpr ⟨c, hc, hcs, rfl⟩, (hM.2.2.2.1 mk _).mpr ⟨me, hme, hms, rfl⟩,
      ((hM.2.2.2.2 me).2.2.2 pk p).mpr ⟨hp, hs⟩⟩

/-- an entry whose name is absent in the chosen namespace is never a placeholder -/
theorem absent_survives (ns : Nat) :
    (∀ p : Param, p.names[ns]? = some none → ParamSurvives ns p) ∧
    (∀ f : Field, f.names[ns]? = some none → FieldSurvives ns f) ∧
    (∀ me : Method, me.names[ns]? = some none → MethodSurvives ns me) ∧
    (∀ c : Class, c.names[ns]? = some none → ClassSurvives ns c) := by
  refine ⟨?_, ?_, ?_, ?_⟩
  · intro p h; right; rintro ⟨n, hn, _⟩; rw [h] at hn; simp at hn
  · intro f h; right; rintro ⟨n, hn, _⟩; rw [h] at hn; simp at hn
  · intro me h; right; right
    rintro (⟨n, hn, _⟩ | hn | hn) <;> (first | rw [h] at hn | (unfold NamedAt at hn; rw [h] at hn)) <;> simp at hn
  · intro c h; right; right; right
    rintro (⟨n, hn, _⟩ | ⟨n, hn, _⟩) <;> rw [h] at hn <;> simp at hn

/-- prefix means prefix: a name that does not *start* with a placeholder prefix survives, wherever else the prefix text
occurs in it (e.g. `aC_1`, `xf_`, `<init>x`) -/
theorem prefix_means_prefix (ns : Nat) (n : JStr) :
    (∀ p : Param, p.names[ns]? = some (some n) → ¬ jstr "p_" <+: n → ParamSurvives ns p) ∧
    (∀ f : Field, f.names[ns]? = some (some n) → ¬ jstr "f_" <+: n → FieldSurvives ns f) ∧
    (∀ me : Method, me.names[ns]? = some (some n) → ¬ jstr "m_" <+: n → n ≠ jstr "<init>" → n ≠ jstr "<clinit>" →
      MethodSurvives ns me) ∧
    (∀ c : Class, c.names[ns]? = some (some n) → ¬ jstr "C_" <+: n → ¬ jstr "net/minecraft/unmapped/C_" <+: n →
      ClassSurvives ns c) := by
  refine ⟨?_, ?_, ?_, ?_⟩
  · intro p h hp; right
    rintro ⟨n', hn, hpre⟩; rw [h] at hn; simp only [Option.some.injEq] at hn; subst hn; exact hp hpre
  · intro f h hp; right
    rintro ⟨n', hn, hpre⟩; rw [h] at hn; simp only [Option.some.injEq] at hn; subst hn; exact hp hpre
  · intro me h hp hi hc; right; right
    rintro (⟨n', hn, hpre⟩ | hn | hn)
    · rw [h] at hn; simp only [Option.some.injEq] at hn; subst hn; exact hp hpre
    · unfold NamedAt at hn; rw [h] at hn; simp only [Option.some.injEq] at hn; exact hi hn
    · unfold NamedAt at hn; rw [h] at hn; simp only [Option.some.injEq] at hn; exact hc hn
  · intro c h h1 h2; right; right; right
    rintro (⟨n', hn, hpre⟩ | ⟨n', hn, hpre⟩)
    · rw [h] at hn; simp only [Option.some.injEq] at hn; subst hn; exact h1 hpre
    · rw [h] at hn; simp only [Option.some.injEq] at hn; subst hn; exact h2 hpre

/-- a bare class named `aC_1` / a field `xf_` / a method `<init>x` with a parameter `ap_1`: nothing is removed;
the same set with real placeholder names is emptied -/
def exSet (cls fld mth prm : String) : Mappings :=
  { ns := [jstr "official", jstr "named"]
    doc := none
    classes := [(jstr "a", {
      names := [some (jstr "a"), some (jstr cls)]
      doc := none
      fields := [((jstr "f", jstr "I"), { desc := jstr "I", names := [some (jstr "f"), some (jstr fld)], doc := none })]
      methods := [((jstr "m", jstr "(I)V"), {
        desc := jstr "(I)V"
        names := [some (jstr "m"), some (jstr mth)]
        doc := none
        params := [(0, { index := 0, names := [none, some (jstr prm)], doc := none })] })] })] }
def exNear : Mappings := exSet "aC_1" "xf_" "<init>x" "ap_1"
def exDummy : Mappings := exSet "net/minecraft/unmapped/C_1" "f_1" "<init>" "p_0"

example : removeDummy exNear (jstr "named") = some exNear := by decide
example : removeDummy exDummy (jstr "named") = some { exDummy with classes := [] } := by decide
/-- only the chosen namespace is inspected: the placeholder names live in `named`, nothing happens for `official` -/
example : removeDummy exDummy (jstr "official") = some exDummy := by decide
example : removeDummy exDummy (jstr "nope") = none := by decide
/-- the hypotheses of `removeDummy_class_mem_iff` / `child_kept_parent_kept` / `removeDummy_idem` are satisfiable -/
example : exNear.getNamespace (jstr "named") = some 1 ∧ removeDummy exNear (jstr "named") = some exNear ∧
    exNear.classes.map Prod.fst = [jstr "a"] := by decide

/-! ## `insert_dummy_and_contract_inner_names` -/

/-- **Functional specification** of the diff-side filter: the code computes the truth tables `leafRule` / `parentRule`
of `Model/DummySpec.lean` node by node, children first; top-level `info` and `javadoc` are untouched. -/
theorem insertDummy_spec (d : Diff) :
    insertDummy d = { info := d.info, doc := d.doc, classes := retainK specClass d.classes } :=
  DummyInsert.insertDummy_eq d

/-- membership form: the output node under key `k` is the rule applied to the input node under `k`; order is kept -/
theorem insertDummy_mem_iff (d : Diff) :
    (∀ k c', (k, c') ∈ (insertDummy d).classes ↔ ∃ c, (k, c) ∈ d.classes ∧ specClass k c = some c') ∧
    ((insertDummy d).classes.map Prod.fst).Sublist (d.classes.map Prod.fst) ∧
    (∀ k c c', specClass k c = some c' →
      (∀ fk f', (fk, f') ∈ c'.fields ↔ ∃ f, (fk, f) ∈ c.fields ∧ specField fk f = some f') ∧
      (∀ mk me', (mk, me') ∈ c'.methods ↔ ∃ me, (mk, me) ∈ c.methods ∧ specMethod mk me = some me') ∧
      (c'.fields.map Prod.fst).Sublist (c.fields.map Prod.fst) ∧
      (c'.methods.map Prod.fst).Sublist (c.methods.map Prod.fst)) ∧
    (∀ k me me', specMethod k me = some me' →
      (∀ pk p', (pk, p') ∈ me'.params ↔ ∃ p, (pk, p) ∈ me.params ∧ specParam pk p = some p') ∧
      (me'.params.map Prod.fst).Sublist (me.params.map Prod.fst)) := by
  rw [insertDummy_spec]
  refine ⟨fun k c' => mem_retainK, retainK_keys_sublist _ _, ?_, ?_⟩
  · intro k c c' h
    unfold specClass at h
    simp only [Option.map_eq_some_iff] at h
    obtain ⟨i, _, rfl⟩ := h
    exact ⟨fun _ _ => mem_retainK, fun _ _ => mem_retainK, retainK_keys_sublist _ _, retainK_keys_sublist _ _⟩
  · intro k me me' h
    unfold specMethod at h
    simp only [Option.map_eq_some_iff] at h
    obtain ⟨i, _, rfl⟩ := h
    exact ⟨fun _ _ => mem_retainK, retainK_keys_sublist _ _⟩

/-- the rules, read off the truth tables. `ph` is the placeholder of the node, `ch` = "a child remains".
1. a removal becomes an edit back to the placeholder (if the node is kept at all);
2. an addition of a field / parameter is always dropped;
3. an addition of a method / class is kept (as an addition) iff children remain;
4. `None` and `Edit` are never rewritten;
5. a leaf is dropped iff it is an addition or (after the rewrite) changes neither name nor comment;
6. a method / class is dropped iff no child remains and it is an addition or changes neither name nor comment;
7. the comment action is never touched. -/
theorem insertDummy_rules (ph : JStr) (doc : Action JStr) (ch : Bool) :
    (∀ a i, (leafRule ph (.remove a) doc = some i ∨ parentRule ph (.remove a) doc ch = some i) → i = .edit a ph) ∧
    (∀ b, leafRule ph (.add b) doc = none) ∧
    (∀ b, parentRule ph (.add b) doc ch = if ch then some (.add b) else none) ∧
    (∀ info i, (∀ a, info ≠ .remove a) → (leafRule ph info doc = some i ∨ parentRule ph info doc ch = some i) → i = info) ∧
    (∀ info, leafRule ph info doc = none ↔
      ((∃ b, info = .add b) ∨ ((validate ph info).2.isDiff = false ∧ doc.isDiff = false))) ∧
    (∀ info, parentRule ph info doc ch = none ↔
      (ch = false ∧ ((∃ b, info = .add b) ∨ ((validate ph info).2.isDiff = false ∧ doc.isDiff = false)))) ∧
    (∀ (k : MKey) (f f' : FDiff), specField k f = some f' → f'.doc = f.doc) := by
  refine ⟨?_, ?_, ?_, ?_, ?_, ?_, ?_⟩
  · intro a i h
    rcases h with h | h
    · simp only [leafRule] at h; split at h <;> simp_all
    · simp only [parentRule] at h; split at h <;> simp_all
  · intro b; rfl
  · intro b; rfl
  · intro info i hne h
    cases info with
    | none => rcases h with h | h <;> (first | simp only [leafRule] at h | simp only [parentRule] at h) <;> split at h <;> simp_all
    | add b => rcases h with h | h <;> (first | simp only [leafRule] at h | simp only [parentRule] at h) <;> (try split at h) <;> simp_all
    | remove a => exact absurd rfl (hne a)
    | edit a b => rcases h with h | h <;> (first | simp only [leafRule] at h | simp only [parentRule] at h) <;> split at h <;> simp_all
  · intro info
    cases info with
    | none => simp [leafRule, validate, Action.isDiff]
    | add b => simp [leafRule]
    | remove a => simp [leafRule, validate, Action.isDiff]
    | edit a b => simp [leafRule, validate, Action.isDiff]
  · intro info
    cases info with
    | none => cases ch <;> simp [parentRule, validate, Action.isDiff]
    | add b => cases ch <;> simp [parentRule]
    | remove a => cases ch <;> simp [parentRule, validate, Action.isDiff]
    | edit a b => cases ch <;> simp [parentRule, validate, Action.isDiff]
  · intro k f f' h
    unfold specField at h
    simp only [Option.map_eq_some_iff] at h
    obtain ⟨i, _, rfl⟩ := h
    rfl

/-- the placeholders: field / method = the key's name (by definition of `specField` / `specMethod`), parameter =
`p_<index>` — which `remove_dummy` recognises as a placeholder —, class = the simple inner name of the key, the key itself
when it is not an inner-class name -/
theorem placeholders :
    (∀ k : Nat, paramPlaceholder k = jstr "p_" ++ decimal k ∧ dummyParamName (paramPlaceholder k) = true) ∧
    (∀ key p i, InnerNames.split key = some (p, i) → classPlaceholder key = i ∧ key = p ++ InnerNames.DOLLAR :: i) ∧
    (∀ key, InnerNames.split key = none → classPlaceholder key = key) := by
  refine ⟨?_, ?_, ?_⟩
  · intro k
    refine ⟨by rw [← DummyRemove.pfxP_eq]; rfl, ?_⟩
    unfold dummyParamName paramPlaceholder
    rw [DummyRemove.startsWith_iff]
    exact List.prefix_append _ _
  · intro key p i h
    refine ⟨by simp [classPlaceholder, h], ?_⟩
    have := InnerNames.split_some h
    exact this.1
  · intro key h
    simp [classPlaceholder, h]

example : paramPlaceholder 12 = jstr "p_12" := by decide
example : classPlaceholder (jstr "a/Outer$Inner") = jstr "Inner" := by decide
example : classPlaceholder (jstr "a/Outer") = jstr "a/Outer" := by decide

/-- applying the diff-side filter twice is the same as applying it once -/
theorem insertDummy_idem (d : Diff) : insertDummy (insertDummy d) = insertDummy d := by
  unfold insertDummy
  simp only
  rw [retainK_idem insertClass DummyInsert.insertClass_idem]

/-- a removal of `a` under key `f_7` whose old name *is* the placeholder becomes the no-op `Edit(f_7, f_7)` and is
dropped; a removal of a real name becomes an edit back to `f_7`; an added field is dropped; an added method with a
surviving parameter stays an addition -/
def exDiff : Diff :=
  { info := .none
    doc := .none
    classes := [(jstr "p/K$In", {
      info := .remove (jstr "p/Named")
      doc := .none
      fields := [((jstr "f_7", jstr "I"), { info := .remove (jstr "f_7"), doc := .none }),
                 ((jstr "f_8", jstr "I"), { info := .remove (jstr "count"), doc := .none }),
                 ((jstr "f_9", jstr "I"), { info := .add (jstr "x"), doc := .add (jstr "d") })]
      methods := [((jstr "m_1", jstr "(I)V"), {
        info := .add (jstr "run")
        doc := .none
        params := [(3, { info := .remove (jstr "size"), doc := .none })] })] })] }

def exDiffOut : Diff :=
  { info := .none
    doc := .none
    classes := [(jstr "p/K$In", {
      info := .edit (jstr "p/Named") (jstr "In")
      doc := .none
      fields := [((jstr "f_8", jstr "I"), { info := .edit (jstr "count") (jstr "f_8"), doc := .none })]
      methods := [((jstr "m_1", jstr "(I)V"), {
        info := .add (jstr "run")
        doc := .none
        params := [(3, { info := .edit (jstr "size") (jstr "p_3"), doc := .none })] })] })] }

example : insertDummy exDiff = exDiffOut := by decide

end Thm.C10
