import FeatherModel.Lemmas.VisitLocal
import FeatherModel.Lemmas.VisitReplay

/-!
# C17 — partial and replaying visitors observe the same facts as a full read

Property theorems only. Models: `FeatherModel/Model/Visit.lean` (`readWith`: `duke/src/class_reader.rs` at the
granularity of its dispatch logic), `Model/VisitFull.lean` (`fullEvents`, `wellFormed`), `Model/VisitTree.lean`
(`build`: the tree-building visitor, `accept`: `duke/src/tree/*.rs accept`).

All statements are unbounded: any class framing (any number of fields, methods, attributes, record components, code
attributes, any lengths and payloads), any configuration `cfg` (interest masks at the class / field / method / code /
record-component level chosen per item, any set of declined classes, fields, methods, record components, `Code`s),
any number of concatenated files.

Scope notes (what "the same facts" means here):
* An event is identified by the item it belongs to, its kind and an abstract payload. Labels are names of bytecode
  positions; the model does not represent them (`visit_last_label`, the `Option<Label>` of an instruction): which
  positions carry a label — and the numeric ids — depends on which `Code` attributes were parsed, so these are compared
  by the harness only after resolving labels to instruction indices.
* `FramesExact` (`framesExact c`): every attribute the reader may parse consumes exactly its declared length. It is
  what the JVMS demands of a class file; `frames_exact_needed_witness` shows that the reader depends on it.
-/

namespace Thm.C17
open Visit

/-! ## non-vacuity: a class with every kind of structure -/

/-- two fields, two methods (one with `Code` carrying stack map, line numbers, two local variable tables, a type
annotation and an unknown attribute), class attributes including `Record` with two components -/
def exClass : ClassFrame where
  hdrOk := true
  hdr := 120
  h := 7
  fields := [⟨1, [⟨.constantValue, 2, 2, [5]⟩, ⟨.deprecated, 0, 0, []⟩, ⟨.other, 3, 0, [9]⟩]⟩,
             ⟨2, [⟨.signature, 2, 2, [1]⟩, ⟨.rva, 8, 8, [1, 2]⟩]⟩]
  methods := [⟨3, [.leaf ⟨.exceptions, 4, 4, [1]⟩,
                   .code { len := 12 + (2 + (6 + 7) + (6 + 6) + (6 + 12) + (6 + 12) + (6 + 9) + (6 + 4)), hdr := 12,
                           maxs := 1, insns := 2, exc := 3,
                           attrs := [⟨.stackMapTable, 7, 7, [1]⟩, ⟨.lineNumberTable, 6, 6, [1]⟩, ⟨.lvt, 12, 12, [1]⟩,
                                     ⟨.lvtt, 12, 12, [1]⟩, ⟨.rvta, 9, 9, [4]⟩, ⟨.signature, 4, 2, [8]⟩] },
                   .leaf ⟨.rvpa, 5, 0, []⟩, .leaf ⟨.synthetic, 0, 0, []⟩]⟩,
              ⟨4, []⟩]
  attrs := [.leaf ⟨.sourceFile, 2, 2, [3]⟩,
            .record (2 + (4 + (2 + (6 + 2))) + (4 + 2)) [⟨1, [⟨.signature, 2, 2, [6]⟩]⟩, ⟨2, []⟩],
            .leaf ⟨.bootstrapMethods, 6, 6, []⟩, .leaf ⟨.code, 3, 99, [1]⟩]

example : wellFormed exClass = true := by decide
example : framesExact exClass = true := by decide

/-- a visitor that skips some attributes at every level and declines field 0, record component 1 and the code of
method 0 -/
def exCfg : Cfg where
  cls := some (fun k => k != .sourceFile)
  fieldsI := true
  methodsI := true
  field := fun i => if i = 0 then none else some (fun k => k == .signature)
  method := fun _ => some { mask := fun k => k != .exceptions, code := true, codeV := none }
  recc := fun r => if r = 1 then none else some allMask

/-! ## bytes consumed -/

/-- **consumed_mask_independent**: on exactly framed input every read that succeeds — whatever the interest masks and
whatever is declined — leaves the cursor exactly at the end of the class file (`c.size` = the bytes its declared lengths
span). In particular two visitors never disagree on where the next class file starts. -/
theorem consumed_mask_independent {cfg : Cfg} {c : ClassFrame} {avail n : Nat} {evs : List Ev}
    (hx : framesExact c = true) (h : readWith cfg c avail = .ok (n, evs)) : n = c.size :=
  readWith_pos (framesExact_parts hx).2.2 h

theorem consumed_same {cfg cfg' : Cfg} {c : ClassFrame} {avail n n' : Nat} {evs evs' : List Ev}
    (hx : framesExact c = true) (h : readWith cfg c avail = .ok (n, evs))
    (h' : readWith cfg' c avail = .ok (n', evs')) : n = n' := by
  rw [consumed_mask_independent hx h, consumed_mask_independent hx h']

example : (readWith exCfg exClass exClass.size).map (·.1) = .ok exClass.size := by decide

/-- the reader depends on exact framing: with a `Deprecated` attribute of declared length 1 (it is neither parsed nor
skipped) the full read is desynchronised while a declining visitor's `skip_attributes` passes over it -/
theorem frames_exact_needed_witness :
    let c : ClassFrame := { hdrOk := true, hdr := 10, h := 1, fields := [], methods := [],
                            attrs := [.leaf ⟨.deprecated, 1, 0, []⟩] }
    readWith full c 100 = .error .desync ∧ readWith { full with cls := none } c 100 = .ok (c.size, [Ev.classBegin 1]) := by
  decide

/-- **old_stack_map_regression** (defect repaired in 69346bc): the entries of an old-format `StackMap` attribute used to
be ordered by label id, so the frames handed out depended on which labels earlier attributes had created — a code
visitor without interest in line numbers received fewer frames than the full read reports. Now the entries are ordered
by bytecode offset: a class whose `Code` carries a `LineNumberTable` followed by a two-entry `StackMap` is well formed,
and a visitor that masks the line numbers receives the same frames as the full read. -/
theorem old_stack_map_regression :
    let c : ClassFrame := { hdrOk := true, hdr := 10, h := 1, fields := [], attrs := [],
                            methods := [⟨2, [.code { len := 12 + 2 + (6 + 6) + (6 + 14), hdr := 12, maxs := 1, insns := 2,
                                                     exc := 3, attrs := [⟨.lineNumberTable, 6, 6, [1]⟩,
                                                                         ⟨.stackMap, 14, 14, [2]⟩] }]⟩] }
    let cfg : Cfg := { full with method := fun _ => some { mask := allMask, code := true,
                                                           codeV := some (fun k => k != .lineNumberTable) } }
    wellFormed c = true ∧
    (readWith full c c.size).toOption.map (fun r => r.2.contains (Ev.codeInsns 0 (some [2]) 2)) = some true ∧
    (readWith cfg c c.size).toOption.map (fun r => r.2.contains (Ev.codeInsns 0 (some [2]) 2)
                                                     && !r.2.any (fun e => e matches Ev.codeLines _ _)) = some true := by
  decide

/-! ## events delivered -/

/-- **delivered_projection** (relative form): whenever the full read of an exactly framed class succeeds, the read with
any configuration succeeds as well, consumes the same bytes, and delivers exactly `proj cfg` of the events of the full
read — `filterMap` keeps their order. -/
theorem delivered_projection_of_full {cfg : Cfg} {c : ClassFrame} {avail n : Nat} {evs : List Ev}
    (hx : framesExact c = true) (h : readWith full c avail = .ok (n, evs)) :
    readWith cfg c avail = .ok (n, evs.filterMap (proj cfg)) :=
  readWith_proj hx h

/-- the full read of a well-formed class succeeds as soon as the bytes are there and delivers `fullEvents c` -/
theorem full_read_spec {c : ClassFrame} {avail : Nat} (hwf : wellFormed c = true) (hle : c.size ≤ avail) :
    readWith full c avail = .ok (c.size, fullEvents c) :=
  readWith_full hwf hle

/-- **delivered_projection**: for a well-formed class every configuration receives the projection of `fullEvents c`,
order preserved, and the read consumes `c.size` bytes -/
theorem delivered_projection {cfg : Cfg} {c : ClassFrame} {avail : Nat} (hwf : wellFormed c = true)
    (hle : c.size ≤ avail) :
    readWith cfg c avail = .ok (c.size, (fullEvents c).filterMap (proj cfg)) := by
  have hx : framesExact c = true := by
    simp only [wellFormed, Bool.and_eq_true] at hwf; exact hwf.1.1.1
  exact readWith_proj hx (readWith_full hwf hle)

example : ((fullEvents exClass).filterMap (proj exCfg)).length = 20 := by decide
example : (fullEvents exClass).length = 36 := by decide

/-! ## declining or re-masking an item does not disturb the other items -/

/-- the events a visitor receives for everything but field `j` do not depend on what it does with field `j`
(declining it: `x = none`; any other mask: `x = some m`) -/
theorem decline_field_local (cfg : Cfg) (j : Nat) (x : Option Mask) (evs : List Ev) :
    (evs.filterMap (proj (cfg.setField j x))).filter (fun e => e.owner != .field j)
      = (evs.filterMap (proj cfg)).filter (fun e => e.owner != .field j) :=
  filter_filterMap_congr (fun _ _ h => by rw [proj_owner h]) (fun _ _ h => by rw [proj_owner h])
    (fun e h => proj_setField (by simpa using h)) evs

/-- same for method `j` (its `Code` belongs to it) -/
theorem decline_method_local (cfg : Cfg) (j : Nat) (x : Option MethodCfg) (evs : List Ev) :
    (evs.filterMap (proj (cfg.setMethod j x))).filter (fun e => e.owner != .method j && e.owner != .code j)
      = (evs.filterMap (proj cfg)).filter (fun e => e.owner != .method j && e.owner != .code j) :=
  filter_filterMap_congr (fun _ _ h => by rw [proj_owner h]) (fun _ _ h => by rw [proj_owner h])
    (fun e h => by
      simp only [Bool.and_eq_true, bne_iff_ne, ne_eq] at h
      exact proj_setMethod h.1 h.2) evs

/-- same for record component `j` -/
theorem decline_record_component_local (cfg : Cfg) (j : Nat) (x : Option Mask) (evs : List Ev) :
    (evs.filterMap (proj (cfg.setRec j x))).filter (fun e => e.owner != .comp j)
      = (evs.filterMap (proj cfg)).filter (fun e => e.owner != .comp j) :=
  filter_filterMap_congr (fun _ _ h => by rw [proj_owner h]) (fun _ _ h => by rw [proj_owner h])
    (fun e h => proj_setRec (by simpa using h)) evs

/-- what `visit_code()` of method `j` answers (`None`, or a code visitor with any interests) changes nothing outside the
code of method `j` — the regression statement for the defect repaired in d898d56, where `None` left the `Code` body
unread and shifted everything after it -/
theorem decline_code_local (cfg : Cfg) (j : Nat) (x : Option Mask) (evs : List Ev) :
    (evs.filterMap (proj (cfg.setCodeV j x))).filter (fun e => e.owner != .code j)
      = (evs.filterMap (proj cfg)).filter (fun e => e.owner != .code j) :=
  filter_filterMap_congr (fun _ _ h => by rw [proj_owner h]) (fun _ _ h => by rw [proj_owner h])
    (fun e h => proj_setCodeV (Or.inl (by simpa using h))) evs

/-- a declined `Code` is skipped by its declared length: the read succeeds, ends at the end of the file and the method's
other attributes, the following methods and the class end are delivered as in the full read -/
theorem visit_code_none_skips {cfg : Cfg} {c : ClassFrame} {avail : Nat} (j : Nat) (hwf : wellFormed c = true)
    (hle : c.size ≤ avail) :
    readWith (cfg.setCodeV j none) c avail = .ok (c.size, (fullEvents c).filterMap (proj (cfg.setCodeV j none))) :=
  delivered_projection hwf hle

example : (readWith exCfg exClass 1000).toOption.map (fun r => r.2.contains (Ev.methodBegin 1 4)) = some true := by
  decide

/-! ## concatenated class files -/

/-- **concat_delivery**: `n` well-formed class files back to back in one stream are delivered one per successive read:
the k-th read (with its own configuration) starts at the k-th file, consumes exactly that file and delivers the
projection of that file's events — no read is disturbed by what an earlier visitor skipped or declined. -/
theorem concat_delivery (cs : List ClassFrame) (cfgs : List Cfg) (hwf : ∀ c ∈ cs, wellFormed c = true)
    (hl : cfgs.length = cs.length) :
    readStream cfgs cs 0 (sizes cs) =
      List.zipWith (fun cfg c => .ok (c.size, (fullEvents c).filterMap (proj cfg))) cfgs cs :=
  readStream_wf cs cfgs 0 (sizes cs) hwf hl (by omega)

example : (readStream [exCfg, full, { full with cls := none }] [exClass, exClass, exClass] 0 (3 * exClass.size)).length = 3 := by
  decide

/-! ## replay: `ClassFile::accept` -/

/-- **accept_events**: replaying a tree with the full configuration into the tree builder reproduces the tree — for
every tree in the shape the builder produces (`Shaped`). The builder files every event under its item and kind, so this
says that `accept` delivers, per item and kind, exactly what the tree holds. -/
theorem accept_events (t : ClassTree) (hs : t.Shaped) : build (accept full t) = some t :=
  build_accept t hs

/-- every tree the builder produces has that shape -/
theorem build_shaped {evs : List Ev} {t : ClassTree} (h : build evs = some t) : t.Shaped :=
  build_isShaped h

/-- reading and then replaying gives back the class: with `t` the tree the builder makes of the full read of `c`,
replaying `t` into a fresh builder yields `t` again (`read ∘ accept ∘ read = read`) -/
theorem replay_reproduces {c : ClassFrame} {t : ClassTree} (h : build (fullEvents c) = some t) :
    build (accept full t) = some t :=
  build_accept t (build_isShaped h)

example : (build (fullEvents exClass)).isSome = true := by decide

/-- a masked or declining replay delivers the projection (by `projA`, the replay's own projection) of the full replay,
order preserved; declining an item does not disturb the others -/
theorem accept_projection (cfg : Cfg) (t : ClassTree) :
    accept cfg t = (accept full t).filterMap (projA cfg) :=
  accept_proj cfg t

/-- where replay and read project alike: `projA cfg` and `proj cfg` agree on every event when the class visitor asks for
fields and methods and every code visitor asks for stack map frames and treats the two local variable tables alike
(`hne`: the tree holds no `Some(vec![])` local variable table — the reader never produces one) -/
theorem accept_projection_as_read_partial (cfg : Cfg) (hf : cfg.fieldsI = true) (hm : cfg.methodsI = true)
    (hcode : ∀ i cm, codeMaskOf cfg i = some cm → cm .stackMapTable = true ∧ cm .lvt = cm .lvtt)
    (t : ClassTree) (hne : ∀ i, Ev.codeLocals i [] ∉ accept full t) :
    accept cfg t = (accept full t).filterMap (proj cfg) := by
  rw [accept_proj cfg t]
  exact filterMap_projA_eq_proj cfg hf hm hcode _ hne

/-- **reader_ignores_member_interests_witness**: `ClassInterests.fields = false` is honoured by `ClassFile::accept`
(no field is replayed) and ignored by the reader (the field is visited): read and replay of the same class differ for
this visitor -/
theorem reader_ignores_member_interests_witness :
    let c : ClassFrame := { hdrOk := true, hdr := 10, h := 1, fields := [⟨5, []⟩], methods := [], attrs := [] }
    let cfg : Cfg := { full with fieldsI := false }
    (readWith cfg c c.size).toOption.map (·.2) = some [.classBegin 1, .classFlags false false, .fieldBegin 0 5,
        .fieldFlags 0 false false, .fieldEnd 0, .classEnd] ∧
    (build (fullEvents c)).map (accept cfg) = some [.classBegin 1, .classFlags false false, .classEnd] := by
  decide

/-- **accept_ignores_stack_map_interest_witness**: a code visitor not interested in `stack_map_table` receives no frames
from the reader but does receive them from `Code::accept` -/
theorem accept_ignores_stack_map_interest_witness :
    let c : ClassFrame := { hdrOk := true, hdr := 10, h := 1, fields := [], attrs := [],
                            methods := [⟨2, [.code { len := 12 + 2 + (6 + 7), hdr := 12, maxs := 1, insns := 2,
                                                     exc := 3, attrs := [⟨.stackMapTable, 7, 7, [4]⟩] }]⟩] }
    let cfg : Cfg := { full with method := fun _ => some { mask := allMask, code := true,
                                                           codeV := some (fun k => k != .stackMapTable) } }
    (readWith cfg c c.size).toOption.map (fun r => r.2.contains (Ev.codeInsns 0 none 2)) = some true ∧
    (build (fullEvents c)).map (fun t => (accept cfg t).contains (Ev.codeInsns 0 (some [4]) 2)) = some true := by
  decide

/-- **accept_order_witness**: replay does not keep the reader's order — Deprecated/Synthetic come first instead of last,
attributes come in `accept`'s fixed order instead of file order (here `Signature` before `SourceFile`) -/
theorem accept_order_witness :
    let c : ClassFrame := { hdrOk := true, hdr := 10, h := 1, fields := [], methods := [],
                            attrs := [.leaf ⟨.sourceFile, 2, 2, [1]⟩, .leaf ⟨.signature, 2, 2, [2]⟩] }
    fullEvents c = [.classBegin 1, .cAttr false .sourceFile [1], .cAttr false .signature [2],
                    .classFlags false false, .classEnd] ∧
    (build (fullEvents c)).map (accept full) = some [.classBegin 1, .classFlags false false,
                    .cAttr false .signature [2], .cAttr false .sourceFile [1], .classEnd] := by
  decide

end Thm.C17
