import FeatherModel.Lemmas.VisitLocal
import FeatherModel.Lemmas.VisitSkip
import FeatherModel.Lemmas.VisitReplay

/-!
# C17 — partial and replaying visitors observe the same facts as a full read

Property theorems only. Models: `FeatherModel/Model/Visit.lean` (`readWith`: `duke/src/class_reader.rs` at the
granularity of its dispatch logic), `Model/VisitFull.lean` (`fullEvents`, `wellFormed`), `Model/VisitTree.lean`
(`build`: the tree-building visitor, `accept`: `duke/src/tree/*.rs accept`).

All statements are unbounded: any class framing (any number of fields, methods, attributes, record components, code
attributes, any lengths and payloads), any configuration `cfg` (interest masks at the class / field / method / code /
record-component level chosen per item, any set of declined classes, fields, methods, record components, `Code`s),
any number of concatenated files.

Scope notes (what "the same facts" means here):
* An event is identified by the item it belongs to, its kind and an abstract payload. Labels are names of bytecode
  positions; the model does not represent them (`visit_last_label`, the `Option<Label>` of an instruction): which
  positions carry a label — and the numeric ids — depends on which `Code` attributes were parsed, so these are compared
  by the harness only after resolving labels to instruction indices.
* `FramesExact` (`framesExact c`): every attribute the reader may parse consumes exactly its declared length. It is
  what the JVMS demands of a class file; `frames_exact_needed_witness` shows that the reader depends on it.
* The code as of 52da0aa (the reader honours `ClassInterests.fields` / `.methods`: fields are skipped, methods not read),
  47a6ce7 (`Code::accept` strips the stack map frames for a visitor without `stack_map_table` interest) and e55a129
  (`Code::accept` hands out the entries, and halves of entries, of the local variable tables asked for). What is left of
  the read / replay difference is the order of delivery (`accept_order_witness`) and `visit_local_variables(vec![])`
  calls without entries (`accept_empty_local_variables_witness`).
-/

namespace Thm.C17
open Visit

/-! ## non-vacuity: a class with every kind of structure -/

/-- two fields, two methods (one with `Code` carrying stack map, line numbers, two local variable tables, a type
annotation and an unknown attribute), class attributes including `Record` with two components -/
def exClass : ClassFrame where
  hdrOk := true
  hdr := 120
  h := 7
  fields := [⟨1, [⟨.constantValue, 2, 2, [5]⟩, ⟨.deprecated, 0, 0, []⟩, ⟨.other, 3, 0, [9]⟩], true⟩,
             ⟨2, [⟨.signature, 2, 2, [1]⟩, ⟨.rva, 8, 8, [1, 2]⟩], true⟩]
  methods := [⟨3, [.leaf ⟨.exceptions, 4, 4, [1]⟩,
                   .code { len := 12 + (2 + (6 + 7) + (6 + 6) + (6 + 12) + (6 + 12) + (6 + 9) + (6 + 4)), hdr := 12,
                           maxs := 1, insns := 2, exc := 3,
                           attrs := [⟨.stackMapTable, 7, 7, [1]⟩, ⟨.lineNumberTable, 6, 6, [1]⟩, ⟨.lvt, 12, 12, [1]⟩,
                                     ⟨.lvtt, 12, 12, [1]⟩, ⟨.rvta, 9, 9, [4]⟩, ⟨.signature, 4, 2, [8]⟩] },
                   .leaf ⟨.rvpa, 5, 0, []⟩, .leaf ⟨.synthetic, 0, 0, []⟩], true⟩,
              ⟨4, [], true⟩]
  attrs := [.leaf ⟨.sourceFile, 2, 2, [3]⟩,
            .record (2 + (4 + (2 + (6 + 2))) + (4 + 2)) [⟨1, [⟨.signature, 2, 2, [6]⟩]⟩, ⟨2, []⟩],
            .leaf ⟨.bootstrapMethods, 6, 6, []⟩, .leaf ⟨.code, 3, 99, [1]⟩]

example : wellFormed exClass = true := by decide
example : framesExact exClass = true := by decide

/-- a visitor that skips some attributes at every level and declines field 0, record component 1 and the code of
method 0 -/
def exCfg : Cfg where
  cls := some (fun k => k != .sourceFile)
  fieldsI := true
  methodsI := true
  field := fun i => if i = 0 then none else some (fun k => k == .signature)
  method := fun _ => some { mask := fun k => k != .exceptions, code := true, codeV := none }
  recc := fun r => if r = 1 then none else some allMask

/-! ## bytes consumed -/

/-- **consumed_mask_independent**: on exactly framed input every read that succeeds — whatever the interest masks and
whatever is declined — leaves the cursor exactly at the end of the class file (`c.size` = the bytes its declared lengths
span). In particular two visitors never disagree on where the next class file starts. -/
theorem consumed_mask_independent {cfg : Cfg} {c : ClassFrame} {avail n : Nat} {evs : List Ev}
    (hx : framesExact c = true) (h : readWith cfg c avail = .ok (n, evs)) : n = c.size :=
  readWith_pos (framesExact_parts hx).2.2 h

/-- **consumed_members_skipped**: a class visitor without interest in fields and methods makes the reader skip every
field and leave the methods unread inside `with_pos`; the cursor is put back to the end of the class attributes all the
same, i.e. to the end of the class file — here only the class attributes need to be exactly framed, nothing inside the
members is looked at -/
theorem consumed_members_skipped {cfg : Cfg} {c : ClassFrame} {avail n : Nat} {evs : List Ev}
    (_hf : cfg.fieldsI = false) (_hm : cfg.methodsI = false)
    (hx : c.attrs.all cattrExact = true) (h : readWith cfg c avail = .ok (n, evs)) : n = c.size :=
  readWith_pos hx h

theorem consumed_same {cfg cfg' : Cfg} {c : ClassFrame} {avail n n' : Nat} {evs evs' : List Ev}
    (hx : framesExact c = true) (h : readWith cfg c avail = .ok (n, evs))
    (h' : readWith cfg' c avail = .ok (n', evs')) : n = n' := by
  rw [consumed_mask_independent hx h, consumed_mask_independent hx h']

example : (readWith exCfg exClass exClass.size).map (·.1) = .ok exClass.size := by decide
example : (readWith { exCfg with fieldsI := false, methodsI := false } exClass exClass.size).map (·.1)
    = .ok exClass.size := by decide
example : (readWith { full with methodsI := false } exClass exClass.size).map (·.1) = .ok exClass.size := by decide

/-- the reader depends on exact framing: with a `Deprecated` attribute of declared length 1 (it is neither parsed nor
skipped) the full read is desynchronised while a declining visitor's `skip_attributes` passes over it -/
theorem frames_exact_needed_witness :
    let c : ClassFrame := { hdrOk := true, hdr := 10, h := 1, fields := [], methods := [],
                            attrs := [.leaf ⟨.deprecated, 1, 0, []⟩] }
    readWith full c 100 = .error .desync ∧ readWith { full with cls := none } c 100 = .ok (c.size, [Ev.classBegin 1]) := by
  decide

/-- **old_stack_map_regression** (defect repaired in 69346bc): the entries of an old-format `StackMap` attribute used to
be ordered by label id, so the frames handed out depended on which labels earlier attributes had created — a code
visitor without interest in line numbers received fewer frames than the full read reports. Now the entries are ordered
by bytecode offset: a class whose `Code` carries a `LineNumberTable` followed by a two-entry `StackMap` is well formed,
and a visitor that masks the line numbers receives the same frames as the full read. -/
theorem old_stack_map_regression :
    let c : ClassFrame := { hdrOk := true, hdr := 10, h := 1, fields := [], attrs := [],
                            methods := [⟨2, [.code { len := 12 + 2 + (6 + 6) + (6 + 14), hdr := 12, maxs := 1, insns := 2,
                                                     exc := 3, attrs := [⟨.lineNumberTable, 6, 6, [1]⟩,
                                                                         ⟨.stackMap, 14, 14, [2]⟩] }], true⟩] }
    let cfg : Cfg := { full with method := fun _ => some { mask := allMask, code := true,
                                                           codeV := some (fun k => k != .lineNumberTable) } }
    wellFormed c = true ∧
    (readWith full c c.size).toOption.map (fun r => r.2.contains (Ev.codeInsns 0 (some [2]) 2)) = some true ∧
    (readWith cfg c c.size).toOption.map (fun r => r.2.contains (Ev.codeInsns 0 (some [2]) 2)
                                                     && !r.2.any (fun e => e matches Ev.codeLines _ _)) = some true := by
  decide

/-! ## events delivered -/

/-- **delivered_projection** (relative form): whenever the full read of an exactly framed class succeeds, the read with
any configuration succeeds as well, consumes the same bytes, and delivers exactly `proj cfg` of the events of the full
read — `filterMap` keeps their order. -/
theorem delivered_projection_of_full {cfg : Cfg} {c : ClassFrame} {avail n : Nat} {evs : List Ev}
    (hx : framesExact c = true) (h : readWith full c avail = .ok (n, evs)) :
    readWith cfg c avail = .ok (n, evs.filterMap (proj cfg)) :=
  readWith_proj hx h

/-- the full read of a well-formed class succeeds as soon as the bytes are there and delivers `fullEvents c` -/
theorem full_read_spec {c : ClassFrame} {avail : Nat} (hwf : wellFormed c = true) (hle : c.size ≤ avail) :
    readWith full c avail = .ok (c.size, fullEvents c) :=
  readWith_full hwf hle

/-- **delivered_projection**: for a well-formed class every configuration receives the projection of `fullEvents c`,
order preserved, and the read consumes `c.size` bytes -/
theorem delivered_projection {cfg : Cfg} {c : ClassFrame} {avail : Nat} (hwf : wellFormed c = true)
    (hle : c.size ≤ avail) :
    readWith cfg c avail = .ok (c.size, (fullEvents c).filterMap (proj cfg)) := by
  have hx : framesExact c = true := by
    simp only [wellFormed, Bool.and_eq_true] at hwf; exact hwf.1.1.1.1.1
  exact readWith_proj hx (readWith_full hwf hle)

example : ((fullEvents exClass).filterMap (proj exCfg)).length = 20 := by decide
example : (fullEvents exClass).length = 36 := by decide
example : ((fullEvents exClass).filterMap (proj { exCfg with fieldsI := false })).length = 15 := by decide
example : ((fullEvents exClass).filterMap (proj { exCfg with methodsI := false })).length = 13 := by decide

/-- **member_interests_honoured** (part of `delivered_projection`, spelled out): the projection hands a class visitor
that reports `interests.fields = false` no event of any field, and one that reports `interests.methods = false` no event
of any method or `Code` — while `proj` keeps every other event as it would with the flags set (`member_flags_local`) -/
theorem fields_not_of_interest_not_delivered (cfg : Cfg) (hf : cfg.fieldsI = false) (evs : List Ev) :
    ∀ e ∈ evs.filterMap (proj cfg), ∀ i, e.owner ≠ .field i := by
  intro e' he' i ho
  obtain ⟨e, _, he⟩ := List.mem_filterMap.mp he'
  have hown := proj_owner he
  obtain ⟨hb, ha, hfl, hen⟩ := proj_fields_none (cfg := cfg) (Or.inr hf)
  rw [ho] at hown
  cases e with
  | fieldBegin j h => rw [hb] at he; cases he
  | fAttr j unk k pay => rw [ha] at he; cases he
  | fieldFlags j d s => rw [hfl] at he; cases he
  | fieldEnd j => rw [hen] at he; cases he
  | _ => simp [Ev.owner] at hown

theorem methods_not_of_interest_not_delivered (cfg : Cfg) (hm : cfg.methodsI = false) (evs : List Ev) :
    ∀ e ∈ evs.filterMap (proj cfg), ∀ i, e.owner ≠ .method i ∧ e.owner ≠ .code i := by
  intro e' he' i
  obtain ⟨e, _, he⟩ := List.mem_filterMap.mp he'
  have hown := proj_owner he
  obtain ⟨hb, ha, hfl, hen, hcb, hn⟩ := proj_methods_none (cfg := cfg) (Or.inr hm)
  have key : ∀ o, (o = Owner.method i ∨ o = Owner.code i) → e'.owner ≠ o := by
    intro o hor ho
    rw [ho] at hown
    cases e with
    | methodBegin j h => rw [hb] at he; cases he
    | mAttr j unk k pay => rw [ha] at he; cases he
    | methodFlags j d s => rw [hfl] at he; cases he
    | methodEnd j => rw [hen] at he; cases he
    | codeBegin j => rw [hcb] at he; cases he
    | codeMaxs j h => simp [hn, keepIf] at he
    | codeExc j h => simp [hn, keepIf] at he
    | codeEnd j => simp [hn, keepIf] at he
    | kAttr j unk k pay => simp [hn] at he
    | codeInsns j fr h => simp [hn] at he
    | codeLines j parts => simp [hn] at he
    | codeLocals j parts => simp [hn] at he
    | _ => rcases hor with rfl | rfl <;> simp [Ev.owner] at hown
  exact ⟨key _ (Or.inl rfl), key _ (Or.inr rfl)⟩

/-- the two flags touch nothing but the members: every event that belongs to the class itself or to a record component
is projected as if the flags were set -/
theorem member_flags_local (cfg : Cfg) (fi mi : Bool) (evs : List Ev) :
    (evs.filterMap (proj { cfg with fieldsI := fi, methodsI := mi })).filter
        (fun e => e.owner == .cls || e matches .recBegin .. || e matches .rAttr .. || e matches .recEnd ..)
      = (evs.filterMap (proj cfg)).filter
        (fun e => e.owner == .cls || e matches .recBegin .. || e matches .rAttr .. || e matches .recEnd ..) :=
  filter_filterMap_congr
    (fun e e' h => by
      have := proj_owner h
      cases e <;> simp only [proj, keepIf] at h <;> (repeat' split at h) <;>
        first | (simp only [Option.some.injEq] at h; subst h; rfl) | (simp at h))
    (fun e e' h => by
      cases e <;> simp only [proj, keepIf] at h <;> (repeat' split at h) <;>
        first | (simp only [Option.some.injEq] at h; subst h; rfl) | (simp at h))
    (fun e h => by cases e <;> simp [Ev.owner] at h <;> simp [proj, recMaskOf]) evs

/-- **members_skipped_read_spec**: a visitor that declines the class, or whose class visitor reports neither `fields` nor
`methods`, reads every class file whose header and class attributes are well formed (`classLevelWf`: nothing is assumed
about what is inside the fields and methods — unresolvable names, attributes that do not parse, refused duplicates —
beyond the lengths that lay them out): the read succeeds, the cursor ends at the end of the file and the visitor receives
the projection of the class-level events. Errors inside members it did not ask for do not exist for such a visitor. -/
theorem members_skipped_read_spec {cfg : Cfg} {c : ClassFrame} {avail : Nat}
    (hwf : classLevelWf c = true) (hle : c.size ≤ avail)
    (hs : cfg.cls = none ∨ (cfg.fieldsI = false ∧ cfg.methodsI = false)) :
    readWith cfg c avail = .ok (c.size, (classEvents c).filterMap (proj cfg)) :=
  readWith_members_skipped hwf hle hs

/-- … and so are class files concatenated in one stream: one per successive read, whatever their members hold -/
theorem members_skipped_concat (cs : List ClassFrame) (cfgs : List Cfg) (hwf : ∀ c ∈ cs, classLevelWf c = true)
    (hl : cfgs.length = cs.length)
    (hs : ∀ cfg ∈ cfgs, cfg.cls = none ∨ (cfg.fieldsI = false ∧ cfg.methodsI = false)) :
    readStream cfgs cs 0 (sizes cs) =
      List.zipWith (fun cfg c => .ok (c.size, (classEvents c).filterMap (proj cfg))) cfgs cs :=
  readStream_members_skipped cs cfgs 0 (sizes cs) hwf hl (by omega) hs

/-- **skipped_members_not_validated**: what the reader does not look at cannot make it fail. A field whose name index
does not resolve and a method with two `StackMapTable`s make the full read fail; a class visitor that reports
`fields = false, methods = false` reads the same bytes without error, receives the class-level events and the cursor
ends at the end of the file. With only `methods = false` the bad field is still visited (error), with only
`fields = false` the bad method. -/
theorem skipped_members_not_validated :
    let k : Code := { len := 12 + 2 + (6 + 7) + (6 + 7), hdr := 12, maxs := 1, insns := 2, exc := 3,
                      attrs := [⟨.stackMapTable, 7, 7, [4]⟩, ⟨.stackMapTable, 7, 7, [5]⟩] }
    let c : ClassFrame := { hdrOk := true, hdr := 10, h := 1, attrs := [.leaf ⟨.sourceFile, 2, 2, [3]⟩],
                            fields := [⟨5, [], false⟩], methods := [⟨2, [.code k], true⟩] }
    readWith full c c.size = .error .err ∧
    readWith { full with methodsI := false } c c.size = .error .err ∧
    readWith { full with fieldsI := false } c c.size = .error .err ∧
    readWith { full with fieldsI := false, methodsI := false } c c.size
      = .ok (c.size, [.classBegin 1, .cAttr false .sourceFile [3], .classFlags false false, .classEnd]) ∧
    classLevelWf c = true ∧ wellFormed c = false := by
  decide

/-! ## declining or re-masking an item does not disturb the other items -/

/-- the events a visitor receives for everything but field `j` do not depend on what it does with field `j`
(declining it: `x = none`; any other mask: `x = some m`) -/
theorem decline_field_local (cfg : Cfg) (j : Nat) (x : Option Mask) (evs : List Ev) :
    (evs.filterMap (proj (cfg.setField j x))).filter (fun e => e.owner != .field j)
      = (evs.filterMap (proj cfg)).filter (fun e => e.owner != .field j) :=
  filter_filterMap_congr (fun _ _ h => by rw [proj_owner h]) (fun _ _ h => by rw [proj_owner h])
    (fun e h => proj_setField (by simpa using h)) evs

/-- same for method `j` (its `Code` belongs to it) -/
theorem decline_method_local (cfg : Cfg) (j : Nat) (x : Option MethodCfg) (evs : List Ev) :
    (evs.filterMap (proj (cfg.setMethod j x))).filter (fun e => e.owner != .method j && e.owner != .code j)
      = (evs.filterMap (proj cfg)).filter (fun e => e.owner != .method j && e.owner != .code j) :=
  filter_filterMap_congr (fun _ _ h => by rw [proj_owner h]) (fun _ _ h => by rw [proj_owner h])
    (fun e h => by
      simp only [Bool.and_eq_true, bne_iff_ne, ne_eq] at h
      exact proj_setMethod h.1 h.2) evs

/-- same for record component `j` -/
theorem decline_record_component_local (cfg : Cfg) (j : Nat) (x : Option Mask) (evs : List Ev) :
    (evs.filterMap (proj (cfg.setRec j x))).filter (fun e => e.owner != .comp j)
      = (evs.filterMap (proj cfg)).filter (fun e => e.owner != .comp j) :=
  filter_filterMap_congr (fun _ _ h => by rw [proj_owner h]) (fun _ _ h => by rw [proj_owner h])
    (fun e h => proj_setRec (by simpa using h)) evs

/-- what `visit_code()` of method `j` answers (`None`, or a code visitor with any interests) changes nothing outside the
code of method `j` — the regression statement for the defect repaired in d898d56, where `None` left the `Code` body
unread and shifted everything after it -/
theorem decline_code_local (cfg : Cfg) (j : Nat) (x : Option Mask) (evs : List Ev) :
    (evs.filterMap (proj (cfg.setCodeV j x))).filter (fun e => e.owner != .code j)
      = (evs.filterMap (proj cfg)).filter (fun e => e.owner != .code j) :=
  filter_filterMap_congr (fun _ _ h => by rw [proj_owner h]) (fun _ _ h => by rw [proj_owner h])
    (fun e h => proj_setCodeV (Or.inl (by simpa using h))) evs

/-- a declined `Code` is skipped by its declared length: the read succeeds, ends at the end of the file and the method's
other attributes, the following methods and the class end are delivered as in the full read -/
theorem visit_code_none_skips {cfg : Cfg} {c : ClassFrame} {avail : Nat} (j : Nat) (hwf : wellFormed c = true)
    (hle : c.size ≤ avail) :
    readWith (cfg.setCodeV j none) c avail = .ok (c.size, (fullEvents c).filterMap (proj (cfg.setCodeV j none))) :=
  delivered_projection hwf hle

example : (readWith exCfg exClass 1000).toOption.map (fun r => r.2.contains (Ev.methodBegin 1 4)) = some true := by
  decide

/-! ## concatenated class files -/

/-- **concat_delivery**: `n` well-formed class files back to back in one stream are delivered one per successive read:
the k-th read (with its own configuration) starts at the k-th file, consumes exactly that file and delivers the
projection of that file's events — no read is disturbed by what an earlier visitor skipped or declined. -/
theorem concat_delivery (cs : List ClassFrame) (cfgs : List Cfg) (hwf : ∀ c ∈ cs, wellFormed c = true)
    (hl : cfgs.length = cs.length) :
    readStream cfgs cs 0 (sizes cs) =
      List.zipWith (fun cfg c => .ok (c.size, (fullEvents c).filterMap (proj cfg))) cfgs cs :=
  readStream_wf cs cfgs 0 (sizes cs) hwf hl (by omega)

example : (readStream [exCfg, full, { full with cls := none }] [exClass, exClass, exClass] 0 (3 * exClass.size)).length = 3 := by
  decide

/-! ## replay: `ClassFile::accept` -/

/-- **accept_events**: replaying a tree with the full configuration into the tree builder reproduces the tree — for
every tree in the shape the builder produces (`Shaped`). The builder files every event under its item and kind, so this
says that `accept` delivers, per item and kind, exactly what the tree holds. -/
theorem accept_events (t : ClassTree) (hs : t.Shaped) : build (accept full t) = some t :=
  build_accept t hs

/-- every tree the builder produces has that shape -/
theorem build_shaped {evs : List Ev} {t : ClassTree} (h : build evs = some t) : t.Shaped :=
  build_isShaped h

/-- reading and then replaying gives back the class: with `t` the tree the builder makes of the full read of `c`,
replaying `t` into a fresh builder yields `t` again (`read ∘ accept ∘ read = read`) -/
theorem replay_reproduces {c : ClassFrame} {t : ClassTree} (h : build (fullEvents c) = some t) :
    build (accept full t) = some t :=
  build_accept t (build_isShaped h)

example : (build (fullEvents exClass)).isSome = true := by decide

/-- a masked or declining replay delivers the projection (by `projA`, the replay's own projection) of the full replay,
order preserved; declining an item does not disturb the others -/
theorem accept_projection (cfg : Cfg) (t : ClassTree) :
    accept cfg t = (accept full t).filterMap (projA cfg) :=
  accept_proj cfg t

/-- **accept_projection_as_read** (full strength): for every configuration — every interest mask at every level,
`fields` / `methods` on or off, any stack map and local variable interests, anything declined — the masked replay is
exactly the reader's projection of the full replay: same events (including `visit_local_variables` with the entries, and
halves of entries, of the tables asked for), same order. No hypothesis on the visitor. The one hypothesis is on the
tree: every local variable vector it holds has entries, part by part (`localsHaveEntries`, decidable). It cannot be
dropped (`accept_empty_local_variables_witness`): a `Some(vec![])` in the tree does not say which table was present and
empty — `Code::accept` hands it to every code visitor interested in one of the two tables, the reader calls
`visit_local_variables` only when a table *the visitor asked for* is present. Trees read from classes whose
`LocalVariableTable`s / `LocalVariableTypeTable`s all have entries satisfy it. -/
theorem accept_projection_as_read (cfg : Cfg) (t : ClassTree) (hne : localsHaveEntries (accept full t) = true) :
    accept cfg t = (accept full t).filterMap (proj cfg) := by
  rw [accept_proj cfg t]
  exact filterMap_projA_eq_proj cfg _ (localsHaveEntries_spec hne)

/-- **accept_projection_as_read_up_to_empty** (no hypothesis at all): for every configuration and every tree, masked
replay and the reader's projection of the full replay agree on everything but `visit_local_variables` calls without
entries (which tell a visitor nothing), order preserved -/
theorem accept_projection_as_read_up_to_empty (cfg : Cfg) (t : ClassTree) :
    (accept cfg t).filter (fun e => !e.vacuous)
      = ((accept full t).filterMap (proj cfg)).filter (fun e => !e.vacuous) := by
  rw [accept_proj cfg t]
  exact filterMap_filter_congr (projA_eq_proj_up_to_vacuous cfg) _

/-- non-vacuity: the tree of the class with every kind of structure (a `LocalVariableTable` and a
`LocalVariableTypeTable` among them) satisfies the hypothesis, and so does its variant with both halves in every entry -/
example : (build (fullEvents exClass)).map (fun t => localsHaveEntries (accept full t)) = some true := by decide
example : (build (fullEvents exClass)).map (fun t => localsHaveEntries (accept full t.bothHalves)) = some true := by
  decide

def exCodeMask : Mask := fun k => k != .stackMapTable && k != .lvtt

/-- on that class, a code visitor interested in `LocalVariableTable` only, stack map frames masked, methods of another
visitor off: read and replay deliver the same events per item and kind -/
example : (build (fullEvents exClass)).map (fun t =>
    let cfg : Cfg := { full with method := fun _ => some ⟨allMask, true, some exCodeMask⟩ }
    sameDigest (accept cfg t) ((readWith cfg exClass exClass.size).toOption.map (·.2) |>.getD [])
      && accept cfg t == (accept full t).filterMap (proj cfg)) = some true := by
  decide

/-- **reader_honours_member_interests** (regression, defect repaired in 52da0aa): the reader used to visit every field
and method whatever `ClassInterests.fields` / `.methods` said while `ClassFile::accept` honoured the flags. For the
former witness (one field, a class visitor with `fields = false`) reading the bytes and replaying the tree now deliver
the same events: no field is visited. -/
theorem reader_honours_member_interests :
    let c : ClassFrame := { hdrOk := true, hdr := 10, h := 1, fields := [⟨5, [], true⟩], methods := [], attrs := [] }
    let cfg : Cfg := { full with fieldsI := false }
    (readWith cfg c c.size).toOption.map (·.2) = some [.classBegin 1, .classFlags false false, .classEnd] ∧
    (build (fullEvents c)).map (accept cfg) = some [.classBegin 1, .classFlags false false, .classEnd] := by
  decide

/-- the same for `methods = false` on the class with every kind of structure: read and replay deliver the same events
per item and kind -/
example : (build (fullEvents exClass)).map (fun t =>
    sameDigest (accept { full with methodsI := false } t)
      ((readWith { full with methodsI := false } exClass exClass.size).toOption.map (·.2) |>.getD [])) = some true := by
  decide

/-- **accept_honours_stack_map_interest** (regression, defect repaired in 47a6ce7): `Code::accept` used to hand the stack
map frames to every code visitor. For the former witness (a `Code` with a `StackMapTable`, a code visitor without
`stack_map_table` interest) the reader and the replay now both deliver the instructions without frames. -/
theorem accept_honours_stack_map_interest :
    let k : Code := { len := 12 + 2 + (6 + 7), hdr := 12, maxs := 1, insns := 2, exc := 3,
                      attrs := [⟨.stackMapTable, 7, 7, [4]⟩] }
    let c : ClassFrame := { hdrOk := true, hdr := 10, h := 1, fields := [], attrs := [], methods := [⟨2, [.code k], true⟩] }
    let cfg : Cfg := { full with method := fun _ => some { mask := allMask, code := true,
                                                           codeV := some (fun k => k != .stackMapTable) } }
    (readWith cfg c c.size).toOption.map (fun r => r.2.contains (Ev.codeInsns 0 none 2)) = some true ∧
    (build (fullEvents c)).map (fun t => (accept cfg t).contains (Ev.codeInsns 0 none 2)
                                          && !(accept cfg t).contains (Ev.codeInsns 0 (some [4]) 2)) = some true ∧
    (build (fullEvents c)).map (fun t => accept cfg t == (accept full t).filterMap (proj cfg)) = some true := by
  decide

/-- **accept_honours_local_variable_interests** (regression, defect repaired in e55a129): `Code::accept` used to hand the
whole local variable vector to a code visitor as soon as it reported one of `local_variable_table` /
`local_variable_type_table`. For the former witness (a `Code` with both tables, a code visitor interested in
`LocalVariableTable` only) the reader and the replay now both deliver the `LocalVariableTable` entries only, and the
masked replay is the projection of the full one. -/
theorem accept_honours_local_variable_interests :
    let k : Code := { len := 12 + 2 + (6 + 12) + (6 + 12), hdr := 12, maxs := 1, insns := 2, exc := 3,
                      attrs := [⟨.lvt, 12, 12, [1]⟩, ⟨.lvtt, 12, 12, [2]⟩] }
    let c : ClassFrame := { hdrOk := true, hdr := 10, h := 1, fields := [], attrs := [], methods := [⟨2, [.code k], true⟩] }
    let cfg : Cfg := { full with method := fun _ => some { mask := allMask, code := true,
                                                           codeV := some (fun k => k != .lvtt) } }
    (readWith cfg c c.size).toOption.map (fun r => r.2.contains (Ev.codeLocals 0 [(.d, [1])])) = some true ∧
    (build (fullEvents c)).map (fun t => (accept cfg t).contains (Ev.codeLocals 0 [(.d, [1])])
                                          && !(accept cfg t).contains (Ev.codeLocals 0 [(.d, [1]), (.s, [2])])) = some true ∧
    (build (fullEvents c)).map (fun t => accept cfg t == (accept full t).filterMap (proj cfg)) = some true := by
  decide

/-- **accept_strips_halves**: a tree can hold entries with both a descriptor and a signature (the reader never builds
one). A code visitor interested in one table gets the half that belongs to it, one interested in neither gets no
`visit_local_variables`, one interested in both gets the entries as they are. -/
theorem accept_strips_halves :
    let t : ClassTree := { h := 1, methods := [{ h := 2, code := some { locals := some [(.both, [2]), (.s, [1])] } }] }
    let cfgWith (cm : Mask) : Cfg := { full with method := fun _ => some { mask := allMask, code := true, codeV := some cm } }
    let localsOf (evs : List Ev) : List Ev := evs.filter (fun e => e.isLocals)
    localsOf (accept (cfgWith (fun k => k != .lvtt)) t) = [.codeLocals 0 [(.d, [2])]] ∧
    localsOf (accept (cfgWith (fun k => k != .lvt)) t) = [.codeLocals 0 [(.s, [2]), (.s, [1])]] ∧
    localsOf (accept (cfgWith (fun k => k != .lvt && k != .lvtt)) t) = [] ∧
    localsOf (accept (cfgWith allMask) t) = [.codeLocals 0 [(.both, [2]), (.s, [1])]] := by
  decide

/-- **accept_empty_local_variables_witness** (why `accept_projection_as_read` asks for `localsHaveEntries`): a `Code`
whose only local variable table is a `LocalVariableTable` without entries gives `local_variables = Some(vec![])` in the
tree. A code visitor interested in `LocalVariableTypeTable` only receives no `visit_local_variables` from the reader
(no table it asked for is there) but `visit_local_variables(vec![])` from `Code::accept` (`was_empty`): the two differ
by an event without entries. -/
theorem accept_empty_local_variables_witness :
    let k : Code := { len := 12 + 2 + (6 + 2), hdr := 12, maxs := 1, insns := 2, exc := 3, attrs := [⟨.lvt, 2, 2, [0]⟩] }
    let c : ClassFrame := { hdrOk := true, hdr := 10, h := 1, fields := [], attrs := [], methods := [⟨2, [.code k], true⟩] }
    let cfg : Cfg := { full with method := fun _ => some { mask := allMask, code := true,
                                                           codeV := some (fun k => k != .lvt) } }
    (readWith cfg c c.size).toOption.map (fun r => r.2.any (fun e => e.isLocals)) = some false ∧
    (build (fullEvents c)).map (fun t => (accept cfg t).contains (Ev.codeLocals 0 [])) = some true ∧
    (build (fullEvents c)).map (fun t => localsHaveEntries (accept full t)) = some false := by
  decide

/-- **accept_order_witness**: replay does not keep the reader's order — Deprecated/Synthetic come first instead of last,
attributes come in `accept`'s fixed order instead of file order (here `Signature` before `SourceFile`) -/
theorem accept_order_witness :
    let c : ClassFrame := { hdrOk := true, hdr := 10, h := 1, fields := [], methods := [],
                            attrs := [.leaf ⟨.sourceFile, 2, 2, [1]⟩, .leaf ⟨.signature, 2, 2, [2]⟩] }
    fullEvents c = [.classBegin 1, .cAttr false .sourceFile [1], .cAttr false .signature [2],
                    .classFlags false false, .classEnd] ∧
    (build (fullEvents c)).map (accept full) = some [.classBegin 1, .classFlags false false,
                    .cAttr false .signature [2], .cAttr false .sourceFile [1], .classEnd] := by
  decide

end Thm.C17
