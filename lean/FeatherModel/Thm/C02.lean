import FeatherModel.Lemmas.CodeWriteMain
import FeatherModel.Lemmas.CodeWitness
import FeatherModel.Lemmas.CodeTables
import FeatherModel.Lemmas.PoolWrite
import FeatherModel.Lemmas.CodeNoPanic
import FeatherModel.Lemmas.ClassParse
import FeatherModel.Lemmas.BootstrapWrite

/-!
# C02 — the class writer emits a well-formed file denoting exactly the given class

Theorems about the models of `write_code` (`Model/CodeWrite.lean`: the code array with its branch-offset fixpoint, the
label table and the tables written from it) and of `PoolWrite` (`Model/PoolWrite.lean`). All quantify over **every**
instruction list of the modelled instruction set (operand-less instructions, pushes, `ldc` family, local variable
instructions in all three widths, `iinc`, `ret`, the 16 conditional branches, `goto`, `jsr`, both switches, field
access, `invokevirtual/special/static/interface`, `new`, `newarray`, `anewarray`, `checkcast`, `instanceof`,
`multianewarray`, `invokedynamic` — every variant of duke's `Instruction`; the pool index of an instruction with a
constant is the one the pool model hands out) — there is no bound on the length of the method, the
number of jumps or the number of attempts.

What "denotes" means is *not* defined by inverting the writer: `Spec/CodeDecode.lean` is a decoder transcribed from
JVMS §6.5 (absolute branch targets, `wide` forms, switch padding computed from the address) and `Spec/CodeDenote.lean`
says when a decoded sequence denotes an instruction list (`matchAll`), allowing `goto_w`/`jsr_w` for `goto`/`jsr` and
the trampoline `if<not c> +8; goto_w target` for `if<c> target`.

Section 6 is about framing: `Spec/ClassParse.lean` (a parser written from the structure definitions of JVMS §4) reads
back what `Model/ClassWrite.lean` lays out, so every count and `attribute_length` is exact.

Statements that cover only the Code attribute although the property speaks about the whole class file are named
`…_partial`. The places where the Rust code used to panic instead of failing cleanly (repaired by `fix:` commits) are the
`…_is_err` regression theorems of section 7.
-/

namespace Thm.C02
open CodeWrite CodeDecode CodeDenote

/-! ## 1. The retry loop terminates -/

/-- a failed attempt marks an instruction that is not yet marked: `wide` grows strictly inside `{0, …, n-1}` -/
theorem retry_grows_wide {is : List Insn} {wide : List Nat} {s : St} {idx : Nat}
    (hs : pass wide is St.init = .ok s)
    (hres : resolve (labelPos s.pos s.w.size) s.unw.toList s.w = .retry idx) :
    idx < is.length ∧ wide.contains idx = false :=
  retry_fresh hs hres

/-- `n + 1` attempts always suffice: the fuel of `writeCode` is never exhausted -/
theorem write_terminates (is : List Insn) : writeCode is ≠ .outOfFuel :=
  write_fuel is (is.length + 1) [] (by have := free_le is.length []; omega)

/-- any larger fuel gives the same result (the fuel is not observable) -/
theorem write_fuel_independent (is : List Insn) (fuel : Nat) (h : is.length < fuel) :
    write is fuel [] = writeCode is :=
  write_fuel_indep is fuel (is.length + 1) [] (by have := free_le is.length []; omega)
    (by have := free_le is.length []; omega)

/-- at most `n` failed attempts precede the successful one -/
theorem write_attempts_bound (is : List Insn) (res : Result) (h : writeCode is = .ok res) :
    res.wide.length ≤ is.length := by
  have := write_wide_bound is _ [] res h (by have := free_le is.length []; simp; omega)
  omega

example : writeCode [.goto 1, .simple 0xb1] ≠ .outOfFuel := write_terminates _

/-! ## 2. A successful attempt: lengths, labels -/

/-- `code_length` is within the limits of JVMS §4.7.3 -/
theorem code_limit (is : List Insn) (res : Result) (h : writeCode is = .ok res) :
    1 ≤ res.code.length ∧ res.code.length ≤ 65535 :=
  writeCode_code_length is res h

/-- the label of instruction `k` is the position recorded for it -/
theorem label_of_instruction (is : List Insn) (res : Result) (h : writeCode is = .ok res) (k : Nat)
    (hk : k < is.length) : ∃ p, res.label k = some p ∧ res.pos[k]? = some p := by
  have hsz := writeCode_pos_size is res h
  have hlt : k < res.pos.size := by omega
  refine ⟨res.pos[k], ?_, by simp [hlt]⟩
  simp [Result.label, labelPos, hlt]

/-- the last label is `code_length` exactly: the truncating `w.len() as u16` is not observable on success -/
theorem label_of_end (is : List Insn) (res : Result) (h : writeCode is = .ok res) :
    res.label is.length = some res.code.length := by
  have hsz := writeCode_pos_size is res h
  have hl := (writeCode_code_length is res h).2
  have : res.pos[is.length]? = none := by rw [← hsz]; simp
  simp only [Result.label, labelPos, this, hsz, if_true]
  congr 1; omega

/-- no other label has an offset -/
theorem label_unknown (is : List Insn) (res : Result) (h : writeCode is = .ok res) (t : Nat) (ht : is.length < t) :
    res.label t = none := by
  have hsz := writeCode_pos_size is res h
  have : res.pos[t]? = none := by apply Array.getElem?_eq_none; omega
  simp only [Result.label, labelPos, this, hsz]
  have : ¬ t = is.length := by omega
  simp [this]

/-! ## 3. What was written denotes the instruction list -/

/-- **Reading back the code array.** For every list of well-typed instructions: if `write_code` succeeds, the
independent decoder decodes the whole code array, the decoded sequence denotes the instruction list, instruction `k`
starts at the position recorded for label `k`, and every jump, every switch default and arm lands on the position of
its label — whether it was written narrow, as `goto_w`/`jsr_w`, or as inverted-condition trampoline.
`_partial`: covers the code array of the Code attribute and the modelled instruction set; the property speaks about the
whole class file. -/
theorem code_write_read_partial (is : List Insn) (hwt : ∀ i ∈ is, wt i = true) (res : Result)
    (h : writeCode is = .ok res) :
    ∃ ds, decode res.code = some ds ∧ matchAll res.label (fun k => res.pos[k]?) 0 is ds = true :=
  writeCode_denotes is hwt res h

/-- the same, instruction by instruction: at `pos[k]` stand bytes that decode (whatever follows) to instruction `k` -/
theorem insn_at_partial (is : List Insn) (hwt : ∀ i ∈ is, wt i = true) (res : Result)
    (h : writeCode is = .ok res) (k : Nat) (i : Insn) (hk : is[k]? = some i) :
    ∃ pc fin rest, res.pos[k]? = some pc ∧ Decoded res.label pc i fin ∧ res.code.drop pc = fin ++ rest :=
  writeCode_insn_at is hwt res h k i hk

/-- **positions are exact**: the label following instruction `k` (the next instruction, or `code_length` after the
last one) is the position of `k` plus the number of bytes written for `k`; so the position of every instruction is the
sum of the encoded sizes before it, padding and long forms included -/
theorem attempt_positions (is : List Insn) (hwt : ∀ i ∈ is, wt i = true) (res : Result)
    (h : writeCode is = .ok res) (k : Nat) (i : Insn) (hk : is[k]? = some i) :
    ∃ pc fin rest, res.pos[k]? = some pc ∧ res.code.drop pc = fin ++ rest ∧ 1 ≤ fin.length ∧
      res.label (k + 1) = some (pc + fin.length) :=
  writeCode_positions is hwt res h k i hk

example : ∀ i ∈ [Insn.ifc .lt 2, .tableswitch 0 (-1) 0 [1, 2], .ldc 300 false], wt i = true := by decide

/-- every `goto`, decoded at its position, is a `goto` or `goto_w` to the position of its target label -/
theorem goto_lands (is : List Insn) (hwt : ∀ i ∈ is, wt i = true) (res : Result) (h : writeCode is = .ok res)
    (k t : Nat) (hk : is[k]? = some (.goto t)) :
    ∃ pc tp len, res.pos[k]? = some pc ∧ res.label t = some tp ∧
      decodeAt res.code pc = some (.goto (tp : Int), len) := by
  obtain ⟨pc, fin, rest, h1, h2, h3⟩ := writeCode_insn_at is hwt res h k _ hk
  cases h2 with
  | single d hlen hdec hden =>
    cases d <;> simp only [denote1, Bool.false_eq_true] at hden
    rename_i a
    simp only [lands] at hden
    split at hden
    · rename_i tp htp
      simp only [beq_iff_eq] at hden
      subst hden
      exact ⟨pc, tp, fin.length, h1, htp, by simp only [decodeAt, h3]; exact hdec rest⟩
    · cases hden
  | tramp c t' g hi => cases hi

/-- the same for `jsr` / `jsr_w` -/
theorem jsr_lands (is : List Insn) (hwt : ∀ i ∈ is, wt i = true) (res : Result) (h : writeCode is = .ok res)
    (k t : Nat) (hk : is[k]? = some (.jsr t)) :
    ∃ pc tp len, res.pos[k]? = some pc ∧ res.label t = some tp ∧
      decodeAt res.code pc = some (.jsr (tp : Int), len) := by
  obtain ⟨pc, fin, rest, h1, h2, h3⟩ := writeCode_insn_at is hwt res h k _ hk
  cases h2 with
  | single d hlen hdec hden =>
    cases d <;> simp only [denote1, Bool.false_eq_true] at hden
    rename_i a
    simp only [lands] at hden
    split at hden
    · rename_i tp htp
      simp only [beq_iff_eq] at hden
      subst hden
      exact ⟨pc, tp, fin.length, h1, htp, by simp only [decodeAt, h3]; exact hdec rest⟩
    · cases hden
  | tramp c t' g hi => cases hi

/-- every conditional branch is either the same branch to the position of its target, or the opposite branch over a
`goto_w` to that position (`if<not c> pc+8; goto_w target`) -/
theorem if_lands (is : List Insn) (hwt : ∀ i ∈ is, wt i = true) (res : Result) (h : writeCode is = .ok res)
    (k t : Nat) (c : Cond) (hk : is[k]? = some (.ifc c t)) :
    ∃ pc tp, res.pos[k]? = some pc ∧ res.label t = some tp ∧
      ((∃ len, decodeAt res.code pc = some (.ifc c.opcode (tp : Int), len)) ∨
       (decodeAt res.code pc = some (.ifc (negIf c.opcode) ((pc + 8 : Nat) : Int), 3) ∧
        decodeAt res.code (pc + 3) = some (.goto (tp : Int), 5))) := by
  obtain ⟨pc, fin, rest, h1, h2, h3⟩ := writeCode_insn_at is hwt res h k _ hk
  cases h2 with
  | single d hlen hdec hden =>
    cases d <;> simp only [denote1, Bool.false_eq_true] at hden
    rename_i op a
    simp only [Bool.and_eq_true, beq_iff_eq, lands] at hden
    obtain ⟨hop, hl⟩ := hden
    split at hl
    · rename_i tp htp
      simp only [beq_iff_eq] at hl
      subst hl hop
      exact ⟨pc, tp, h1, htp, Or.inl ⟨fin.length, by simp only [decodeAt, h3]; exact hdec rest⟩⟩
    · cases hl
  | tramp c' t' g hi hlen hd1 hd2 hland =>
    cases hi
    simp only [lands] at hland
    split at hland
    · rename_i tp htp
      simp only [beq_iff_eq] at hland
      subst hland
      refine ⟨pc, tp, h1, htp, Or.inr ⟨by simp only [decodeAt, h3]; exact hd1 rest, ?_⟩⟩
      simp only [decodeAt]
      have : res.code.drop (pc + 3) = (res.code.drop pc).drop 3 := by rw [List.drop_drop]
      rw [this, h3]
      exact hd2 rest
    · cases hland

/-- `tableswitch`: bounds unchanged, default and every arm land on the position of their labels (32-bit offsets,
padding as required at this address) -/
theorem tableswitch_lands (is : List Insn) (hwt : ∀ i ∈ is, wt i = true) (res : Result) (h : writeCode is = .ok res)
    (k d : Nat) (lo hi : Int) (tb : List Nat) (hk : is[k]? = some (.tableswitch d lo hi tb)) :
    ∃ pc dtp os len, res.pos[k]? = some pc ∧ res.label d = some dtp ∧
      decodeAt res.code pc = some (.tableswitch (dtp : Int) lo hi os, len) ∧ landsAll res.label tb os = true := by
  obtain ⟨pc, fin, rest, h1, h2, h3⟩ := writeCode_insn_at is hwt res h k _ hk
  cases h2 with
  | single dd hlen hdec hden =>
    cases dd <;> simp only [denote1, Bool.false_eq_true] at hden
    rename_i a lo' hi' os
    simp only [Bool.and_eq_true, beq_iff_eq, lands] at hden
    obtain ⟨⟨⟨hl, hlo⟩, hhi⟩, hall⟩ := hden
    split at hl
    · rename_i tp htp
      simp only [beq_iff_eq] at hl
      subst hl hlo hhi
      exact ⟨pc, tp, os, fin.length, h1, htp, by simp only [decodeAt, h3]; exact hdec rest, hall⟩
    · cases hl
  | tramp c t' g hi' => cases hi'

/-- `lookupswitch`: keys unchanged and in order, default and every arm land on the position of their labels -/
theorem lookupswitch_lands (is : List Insn) (hwt : ∀ i ∈ is, wt i = true) (res : Result) (h : writeCode is = .ok res)
    (k d : Nat) (ps : List (Int × Nat)) (hk : is[k]? = some (.lookupswitch d ps)) :
    ∃ pc dtp qs len, res.pos[k]? = some pc ∧ res.label d = some dtp ∧
      decodeAt res.code pc = some (.lookupswitch (dtp : Int) qs, len) ∧ landsPairs res.label ps qs = true := by
  obtain ⟨pc, fin, rest, h1, h2, h3⟩ := writeCode_insn_at is hwt res h k _ hk
  cases h2 with
  | single dd hlen hdec hden =>
    cases dd <;> simp only [denote1, Bool.false_eq_true] at hden
    rename_i a qs
    simp only [Bool.and_eq_true, lands] at hden
    obtain ⟨hl, hall⟩ := hden
    split at hl
    · rename_i tp htp
      simp only [beq_iff_eq] at hl
      subst hl
      exact ⟨pc, tp, qs, fin.length, h1, htp, by simp only [decodeAt, h3]; exact hdec rest, hall⟩
    · cases hl
  | tramp c t' g hi' => cases hi'

/-- the zero bytes after a switch opcode at `p`: between 0 and 3, and the default offset starts at a multiple of 4;
it is the padding the decoder of JVMS §6.5 expects at that address -/
theorem switch_padding (p : Nat) : padLen p ≤ 3 ∧ (p + 1 + padLen p) % 4 = 0 ∧ padLen p = switchPad p := by
  refine ⟨?_, ?_, padLen_eq_switchPad p⟩ <;> (unfold padLen; omega)

/-- the writer's choice of form: `ldc` for indices up to 255, `ldc_w` above, `ldc2_w` for long and double -/
theorem ldc_form (idx : Nat) :
    encLdc idx true = 0x14 :: u16b idx ∧
    (idx ≤ 255 → encLdc idx false = [0x12, idx]) ∧ (255 < idx → encLdc idx false = 0x13 :: u16b idx) := by
  refine ⟨rfl, fun h => by simp [encLdc, h], fun h => ?_⟩
  have : ¬ idx ≤ 255 := by omega
  simp [encLdc, this]

/-! ## 4. Tables written from the label table -/

/-- exception table: one row per entry, each `pc` is the position of the label (with `label_of_instruction`,
`label_of_end`: the position of that instruction, resp. `code_length`) -/
theorem exception_rows_land (lp : Nat → Option Nat) (es : List Exc) (rows : List (List Nat))
    (h : excRows lp es = some rows) :
    rows.length = es.length ∧
    ∀ (j : Nat) (e : Exc), es[j]? = some e → ∃ a b c, lp e.start = some a ∧ lp e.stop = some b ∧
      lp e.handler = some c ∧ rows[j]? = some [a, b, c, e.catchIdx] :=
  excRows_spec lp es rows h

theorem line_rows_land (lp : Nat → Option Nat) (ls : List (Nat × Nat)) (rows : List (List Nat))
    (h : lineRows lp ls = some rows) :
    rows.length = ls.length ∧
    ∀ (j : Nat) (e : Nat × Nat), ls[j]? = some e → ∃ a, lp e.1 = some a ∧ rows[j]? = some [a, e.2] :=
  lineRows_spec lp ls rows h

/-- local variable tables: `start_pc` is the position of the start label and `start_pc + length` the position of
the end label (`length = pos end − pos start ≥ 0`) -/
theorem local_variable_rows_land (lp : Nat → Option Nat) (vs : List Lv) (rows : List (List Nat))
    (h : lvRows lp vs = .ok rows) :
    rows.length = vs.length ∧
    ∀ (j : Nat) (v : Lv), vs[j]? = some v → ∃ s e, lp v.start = some s ∧ lp v.stop = some e ∧ s ≤ e ∧
      rows[j]? = some [s, e - s, v.nameIdx, v.descIdx, v.index] :=
  lvRows_spec lp vs rows h

/-- a local variable table is refused only for a label without offset or a range that ends before it starts -/
theorem local_variable_rows_error (lp : Nat → Option Nat) (vs : List Lv) (h : lvRows lp vs = .error .err) :
    ∃ v ∈ vs, lp v.start = none ∨ lp v.stop = none ∨ ∃ s e, lp v.start = some s ∧ lp v.stop = some e ∧ e < s :=
  lvRows_err lp vs h

/-! ## 5. The constant pool -/

theorem pool_empty_wf : PoolWrite.empty.WF := PoolWrite.wf_empty

/-- `put` keeps the pool well formed (entries stacked without gaps from 1, two slots for long/double, no duplicates) -/
theorem pool_put_wf {p p' : PoolWrite.Pool} {e : PoolWrite.Entry} {i : Nat} (hw : p.WF)
    (h : PoolWrite.put p e = some (i, p')) : p'.WF :=
  PoolWrite.put_wf hw h

/-- hash-consing: putting an entry again returns the same index and changes nothing -/
theorem pool_put_idem {p p' : PoolWrite.Pool} {e : PoolWrite.Entry} {i : Nat}
    (h : PoolWrite.put p e = some (i, p')) : PoolWrite.put p' e = some (i, p') :=
  PoolWrite.put_idem h

/-- the index returned for `e` denotes `e`; indices returned earlier keep their meaning -/
theorem pool_put_get {p p' : PoolWrite.Pool} {e : PoolWrite.Entry} {i : Nat} (hw : p.WF)
    (h : PoolWrite.put p e = some (i, p')) :
    p'.get i = some e ∧ ∀ j e', p.get j = some e' → p'.get j = some e' :=
  ⟨PoolWrite.put_get hw h, fun _ _ hg => PoolWrite.put_stable hw h hg⟩

/-- indices are in `1 .. constant_pool_count - 1` (both slots of a long/double), the count stays a `u16` -/
theorem pool_index_range {p p' : PoolWrite.Pool} {e : PoolWrite.Entry} {i : Nat} (hw : p.WF)
    (hc : p.count ≤ 65535) (h : PoolWrite.put p e = some (i, p')) :
    1 ≤ i ∧ i + PoolWrite.slots e ≤ p'.count ∧ p'.count ≤ 65535 :=
  PoolWrite.put_range hw hc h

/-- `constant_pool_count = 1 + Σ slots` (JVMS §4.4.5: long and double take two) -/
theorem pool_count_exact {p : PoolWrite.Pool} (hw : p.WF) :
    p.count = 1 + (p.entries.map (fun x => PoolWrite.slots x.1)).sum :=
  PoolWrite.wf_count hw

/-- the index after a long/double is never handed out -/
theorem pool_two_slot {p : PoolWrite.Pool} (hw : p.WF) {e : PoolWrite.Entry} {i : Nat} (hg : p.get i = some e)
    (h2 : PoolWrite.slots e = 2) : p.get (i + 1) = none :=
  PoolWrite.upper_half_unused hw hg h2

/-- bootstrap methods are de-duplicated on (handle, argument indices): the same pair gets the same index of the
`BootstrapMethods` table and the table does not grow -/
theorem bootstrap_put_idem {bs bs' : List BootstrapWrite.Bsm} {b : BootstrapWrite.Bsm} {i : Nat}
    (h : BootstrapWrite.put bs b = some (i, bs')) : BootstrapWrite.put bs' b = some (i, bs') :=
  BootstrapWrite.put_idem h

/-- the index written into a `Dynamic` / `InvokeDynamic` entry designates that bootstrap method in the table, and
indices handed out earlier keep their meaning -/
theorem bootstrap_put_get {bs bs' : List BootstrapWrite.Bsm} {b : BootstrapWrite.Bsm} {i : Nat}
    (h : BootstrapWrite.put bs b = some (i, bs')) :
    bs'[i]? = some b ∧ ∀ (j : Nat) (b' : BootstrapWrite.Bsm), bs[j]? = some b' → bs'[j]? = some b' :=
  ⟨BootstrapWrite.put_get h, fun _ _ hj => BootstrapWrite.put_stable h hj⟩

/-- bootstrap method indices fit `u16` -/
theorem bootstrap_index_range {bs bs' : List BootstrapWrite.Bsm} {b : BootstrapWrite.Bsm} {i : Nat}
    (hl : bs.length ≤ 65536) (h : BootstrapWrite.put bs b = some (i, bs')) : i ≤ 65535 ∧ bs'.length ≤ 65536 :=
  BootstrapWrite.put_range hl h

/-- the pool refuses (cleanly) only when `constant_pool_count` would leave `u16` -/
theorem pool_put_fails {p : PoolWrite.Pool} {e : PoolWrite.Entry} (h : PoolWrite.put p e = none) :
    PoolWrite.find e p.entries = none ∧ p.count + PoolWrite.slots e > 65535 := by
  unfold PoolWrite.put at h
  split at h
  · cases h
  · rename_i hf
    split at h
    · exact ⟨hf, by omega⟩
    · cases h

example : ∃ i p', PoolWrite.put PoolWrite.empty (.long 7) = some (i, p') ∧ p'.count = 3 := ⟨1, _, rfl, rfl⟩

/-! ## 6. Framing: every count and every `attribute_length` is exact

`Spec/ClassParse.lean` is a parser written from the structure definitions of JVMS §4 that trusts every count and
length field it reads. It reads back exactly what `Model/ClassWrite.lean` (the framing of `write_attribute`,
`write_code`, `write_method`, `write`) lays out. -/

/-- a list of attributes: each `attribute_length` is the length of the body that follows -/
theorem attribute_length_exact (as : List ClassWrite.Attr)
    (hr : ∀ a ∈ as, a.1 ≤ 65535 ∧ a.2.length ≤ 4294967295) (rest : Bytes) :
    ClassParse.attrs as.length (ClassWrite.attrsBytes as ++ rest) = some (as, rest) :=
  ClassParse.attrs_attrsBytes as hr rest

/-- `LineNumberTable` (w = 2) / `LocalVariable(Type)Table` (w = 5) bodies: the count is the number of rows, the body
ends with the last row -/
theorem table_attribute_exact (w : Nat) (rows : List (List Nat)) (hn : rows.length ≤ 65535)
    (hr : ∀ row ∈ rows, row.length = w ∧ ∀ x ∈ row, x ≤ 65535) :
    ClassParse.table w (ClassWrite.tableBody rows) = some rows :=
  ClassParse.table_tableBody w rows hn hr

/-- the `Code` attribute: `code_length`, `exception_table_length`, `attributes_count` and the nested lengths are exact -/
theorem code_attribute_exact (c : ClassWrite.CodeAttr) (h : ClassParse.codeFits c) :
    ClassParse.code (ClassWrite.codeBody c) = some c :=
  ClassParse.code_codeBody c h

/-- the whole file: `constant_pool_count` with the two-slot rule, interface / field / method / attribute counts and all
lengths are exact — the parser consumes the file to the last byte and returns the image that was written.
`_partial`: attribute bodies other than `Code` and the tables are opaque byte strings here, and the image is tied to
the Rust writer only for the skeleton class of the correspondence run. -/
theorem class_file_reads_back_partial (c : ClassWrite.ClassImg) (h : ClassParse.classFits c) :
    ClassParse.classFile (ClassWrite.classBytes c) = some c :=
  ClassParse.classFile_classBytes c h

example : ClassParse.code (ClassWrite.codeBody ⟨1, 2, [0xb1], [[0, 1, 0, 0]], [(5, [0, 1, 0, 0, 0, 7])]⟩) =
    some ⟨1, 2, [0xb1], [[0, 1, 0, 0]], [(5, [0, 1, 0, 0, 0, 7])]⟩ := by decide

/-! ## 7. Failure is always a clean error

Until the `fix:` commits 136eeb3 (`if_helper`: `opcode_pos + 1 + 2` in `u16`), dc41ad9 (`tableswitch`: `high - low + 1`
in `i32`) and f538c01 (`Labels::try_get_range`: `end - start` in `u16`) the Rust code panicked at these three places and
the theorem below was `write_fails_cleanly_partial` on the domain `noPanicDom`, with the four `_witness` theorems that are
now the regression theorems `…_is_err`. -/

/-- **Clean failure** (full strength): for every instruction list `write_code`'s code array succeeds or returns the
explicit error — it never panics and never loops. -/
theorem write_fails_cleanly (is : List Insn) :
    writeCode is ≠ .panic ∧ writeCode is ≠ .outOfFuel :=
  ⟨write_no_panic is _ _, write_terminates is⟩

/-- regression of 136eeb3: conditional branch at offset 65533 whose (backward) target is out of `i16` range: the long
form does not fit the method any more — an error (was: the unchecked `opcode_pos + 1 + 2` overflowed `u16`) -/
theorem if_at_end_is_err :
    writeCode (List.replicate 65533 (.simple 0) ++ [.ifc .eq 0]) = .err := by
  obtain ⟨s, hs, hw, hp, _, h0⟩ := pass_nops [] 0 65532 (by omega)
  have hlen : (List.replicate 65533 (Insn.simple 0) ++ [Insn.ifc .eq 0]).length + 1 = 65534 + 1 := by
    simp only [List.length_append, List.length_replicate, List.length_cons, List.length_nil]
  unfold writeCode
  rw [hlen]
  exact if_end_err _ s hs hw (by omega) h0 .eq 65534

/-- regression of 136eeb3: the last label of a 65536-byte attempt is truncated to 0 (`w.len() as u16`); the jump to it is
then "out of range", the retry marks it wide, and the second attempt is an error (was: panic in the `wide` arm of
`if_helper`) -/
theorem truncated_last_label_is_err :
    writeCode (List.replicate 65533 (.simple 0) ++ [.ifc .eq 65534]) = .err := by
  obtain ⟨s, hs, hw, hp, hu, _⟩ := pass_nops [] 0 65532 (by omega)
  have hlen : (List.replicate 65533 (Insn.simple 0) ++ [Insn.ifc .eq 65534]).length + 1 = 65533 + 2 := by
    simp only [List.length_append, List.length_replicate, List.length_cons, List.length_nil]
  unfold writeCode
  rw [hlen]
  have hpl : (List.replicate 65533 (Insn.simple 0)).length = 65533 := List.length_replicate
  have := if_last_label_err (List.replicate 65533 (Insn.simple 0)) s
    (fun wide => by rw [pass_replicate_wide]; exact hs) hw (by rw [hpl]; exact hp) hu .eq 65533
  rw [hpl] at this
  exact this

/-- regression of dc41ad9: `high - low + 1` would leave `i32` — an error -/
theorem tableswitch_range_is_err :
    writeCode [.tableswitch 0 (-2147483648) 2147483647 [0]] = .err := by
  rfl

/-- regression of f538c01: a local variable whose range ends before it starts is refused with an error -/
theorem lv_range_is_err :
    ∃ res, writeCode [.simple 0, .simple 0xb1] = .ok res ∧ lvRows res.label [⟨1, 0, 5, 6, 1⟩] = .error .err := by
  refine ⟨⟨[0, 0xb1], #[0, 1], []⟩, by rfl, by rfl⟩

/-- the local variable tables never panic -/
theorem local_variable_rows_no_panic (lp : Nat → Option Nat) (vs : List Lv) : lvRows lp vs ≠ .error .panic :=
  lvRows_no_panic lp vs

end Thm.C02
