import FeatherModel.Lemmas.CodeWriteMain
import FeatherModel.Lemmas.CodeWitness
import FeatherModel.Lemmas.CodeTables
import FeatherModel.Lemmas.PoolWrite
import FeatherModel.Lemmas.CodeNoPanic
import FeatherModel.Lemmas.ClassParse
import FeatherModel.Lemmas.BootstrapWrite
import FeatherModel.Lemmas.FramePositions
import FeatherModel.Lemmas.FrameReadBackCode
import FeatherModel.Lemmas.ClassWriteFullDecide
import FeatherModel.Lemmas.ClassWriteFullNoPanic
import FeatherModel.Lemmas.ArmsWriterModel

/-!
# C02 — the class writer emits a well-formed file denoting exactly the given class

Theorems about the models of `write_code` (`Model/CodeWrite.lean`: the code array with its branch-offset fixpoint, the
label table and the tables written from it) and of `PoolWrite` (`Model/PoolWrite.lean`). All quantify over **every**
instruction list of the modelled instruction set (operand-less instructions, pushes, `ldc` family, local variable
instructions in all three widths, `iinc`, `ret`, the 16 conditional branches, `goto`, `jsr`, both switches, field
access, `invokevirtual/special/static/interface`, `new`, `newarray`, `anewarray`, `checkcast`, `instanceof`,
`multianewarray`, `invokedynamic` — every variant of duke's `Instruction`; the pool index of an instruction with a
constant is the one the pool model hands out) — there is no bound on the length of the method, the
number of jumps or the number of attempts.

What "denotes" means is *not* defined by inverting the writer: `Spec/CodeDecode.lean` is a decoder transcribed from
JVMS §6.5 (absolute branch targets, `wide` forms, switch padding computed from the address) and `Spec/CodeDenote.lean`
says when a decoded sequence denotes an instruction list (`matchAll`), allowing `goto_w`/`jsr_w` for `goto`/`jsr` and
the trampoline `if<not c> +8; goto_w target` for `if<c> target`.

Section 6 is about framing: `Spec/ClassParse.lean` (a parser written from the structure definitions of JVMS §4) reads
back what `Model/ClassWrite.lean` lays out, so every count and `attribute_length` is exact.

Section 8 is about the `StackMapTable` attribute (written since `fix:` commit 6210871): `Model/FrameWrite.lean` mirrors
the Rust writer, `Spec/FrameDecode.lean` is a decoder transcribed from JVMS §4.7.4 and `Spec/FrameDenote.lean` says when
the decoded table denotes the frames of the tree.

Statements that cover only the Code attribute although the property speaks about the whole class file are named
`…_partial`. The places where the Rust code used to panic instead of failing cleanly (repaired by `fix:` commits) are the
`…_is_err` regression theorems of section 7.
-/

namespace Thm.C02
open CodeWrite CodeDecode CodeDenote

/-! ## 1. The retry loop terminates -/

/-- a failed attempt marks an instruction that is not yet marked: `wide` grows strictly inside `{0, …, n-1}` -/
theorem retry_grows_wide {is : List Insn} {wide : List Nat} {s : St} {idx : Nat}
    (hs : pass wide is St.init = .ok s)
    (hres : resolve (labelPos s.pos s.w.size) s.unw.toList s.w = .retry idx) :
    idx < is.length ∧ wide.contains idx = false :=
  retry_fresh hs hres

/-- `n + 1` attempts always suffice: the fuel of `writeCode` is never exhausted -/
theorem write_terminates (is : List Insn) : writeCode is ≠ .outOfFuel :=
  write_fuel is (is.length + 1) [] (by have := free_le is.length []; omega)

/-- any larger fuel gives the same result (the fuel is not observable) -/
theorem write_fuel_independent (is : List Insn) (fuel : Nat) (h : is.length < fuel) :
    write is fuel [] = writeCode is :=
  write_fuel_indep is fuel (is.length + 1) [] (by have := free_le is.length []; omega)
    (by have := free_le is.length []; omega)

/-- at most `n` failed attempts precede the successful one -/
theorem write_attempts_bound (is : List Insn) (res : Result) (h : writeCode is = .ok res) :
    res.wide.length ≤ is.length := by
  have := write_wide_bound is _ [] res h (by have := free_le is.length []; simp; omega)
  omega

example : writeCode [.goto 1, .simple 0xb1] ≠ .outOfFuel := write_terminates _

/-! ## 2. A successful attempt: lengths, labels -/

/-- `code_length` is within the limits of JVMS §4.7.3 -/
theorem code_limit (is : List Insn) (res : Result) (h : writeCode is = .ok res) :
    1 ≤ res.code.length ∧ res.code.length ≤ 65535 :=
  writeCode_code_length is res h

/-- the label of instruction `k` is the position recorded for it -/
theorem label_of_instruction (is : List Insn) (res : Result) (h : writeCode is = .ok res) (k : Nat)
    (hk : k < is.length) : ∃ p, res.label k = some p ∧ res.pos[k]? = some p := by
  have hsz := writeCode_pos_size is res h
  have hlt : k < res.pos.size := by omega
  refine ⟨res.pos[k], ?_, by simp [hlt]⟩
  simp [Result.label, labelPos, hlt]

/-- the last label is `code_length` exactly: the truncating `w.len() as u16` is not observable on success -/
theorem label_of_end (is : List Insn) (res : Result) (h : writeCode is = .ok res) :
    res.label is.length = some res.code.length := by
  have hsz := writeCode_pos_size is res h
  have hl := (writeCode_code_length is res h).2
  have : res.pos[is.length]? = none := by rw [← hsz]; simp
  simp only [Result.label, labelPos, this, hsz, if_true]
  congr 1; omega

/-- no other label has an offset -/
theorem label_unknown (is : List Insn) (res : Result) (h : writeCode is = .ok res) (t : Nat) (ht : is.length < t) :
    res.label t = none := by
  have hsz := writeCode_pos_size is res h
  have : res.pos[t]? = none := by apply Array.getElem?_eq_none; omega
  simp only [Result.label, labelPos, this, hsz]
  have : ¬ t = is.length := by omega
  simp [this]

/-! ## 3. What was written denotes the instruction list -/

/-- **Reading back the code array.** For every list of well-typed instructions: if `write_code` succeeds, the
independent decoder decodes the whole code array, the decoded sequence denotes the instruction list, instruction `k`
starts at the position recorded for label `k`, and every jump, every switch default and arm lands on the position of
its label — whether it was written narrow, as `goto_w`/`jsr_w`, or as inverted-condition trampoline.
`_partial`: covers the code array of the Code attribute and the modelled instruction set; the property speaks about the
whole class file. -/
theorem code_write_read_partial (is : List Insn) (hwt : ∀ i ∈ is, wt i = true) (res : Result)
    (h : writeCode is = .ok res) :
    ∃ ds, decode res.code = some ds ∧ matchAll res.label (fun k => res.pos[k]?) 0 is ds = true :=
  writeCode_denotes is hwt res h

/-- the same, instruction by instruction: at `pos[k]` stand bytes that decode (whatever follows) to instruction `k` -/
theorem insn_at_partial (is : List Insn) (hwt : ∀ i ∈ is, wt i = true) (res : Result)
    (h : writeCode is = .ok res) (k : Nat) (i : Insn) (hk : is[k]? = some i) :
    ∃ pc fin rest, res.pos[k]? = some pc ∧ Decoded res.label pc i fin ∧ res.code.drop pc = fin ++ rest :=
  writeCode_insn_at is hwt res h k i hk

/-- **positions are exact**: the label following instruction `k` (the next instruction, or `code_length` after the
last one) is the position of `k` plus the number of bytes written for `k`; so the position of every instruction is the
sum of the encoded sizes before it, padding and long forms included -/
theorem attempt_positions (is : List Insn) (hwt : ∀ i ∈ is, wt i = true) (res : Result)
    (h : writeCode is = .ok res) (k : Nat) (i : Insn) (hk : is[k]? = some i) :
    ∃ pc fin rest, res.pos[k]? = some pc ∧ res.code.drop pc = fin ++ rest ∧ 1 ≤ fin.length ∧
      res.label (k + 1) = some (pc + fin.length) :=
  writeCode_positions is hwt res h k i hk

example : ∀ i ∈ [Insn.ifc .lt 2, .tableswitch 0 (-1) 0 [1, 2], .ldc 300 false], wt i = true := by decide

/-- every `goto`, decoded at its position, is a `goto` or `goto_w` to the position of its target label -/
theorem goto_lands (is : List Insn) (hwt : ∀ i ∈ is, wt i = true) (res : Result) (h : writeCode is = .ok res)
    (k t : Nat) (hk : is[k]? = some (.goto t)) :
    ∃ pc tp len, res.pos[k]? = some pc ∧ res.label t = some tp ∧
      decodeAt res.code pc = some (.goto (tp : Int), len) := by
  obtain ⟨pc, fin, rest, h1, h2, h3⟩ := writeCode_insn_at is hwt res h k _ hk
  cases h2 with
  | single d hlen hdec hden =>
    cases d <;> simp only [denote1, Bool.false_eq_true] at hden
    rename_i a
    simp only [lands] at hden
    split at hden
    · rename_i tp htp
      simp only [beq_iff_eq] at hden
      subst hden
      exact ⟨pc, tp, fin.length, h1, htp, by simp only [decodeAt, h3]; exact hdec rest⟩
    · cases hden
  | tramp c t' g hi => cases hi

/-- the same for `jsr` / `jsr_w` -/
theorem jsr_lands (is : List Insn) (hwt : ∀ i ∈ is, wt i = true) (res : Result) (h : writeCode is = .ok res)
    (k t : Nat) (hk : is[k]? = some (.jsr t)) :
    ∃ pc tp len, res.pos[k]? = some pc ∧ res.label t = some tp ∧
      decodeAt res.code pc = some (.jsr (tp : Int), len) := by
  obtain ⟨pc, fin, rest, h1, h2, h3⟩ := writeCode_insn_at is hwt res h k _ hk
  cases h2 with
  | single d hlen hdec hden =>
    cases d <;> simp only [denote1, Bool.false_eq_true] at hden
    rename_i a
    simp only [lands] at hden
    split at hden
    · rename_i tp htp
      simp only [beq_iff_eq] at hden
      subst hden
      exact ⟨pc, tp, fin.length, h1, htp, by simp only [decodeAt, h3]; exact hdec rest⟩
    · cases hden
  | tramp c t' g hi => cases hi

/-- every conditional branch is either the same branch to the position of its target, or the opposite branch over a
`goto_w` to that position (`if<not c> pc+8; goto_w target`) -/
theorem if_lands (is : List Insn) (hwt : ∀ i ∈ is, wt i = true) (res : Result) (h : writeCode is = .ok res)
    (k t : Nat) (c : Cond) (hk : is[k]? = some (.ifc c t)) :
    ∃ pc tp, res.pos[k]? = some pc ∧ res.label t = some tp ∧
      ((∃ len, decodeAt res.code pc = some (.ifc c.opcode (tp : Int), len)) ∨
       (decodeAt res.code pc = some (.ifc (negIf c.opcode) ((pc + 8 : Nat) : Int), 3) ∧
        decodeAt res.code (pc + 3) = some (.goto (tp : Int), 5))) := by
  obtain ⟨pc, fin, rest, h1, h2, h3⟩ := writeCode_insn_at is hwt res h k _ hk
  cases h2 with
  | single d hlen hdec hden =>
    cases d <;> simp only [denote1, Bool.false_eq_true] at hden
    rename_i op a
    simp only [Bool.and_eq_true, beq_iff_eq, lands] at hden
    obtain ⟨hop, hl⟩ := hden
    split at hl
    · rename_i tp htp
      simp only [beq_iff_eq] at hl
      subst hl hop
      exact ⟨pc, tp, h1, htp, Or.inl ⟨fin.length, by simp only [decodeAt, h3]; exact hdec rest⟩⟩
    · cases hl
  | tramp c' t' g hi hlen hd1 hd2 hland =>
    cases hi
    simp only [lands] at hland
    split at hland
    · rename_i tp htp
      simp only [beq_iff_eq] at hland
      subst hland
      refine ⟨pc, tp, h1, htp, Or.inr ⟨by simp only [decodeAt, h3]; exact hd1 rest, ?_⟩⟩
      simp only [decodeAt]
      have : res.code.drop (pc + 3) = (res.code.drop pc).drop 3 := by rw [List.drop_drop]
      rw [this, h3]
      exact hd2 rest
    · cases hland

/-- `tableswitch`: bounds unchanged, default and every arm land on the position of their labels (32-bit offsets,
padding as required at this address) -/
theorem tableswitch_lands (is : List Insn) (hwt : ∀ i ∈ is, wt i = true) (res : Result) (h : writeCode is = .ok res)
    (k d : Nat) (lo hi : Int) (tb : List Nat) (hk : is[k]? = some (.tableswitch d lo hi tb)) :
    ∃ pc dtp os len, res.pos[k]? = some pc ∧ res.label d = some dtp ∧
      decodeAt res.code pc = some (.tableswitch (dtp : Int) lo hi os, len) ∧ landsAll res.label tb os = true := by
  obtain ⟨pc, fin, rest, h1, h2, h3⟩ := writeCode_insn_at is hwt res h k _ hk
  cases h2 with
  | single dd hlen hdec hden =>
    cases dd <;> simp only [denote1, Bool.false_eq_true] at hden
    rename_i a lo' hi' os
    simp only [Bool.and_eq_true, beq_iff_eq, lands] at hden
    obtain ⟨⟨⟨hl, hlo⟩, hhi⟩, hall⟩ := hden
    split at hl
    · rename_i tp htp
      simp only [beq_iff_eq] at hl
      subst hl hlo hhi
      exact ⟨pc, tp, os, fin.length, h1, htp, by simp only [decodeAt, h3]; exact hdec rest, hall⟩
    · cases hl
  | tramp c t' g hi' => cases hi'

/-- `lookupswitch`: keys unchanged and in order, default and every arm land on the position of their labels -/
theorem lookupswitch_lands (is : List Insn) (hwt : ∀ i ∈ is, wt i = true) (res : Result) (h : writeCode is = .ok res)
    (k d : Nat) (ps : List (Int × Nat)) (hk : is[k]? = some (.lookupswitch d ps)) :
    ∃ pc dtp qs len, res.pos[k]? = some pc ∧ res.label d = some dtp ∧
      decodeAt res.code pc = some (.lookupswitch (dtp : Int) qs, len) ∧ landsPairs res.label ps qs = true := by
  obtain ⟨pc, fin, rest, h1, h2, h3⟩ := writeCode_insn_at is hwt res h k _ hk
  cases h2 with
  | single dd hlen hdec hden =>
    cases dd <;> simp only [denote1, Bool.false_eq_true] at hden
    rename_i a qs
    simp only [Bool.and_eq_true, lands] at hden
    obtain ⟨hl, hall⟩ := hden
    split at hl
    · rename_i tp htp
      simp only [beq_iff_eq] at hl
      subst hl
      exact ⟨pc, tp, qs, fin.length, h1, htp, by simp only [decodeAt, h3]; exact hdec rest, hall⟩
    · cases hl
  | tramp c t' g hi' => cases hi'

/-- the zero bytes after a switch opcode at `p`: between 0 and 3, and the default offset starts at a multiple of 4;
it is the padding the decoder of JVMS §6.5 expects at that address -/
theorem switch_padding (p : Nat) : padLen p ≤ 3 ∧ (p + 1 + padLen p) % 4 = 0 ∧ padLen p = switchPad p := by
  refine ⟨?_, ?_, padLen_eq_switchPad p⟩ <;> (unfold padLen; omega)

/-- the writer's choice of form: `ldc` for indices up to 255, `ldc_w` above, `ldc2_w` for long and double -/
theorem ldc_form (idx : Nat) :
    encLdc idx true = 0x14 :: u16b idx ∧
    (idx ≤ 255 → encLdc idx false = [0x12, idx]) ∧ (255 < idx → encLdc idx false = 0x13 :: u16b idx) := by
  refine ⟨rfl, fun h => by simp [encLdc, h], fun h => ?_⟩
  have : ¬ idx ≤ 255 := by omega
  simp [encLdc, this]

/-! ## 4. Tables written from the label table -/

/-- exception table: one row per entry, each `pc` is the position of the label (with `label_of_instruction`,
`label_of_end`: the position of that instruction, resp. `code_length`) -/
theorem exception_rows_land (lp : Nat → Option Nat) (es : List Exc) (rows : List (List Nat))
    (h : excRows lp es = some rows) :
    rows.length = es.length ∧
    ∀ (j : Nat) (e : Exc), es[j]? = some e → ∃ a b c, lp e.start = some a ∧ lp e.stop = some b ∧
      lp e.handler = some c ∧ rows[j]? = some [a, b, c, e.catchIdx] :=
  excRows_spec lp es rows h

theorem line_rows_land (lp : Nat → Option Nat) (ls : List (Nat × Nat)) (rows : List (List Nat))
    (h : lineRows lp ls = some rows) :
    rows.length = ls.length ∧
    ∀ (j : Nat) (e : Nat × Nat), ls[j]? = some e → ∃ a, lp e.1 = some a ∧ rows[j]? = some [a, e.2] :=
  lineRows_spec lp ls rows h

/-- local variable tables: `start_pc` is the position of the start label and `start_pc + length` the position of
the end label (`length = pos end − pos start ≥ 0`) -/
theorem local_variable_rows_land (lp : Nat → Option Nat) (vs : List Lv) (rows : List (List Nat))
    (h : lvRows lp vs = .ok rows) :
    rows.length = vs.length ∧
    ∀ (j : Nat) (v : Lv), vs[j]? = some v → ∃ s e, lp v.start = some s ∧ lp v.stop = some e ∧ s ≤ e ∧
      rows[j]? = some [s, e - s, v.nameIdx, v.descIdx, v.index] :=
  lvRows_spec lp vs rows h

/-- a local variable table is refused only for a label without offset or a range that ends before it starts -/
theorem local_variable_rows_error (lp : Nat → Option Nat) (vs : List Lv) (h : lvRows lp vs = .error .err) :
    ∃ v ∈ vs, lp v.start = none ∨ lp v.stop = none ∨ ∃ s e, lp v.start = some s ∧ lp v.stop = some e ∧ e < s :=
  lvRows_err lp vs h

/-! ## 5. The constant pool -/

theorem pool_empty_wf : PoolWrite.empty.WF := PoolWrite.wf_empty

/-- `put` keeps the pool well formed (entries stacked without gaps from 1, two slots for long/double, no duplicates) -/
theorem pool_put_wf {p p' : PoolWrite.Pool} {e : PoolWrite.Entry} {i : Nat} (hw : p.WF)
    (h : PoolWrite.put p e = some (i, p')) : p'.WF :=
  PoolWrite.put_wf hw h

/-- hash-consing: putting an entry again returns the same index and changes nothing -/
theorem pool_put_idem {p p' : PoolWrite.Pool} {e : PoolWrite.Entry} {i : Nat}
    (h : PoolWrite.put p e = some (i, p')) : PoolWrite.put p' e = some (i, p') :=
  PoolWrite.put_idem h

/-- the index returned for `e` denotes `e`; indices returned earlier keep their meaning -/
theorem pool_put_get {p p' : PoolWrite.Pool} {e : PoolWrite.Entry} {i : Nat} (hw : p.WF)
    (h : PoolWrite.put p e = some (i, p')) :
    p'.get i = some e ∧ ∀ j e', p.get j = some e' → p'.get j = some e' :=
  ⟨PoolWrite.put_get hw h, fun _ _ hg => PoolWrite.put_stable hw h hg⟩

/-- indices are in `1 .. constant_pool_count - 1` (both slots of a long/double), the count stays a `u16` -/
theorem pool_index_range {p p' : PoolWrite.Pool} {e : PoolWrite.Entry} {i : Nat} (hw : p.WF)
    (hc : p.count ≤ 65535) (h : PoolWrite.put p e = some (i, p')) :
    1 ≤ i ∧ i + PoolWrite.slots e ≤ p'.count ∧ p'.count ≤ 65535 :=
  PoolWrite.put_range hw hc h

/-- `constant_pool_count = 1 + Σ slots` (JVMS §4.4.5: long and double take two) -/
theorem pool_count_exact {p : PoolWrite.Pool} (hw : p.WF) :
    p.count = 1 + (p.entries.map (fun x => PoolWrite.slots x.1)).sum :=
  PoolWrite.wf_count hw

/-- the index after a long/double is never handed out -/
theorem pool_two_slot {p : PoolWrite.Pool} (hw : p.WF) {e : PoolWrite.Entry} {i : Nat} (hg : p.get i = some e)
    (h2 : PoolWrite.slots e = 2) : p.get (i + 1) = none :=
  PoolWrite.upper_half_unused hw hg h2

/-- bootstrap methods are de-duplicated on (handle, argument indices): the same pair gets the same index of the
`BootstrapMethods` table and the table does not grow -/
theorem bootstrap_put_idem {bs bs' : List BootstrapWrite.Bsm} {b : BootstrapWrite.Bsm} {i : Nat}
    (h : BootstrapWrite.put bs b = some (i, bs')) : BootstrapWrite.put bs' b = some (i, bs') :=
  BootstrapWrite.put_idem h

/-- the index written into a `Dynamic` / `InvokeDynamic` entry designates that bootstrap method in the table, and
indices handed out earlier keep their meaning -/
theorem bootstrap_put_get {bs bs' : List BootstrapWrite.Bsm} {b : BootstrapWrite.Bsm} {i : Nat}
    (h : BootstrapWrite.put bs b = some (i, bs')) :
    bs'[i]? = some b ∧ ∀ (j : Nat) (b' : BootstrapWrite.Bsm), bs[j]? = some b' → bs'[j]? = some b' :=
  ⟨BootstrapWrite.put_get h, fun _ _ hj => BootstrapWrite.put_stable h hj⟩

/-- bootstrap method indices fit `u16` -/
theorem bootstrap_index_range {bs bs' : List BootstrapWrite.Bsm} {b : BootstrapWrite.Bsm} {i : Nat}
    (hl : bs.length ≤ 65536) (h : BootstrapWrite.put bs b = some (i, bs')) : i ≤ 65535 ∧ bs'.length ≤ 65536 :=
  BootstrapWrite.put_range hl h

/-- the pool refuses (cleanly) only when `constant_pool_count` would leave `u16` -/
theorem pool_put_fails {p : PoolWrite.Pool} {e : PoolWrite.Entry} (h : PoolWrite.put p e = none) :
    PoolWrite.find e p.entries = none ∧ p.count + PoolWrite.slots e > 65535 := by
  unfold PoolWrite.put at h
  split at h
  · cases h
  · rename_i hf
    split at h
    · exact ⟨hf, by omega⟩
    · cases h

example : ∃ i p', PoolWrite.put PoolWrite.empty (.long 7) = some (i, p') ∧ p'.count = 3 := ⟨1, _, rfl, rfl⟩

/-! ## 6. Framing: every count and every `attribute_length` is exact

`Spec/ClassParse.lean` is a parser written from the structure definitions of JVMS §4 that trusts every count and
length field it reads. It reads back exactly what `Model/ClassWrite.lean` (the framing of `write_attribute`,
`write_code`, `write_method`, `write`) lays out. -/

/-- a list of attributes: each `attribute_length` is the length of the body that follows -/
theorem attribute_length_exact (as : List ClassWrite.Attr)
    (hr : ∀ a ∈ as, a.1 ≤ 65535 ∧ a.2.length ≤ 4294967295) (rest : Bytes) :
    ClassParse.attrs as.length (ClassWrite.attrsBytes as ++ rest) = some (as, rest) :=
  ClassParse.attrs_attrsBytes as hr rest

/-- `LineNumberTable` (w = 2) / `LocalVariable(Type)Table` (w = 5) bodies: the count is the number of rows, the body
ends with the last row -/
theorem table_attribute_exact (w : Nat) (rows : List (List Nat)) (hn : rows.length ≤ 65535)
    (hr : ∀ row ∈ rows, row.length = w ∧ ∀ x ∈ row, x ≤ 65535) :
    ClassParse.table w (ClassWrite.tableBody rows) = some rows :=
  ClassParse.table_tableBody w rows hn hr

/-- the `Code` attribute: `code_length`, `exception_table_length`, `attributes_count` and the nested lengths are exact -/
theorem code_attribute_exact (c : ClassWrite.CodeAttr) (h : ClassParse.codeFits c) :
    ClassParse.code (ClassWrite.codeBody c) = some c :=
  ClassParse.code_codeBody c h

/-- the whole file: `constant_pool_count` with the two-slot rule, interface / field / method / attribute counts and all
lengths are exact — the parser consumes the file to the last byte and returns the image that was written.
`_partial`: attribute bodies other than `Code` and the tables are opaque byte strings here, and the image is tied to
the Rust writer only for the skeleton class of the correspondence run. -/
theorem class_file_reads_back_partial (c : ClassWrite.ClassImg) (h : ClassParse.classFits c) :
    ClassParse.classFile (ClassWrite.classBytes c) = some c :=
  ClassParse.classFile_classBytes c h

example : ClassParse.code (ClassWrite.codeBody ⟨1, 2, [0xb1], [[0, 1, 0, 0]], [(5, [0, 1, 0, 0, 0, 7])]⟩) =
    some ⟨1, 2, [0xb1], [[0, 1, 0, 0]], [(5, [0, 1, 0, 0, 0, 7])]⟩ := by decide

/-! ## 7. Failure is always a clean error

Until the `fix:` commits 136eeb3 (`if_helper`: `opcode_pos + 1 + 2` in `u16`), dc41ad9 (`tableswitch`: `high - low + 1`
in `i32`) and f538c01 (`Labels::try_get_range`: `end - start` in `u16`) the Rust code panicked at these three places and
the theorem below was `write_fails_cleanly_partial` on the domain `noPanicDom`, with the four `_witness` theorems that are
now the regression theorems `…_is_err`. -/

/-- **Clean failure** (full strength): for every instruction list `write_code`'s code array succeeds or returns the
explicit error — it never panics and never loops. -/
theorem write_fails_cleanly (is : List Insn) :
    writeCode is ≠ .panic ∧ writeCode is ≠ .outOfFuel :=
  ⟨write_no_panic is _ _, write_terminates is⟩

/-- regression of 136eeb3: conditional branch at offset 65533 whose (backward) target is out of `i16` range: the long
form does not fit the method any more — an error (was: the unchecked `opcode_pos + 1 + 2` overflowed `u16`) -/
theorem if_at_end_is_err :
    writeCode (List.replicate 65533 (.simple 0) ++ [.ifc .eq 0]) = .err := by
  obtain ⟨s, hs, hw, hp, _, h0⟩ := pass_nops [] 0 65532 (by omega)
  have hlen : (List.replicate 65533 (Insn.simple 0) ++ [Insn.ifc .eq 0]).length + 1 = 65534 + 1 := by
    simp only [List.length_append, List.length_replicate, List.length_cons, List.length_nil]
  unfold writeCode
  rw [hlen]
  exact if_end_err _ s hs hw (by omega) h0 .eq 65534

/-- regression of 136eeb3: the last label of a 65536-byte attempt is truncated to 0 (`w.len() as u16`); the jump to it is
then "out of range", the retry marks it wide, and the second attempt is an error (was: panic in the `wide` arm of
`if_helper`) -/
theorem truncated_last_label_is_err :
    writeCode (List.replicate 65533 (.simple 0) ++ [.ifc .eq 65534]) = .err := by
  obtain ⟨s, hs, hw, hp, hu, _⟩ := pass_nops [] 0 65532 (by omega)
  have hlen : (List.replicate 65533 (Insn.simple 0) ++ [Insn.ifc .eq 65534]).length + 1 = 65533 + 2 := by
    simp only [List.length_append, List.length_replicate, List.length_cons, List.length_nil]
  unfold writeCode
  rw [hlen]
  have hpl : (List.replicate 65533 (Insn.simple 0)).length = 65533 := List.length_replicate
  have := if_last_label_err (List.replicate 65533 (Insn.simple 0)) s
    (fun wide => by rw [pass_replicate_wide]; exact hs) hw (by rw [hpl]; exact hp) hu .eq 65533
  rw [hpl] at this
  exact this

/-- regression of dc41ad9: `high - low + 1` would leave `i32` — an error -/
theorem tableswitch_range_is_err :
    writeCode [.tableswitch 0 (-2147483648) 2147483647 [0]] = .err := by
  rfl

/-- regression of f538c01: a local variable whose range ends before it starts is refused with an error -/
theorem lv_range_is_err :
    ∃ res, writeCode [.simple 0, .simple 0xb1] = .ok res ∧ lvRows res.label [⟨1, 0, 5, 6, 1⟩] = .error .err := by
  refine ⟨⟨[0, 0xb1], #[0, 1], []⟩, by rfl, by rfl⟩

/-- the local variable tables never panic -/
theorem local_variable_rows_no_panic (lp : Nat → Option Nat) (vs : List Lv) : lvRows lp vs ≠ .error .panic :=
  lvRows_no_panic lp vs

/-! ## 8. The `StackMapTable` attribute (commit 6210871)

`Model/FrameWrite.lean` mirrors the writer: the `frames` vector of `write_code` (`writeF`, `collect`), the body closure
(`body`: `number_of_entries`, `offset_delta`, short / extended forms, `write_verification_type_info` with `put_class` /
`labels.try_get`) and `write_attribute` (`attr`). `Spec/FrameDecode.lean` decodes a `StackMapTable` body as JVMS §4.7.4
describes it (absolute offsets: `offset_delta` for the first frame, `previous + offset_delta + 1` afterwards);
`Spec/FrameDenote.lean` says when the decoded table denotes the frames of the tree (`denotesAll`: same offsets, same
kinds, `Object` indices designate a `CONSTANT_Class_info` of that name in the pool that is written, `Uninitialized`
offsets are the offsets of their labels). All theorems hold for any number of frames, locals and stack items. -/

section Frames
open FrameWrite FrameDecode FrameDenote

/-- the positions `write_code` records for the instructions increase strictly and fit `u16`: every instruction is
written with at least one byte (no `wt` hypothesis needed) -/
theorem instruction_positions_increase (is : List Insn) (res : Result) (h : writeCode is = .ok res) :
    res.pos.toList.Pairwise (· < ·) ∧ ∀ x ∈ res.pos.toList, x ≤ 65535 := by
  obtain ⟨a, b⟩ := sortedFrom_spec (writeCode_pos_sorted is res h)
  exact ⟨a, fun x hx => (b x hx).2⟩

/-- **`frames.clear()`**: the retry loop with the `frames` vector (`writeF`) computes what the loop without it
computes, and on success the vector holds the pushes of the final attempt only — each frame once, at the final
position of its instruction (without the `clear` the frames of every abandoned attempt would precede them) -/
theorem frames_of_final_attempt (is : List Insn) (fs : List (Option Frame)) :
    (writeF is fs (is.length + 1) [] []).1 = writeCode is ∧
    ∀ res, writeCode is = .ok res → (writeF is fs (is.length + 1) [] []).2 = framesOf res fs :=
  writeF_spec is fs (is.length + 1) []

/-- the frames `write_code` hands to the `StackMapTable` writer are at strictly increasing `u16` offsets: the
hypothesis `Incr none` of the theorems below always holds there -/
theorem collected_frames_increase (is : List Insn) (res : Result) (h : writeCode is = .ok res)
    (fs : List (Option Frame)) : Incr none (framesOf res fs) :=
  collect_incr _ fs 0 none (writeCode_pos_sorted is res h) trivial

/-- …and its label table has `u16` offsets only -/
theorem result_labels_u16 (is : List Insn) (res : Result) (h : writeCode is = .ok res) : LpOk res.label :=
  fun t x ht => result_label_le is res h t x ht

/-- a frame is collected for instruction `k` exactly when instruction `k` carries one, and it is attached to the
position of instruction `k` -/
theorem collected_frame_iff (res : Result) (fs : List (Option Frame)) (pc : Nat) (f : Frame) :
    (pc, f) ∈ framesOf res fs ↔ ∃ k : Nat, res.pos[k]? = some pc ∧ fs[k]? = some (some f) := by
  constructor
  · intro h
    obtain ⟨k, h1, h2⟩ := mem_collect _ fs pc f h
    exact ⟨k, by simpa using h1, h2⟩
  · rintro ⟨k, h1, h2⟩
    exact collect_mem _ fs k pc f (by simpa using h1) h2

/-- **Reading back the `StackMapTable`.** For every list of frames at strictly increasing `u16` offsets (any number
of frames, locals, stack items): if the body closure succeeds, the decoder of JVMS §4.7.4 decodes the *whole* body
(nothing left over) to a table that denotes exactly these frames: as many, in this order, each at the same absolute
offset, of the same kind, every verification type the same item; an `Object` type's index designates a class entry of
that name in the resulting pool, an `Uninitialized` type's offset is the offset of its label. -/
theorem frames_write_read (lp : Nat → Option Nat) (hlp : LpOk lp) (p p' : PoolWrite.Pool) (hw : p.WF)
    (hc : p.count ≤ 65535) (fs : List (Nat × Frame)) (hinc : Incr none fs) (b : Bytes)
    (h : body lp p fs = .ok (b, p')) :
    ∃ ds, table b = some ds ∧ denotesAll lp p' fs ds = true := by
  obtain ⟨_, _, _, _, ds, h1, h2, _⟩ := body_spec hlp fs ⟨hw, hc⟩ hinc h
  exact ⟨ds, h1, h2⟩

/-- the same for the frames of a method: what `write_code` writes for the frames attached to the instructions `is`
decodes to frames that denote them -/
theorem code_frames_write_read (is : List Insn) (res : Result) (hres : writeCode is = .ok res)
    (fs : List (Option Frame)) (p p' : PoolWrite.Pool) (hw : p.WF) (hc : p.count ≤ 65535) (b : Bytes)
    (h : body res.label p (framesOf res fs) = .ok (b, p')) :
    ∃ ds, table b = some ds ∧ denotesAll res.label p' (framesOf res fs) ds = true :=
  frames_write_read res.label (result_labels_u16 is res hres) p p' hw hc _ (collected_frames_increase is res hres fs) b h

/-- **every frame stays attached to its instruction**: the decoded table has a frame at the position of
instruction `k` denoting the frame instruction `k` carries — and no other frames -/
theorem frame_at_instruction (is : List Insn) (res : Result) (hres : writeCode is = .ok res)
    (fs : List (Option Frame)) (p p' : PoolWrite.Pool) (hw : p.WF) (hc : p.count ≤ 65535) (b : Bytes)
    (h : body res.label p (framesOf res fs) = .ok (b, p')) :
    ∃ ds, table b = some ds ∧
      (∀ (k : Nat) (pc : Nat) (f : Frame), res.pos[k]? = some pc → fs[k]? = some (some f) →
        ∃ d, (pc, d) ∈ ds ∧ denotesF res.label p' f d = true) ∧
      (∀ (o : Nat) (d : DFrame), (o, d) ∈ ds →
        ∃ (k : Nat) (f : Frame), res.pos[k]? = some o ∧ fs[k]? = some (some f) ∧ denotesF res.label p' f d = true) := by
  obtain ⟨ds, h1, h2⟩ := code_frames_write_read is res hres fs p p' hw hc b h
  refine ⟨ds, h1, fun k pc f hk hf => ?_, fun o d hm => ?_⟩
  · have hm := (collected_frame_iff res fs pc f).mpr ⟨k, hk, hf⟩
    obtain ⟨j, hj⟩ := List.getElem?_of_mem hm
    obtain ⟨d, hd, hden⟩ := denotesAll_get h2 j pc f hj
    exact ⟨d, List.mem_of_getElem? hd, hden⟩
  · obtain ⟨j, hj⟩ := List.getElem?_of_mem hm
    obtain ⟨f, hf, hden⟩ := denotesAll_get_rev h2 j o d hj
    obtain ⟨k, hk1, hk2⟩ := (collected_frame_iff res fs o f).mp (List.mem_of_getElem? hf)
    exact ⟨k, f, hk1, hk2, hden⟩

/-- `number_of_entries` is exact: the body starts with the number of frames as a `u2`, at most 65535, and the
decoder finds exactly that many frames -/
theorem frames_count_exact (lp : Nat → Option Nat) (hlp : LpOk lp) (p p' : PoolWrite.Pool) (hw : p.WF)
    (hc : p.count ≤ 65535) (fs : List (Nat × Frame)) (hinc : Incr none fs) (b : Bytes)
    (h : body lp p fs = .ok (b, p')) :
    fs.length ≤ 65535 ∧ (∃ bs, b = u16b fs.length ++ bs) ∧ ∀ ds, table b = some ds → ds.length = fs.length := by
  obtain ⟨hl, _, _, _, ds, h1, h2, bs, hb, _⟩ := body_spec hlp fs ⟨hw, hc⟩ hinc h
  refine ⟨hl, ⟨bs, hb⟩, fun ds' hds' => ?_⟩
  rw [h1] at hds'; cases hds'
  exact denotesAll_length h2

/-- the pool only grows while the frames are written: it stays well formed, the count stays a `u16`, and every index
handed out before keeps its meaning (so the indices used by the instructions and the exception table stay valid) -/
theorem frames_pool_grows (lp : Nat → Option Nat) (hlp : LpOk lp) (p p' : PoolWrite.Pool) (hw : p.WF)
    (hc : p.count ≤ 65535) (fs : List (Nat × Frame)) (hinc : Incr none fs) (b : Bytes)
    (h : body lp p fs = .ok (b, p')) :
    p'.WF ∧ p'.count ≤ 65535 ∧ p.count ≤ p'.count ∧ ∀ j e, p.get j = some e → p'.get j = some e := by
  obtain ⟨_, hg, hle, hcnt, _⟩ := body_spec hlp fs ⟨hw, hc⟩ hinc h
  exact ⟨hg.1, hg.2, hcnt, hle⟩

/-- **short or extended form**: `same_frame` (`frame_type = offset_delta`) and `same_locals_1_stack_item_frame`
(`frame_type = 64 + offset_delta`) are used exactly for `offset_delta ≤ 63`, otherwise `same_frame_extended` (251) and
`same_locals_1_stack_item_frame_extended` (247) with a `u2 offset_delta`; chop, append and full frames always carry the
`u2` -/
theorem frame_form_choice (lp : Nat → Option Nat) (p : PoolWrite.Pool) (d : Nat) :
    (d ≤ 63 → writeFrame lp p d .same = .ok ([d], p)) ∧
    (63 < d → writeFrame lp p d .same = .ok (251 :: u16b d, p)) ∧
    (∀ v b p', writeVType lp p v = .ok (b, p') →
      (d ≤ 63 → writeFrame lp p d (.same1 v) = .ok ((64 + d) :: b, p')) ∧
      (63 < d → writeFrame lp p d (.same1 v) = .ok (247 :: (u16b d ++ b), p'))) ∧
    (∀ k, 1 ≤ k → k ≤ 3 → writeFrame lp p d (.chop k) = .ok ((251 - k) :: u16b d, p)) := by
  refine ⟨fun h => by simp [writeFrame, h], fun h => ?_, fun v b p' hv => ⟨fun h => by simp [writeFrame, hv, h], fun h => ?_⟩,
    fun k h1 h2 => by simp [writeFrame, h1, h2]⟩
  · have : ¬ d ≤ 63 := by omega
    simp [writeFrame, this]
  · have : ¬ d ≤ 63 := by omega
    simp [writeFrame, hv, this]

/-- `offset_delta` is the offset itself for the first frame and the distance to the previous frame minus one
afterwards; the decoder's rule (`previous + offset_delta + 1`) gives the offset back -/
theorem offset_delta_exact (prev : Option Nat) (o : Nat)
    (h : match prev with | none => True | some q => q < o) (ho : o ≤ 65535) :
    ∃ d, offsetDelta prev o = .ok d ∧ d ≤ 65535 ∧ applyOffset prev d = o :=
  offsetDelta_ok h ho

/-- an `Uninitialized` type is written as tag 8 and the bytecode offset of its label -/
theorem uninitialized_offset_is_label_position (lp : Nat → Option Nat) (p p' : PoolWrite.Pool) (l : Nat) (b : Bytes)
    (h : writeVType lp p (.uninit l) = .ok (b, p')) : ∃ o, lp l = some o ∧ b = 8 :: u16b o ∧ p' = p := by
  simp only [writeVType] at h
  split at h
  · cases h
  · rename_i o ho
    cases h
    exact ⟨o, ho, rfl, rfl⟩

/-- an `Object` type is written as tag 7 and the index `put_class` returns; that index designates a
`CONSTANT_Class_info` naming the class, now and in every later pool -/
theorem object_index_is_class (lp : Nat → Option Nat) (p p' : PoolWrite.Pool) (hw : p.WF) (hc : p.count ≤ 65535)
    (c : JStr) (b : Bytes) (h : writeVType lp p (.object c) = .ok (b, p')) :
    ∃ i, PoolWrite.putClass p c = some (i, p') ∧ b = 7 :: u16b i ∧ i ≤ 65535 ∧ clsAt p' c i = true ∧
      ∀ q : PoolWrite.Pool, (∀ j e, p'.get j = some e → q.get j = some e) → clsAt q c i = true := by
  simp only [writeVType] at h
  split at h
  · cases h
  · rename_i i p1 hp
    cases h
    obtain ⟨_, _, hcl, hi, _⟩ := FramePool.putClass_good ⟨hw, hc⟩ hp
    exact ⟨i, hp, rfl, hi, hcl, fun q hq => FramePool.clsAt_le hq hcl⟩

/-- **Clean failure**: for frames at increasing offsets neither the body closure nor `write_attribute` around it
panics (the unchecked `offset - previous - 1` cannot underflow) -/
theorem frames_write_fails_cleanly (lp : Nat → Option Nat) (p : PoolWrite.Pool) (fs : List (Nat × Frame))
    (hinc : Incr none fs) : body lp p fs ≠ .error .panic ∧ attr lp p fs ≠ .error .panic :=
  ⟨fun h => (by have := body_err lp fs p hinc _ h; cases this), fun h => (by have := attr_err lp fs p hinc _ h; cases this)⟩

/-- …so the `StackMapTable` of a method is written or refused with the explicit error, whatever frames the
instructions carry -/
theorem code_frames_never_panic (is : List Insn) (res : Result) (hres : writeCode is = .ok res)
    (fs : List (Option Frame)) (p : PoolWrite.Pool) : attr res.label p (framesOf res fs) ≠ .error .panic :=
  (frames_write_fails_cleanly res.label p _ (collected_frames_increase is res hres fs)).2

/-- success ⇒ at most 65535 frames, every chop count and append length in `1..=3`, every count a `u2`, every
`Uninitialized` label has an offset -/
theorem frames_write_ok_only (lp : Nat → Option Nat) (p p' : PoolWrite.Pool) (fs : List (Nat × Frame)) (b : Bytes)
    (h : body lp p fs = .ok (b, p')) : tableOk lp fs = true :=
  body_ok_imp h

/-- **Failure, exactly.** While the constant pool has room for the classes of the `Object` types (two entries each
at most), writing fails — with the explicit error — exactly when the table is not expressible: more than 65535
frames, a chop count or append length outside `1..=3`, more than 65535 locals or stack items, or an `Uninitialized`
label without bytecode offset. -/
theorem frames_write_fails_iff (lp : Nat → Option Nat) (p : PoolWrite.Pool) (fs : List (Nat × Frame))
    (hinc : Incr none fs) (hroom : p.count + 2 * objectsAll fs ≤ 65535) :
    body lp p fs = .error .err ↔ tableOk lp fs = false := by
  constructor
  · intro h
    cases hok : tableOk lp fs with
    | false => rfl
    | true =>
      obtain ⟨b, p', hb⟩ := body_ok_of fs p hinc hok hroom
      rw [hb] at h; cases h
  · intro h
    cases hb : body lp p fs with
    | ok r =>
      obtain ⟨b, p'⟩ := r
      rw [body_ok_imp hb] at h; cases h
    | error e => rw [body_err lp fs p hinc e hb]

/-- without the room hypothesis the only further reason is the constant pool overflowing (`put_class`) -/
theorem frames_write_error_reasons (lp : Nat → Option Nat) (p : PoolWrite.Pool) (fs : List (Nat × Frame))
    (hinc : Incr none fs) (e : Fail) (h : body lp p fs = .error e) :
    e = .err ∧ (tableOk lp fs = false ∨ 65535 < p.count + 2 * objectsAll fs) := by
  refine ⟨body_err lp fs p hinc e h, ?_⟩
  cases hok : tableOk lp fs with
  | false => exact Or.inl rfl
  | true =>
    refine Or.inr ?_
    apply Decidable.byContradiction
    intro hn
    obtain ⟨b, p', hb⟩ := body_ok_of fs p hinc hok (by omega)
    rw [hb] at h; cases h

/-- `write_attribute`: the body closure runs first (the classes of `Object` types enter the pool), then the name
`StackMapTable`, and `attribute_length` fits `u4`; no frames, no attribute -/
theorem frames_attribute_layout (lp : Nat → Option Nat) (p p2 : PoolWrite.Pool) (fs : List (Nat × Frame))
    (a : Option (Nat × Bytes)) (h : attr lp p fs = .ok (a, p2)) :
    (fs = [] → a = none ∧ p2 = p) ∧
    (fs ≠ [] → ∃ i b p1, a = some (i, b) ∧ body lp p fs = .ok (b, p1) ∧
      PoolWrite.putUtf8 p1 sStackMapTable = some (i, p2) ∧ b.length ≤ 4294967295) := by
  unfold attr at h
  split at h
  · rename_i he
    cases h
    simp only [List.isEmpty_iff] at he
    exact ⟨fun _ => ⟨rfl, rfl⟩, fun hne => absurd he hne⟩
  · rename_i he
    simp only [List.isEmpty_iff] at he
    refine ⟨fun h0 => absurd h0 he, fun _ => ?_⟩
    split at h
    · cases h
    · rename_i b p1 hb
      split at h
      · cases h
      · rename_i i p2' hp
        split at h
        · cases h
        · rename_i hlen
          cases h
          exact ⟨i, b, p1, rfl, hb, hp, by omega⟩

/-- its `attribute_length` is the length of the body: the framing parser of section 6 reads the attribute back -/
theorem frames_attribute_length_exact (i : Nat) (b rest : Bytes) (hi : i ≤ 65535) (hb : b.length ≤ 4294967295) :
    ClassParse.attrs 1 (ClassWrite.attrsBytes [(i, b)] ++ rest) = some ([(i, b)], rest) :=
  ClassParse.attrs_attrsBytes [(i, b)] (fun a ha => by simp at ha; subst ha; exact ⟨hi, hb⟩) rest

/-- regression shapes: a chop frame removing 0 or 4 locals, an append frame adding 0 or 4, an `Uninitialized` type
whose label no instruction carries — all refused with the explicit error -/
theorem chop_append_out_of_range_is_err (lp : Nat → Option Nat) (p : PoolWrite.Pool) (o : Nat) :
    body lp p [(o, .chop 0)] = .error .err ∧ body lp p [(o, .chop 4)] = .error .err ∧
    body lp p [(o, .append [])] = .error .err ∧
    body lp p [(o, .append [.int, .int, .int, .int])] = .error .err := by
  refine ⟨?_, ?_, ?_, ?_⟩ <;> simp [body, writeFrames, offsetDelta, writeFrame]

theorem uninitialized_unknown_label_is_err (lp : Nat → Option Nat) (p : PoolWrite.Pool) (o l : Nat) (hl : lp l = none) :
    body lp p [(o, .same1 (.uninit l))] = .error .err := by
  simp [body, writeFrames, offsetDelta, writeFrame, writeVType, hl]

/-- non-vacuity: a method `nop; new C; return` (label 1 on the `new`) with an append frame at offset 0 (Integer,
`Object C` at the class entry the `new` uses, index 2), a same-locals-1 frame at offset 1 whose stack item is the
uninitialised object created at label 1, and a chop frame 70 bytes further on (extended delta); the decoder of
JVMS §4.7.4 reads the body back -/
example :
    let lp : Nat → Option Nat := fun t => if t = 1 then some 1 else none
    let p0 := PoolWrite.empty
    ∃ i p1 b p2, PoolWrite.putClass p0 (jstr "C") = some (i, p1) ∧
      body lp p1 [(0, .append [.int, .object (jstr "C")]), (1, .same1 (.uninit 1)), (72, .chop 2)] = .ok (b, p2) ∧
      b = [0, 3, 253, 0, 0, 1, 7, 0, 2, 64, 8, 0, 1, 249, 0, 70] ∧ p2.count = 3 ∧
      table b = some [(0, .append [.int, .object 2]), (1, .same1 (.uninit 1)), (72, .chop 2)] := by
  refine ⟨2, _, _, _, rfl, rfl, ?_, ?_, ?_⟩ <;> decide

example : Incr none [(0, Frame.same), (64, .chop 1), (65535, .full [] [.top])] := by simp [Incr]

/-- why `Incr` is a hypothesis of `frames_write_fails_cleanly`: two frames at the same offset would make the unchecked
`offset - previous - 1` underflow (a panic with overflow checks on); `collected_frames_increase` shows that
`write_code` never produces such a list -/
example : body (fun _ => none) PoolWrite.empty [(5, .same), (5, .same)] = .error .panic := by rfl

end Frames

/-! ## 9. The written `StackMapTable`, read by the reader model of C01

`Model/ClassReadCode.lean` (`ClassRead.readFrames`) is C01's model of duke's *reader*; `ClassRead.Spec.encFrames`
(Spec/ClassEncode.lean) is the JVMS §4.7.4 encoder C01's round-trip theorem is stated with. -/

section ReadBack
open FrameWrite FrameDenote FrameReadBack

/-- **writer = specification encoder.** The entries the writer emits for frames attached to instruction indices are,
byte for byte, what C01's specification encoder assigns to the layout `sFrames` (instruction index, compact form iff
`offset_delta ≤ 63`, pool index of every `Object` type): the writer and the specification the reader is proved against
agree on the format -/
theorem frames_write_is_spec_encoding (lp : Nat → Option Nat) (ifs : List (Nat × Frame)) (p p' : PoolWrite.Pool)
    (hinc : IdxIncr lp none ifs) (bs : Bytes) (h : writeFrames lp p none (atPositions lp ifs) = .ok (bs, p')) :
    ∃ sfs, sFrames lp p none ifs = some (sfs, p') ∧ bs = ClassRead.Spec.encFrames (posOf lp) none sfs ∧
      sfs.length = ifs.length :=
  writeFrames_enc ifs none hinc h

/-- **Write, then read with the reader model.** For a method of well-typed instructions whose frames were written
(`body … = .ok`): C01's reader model `ClassRead.readFrames`, run on the written entries (whatever follows them) with

* any reader pool that resolves the written class indices to the class names (`PoolAgrees`),
* any well-formed reader label table for this code array with room for the labels it needs (`labelDemand`),

succeeds, consumes exactly the written bytes and returns exactly the frames of the tree: the frame of instruction `k`
attached to the reader's label of the offset of instruction `k`, every type the same item, `Uninitialized` types
carrying the reader's label of the offset of their (instruction) label. -/
theorem frames_read_back (is : List Insn) (hwt : ∀ i ∈ is, wt i = true) (res : Result)
    (hres : writeCode is = .ok res) (fs : List (Option Frame)) (p p' : PoolWrite.Pool) (hw : p.WF)
    (hc : p.count ≤ 65535) (b : Bytes) (h : body res.label p (framesOf res fs) = .ok (b, p'))
    (hu : ∀ f, some f ∈ fs → frameUninitBelow is.length f)
    (rp : ClassRead.Pool) (ha : PoolAgrees p' rp)
    (l : ClassRead.Labels) (hwf : l.WF) (hcl : l.codeLength = res.code.length)
    (hroom : l.count + ((framesOf res fs).map (fun x => labelDemand x.2)).sum < 65536) (r : Bytes) :
    ∃ (ifs : List (Nat × Frame)) (bs : Bytes) (v : List (Nat × ClassRead.Frame)) (l' : ClassRead.Labels),
      framesOf res fs = atPositions res.label ifs ∧
      (∀ x ∈ ifs, x.1 < is.length ∧ fs[x.1]? = some (some x.2)) ∧
      b = u16b ifs.length ++ bs ∧
      ClassRead.readFrames rp ifs.length true 0 l (bs ++ r) = .ok (v, l', r) ∧ l'.WF ∧ ClassRead.Labels.Le l l' ∧
      ∀ lf, ClassRead.Labels.Le l' lf →
        v = ifs.map (fun x => (ClassRead.labOf lf (posOf res.label) x.1, readFrameOf lf res.label x.2)) := by
  obtain ⟨hP, hmono, hpos⟩ := result_pos_ok is hwt res hres
  have hsz := writeCode_pos_size is res hres
  let ifs := collectIdx 0 res.pos.toList fs
  have heq : framesOf res fs = atPositions res.label ifs := collect_eq res.label _ fs 0 hP
  have hbound := collectIdx_bound res.pos.toList fs 0
  have hlen : res.pos.toList.length = is.length := by simpa using hsz
  have hinc : IdxIncr res.label none ifs :=
    collectIdx_incr res.label is.length hmono (by have := hpos.le is.length (Nat.le_refl _); have := hpos.small; omega)
      _ fs 0 none (by omega) trivial
  obtain ⟨_, _, _, _, _, _, _, bs, hb, hws⟩ := body_spec (result_labels_u16 is res hres) _ ⟨hw, hc⟩
    (collected_frames_increase is res hres fs) h
  rw [heq] at hws
  have hidx : ∀ x ∈ ifs, x.1 < is.length ∧ fs[x.1]? = some (some x.2) := by
    intro x hx
    obtain ⟨_, h2, h3⟩ := hbound x hx
    exact ⟨by omega, by simpa using h3⟩
  obtain ⟨sfs, hs, hl, hread⟩ := readFrames_written ifs ⟨hw, hc⟩ hws is.length res.code.length hpos hmono hinc
    (fun x hx => (hidx x hx).1)
    (fun x hx => hu x.2 (List.mem_of_getElem? (hidx x hx).2)) rp ha l hwf hcl r
  have hdem : (sfs.map (fun f => f.kind.labelRefs + 1)).sum = ((framesOf res fs).map (fun x => labelDemand x.2)).sum := by
    rw [sFrames_refs ifs none hs, heq]
    simp [atPositions, List.map_map, Function.comp_def]
  obtain ⟨v, l', h1, h2, h3, h4⟩ := hread (by rw [hdem]; exact hroom)
  refine ⟨ifs, bs, v, l', heq, hidx, ?_, h1, h2, h3, h4⟩
  rw [hb, heq]
  simp [atPositions]

/-- non-vacuity: the entries written in the example of section 8 (`append [Integer, Object C]` at offset 0,
`same_locals_1 [Uninitialized(label 1)]` at offset 1, `chop 2` at offset 72), read by the reader model with a pool whose
entry 2 is the class `C` and a fresh label table for 75 bytes of code: the three frames come back attached to the
labels of the offsets 0, 1, 72 (ids 0, 1, 2), the uninitialised object carrying the label of offset 1 -/
example :
    (match ClassRead.readFrames [none, some (.utf8 (jstr "C")), some (.cls 1)] 3 true 0 (ClassRead.Labels.new 75)
        [253, 0, 0, 1, 7, 0, 2, 64, 8, 0, 1, 249, 0, 70] with
      | .ok (v, l, r) => some (v, l.get 0, l.get 1, l.get 72, l.count, r)
      | _ => none) =
    some ([(0, .append [.int, .object (jstr "C")]), (1, .same1 (.uninit 1)), (2, .chop 2)], some 0, some 1, some 2, 3, []) := by
  rfl

end ReadBack

/-! ## 9. the whole class writer (`Model/ClassWriteFull.lean` = `write`, `write_field`, `write_method`, `write_code`,
`write_record_component`, `write_module`, the annotation writers, `PoolWrite::write`)

`ClassWriteFull.writeClass : ClassRead.ClassFacts → Except Fail Bytes` takes the class description C01's reader model
delivers (the model of duke's `ClassFile` tree) and mirrors the Rust writer function by function, pool puts in the
Rust's order.  It is tied to `duke::write_class` byte for byte by the op `class-write` (read with duke / the reader model,
write with duke / this model, identical bytes) on the javac corpus and on random classes with every attribute kind.

The headline statement, at full strength, is

    ∀ t bytes r, writeClass t = .ok bytes →
      ∃ raw t', ClassRead.read (bytes ++ r) = .ok (raw, r) ∧ t.resolve = some t' ∧ raw.resolve = some t'

— C01's reader model (`Thm.C01.class_read_encode_partial` makes it the reader of every JVMS-legal encoding) reads the
written file back to exactly the facts of `t` and stops at its end.  "The facts of `t`" are `t.resolve` (C01,
`Model/ClassReadResolve.lean`): the class description with the opaque label ids of every method body read as the
index of the instruction that carries them — the form in which two trees with differently numbered labels are
compared; a class description without method bodies is its own resolved form (`class_write_read_no_code_partial` is the
statement with `raw.resolve = some t`).  It is proved below for the decidable fragment
`ClassWriteFull.InWriterFragment t` (hence `_partial`):

* header, super types, interfaces; fields with `Deprecated Synthetic ConstantValue Signature
  Runtime(In)VisibleAnnotations Runtime(In)VisibleTypeAnnotations` + unknown attributes;
  methods with `Deprecated Synthetic Code Exceptions Signature Runtime(In)VisibleAnnotations
  Runtime(In)VisibleTypeAnnotations AnnotationDefault MethodParameters` + unknown attributes;
  **`Code`** (`ClassWriteFull.CodeOk`, `Lemmas/ClassWriteFullCode.lean`): every instruction kind — constants, locals in
  all widths, all 16 conditional branches, `goto`, `jsr`, `ret`, both switches, field / method / interface-method
  references, method handles and method types, class operands, **`invokedynamic` and `ldc` of `Dynamic` constants**
  (bootstrap arguments nested within the reader's limit of 16 levels) with the **`BootstrapMethods`** attribute the
  writer assembles after the members (`Lemmas/ClassWriteFullCodeDyn.lean`: rows are only appended, so the row index in
  a `Dynamic` / `InvokeDynamic` entry designates the same row of the final table; the handles enter the pool when the
  attribute is written) — in a method body of **at most 32767 bytes by the syntactic bound** `maxSizeR` (the
  longest form of every instruction: then no jump is widened and no conditional branch becomes an inverted-condition
  trampoline, which the reader would read back as two instructions), with its `StackMapTable` (frames of all five
  kinds on any instructions, `Object` types with valid class names, `Uninitialized` labels on instructions: the written
  table is `Spec.encFrames` of a legal frame layout, `frames_write_is_spec_encoding`, and every frame comes back attached
  to the instruction that carried it), with its exception table (`end_pc = code_length` allowed), `LineNumberTable`, `LocalVariableTable` / `LocalVariableTypeTable` (every
  entry exactly one of descriptor / signature, descriptor entries first: the order in which the two tables are written
  and read back), `Runtime(In)VisibleTypeAnnotations` with the targets `localvar` / `resource` / `catch` / `offset` /
  `type_argument`, unknown attributes of `Code` not named like an attribute the reader interprets there (written last since
  the repair, `code_unknown_attributes_written`), fewer than 65535 label references;
  class attributes `Deprecated Synthetic InnerClasses EnclosingMethod Signature SourceFile SourceDebugExtension
  Runtime(In)VisibleAnnotations Runtime(In)VisibleTypeAnnotations Module ModulePackages ModuleMainClass NestHost
  NestMembers PermittedSubclasses Record` + unknown attributes; `Record` components with `Signature
  Runtime(In)VisibleAnnotations Runtime(In)VisibleTypeAnnotations` + unknown attributes; `Module` with its `requires`
  (optional version), `exports` / `opens` (target modules), `uses`, `provides … with …` and their `Module` / `Package` /
  `Class` constants; annotations with every element-value kind (`B C D F I J S Z s e c @ [`),
  nested up to the reader's limit of 255 levels, type annotations with every target the owner admits and any type path;
* names valid where the reader validates them, access flags within the masks the tree can hold, unknown attributes not
  named like a known one (`ClassOk`), every constant and string of the pool the writer builds within its field
  (`PoolOkOf`: the operand ranges of duke's tree types);
* not yet in the fragment (modelled and tied byte-exactly, no read-back theorem): method bodies beyond the 32767-byte bound (widened jumps: covered
  for the code array alone by sections 1-4).

Route: the bytes are `(layout).encode` for the `ClassRead.Spec.ClassLayout` the writer chooses (its pool, its indices,
its attribute order: `class_write_layout_partial`), every index the writer used resolves **in the final pool** to the
constant it was put for (`pool_index_stable`: put → get, then monotonicity under every later put, then the reader's
table of the written pool image), so the layout is `Legal`; its facts are `t.resolve`; `Thm.C01.class_read_encode_partial`.
For `Code`: the code array of the successful (first) attempt is `Spec.encInsns` of the layout with the writer's own form
choices (`Lemmas/ClassWriteFullCodeInsn.lean`, `…CodeArray.lean`: per instruction, then chunk by chunk, positions =
`codePos`), the tables are written from that label table (`…CodeTables.lean`), and `Code.resolve` is the relabelling
the writer performs (`…CodeResolve.lean`). -/

open ClassWriteFull in
/-- an index at which the writer's pool holds an entry resolves, in the table C01's reader builds from the pool image of
**any later pool** (`Ext p q`: reachable by further puts), to that entry: indices keep their meaning until the file is
written -/
theorem pool_index_stable (p q : PoolWrite.Pool) (h : Ext p q) (i : Nat) (e : PoolWrite.Entry) (hg : p.get i = some e) :
    (rpool q).get i = .ok (conv e) :=
  rget_of_get h.good.1 (h.le i e hg)

open ClassWriteFull in
/-- every put keeps the pool good (well formed, `constant_pool_count ≤ 65535`), keeps all earlier indices, and returns
an index below 65536 that holds the entry -/
theorem pool_put_step (p p' : PoolWrite.Pool) (e : PoolWrite.Entry) (i : Nat) (hg : FramePool.Good p)
    (h : ClassWriteFull.put p e = .ok (i, p')) : Ext p p' ∧ p'.get i = some e ∧ i < 65536 := by
  obtain ⟨s, a, b⟩ := put_spec hg h
  exact ⟨⟨s.good, s.le⟩, a, b⟩

open ClassWriteFull in
/-- the written file is the JVMS encoding (`ClassRead.Spec.ClassLayout.encode`, the specification side of C01) of a
layout that is legal and denotes exactly `t` -/
theorem class_write_layout_partial (t : ClassRead.ClassFacts) (hfrag : InWriterFragment t) (bytes : Bytes)
    (hw : writeClass t = .ok bytes) :
    ∃ c : ClassRead.Spec.ClassLayout, bytes = c.encode ∧ c.Legal ∧ ∃ t', t.resolve = some t' ∧ c.facts = some t' :=
  writeClass_layout t hfrag bytes hw

open ClassWriteFull in
/-- **written files are read back** (fragment: see the section header; full statement there): the reader model reads
the written file, stops at its end, and what it read denotes the same class as `t` — both with their labels resolved -/
theorem class_write_read_partial (t : ClassRead.ClassFacts) (hfrag : InWriterFragment t) (bytes : Bytes)
    (hw : writeClass t = .ok bytes) (r : Bytes) :
    ∃ raw t', ClassRead.read (bytes ++ r) = .ok (raw, r) ∧ t.resolve = some t' ∧ raw.resolve = some t' :=
  writeClass_read t hfrag bytes hw r

open ClassWriteFull in
/-- the same for class descriptions without method bodies, which are their own resolved form: read back to exactly `t` -/
theorem class_write_read_no_code_partial (t : ClassRead.ClassFacts) (hfrag : InWriterFragment t)
    (hnc : ∀ m ∈ t.methods, m.code = none) (bytes : Bytes) (hw : writeClass t = .ok bytes) (r : Bytes) :
    ∃ raw, ClassRead.read (bytes ++ r) = .ok (raw, r) ∧ raw.resolve = some t := by
  obtain ⟨raw, t', h1, h2, h3⟩ := writeClass_read t hfrag bytes hw r
  rw [resolve_no_code t hnc] at h2
  cases h2
  exact ⟨raw, h1, h3⟩

/-- **`write` never panics** — for *every* class description (the whole tree type: `Code` with the retry loop and the
`StackMapTable`, annotations of any nesting, type annotations, `Record`, `Module`, bootstrap methods, counts of any
size): the outcome of the model of `duke::write_class` is the bytes or the explicit error, never the panic outcome.
The only unchecked arithmetic of the Rust writer left (`offset - previous - 1` of the `StackMapTable`, `as u16` of the
last label) is unreachable / unobservable: `write_fails_cleanly`, `code_frames_never_panic`. -/
theorem class_write_never_panics (t : ClassRead.ClassFacts) : ClassWriteFull.writeClass t ≠ .error .panic :=
  ClassWriteFull.np_writeClass (fun is res hres fs p => code_frames_never_panic is res hres fs p) t

/-- non-vacuity: an interface with two fields (constant values, signature, annotations with nested element values, a
type annotation with a type path, unknown attribute), an abstract method (`Exceptions`, `Signature`, annotations, type
annotations, `AnnotationDefault`, `MethodParameters`, unknown attribute) and all class attributes of the fragment -/
def exampleTree : ClassRead.ClassFacts :=
  { minor := 0, major := 61, access := 0x0601, name := [65],
    super := some [106, 97, 118, 97, 47, 108, 97, 110, 103, 47, 79, 98, 106, 101, 99, 116], interfaces := [[73]],
    fields := [⟨0x19, [102], [73], true, false, some (.int 7), some [73],
                 [.mk [76, 65, 59] [([118], .arr [.const 90 1, .str [120], .anno (.mk [76, 66, 59] [([119], .enum [76, 69, 59] [88])])]),
                                     ([100], .const 68 4607182418800017408)]], [],
                 [⟨.field, [(3, 1), (0, 0)], .mk [76, 84, 59] []⟩], [], [⟨[88], [1, 2]⟩]⟩,
               ⟨0x0a, [103], [74], false, true, some (.str [104, 105]), none, [], [], [], [], []⟩],
    methods := [⟨0x401, [109], [40, 41, 86], false, true, none, some [[69]], some [40, 41, 86], [], [.mk [76, 65, 59] []],
                 [⟨.throws 0, [], .mk [76, 84, 59] []⟩, ⟨.formalParam 1, [], .mk [76, 84, 59] [([118], .cls [73])]⟩], [],
                 some (.arr [.const 66 (-3), .const 67 65535]),
                 some [⟨some [112], 0x10⟩, ⟨none, 0⟩], [⟨[89], []⟩]⟩],
    deprecated := true, synthetic := false,
    innerClasses := some [⟨[65, 36, 66], some [65], some [66], 8⟩, ⟨[67], none, none, 0⟩],
    enclosingMethod := some ([79], some ([109], [40, 41, 86])), signature := some [76, 65, 59],
    sourceFile := some [65, 46, 106], sourceDebugExtension := some [120, 0, 0x10000],
    rva := [.mk [76, 65, 59] [([118], .const 74 (-5))]], ria := [],
    rvta := [⟨.extends_, [], .mk [76, 84, 59] []⟩, ⟨.typeParamBound 0x11 0 1, [(1, 0)], .mk [76, 84, 59] []⟩], rita := [],
    module := none, modulePackages := some [[112]], moduleMainClass := some [77],
    nestHost := some [78], nestMembers := some [[65, 36, 66]], permittedSubclasses := some [],
    recordComponents := [], attrs := [⟨[90], [9]⟩] }

example : ClassWriteFull.InWriterFragment exampleTree := by decide +kernel
example : (match ClassWriteFull.writeClass exampleTree with | .ok _ => true | .error _ => false) = true := by decide +kernel

/-- non-vacuity, `Record`: a record class with two components — the first with `Signature`, a visible annotation with a
nested element value, an invisible type annotation (target `field`, a type path) and an unknown attribute -/
def exampleRecord : ClassRead.ClassFacts :=
  { exampleTree with
    access := 0x0031, name := [82],
    super := some [106, 97, 118, 97, 47, 108, 97, 110, 103, 47, 82, 101, 99, 111, 114, 100], interfaces := [],
    fields := [], methods := [],
    recordComponents :=
      [⟨[120], [73], some [84, 73, 59], [.mk [76, 65, 59] [([118], .arr [.const 73 1, .str [115]])]], [],
         [], [⟨.field, [(3, 0)], .mk [76, 84, 59] []⟩], [⟨[88], [1, 2, 3]⟩]⟩,
       ⟨[121], [74], none, [], [], [], [], []⟩] }

example : ClassWriteFull.InWriterFragment exampleRecord := by decide +kernel
example : (match ClassWriteFull.writeClass exampleRecord with | .ok _ => true | .error _ => false) = true := by decide +kernel

/-- non-vacuity, `Module`: a `module-info` with a versioned and an unversioned `requires`, a qualified and an
unqualified `exports`, an `opens`, a `uses` and a `provides … with …`, plus `ModulePackages` / `ModuleMainClass` -/
def exampleModule : ClassRead.ClassFacts :=
  { minor := 0, major := 61, access := 0x8000, name := [109, 111, 100, 117, 108, 101, 45, 105, 110, 102, 111],
    super := none, interfaces := [], fields := [], methods := [],
    deprecated := false, synthetic := false, innerClasses := none, enclosingMethod := none, signature := none,
    sourceFile := some [109, 46, 106], sourceDebugExtension := none, rva := [], ria := [], rvta := [], rita := [],
    module := some
      { name := [109, 46, 97], flags := 0x0020, version := some [49, 46, 48],
        requires := [⟨[106, 97, 118, 97, 46, 98, 97, 115, 101], 0x8000, some [49, 55]⟩, ⟨[109, 46, 98], 0x0020, none⟩],
        exports := [⟨[112, 47, 97], 0, [[109, 46, 98], [109, 46, 99]]⟩, ⟨[112, 47, 98], 0x1000, []⟩],
        opens := [⟨[112, 47, 97], 0, [[109, 46, 98]]⟩],
        uses := [[112, 47, 83]],
        provides := [⟨[112, 47, 83], [[112, 47, 97, 47, 73], [112, 47, 97, 47, 74]]⟩] },
    modulePackages := some [[112, 47, 97], [112, 47, 98]], moduleMainClass := some [112, 47, 97, 47, 77],
    nestHost := none, nestMembers := none, permittedSubclasses := none, recordComponents := [], attrs := [] }

example : ClassWriteFull.InWriterFragment exampleModule := by decide +kernel
example : (match ClassWriteFull.writeClass exampleModule with | .ok _ => true | .error _ => false) = true := by decide +kernel

/-- non-vacuity, `Code`: a class with a method whose body has an `invokedynamic` (bootstrap arguments: an `int` and a
`Dynamic` constant with a `String` argument), an `ldc2_w` of a `Dynamic` constant of type `J`, a field access, an `ldc`
of a string, a method call, a conditional branch and a `goto` (labels 2 and 3), an `iinc`, a protected range with a handler (labels
1, 2, 4; the catch type `java/lang/Exception`), stack map frames on the branch target (`append [int]`), the handler
(`same_locals_1_stack_item [Object java/lang/Exception]`) and the `goto` target (`full` with an `Uninitialized(label 1)`),
a line table, a local variable with a descriptor and one with a signature (live to the end of the code: `last_label` 5),
an unknown attribute `Foo` of the `Code` attribute -/
def exampleCode : ClassRead.ClassFacts :=
  { exampleTree with
    access := 0x0021, name := [67], interfaces := [], fields := [],
    methods :=
      [⟨0x0009, [109], [40, 73, 41, 86], false, false,
         some
           { maxStack := 2, maxLocals := 2,
             insns :=
               [⟨none, none, .invokedynamic ⟨[114, 117, 110], [40, 41, 86], ⟨6, ⟨[66], [98], [40, 41, 86]⟩, false⟩,
                   [.int 7, .dyn [99] [73] ⟨6, ⟨[66], [98], [40, 41, 86]⟩, true⟩ [.str [115]]]⟩⟩,
                ⟨none, none, .ldc (.dyn [100] [74] ⟨2, ⟨[66], [102], [74]⟩, false⟩ [.long 5])⟩,
                ⟨none, none, .field 0xb2 ⟨[83], [111, 117, 116], [76, 80, 59]⟩⟩,
                ⟨none, none, .ldc (.str [104, 105])⟩,
                ⟨none, none, .invokevirtual ⟨[80], [112], [40, 76, 83, 59, 41, 86]⟩⟩,
                ⟨some 1, none, .load 0 0⟩,
                ⟨none, none, .branch 0x99 2⟩,
                ⟨none, none, .iinc 0 1⟩,
                ⟨some 2, some (.append [.int]), .goto 3⟩,
                ⟨some 4, some (.same1 (.object [106, 97, 118, 97, 47, 108, 97, 110, 103, 47, 69, 120, 99, 101, 112, 116, 105, 111, 110])),
                  .store 4 1⟩,
                ⟨some 3, some (.full [.int, .uninit 1] []), .simple 0xb1⟩],
             exceptions := [⟨1, 2, 4, some [106, 97, 118, 97, 47, 108, 97, 110, 103, 47, 69, 120, 99, 101, 112, 116, 105, 111, 110]⟩],
             lastLabel := some 5,
             lines := some [(1, 10), (3, 12)],
             locals := some [⟨1, 5, [120], some [73], none, 0⟩, ⟨4, 5, [101], none, some [84, 84, 59], 1⟩],
             rvta := [], ritva := [], attrs := [⟨[70, 111, 111], [1, 2, 3]⟩] },
         none, none, [], [], [], [], none, none, []⟩] }

example : ClassWriteFull.InWriterFragment exampleCode := by decide +kernel
example : (match ClassWriteFull.writeClass exampleCode with | .ok _ => true | .error _ => false) = true := by decide +kernel

/-- **regression theorem of the repaired defect** (`fix: class writer writes the unknown attributes of a method body`;
before the repair `write_code` had no loop over `Code.attributes`, the model satisfied
`writeCode { c with attrs := as } p bs = writeCode c p bs` and `oracle-cf-write-read full` on a class whose `Code`
carries an attribute `Foo` answered `(fail other)`).  Every successful `write_code`, no fragment hypothesis: the
attribute table of `Code` states the count of the known attributes that were written plus `Code.attributes.length`,
then come the known attributes and then — last, as at class / field / method / record-component level — each unknown
attribute as name index, `u32` length, bytes (`Spec.attrFrame`), the name indices being the ones the loop's `put_utf8`
calls returned (`runAttrs (unknownAttrs c.attrs)` from the pool `q` after the known attributes). -/
theorem code_unknown_attributes_written (c : ClassRead.Code) (p p' : PoolWrite.Pool) (bs bs' : List BootstrapWrite.Bsm)
    (b : Bytes) (h : ClassWriteFull.writeCode c p bs = .ok (b, p', bs')) :
    ∃ (pre : Bytes) (known : List Bytes) (q : PoolWrite.Pool) (ncs : List Nat), ncs.length = c.attrs.length ∧
      ClassWriteFull.runAttrs (ClassWriteFull.unknownAttrs c.attrs) q
        = .ok ((ncs.zip c.attrs).map (fun x => ClassRead.Spec.attrFrame x.1 x.2.bytes), p') ∧
      known.length + c.attrs.length ≤ 65535 ∧ (∀ a ∈ c.attrs, a.bytes.length < 4294967296) ∧
      b = pre ++ ClassRead.be16 (known.length + c.attrs.length) ++ known.flatten ++
        ((ncs.zip c.attrs).map fun x => ClassRead.be16 x.1 ++ ClassRead.be32 x.2.bytes.length ++ x.2.bytes).flatten :=
  ClassWriteFull.writeCode_unknown_written h

/-- the unknown attribute of `exampleCode`'s method body reaches the written class: the bytes end with the class's
attribute count after the method, whose `Code` attribute ends with `Foo`'s frame (name index, length 3, `1 2 3`) -/
example : (match ClassWriteFull.writeClass exampleCode with
    | .ok b => decide (([0, 0, 0, 3, 1, 2, 3] : Bytes) <:+: b)
    | .error _ => false) = true := by decide +kernel

/-! ## ═══ generated tables: the translator tie for `write_code` (independent of any test generator) ═══

`translate/insn_arms_to_lean.py` reads the `match &instruction.instruction` of `write_code`, `if_helper`,
`write_verification_type_info` (`duke/src/simple_class_writer.rs`) and `PoolWrite::write` (`simple_class_writer/pool.rs`)
before every build and writes the arms as data into `Gen/WriterArms.lean` (next to `Gen/ReaderArms.lean` and
`Gen/Constants.lean`, see `Thm/C01.lean`). The theorems compare the generated writer table with the generated reader table,
with the JVMS tables (`Spec/Opcodes.lean`) and with the hand-written writer model, over the WHOLE tables.
Vocabulary: `Lemmas/ArmsWriterDefs.lean`, `Lemmas/ArmsDefs.lean`. -/

section GeneratedTables

open Arms JvmsTables

/-- **The arms of `write_code` are exactly the inverse of the arms of `read_code`'s second loop.** Reader and writer are
generated from the same `enum Instruction`; every opcode the reader turns into constructor `c` is one the writer's arm for
`c` writes as the instruction's own opcode, with the same operand layout (widths and pool function where both sides are
mechanical, the same switch kind, a `*load_<n>` index below the writer's limit); every constructor has an arm that writes
something, and every opcode it writes is read back as that constructor; the same for the opcodes behind the `wide` prefix,
and that prefix is the opcode of the reader's `wide` arm. -/
theorem writer_arms_inverse_reader :
    Gen.WriterArms.ctorNames = Gen.ReaderArms.ctorNames ∧
    (∀ op c, op < 256 → (rArm op).ctor? = some c → op ∈ (wArm c).plain ∧ sameLayout (rArm op) (wArm c) = true) ∧
    (∀ c, c < Gen.WriterArms.ctorNames.length → (wArm c).plain ≠ [] ∧ ∀ op ∈ (wArm c).plain, (rArm op).ctor? = some c) ∧
    (∀ w c, w < 256 → (rWideArm w).ctor? = some c → (Gen.ReaderArms.wideOpcode, w) ∈ (wArm c).prefixed) ∧
    (∀ c, c < Gen.WriterArms.ctorNames.length → ∀ pw ∈ (wArm c).prefixed,
      pw.1 = Gen.ReaderArms.wideOpcode ∧ (rWideArm pw.2).ctor? = some c) :=
  Arms.writer_arms_inverse_reader

/-- the two small tag tables of the writer are the reader's: `write_verification_type_info` writes the tag and as many
bytes as `read_verification_type_info` reads for the same variant; `PoolWrite::write` writes each `PoolEntry` variant under
the tag `PoolRead::read` reads it from, with the same payload widths -/
theorem writer_tag_arms_inverse_reader :
    Gen.WriterArms.vtypeArms = Gen.ReaderArms.vtypeArms ∧
    (Gen.WriterArms.poolArms.map fun a => (a.2.1, a.1, a.2.2.1.sum, a.2.2.2)) =
      (Gen.ReaderArms.poolArms.map fun a => (a.1, a.2.1, a.2.2.1.sum, a.2.2.2.1)) :=
  Arms.writer_tag_arms_inverse_reader

/-- **The writer's arms are the JVMS instruction set** (`jvmsWriterCheck`, per constructor): the opcode is the one whose
mnemonic (general form) is the constructor's name; operand widths add up to the JVMS operand count; `if_helper` is given
the JVMS negation as opposite opcode; `goto_helper` the `_w` form with a 32-bit offset; the local-variable families compute
exactly the `<t>load_<n>` / `<t>store_<n>` opcodes with index `n`, use the one-byte form and the JVMS `wide` prefix; `Ldc` /
`IInc` / `Ret` write only forms of their own instruction; the trampoline jump is `goto_w`. -/
theorem writer_arms_are_jvms (c : Nat) (hc : c < Gen.WriterArms.ctorNames.length) :
    jvmsWriterCheck c (Gen.WriterArms.wDense.getD c (7, 0, 0, [])) = true ∧
    mnemonic? Gen.WriterArms.trampolineOpcode = some (jstr "goto_w") :=
  Arms.writer_arms_are_jvms c hc

/-- **Whatever the hand-written writer model emits for an instruction starts the way the Rust arm for that instruction
starts** — for every instruction value in `CwDomain`, every operand, position, label table, narrow or wide attempt: there
is a constructor named like the instruction (`cwMnemonic`, up to case and underscores) whose arm in `write_code` writes
the first byte as the instruction's own opcode, or writes the first two bytes as prefix and opcode, or (conditional branch
with a wide offset) passes the first byte to `if_helper` as the opposite opcode and the jump three bytes on is
`if_helper`'s trampoline opcode. -/
theorem writer_arms_match_model (wd : Bool) (lbl : Nat → Option Nat) (p k : Nat) (ci : CodeWrite.Insn) (bytes : Bytes)
    (u : List CodeWrite.Unwritten) (hd : CwDomain ci) (h : CodeWrite.encInsn wd lbl p k ci = .ok (bytes, u)) :
    ∃ c, c < Gen.WriterArms.ctorNames.length ∧ squash (ctorName c) = squash (cwMnemonic ci) ∧
      headOk (wArm c) Gen.WriterArms.trampolineOpcode bytes = true :=
  Arms.encInsn_head wd lbl p k ci bytes u hd h

/-- on the way from the reader model's instruction type to the writer model's (`putInsn`: constants become pool indices,
labels become instruction indices) the instruction stays the same instruction and stays in the domain — so the chain
reader arm → reader model → `putInsn` → writer model → writer arm → (`writer_arms_inverse_reader`) reader arm closes -/
theorem put_insn_keeps_instruction (lab : Nat → Nat) (p p' : ClassWriteFull.Pool) (bs bs' : List ClassWriteFull.Bsm)
    (i : ClassRead.Insn) (ci : CodeWrite.Insn) (hd : RdDomain i) (h : ClassWriteFull.putInsn lab p bs i = .ok (ci, p', bs')) :
    cwMnemonic ci = insnMnemonic i ∧ CwDomain ci :=
  Arms.putInsn_name lab p p' bs bs' i ci hd h

/-- non-vacuity: `IAdd` is written as `0x60`; `ALoad` as `0x19`, `0x2a..0x2d` or behind `wide`; `IfEq` with opposite `ifne` -/
example : (wArmNamed (jstr "IAdd"), wArmNamed (jstr "ALoad"), wArmNamed (jstr "IfEq")) =
    (some (.unit 0x60), some (.local_ 4 0x15 2 0x1a 0xc4 0x19), some (.cond 0x99 0x9a)) ∧
    (WArm.local_ 4 0x15 2 0x1a 0xc4 0x19).plain = [0x19, 0x2a, 0x2b, 0x2c, 0x2d] := by decide +kernel

end GeneratedTables

end Thm.C02
