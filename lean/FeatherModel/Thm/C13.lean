import FeatherModel.Lemmas.MergeJarNoPanic

/-!
# C13 — client/server jar merge is a faithful, annotated union
Property theorems only. Model: `FeatherModel/Model/MergeJar.lean` (mirrors `dukebox/src/merge.rs`), domains and
observation functions: `FeatherModel/Model/MergeJarDom.lean`.

Reading guide. `mergeJar client server : Outcome Jar` has the outcomes `ok r`, `err` (the `Result::Err` of the Rust
function) and `panic site`. Since 9bfd462 (`merge_from_client` and the InnerClasses closure `bail!` instead of
`assert_eq!`/`panic!`) the only panic site left in merge.rs is the `unreachable!()` arm of `merge_slice`;
`merge_class_no_panic` / `merge_jar_no_panic` prove for *all* inputs that it is never taken. Every statement about the
merged jar / class is made for the outcome `ok r`; `merge_class_total` / `merge_jar_total` give the decidable domain on
which the outcome is `ok`, `merge_class_ok_iff` / `merge_class_err_iff` show that for classes with duplicate-free members
this domain is exact: outside of it the merge refuses with a clean `Err` (the `*_regression_fixed` theorems are the
inputs on which the code used to panic).
-/

deriving instance DecidableEq for MergeJar.Outcome

namespace Thm.C13
open MergeJar

/-- `r` lists every element of `a` and every element of `b`, each exactly once, and nothing else -/
def ExactUnion {α : Type} (a b r : List α) : Prop := r.Nodup ∧ ∀ x, x ∈ r ↔ x ∈ a ∨ x ∈ b

section MPO
variable {α : Type} [BEq α] [LawfulBEq α]

/-! ## merge_preserve_order -/

/-- the Boolean domain predicates evaluated by driver and harness are the Prop-level hypotheses used below -/
theorem nodupB_iff (l : List α) : nodupB l = true ↔ l.Nodup := by
  induction l with
  | nil => simp [nodupB]
  | cons x xs ih => simp [nodupB, ih]

theorem compatibleB_iff (a b : List α) :
    compatibleB a b = true ↔ a.filter (fun x => b.contains x) = b.filter (fun y => a.contains y) := by
  simp [compatibleB]

/-- the outer loop's fuel `|a|+|b|+1` is never exhausted: every larger amount gives the same list -/
theorem mpo_fuel (a b : List α) (fuel : Nat) (h : a.length + b.length < fuel) :
    mpoLoop a b fuel a b = mergePreserveOrder a b :=
  mpoLoop_fuel a b fuel _ a b h (by omega)

/-- union, exactly once: for duplicate-free lists the result is duplicate-free and has exactly the elements of both -/
theorem mpo_exactly_once (a b : List α) (ha : a.Nodup) (hb : b.Nodup) :
    (mergePreserveOrder a b).Nodup ∧ ∀ x, x ∈ mergePreserveOrder a b ↔ x ∈ a ∨ x ∈ b :=
  (mpoLoop_run a b True _ a b (Or.inl trivial)).exactly_once (Inv.init ha hb)

/-- the client's order is always preserved (no hypothesis at all, duplicates allowed) -/
theorem mpo_client_order (a b : List α) : a.Sublist (mergePreserveOrder a b) :=
  (mpoLoop_run a b True _ a b (Or.inl trivial)).client_sublist

/-- the server's order is preserved whenever the two orders are compatible -/
theorem mpo_server_order (a b : List α) (ha : a.Nodup) (hb : b.Nodup) (hc : compatibleB a b = true) :
    b.Sublist (mergePreserveOrder a b) := by
  have hrun := mpoLoop_run a b False (a.length + b.length + 1) a b (Or.inr (by omega))
  have hrun' : Run a b (Stalled a b) a b (mergePreserveOrder a b) := by
    have : (fun ra' rb' => Stalled a b ra' rb' ∨ False) = Stalled a b := by
      funext ra' rb'; simp
    rw [this] at hrun; exact hrun
  exact hrun'.server_sublist (Inv.init ha hb) ((MergeJar.compatibleB_iff a b).mp hc)

end MPO

/-- without `Compatible` the server order can be lost (inherent: no list contains both `[1,2]` and `[2,1]` once) -/
theorem mpo_server_order_witness :
    compatibleB [1, 2] [2, 1] = false ∧ ¬ [2, 1].Sublist (mergePreserveOrder [1, 2] [2, 1]) := by decide

/-- regression: the input on which the code before the fix answered `[0, 1]` (client ++ (server \ client)) -/
theorem mpo_regression_fixed : mergePreserveOrder [0] [1, 0] = [1, 0] ∧
    mergePreserveOrder [0, 1] [0, 2, 1] = [0, 2, 1] := by decide

example : compatibleB [1, 5, 2, 6] [7, 1, 3, 2, 8] = true ∧
    mergePreserveOrder [1, 5, 2, 6] [7, 1, 3, 2, 8] = [7, 1, 5, 3, 2, 6, 8] := by decide

/-! ## merge_slice on fields and on methods (`mergeMembers`; key = (name, descriptor)) -/

/-- the merged member list, read by keys, is `merge_preserve_order` of the two key lists -/
theorem slice_keys {c s r : List Member} (h : mergeMembers c s = Outcome.ok r) :
    r.map memberKey = mergePreserveOrder (c.map memberKey) (s.map memberKey) := mergeMembers_keys h

/-- every field/method of either side exactly once -/
theorem slice_exactly_once {c s r : List Member} (h : mergeMembers c s = Outcome.ok r)
    (hc : keysNodup c = true) (hs : keysNodup s = true) :
    ExactUnion (c.map memberKey) (s.map memberKey) (r.map memberKey) := by
  rw [slice_keys h]
  exact mpo_exactly_once _ _ ((nodupB_iff _).mp hc) ((nodupB_iff _).mp hs)

/-- the client's member order is preserved (always) -/
theorem slice_client_order {c s r : List Member} (h : mergeMembers c s = Outcome.ok r) :
    (c.map memberKey).Sublist (r.map memberKey) := by
  rw [slice_keys h]; exact mpo_client_order _ _

/-- the server's member order is preserved whenever the two orders are compatible -/
theorem slice_server_order {c s r : List Member} (h : mergeMembers c s = Outcome.ok r)
    (hc : keysNodup c = true) (hs : keysNodup s = true)
    (hcomp : compatibleB (c.map memberKey) (s.map memberKey) = true) :
    (s.map memberKey).Sublist (r.map memberKey) := by
  rw [slice_keys h]
  exact mpo_server_order _ _ ((nodupB_iff _).mp hc) ((nodupB_iff _).mp hs) hcomp

/-- side marks: every merged member is either a shared one — then it is the client's member, *unchanged* (no mark; the
server's copy is dropped even when it differs in access flags, code or attributes) — or the member of the one side that
has it with exactly `@Environment(EnvType.<that side>)` appended to its runtime-invisible annotations -/
theorem slice_marks {c s r : List Member} (h : mergeMembers c s = Outcome.ok r) : ∀ m ∈ r,
    (∃ mc ∈ c, (∃ ms ∈ s, memberKey ms = memberKey mc) ∧ m = mc) ∨
    (∃ mc ∈ c, (∀ ms ∈ s, memberKey ms ≠ memberKey mc) ∧ m = { mc with anns := mc.anns ++ [Ann.env Side.client] }) ∨
    (∃ ms ∈ s, (∀ mc ∈ c, memberKey mc ≠ memberKey ms) ∧ m = { ms with anns := ms.anns ++ [Ann.env Side.server] }) :=
  mergeMembers_mem h

/-- counted: on inputs that carry no `@Environment` yet, a shared member has none afterwards and a one-sided member has
exactly one, of its side -/
theorem slice_mark_count {c s r : List Member} (h : mergeMembers c s = Outcome.ok r)
    (hc : noEnv c = true) (hs : noEnv s = true) : ∀ m ∈ r,
    envMarks m = if memberKey m ∈ c.map memberKey then
                   (if memberKey m ∈ s.map memberKey then [] else [Side.client])
                 else [Side.server] := by
  intro m hm
  rcases mergeMembers_mem h m hm with ⟨mc, hmc, ⟨ms, hms, hk⟩, e⟩ | ⟨mc, hmc, hns, e⟩ | ⟨ms, hms, hnc, e⟩
  · subst e
    have h1 : memberKey m ∈ c.map memberKey := List.mem_map.mpr ⟨m, hmc, rfl⟩
    have h2 : memberKey m ∈ s.map memberKey := List.mem_map.mpr ⟨ms, hms, hk⟩
    simp only [h1, h2, if_true]
    exact envMarks_of_noEnv hc m hmc
  · subst e
    have h1 : memberKey (markMember mc Side.client) ∈ c.map memberKey := List.mem_map.mpr ⟨mc, hmc, rfl⟩
    have h2 : memberKey (markMember mc Side.client) ∉ s.map memberKey := by
      intro hx
      obtain ⟨ms, hms, hk⟩ := List.mem_map.mp hx
      exact hns ms hms hk
    rw [if_pos h1, if_neg h2, envMarks_markMember, envMarks_of_noEnv hc mc hmc]; rfl
  · subst e
    have h1 : memberKey (markMember ms Side.server) ∉ c.map memberKey := by
      intro hx
      obtain ⟨mc, hmc, hk⟩ := List.mem_map.mp hx
      exact hnc mc hmc hk
    rw [if_neg h1, envMarks_markMember, envMarks_of_noEnv hs ms hms]; rfl

example : mergeMembers
    [{ name := jstr "a", desc := jstr "I", access := 1, deprecated := false, synthetic := false, payload := 0, anns := [] },
     { name := jstr "b", desc := jstr "I", access := 1, deprecated := false, synthetic := false, payload := 0, anns := [Ann.other 3] }]
    [{ name := jstr "c", desc := jstr "J", access := 2, deprecated := false, synthetic := false, payload := 0, anns := [] },
     { name := jstr "a", desc := jstr "I", access := 9, deprecated := false, synthetic := false, payload := 7, anns := [] }] =
  Outcome.ok
    [{ name := jstr "c", desc := jstr "J", access := 2, deprecated := false, synthetic := false, payload := 0, anns := [Ann.env Side.server] },
     { name := jstr "a", desc := jstr "I", access := 1, deprecated := false, synthetic := false, payload := 0, anns := [] },
     { name := jstr "b", desc := jstr "I", access := 1, deprecated := false, synthetic := false, payload := 0, anns := [Ann.other 3, Ann.env Side.client] }] := by
  decide

/-! ## class_merger_merge -/

/-- a merged class consists of: the slice merges of fields, methods and InnerClasses entries, `merge_preserve_order` of
the interfaces, and everything else (version, access flags, name, super class, deprecated/synthetic, visible annotations,
`payload` = all remaining attributes) copied from the client; the invisible annotations of the client followed by one
`@EnvironmentInterfaces` annotation when some interface is one-sided -/
theorem class_parts {c s r : Class} (h : mergeClass c s = Outcome.ok r) :
    mergeMembers c.fields s.fields = Outcome.ok r.fields ∧ mergeMembers c.methods s.methods = Outcome.ok r.methods ∧
    mergeInners c.inners s.inners = Outcome.ok r.inners ∧
    r.interfaces = mergePreserveOrder c.interfaces s.interfaces ∧
    r.version = c.version ∧ r.access = c.access ∧ r.name = c.name ∧ r.super = c.super ∧
    r.deprecated = c.deprecated ∧ r.synthetic = c.synthetic ∧ r.payload = c.payload ∧ r.visAnns = c.visAnns ∧
    r.invisAnns = (if (itfMarks c s r.interfaces).isEmpty then c.invisAnns
                   else c.invisAnns ++ [Ann.envItfs (itfMarks c s r.interfaces)]) := mergeClass_parts h

/-- a class differing between the sides contains every field, method, interface and InnerClasses entry of either side
exactly once -/
theorem class_exactly_once {c s r : Class} (h : mergeClass c s = Outcome.ok r) (hk : keysOk c s = true)
    (hci : c.interfaces.Nodup) (hsi : s.interfaces.Nodup) :
    ExactUnion (c.fields.map memberKey) (s.fields.map memberKey) (r.fields.map memberKey) ∧
    ExactUnion (c.methods.map memberKey) (s.methods.map memberKey) (r.methods.map memberKey) ∧
    ExactUnion c.interfaces s.interfaces r.interfaces ∧
    ExactUnion (c.inners.map (·.name)) (s.inners.map (·.name)) (r.inners.map (·.name)) := by
  obtain ⟨hf, hm, hi, hitf, _⟩ := mergeClass_parts h
  unfold keysOk at hk
  simp only [Bool.and_eq_true] at hk
  obtain ⟨⟨⟨⟨⟨k1, k2⟩, k3⟩, k4⟩, k5⟩, k6⟩ := hk
  refine ⟨slice_exactly_once hf k1 k2, slice_exactly_once hm k3 k4, ?_, ?_⟩
  · rw [hitf]; exact mpo_exactly_once _ _ hci hsi
  · rw [mergeInners_names hi]
    exact mpo_exactly_once _ _ ((nodupB_iff _).mp k5) ((nodupB_iff _).mp k6)

/-- the relative order of the client's fields, methods, interfaces and InnerClasses entries is preserved (always) -/
theorem class_client_order {c s r : Class} (h : mergeClass c s = Outcome.ok r) :
    (c.fields.map memberKey).Sublist (r.fields.map memberKey) ∧
    (c.methods.map memberKey).Sublist (r.methods.map memberKey) ∧
    c.interfaces.Sublist r.interfaces ∧
    (c.inners.map (·.name)).Sublist (r.inners.map (·.name)) := by
  obtain ⟨hf, hm, hi, hitf, _⟩ := mergeClass_parts h
  refine ⟨slice_client_order hf, slice_client_order hm, ?_, ?_⟩
  · rw [hitf]; exact mpo_client_order _ _
  · rw [mergeInners_names hi]; exact mpo_client_order _ _

/-- the relative order of the server's fields / methods / interfaces / InnerClasses entries is preserved, for each of
the four lists whose two orders are compatible -/
theorem class_server_order {c s r : Class} (h : mergeClass c s = Outcome.ok r) (hk : keysOk c s = true)
    (hci : c.interfaces.Nodup) (hsi : s.interfaces.Nodup) :
    (compatibleB (c.fields.map memberKey) (s.fields.map memberKey) = true →
      (s.fields.map memberKey).Sublist (r.fields.map memberKey)) ∧
    (compatibleB (c.methods.map memberKey) (s.methods.map memberKey) = true →
      (s.methods.map memberKey).Sublist (r.methods.map memberKey)) ∧
    (compatibleB c.interfaces s.interfaces = true → s.interfaces.Sublist r.interfaces) ∧
    (compatibleB (c.inners.map (·.name)) (s.inners.map (·.name)) = true →
      (s.inners.map (·.name)).Sublist (r.inners.map (·.name))) := by
  obtain ⟨hf, hm, hi, hitf, _⟩ := mergeClass_parts h
  unfold keysOk at hk
  simp only [Bool.and_eq_true] at hk
  obtain ⟨⟨⟨⟨⟨k1, k2⟩, k3⟩, k4⟩, k5⟩, k6⟩ := hk
  refine ⟨slice_server_order hf k1 k2, slice_server_order hm k3 k4, ?_, ?_⟩
  · intro hc; rw [hitf]; exact mpo_server_order _ _ hci hsi hc
  · intro hc; rw [mergeInners_names hi]
    exact mpo_server_order _ _ ((nodupB_iff _).mp k5) ((nodupB_iff _).mp k6) hc

/-- interface marks: the merged class keeps the client's invisible annotations and gets one additional
`@EnvironmentInterfaces({…})` iff some interface is one-sided; its elements are exactly the one-sided interfaces, each
once, each with its side (client ones first); shared interfaces are not mentioned -/
theorem itf_marks {c s r : Class} (h : mergeClass c s = Outcome.ok r) :
    r.invisAnns = (if (itfMarks c s r.interfaces).isEmpty then c.invisAnns
                   else c.invisAnns ++ [Ann.envItfs (itfMarks c s r.interfaces)]) ∧
    (∀ sd i, (sd, i) ∈ itfMarks c s r.interfaces ↔ i ∈ r.interfaces ∧
      (match sd with
       | Side.client => i ∈ c.interfaces ∧ i ∉ s.interfaces
       | Side.server => i ∉ c.interfaces ∧ i ∈ s.interfaces)) ∧
    (c.interfaces.Nodup → s.interfaces.Nodup → (itfMarks c s r.interfaces).Nodup) := by
  obtain ⟨_, _, _, hitf, _, _, _, _, _, _, _, _, hinv⟩ := mergeClass_parts h
  refine ⟨hinv, fun sd i => mem_itfMarks c s r.interfaces sd i, ?_⟩
  intro hci hsi
  apply itfMarks_nodup
  rw [hitf]
  exact (mpo_exactly_once _ _ hci hsi).1

/-- InnerClasses entries are copied as they are (the code attaches no mark to a one-sided entry) -/
theorem class_inners {c s r : Class} (h : mergeClass c s = Outcome.ok r) : ∀ i ∈ r.inners, i ∈ c.inners ∨ i ∈ s.inners :=
  mergeInners_mem (mergeClass_parts h).2.2.1

/-- the domain of the class merge: same version, access flags, name, super class, deprecated/synthetic; shared members
agree on deprecated/synthetic; shared InnerClasses entries are equal; keys duplicate-free. There the merge returns `Ok` -/
theorem merge_class_total {c s : Class} (h : mergeOk c s = true) : ∃ r, mergeClass c s = Outcome.ok r :=
  mergeClass_total h

/-- … and for classes with duplicate-free member lists that domain is exactly where the merge returns `Ok` -/
theorem merge_class_ok_iff {c s : Class} (hk : keysOk c s = true) :
    (∃ r, mergeClass c s = Outcome.ok r) ↔ mergeOk c s = true := mergeClass_ok_iff hk

/-- no panic, for every pair of classes (full strength, no hypothesis): the outcome is `Ok` or a clean `Err` -/
theorem merge_class_no_panic (c s : Class) : ∀ site, mergeClass c s ≠ Outcome.panic site := noPanic_mergeClass c s

/-- so outside the domain the merge refuses cleanly: `Err` exactly when not `mergeOk` -/
theorem merge_class_err_iff {c s : Class} (hk : keysOk c s = true) :
    mergeClass c s = Outcome.err ↔ mergeOk c s = false := by
  have hok := mergeClass_ok_iff hk
  constructor
  · intro he
    cases hm : mergeOk c s with
    | false => rfl
    | true =>
      obtain ⟨r, hr⟩ := hok.mpr hm
      rw [he] at hr; cases hr
  · intro hm
    cases ok_or_err_of_noPanic (noPanic_mergeClass c s) with
    | inl h => exact h
    | inr h =>
      have := hok.mp h
      rw [hm] at this; cases this

/-- a small class used by the witnesses -/
def wClass : Class :=
  { version := 52, access := 0x21, name := jstr "net/minecraft/A", super := some (jstr "java/lang/Object"),
    interfaces := [], fields := [], methods := [], deprecated := false, synthetic := false, inners := [], payload := 0,
    visAnns := [], invisAnns := [] }

def wField (dep : Bool) : Member :=
  { name := jstr "f", desc := jstr "I", access := 1, deprecated := dep, synthetic := false, payload := 0, anns := [] }

/-- regression (fixed by 9bfd462, used to panic in `merge_from_client`): the same class, `public` on the client and
`public final` on the server, is refused with `Err` -/
theorem merge_class_access_regression_fixed :
    mergeClass wClass { wClass with access := 0x31 } = Outcome.err := by decide

/-- … compiled for different class-file versions on the two sides -/
theorem merge_class_version_regression_fixed :
    mergeClass wClass { wClass with version := 61 } = Outcome.err := by decide

/-- … a shared field `@Deprecated` on one side only -/
theorem merge_class_member_regression_fixed :
    mergeClass { wClass with fields := [wField false] } { wClass with fields := [wField true] } =
      Outcome.err := by decide

/-- … an InnerClasses entry for the same inner class with different flags (used to panic in the `inner` closure) -/
theorem merge_class_inner_regression_fixed :
    mergeClass { wClass with inners := [{ name := jstr "net/minecraft/A$B", flags := 8 }] }
               { wClass with inners := [{ name := jstr "net/minecraft/A$B", flags := 9 }] } =
      Outcome.err := by decide

/-- a different super class is (and always was) a clean error -/
theorem merge_class_super_err_witness :
    mergeClass wClass { wClass with super := some (jstr "net/minecraft/B") } = Outcome.err := by decide

example : mergeOk { wClass with interfaces := [jstr "I", jstr "J"], fields := [wField false] }
                  { wClass with interfaces := [jstr "K", jstr "J"], payload := 3 } = true ∧
    (mergeClass { wClass with interfaces := [jstr "I", jstr "J"], fields := [wField false] }
                { wClass with interfaces := [jstr "K", jstr "J"], payload := 3 } =
      Outcome.ok { wClass with
        interfaces := [jstr "I", jstr "K", jstr "J"],
        fields := [{ wField false with anns := [Ann.env Side.client] }],
        invisAnns := [Ann.envItfs [(Side.client, jstr "I"), (Side.server, jstr "K")]] }) := by decide

/-! ## the entry table of `merge` -/

/-- every entry name of either jar exactly once, minus signature files and bundled server libraries: the names of the
merged jar are the client's names in order followed by the server-only names in order, with the names not `kept` removed
(`kept`: not `META-INF/….SF|.RSA`; not a `.class` name outside `net/minecraft/` with a `/` in it that only the server has) -/
theorem entries_exactly_once {client server r : Jar} (h : mergeJar client server = Outcome.ok r) :
    names r = (names client ++ (names server).filter (fun n => !(names client).contains n)).filter (kept client) :=
  mergeJar_names h

/-- the same as a set statement: no name twice; a name is in the merged jar iff it is in one of the jars and `kept` -/
theorem entries_nodup_mem {client server r : Jar} (hc : (names client).Nodup) (hs : (names server).Nodup)
    (h : mergeJar client server = Outcome.ok r) :
    (names r).Nodup ∧ ∀ n, n ∈ names r ↔ (n ∈ names client ∨ n ∈ names server) ∧ kept client n = true := by
  rw [entries_exactly_once h]
  constructor
  · have hnd : (names client ++ (names server).filter (fun n => !(names client).contains n)).Nodup := by
      rw [List.nodup_append]
      refine ⟨hc, hs.filter _, ?_⟩
      intro a ha b hb hab
      subst hab
      simp only [List.mem_filter, Bool.not_eq_eq_eq_not, Bool.not_true, List.contains_eq_mem, decide_eq_false_iff_not] at hb
      exact hb.2 ha
    exact hnd.filter _
  · intro n
    simp only [List.mem_filter, List.mem_append, Bool.not_eq_eq_eq_not, Bool.not_true, List.contains_eq_mem,
      decide_eq_false_iff_not]
    constructor
    · intro ⟨h1, h2⟩
      refine ⟨?_, h2⟩
      cases h1 with
      | inl h1 => exact Or.inl h1
      | inr h1 => exact Or.inr h1.1
    · intro ⟨h1, h2⟩
      refine ⟨?_, h2⟩
      by_cases hin : n ∈ names client
      · exact Or.inl hin
      · cases h1 with
        | inl h1 => exact Or.inl h1
        | inr h1 => exact Or.inr ⟨h1, hin⟩

/-- what `kept` says, spelled out -/
theorem kept_iff (client : Jar) (n : JStr) :
    kept client n = true ↔ isSig n = false ∧ ¬ (isBundled n = true ∧ n ∉ names client) := by
  unfold kept
  by_cases h1 : isSig n = true <;> by_cases h2 : isBundled n = true <;> by_cases h3 : n ∈ names client <;>
    simp [h1, h2, h3]

/-- nothing else: every entry of the merged jar is the value of one row of the table (`mergeEntry`) for a name of one
of the two jars -/
theorem entry_origin {client server r : Jar} (h : mergeJar client server = Outcome.ok r) {n : JStr} {e : Entry}
    (hm : (n, e) ∈ r) : ∃ cmb, (n, cmb) ∈ combine client server ∧ mergeEntry n cmb = Outcome.ok (some e) :=
  mergeJar_src h hm

/-- with duplicate-free names an entry of the result is determined by its name (so each row theorem below fixes it) -/
theorem entry_unique {r : Jar} (h : (names r).Nodup) {n : JStr} {e e' : Entry}
    (h1 : (n, e) ∈ r) (h2 : (n, e') ∈ r) : e = e' := entry_unique_of_nodup h h1 h2

/-- row "client only": the entry is taken from the client through `oneSided` -/
theorem entry_client_only {client server r : Jar} (h : mergeJar client server = Outcome.ok r) {n : JStr} {e : Entry}
    (hm : (n, e) ∈ client) (hns : n ∉ names server) (h1 : n ≠ MANIFEST) (h2 : isSig n = false) :
    (n, oneSided e Side.client) ∈ r :=
  mergeJar_row h (combine_client_only hm ((get_none_iff n server).mpr hns)) (mergeEntry_client_row h1 h2)

/-- row "server only": likewise, unless the name is a bundled library -/
theorem entry_server_only {client server r : Jar} (h : mergeJar client server = Outcome.ok r) {n : JStr} {e : Entry}
    (hm : (n, e) ∈ server) (hnc : n ∉ names client) (h1 : n ≠ MANIFEST) (h2 : isSig n = false)
    (h3 : isBundled n = false) : (n, oneSided e Side.server) ∈ r :=
  mergeJar_row h (combine_server_only hm ((get_none_iff n client).mpr hnc)) (mergeEntry_server_row h1 h2 h3)

/-- a one-sided class is parsed and marked with `@Environment(EnvType.<side>)`, appended to its runtime-*visible*
annotations (members get it as an invisible one); nothing else changes. One-sided resources and directories are
passed through unchanged -/
theorem one_sided_marks (a : Nat) (rp : ClsRepr) (c : Class) (d : Bytes) (sd : Side) :
    oneSided { attr := a, content := Content.cls rp c } sd =
      { attr := a, content := Content.cls ClsRepr.parsed { c with visAnns := c.visAnns ++ [Ann.env sd] } } ∧
    oneSided { attr := a, content := Content.other d } sd = { attr := a, content := Content.other d } ∧
    oneSided { attr := a, content := Content.dir } sd = { attr := a, content := Content.dir } :=
  ⟨rfl, rfl, rfl⟩

/-- row "both, identical class": the client's entry itself is in the result — same attributes, same representation
(`ClassRepr::Vec` bytes are not parsed or re-written), same class -/
theorem entry_identical_class {client server r : Jar} (h : mergeJar client server = Outcome.ok r)
    (hs : (names server).Nodup) {n : JStr} {ac as' : Nat} {rc rs : ClsRepr} {cc : Class}
    (hmc : (n, { attr := ac, content := Content.cls rc cc }) ∈ client)
    (hms : (n, { attr := as', content := Content.cls rs cc }) ∈ server) (h1 : n ≠ MANIFEST) (h2 : isSig n = false) :
    (n, { attr := ac, content := Content.cls rc cc }) ∈ r := by
  apply mergeJar_row h (combine_both hmc (get_of_mem_nodup hms hs))
  rw [mergeEntry_both_cls_row h1 h2 rfl rfl]
  simp [mergeClassEntry]

/-- row "both, differing classes": the result holds the class merge (first part of this file), parsed, with the
client's attributes -/
theorem entry_differing_class {client server r : Jar} (h : mergeJar client server = Outcome.ok r)
    (hs : (names server).Nodup) {n : JStr} {ac as' : Nat} {rc rs : ClsRepr} {cc cs : Class}
    (hmc : (n, { attr := ac, content := Content.cls rc cc }) ∈ client)
    (hms : (n, { attr := as', content := Content.cls rs cs }) ∈ server) (h1 : n ≠ MANIFEST) (h2 : isSig n = false)
    (hne : cc ≠ cs) :
    ∃ m, mergeClass cc cs = Outcome.ok m ∧ (n, { attr := ac, content := Content.cls ClsRepr.parsed m }) ∈ r := by
  have hcmb := combine_both hmc (get_of_mem_nodup hms hs)
  unfold mergeJar at h
  obtain ⟨o, ho, hin⟩ := mergeEntries_mem h n _ hcmb
  rw [mergeEntry_both_cls_row h1 h2 rfl rfl] at ho
  have hne' : (cc == cs) = false := by simpa using hne
  simp only [mergeClassEntry, hne', Bool.false_eq_true, if_false] at ho
  cases hmrg : mergeClass cc cs with
  | ok m =>
    rw [hmrg] at ho
    simp only [ok_bind, pure_eq_ok, Outcome.ok.injEq] at ho
    exact ⟨m, rfl, hin _ ho.symm⟩
  | err => rw [hmrg] at ho; simp at ho
  | panic site => rw [hmrg] at ho; simp at ho

/-- row "both, resource": the client's bytes and attributes win *whatever the server's bytes are* — when the two differ
the code only prints a warning; the server's version is dropped -/
theorem entry_resource_both {client server r : Jar} (h : mergeJar client server = Outcome.ok r)
    (hs : (names server).Nodup) {n : JStr} {ac as' : Nat} {dc ds : Bytes}
    (hmc : (n, { attr := ac, content := Content.other dc }) ∈ client)
    (hms : (n, { attr := as', content := Content.other ds }) ∈ server) (h1 : n ≠ MANIFEST) (h2 : isSig n = false) :
    (n, { attr := ac, content := Content.other dc }) ∈ r :=
  mergeJar_row h (combine_both hmc (get_of_mem_nodup hms hs)) (mergeEntry_both_other_row h1 h2 rfl rfl)

/-- row "both, directory" -/
theorem entry_dir_both {client server r : Jar} (h : mergeJar client server = Outcome.ok r)
    (hs : (names server).Nodup) {n : JStr} {ac as' : Nat}
    (hmc : (n, { attr := ac, content := Content.dir }) ∈ client)
    (hms : (n, { attr := as', content := Content.dir }) ∈ server) (h1 : n ≠ MANIFEST) (h2 : isSig n = false) :
    (n, { attr := ac, content := Content.dir }) ∈ r :=
  mergeJar_row h (combine_both hmc (get_of_mem_nodup hms hs)) (mergeEntry_both_dir_row h1 h2 rfl rfl)

/-- row "manifest": whatever the jars hold under `META-INF/MANIFEST.MF` (any kind, equal or not) is replaced by the fixed
two-line manifest; attributes from the client's entry when it has one … -/
theorem entry_manifest_client {client server r : Jar} (h : mergeJar client server = Outcome.ok r) {e : Entry}
    (hm : (MANIFEST, e) ∈ client) : (MANIFEST, { attr := e.attr, content := Content.other MANIFEST_BYTES }) ∈ r := by
  cases hg : get MANIFEST server with
  | none => exact mergeJar_row h (combine_client_only hm hg) (mergeEntry_manifest_row _)
  | some es => exact mergeJar_row h (combine_both hm hg) (mergeEntry_manifest_row _)

/-- … else from the server's -/
theorem entry_manifest_server {client server r : Jar} (h : mergeJar client server = Outcome.ok r) {e : Entry}
    (hm : (MANIFEST, e) ∈ server) (hnc : MANIFEST ∉ names client) :
    (MANIFEST, { attr := e.attr, content := Content.other MANIFEST_BYTES }) ∈ r :=
  mergeJar_row h (combine_server_only hm ((get_none_iff MANIFEST client).mpr hnc)) (mergeEntry_manifest_row _)

/-- the domain of the jar merge (`jarDomain`: for every name both jars have, other than the manifest and signature
files, the kinds agree and two differing classes satisfy `mergeOk`): there `merge` returns `Ok` -/
theorem merge_jar_total {client server : Jar} (h : jarDomain client server = true) :
    ∃ r, mergeJar client server = Outcome.ok r := mergeJar_total h

/-- no panic, for every pair of jars (full strength, no hypothesis) -/
theorem merge_jar_no_panic (client server : Jar) : ∀ site, mergeJar client server ≠ Outcome.panic site :=
  noPanic_mergeJar client server

def wEntry (c : Class) : Entry := { attr := 0, content := Content.cls ClsRepr.parsed c }

/-- regression (fixed by 9bfd462, used to panic): two ordinary jars, one class `public` in one and `public final` in the
other: `merge` returns `Err` -/
theorem merge_jar_regression_fixed :
    mergeJar [(jstr "net/minecraft/A.class", wEntry wClass)]
             [(jstr "net/minecraft/A.class", wEntry { wClass with access := 0x31 })] = Outcome.err ∧
    jarDomain [(jstr "net/minecraft/A.class", wEntry wClass)]
              [(jstr "net/minecraft/A.class", wEntry { wClass with access := 0x31 })] = false := by decide

/-- kinds that do not match are a clean error -/
theorem merge_jar_kind_mismatch_witness :
    mergeJar [(jstr "a", { attr := 0, content := Content.dir })] [(jstr "a", { attr := 0, content := Content.other [1] })] =
      Outcome.err := by decide

/-- the signature-file rule: `META-INF/*.SF` and the signature block files `.RSA`, `.DSA`, `.EC` (the last two since 6bf1276;
before, `.DSA` / `.EC` blocks were kept without their `.SF` file); only below `META-INF/` -/
theorem sig_rule : isSig (jstr "META-INF/MOJANG.SF") = true ∧ isSig (jstr "META-INF/MOJANG.RSA") = true ∧
    isSig (jstr "META-INF/MOJANG.DSA") = true ∧ isSig (jstr "META-INF/MOJANG.EC") = true ∧
    isSig (jstr "other/X.SF") = false := by decide

example : jarDomain
      [(jstr "net/minecraft/A.class", wEntry wClass), (jstr "META-INF/X.SF", { attr := 1, content := Content.other [1] }),
       (jstr "assets/a", { attr := 2, content := Content.other [1, 2] })]
      [(jstr "com/lib/L.class", wEntry wClass), (jstr "assets/a", { attr := 3, content := Content.other [9] }),
       (jstr "net/minecraft/A.class", wEntry { wClass with payload := 1 }), (jstr "S.class", wEntry wClass)] = true ∧
    mergeJar
      [(jstr "net/minecraft/A.class", wEntry wClass), (jstr "META-INF/X.SF", { attr := 1, content := Content.other [1] }),
       (jstr "assets/a", { attr := 2, content := Content.other [1, 2] })]
      [(jstr "com/lib/L.class", wEntry wClass), (jstr "assets/a", { attr := 3, content := Content.other [9] }),
       (jstr "net/minecraft/A.class", wEntry { wClass with payload := 1 }), (jstr "S.class", wEntry wClass)] =
    Outcome.ok
      [(jstr "net/minecraft/A.class", wEntry wClass), (jstr "assets/a", { attr := 2, content := Content.other [1, 2] }),
       (jstr "S.class", wEntry { wClass with visAnns := [Ann.env Side.server] })] := by decide

end Thm.C13
