import FeatherModel.Lemmas.MergeJarMpo

/-!
# C13 — client/server jar merge is a faithful, annotated union
Property theorems only. Model: `FeatherModel/Model/MergeJar.lean` (mirrors `dukebox/src/merge.rs`).
-/

namespace Thm.C13
open MergeJar

section MPO
variable {α : Type} [BEq α] [LawfulBEq α]

/-! ## merge_preserve_order -/

/-- the Boolean domain predicates evaluated by driver and harness are the Prop-level hypotheses used below -/
theorem nodupB_iff (l : List α) : nodupB l = true ↔ l.Nodup := by
  induction l with
  | nil => simp [nodupB]
  | cons x xs ih => simp [nodupB, ih]

theorem compatibleB_iff (a b : List α) :
    compatibleB a b = true ↔ a.filter (fun x => b.contains x) = b.filter (fun y => a.contains y) := by
  simp [compatibleB]

/-- the outer loop's fuel `|a|+|b|+1` is never exhausted: every larger amount gives the same list -/
theorem mpo_fuel (a b : List α) (fuel : Nat) (h : a.length + b.length < fuel) :
    mpoLoop a b fuel a b = mergePreserveOrder a b :=
  mpoLoop_fuel a b fuel _ a b h (by omega)

/-- union, exactly once: for duplicate-free lists the result is duplicate-free and has exactly the elements of both -/
theorem mpo_exactly_once (a b : List α) (ha : a.Nodup) (hb : b.Nodup) :
    (mergePreserveOrder a b).Nodup ∧ ∀ x, x ∈ mergePreserveOrder a b ↔ x ∈ a ∨ x ∈ b :=
  (mpoLoop_run a b True _ a b (Or.inl trivial)).exactly_once (Inv.init ha hb)

/-- the client's order is always preserved (no hypothesis at all, duplicates allowed) -/
theorem mpo_client_order (a b : List α) : a.Sublist (mergePreserveOrder a b) :=
  (mpoLoop_run a b True _ a b (Or.inl trivial)).client_sublist

/-- the server's order is preserved whenever the two orders are compatible -/
theorem mpo_server_order (a b : List α) (ha : a.Nodup) (hb : b.Nodup) (hc : compatibleB a b = true) :
    b.Sublist (mergePreserveOrder a b) := by
  have hrun := mpoLoop_run a b False (a.length + b.length + 1) a b (Or.inr (by omega))
  have hrun' : Run a b (Stalled a b) a b (mergePreserveOrder a b) := by
    have : (fun ra' rb' => Stalled a b ra' rb' ∨ False) = Stalled a b := by
      funext ra' rb'; simp
    rw [this] at hrun; exact hrun
  exact hrun'.server_sublist (Inv.init ha hb) ((MergeJar.compatibleB_iff a b).mp hc)

end MPO

/-- without `Compatible` the server order can be lost (inherent: no list contains both `[1,2]` and `[2,1]` once) -/
theorem mpo_server_order_witness :
    compatibleB [1, 2] [2, 1] = false ∧ ¬ [2, 1].Sublist (mergePreserveOrder [1, 2] [2, 1]) := by decide

/-- regression: the input on which the code before the fix answered `[0, 1]` (client ++ (server \ client)) -/
theorem mpo_regression_fixed : mergePreserveOrder [0] [1, 0] = [1, 0] ∧
    mergePreserveOrder [0, 1] [0, 2, 1] = [0, 2, 1] := by decide

example : compatibleB [1, 5, 2, 6] [7, 1, 3, 2, 8] = true ∧
    mergePreserveOrder [1, 5, 2, 6] [7, 1, 3, 2, 8] = [7, 1, 5, 3, 2, 6, 8] := by decide

end Thm.C13
