import FeatherModel.Lemmas.ClassReadFinal

/-!
# C01 — the class reader delivers every fact of a valid class file accurately

Model: `FeatherModel/Model/ClassRead*.lean`, `Mutf8.lean` (hand-written mirror of `duke/src/class_reader.rs`,
`class_reader/pool.rs`, `class_reader/labels.rs`, `jstring.rs` + `java_string::from_modified_utf8`, tied to the Rust
code by the correspondence run of `harness/src/bin/c01.rs`).
Specification: `FeatherModel/Spec/ClassEncode.lean` — the JVMS encoding as a function of the facts **and** of the free
encoding choices (instruction forms, pool indices, switch padding, attribute order and splitting).

All theorems are for **all** layouts (no size bound); hypotheses are the explicit legality predicates of the
specification.
-/

namespace Thm.C01

open ClassRead ClassRead.Spec ClassRead.Outcome

/-! ## label table (`labels.rs`) -/

/-- Handing out a label never disturbs the table: the table stays well-formed (one slot per offset, ids below the
counter, **no id shared by two offsets**), every label handed out earlier keeps its id, the requested offset is
labelled afterwards, and at most one new id is consumed. -/
theorem labels_sound (l : Labels) (hwf : l.WF) (pc : Nat) (hpc : pc ≤ l.codeLength) (hcnt : l.count < 65535) :
    ∃ id l', l.addUnchecked pc = ok (id, l') ∧ l'.WF ∧ Labels.Le l l' ∧ l'.get pc = some id ∧ l'.count ≤ l.count + 1 :=
  Labels.addUnchecked_spec hwf hpc hcnt

/-- two offsets get the same label iff they are equal -/
theorem labels_injective (l : Labels) (hwf : l.WF) (p q id : Nat) (hp : l.get p = some id) (hq : l.get q = some id) : p = q :=
  hwf.inj p q id hp hq

/-- the bounds checks of `labels.rs`: an ordinary label must lie inside the code, an exclusive end may equal
`code_length` (the `end_pc == code_length` repair) -/
theorem labels_bounds (l : Labels) (pc : Nat) :
    (pc ≥ l.codeLength → l.getOrCreate pc = err) ∧ (pc > l.codeLength → l.getOrCreateExcl pc = err) := by
  constructor
  · intro h; simp [Labels.getOrCreate, h]
  · intro h; simp [Labels.getOrCreateExcl, h]

/-! ## instructions -/

/-- `insn_decode_encode`: for every instruction, every admissible form (`xload_n`/`xload`/`wide xload`, `ldc`/`ldc_w`/
`ldc2_w`, `goto`/`goto_w`, `jsr`/`jsr_w`, `iinc`/`wide iinc`, `ret`/`wide ret`), every pool index resolving to its
operand and every offset `a` (hence all four switch paddings, with arbitrary padding bytes): the second pass of the
reader decodes the encoding to the instruction — branch targets become the labels of the target offsets — and
consumes exactly its bytes. -/
theorem insn_decode_encode (p : Pool) (bsms : Option (List Bsm)) (l : Labels) (n : Nat) (pos : Nat → Nat) (a : Nat)
    (si : SInsn) (hleg : si.Legal p bsms n pos a) (ha : a ≤ 65535) (hpos : ∀ t, t < n → pos t ≤ 65535)
    (hl : TargetsLabelled l pos si.insn) (r : Bytes) :
    decodeInsn p bsms l (a, si.encode pos a ++ r) = ok (mapT (labOf l pos) si.insn, (a + si.size a, r)) :=
  decodeInsn_encode p bsms l n pos a si hleg ha hpos hl r

/-- the first pass creates exactly the labels of the branch / switch targets of an instruction, in order, and skips
exactly its bytes (so both passes tile the code array identically) -/
theorem insn_first_pass (p : Pool) (bsms : Option (List Bsm)) (l : Labels) (n : Nat) (pos : Nat → Nat) (a : Nat)
    (si : SInsn) (hleg : si.Legal p bsms n pos a) (ha : a ≤ 65535) (hpos : ∀ t, t < n → pos t ≤ 65535) (r : Bytes) :
    pass1Step l (a, si.encode pos a ++ r)
      = (do let l' ← createAll l ((targetsOf si.insn).map pos); pure (l', (a + si.size a, r))) :=
  pass1Step_encode p bsms l n pos a si hleg ha hpos r

/-- the encoded size used for the layout is the length of the encoding -/
theorem insn_size_exact (pos : Nat → Nat) (a : Nat) (si : SInsn) : (si.encode pos a).length = si.size a :=
  SInsn.encode_length pos a si

/-! ## the `Code` attribute -/

/-- `code_read_encode_partial`: reading any legal encoding of a method body (`Spec.CodeLayout.encode`: any instruction
forms, any pool indices, switches at any alignment, exception table incl. `end_pc = code_length`, any number and order
of `LineNumberTable` / `LocalVariableTable` / `LocalVariableTypeTable` / `RuntimeVisibleTypeAnnotations` /
`RuntimeInvisibleTypeAnnotations` / unknown attributes, a `StackMapTable` with every frame kind in compact or extended
form) succeeds, consumes exactly the attribute body, and — once the opaque
label ids are read back as the positions of the instructions that carry them (`Code.resolve`) — delivers **exactly**
the facts of the layout: same instructions, every branch target, switch target, exception range and handler, line
entry, local-variable range, `Uninitialized` verification type and type-annotation target (`localvar_target` ranges,
`offset_target`, `type_argument_target`) pointing at the instruction it was encoded for;
every stack-map frame attached to the instruction its accumulated `offset_delta` designates; line and local tables
merged in file order, type annotations concatenated per visibility in file order; unknown attributes byte for byte;
nothing else.

Partial: the attribute `StackMap` (CLDC) of `Code` is outside the proved fragment (it is modelled and covered by the
correspondence run only).
`hleg.refs` (fewer than 65535 label references) is the domain in which the reader's `u16` label counter cannot
overflow. -/
theorem code_read_encode_partial (p : Pool) (bsms : Option (List Bsm)) (c : CodeLayout) (hleg : c.Legal p bsms) (r : Bytes) :
    ∃ raw, readCode p bsms (c.encode ++ r) = ok (raw, r) ∧ raw.resolve = some c.facts :=
  readCode_resolve p bsms c hleg r

/-- the reader's own (label-id) output is determined by the layout and a well-formed final label table in which
every referenced offset is labelled -/
theorem code_read_raw (p : Pool) (bsms : Option (List Bsm)) (c : CodeLayout) (hleg : c.Legal p bsms) (r : Bytes) :
    ∃ lf, lf.WF ∧ lf.codeLength = c.pos c.insns.length ∧ (∀ pc ∈ c.refOffsets, (lf.get pc).isSome = true) ∧
      readCode p bsms (c.encode ++ r) = ok (c.raw lf, r) :=
  readCode_encode p bsms c hleg r

/-- non-vacuity of `code_read_encode_partial`: `goto L1; L1: return` with a handler range reaching the end of the code
(`end_pc = code_length`), an unknown attribute, a `StackMapTable` whose frame mentions an uninitialized object and a
`RuntimeVisibleTypeAnnotations` with a local-variable range and an offset target is a legal layout -/
def exampleCode : CodeLayout :=
  { maxStack := 1, maxLocals := 0,
    insns := [⟨.goto 1, .plain, 0, 0⟩, ⟨.simple 0xb1, .plain, 0, 0⟩],
    exceptions := [⟨0, 2, 1, 0, none⟩],
    attrs := [.unknown 1 [70, 111, 111] [1, 2], .frames 2 [⟨1, false, .same1 (.uninit 0)⟩],
      .typeAnnos 3 true [⟨.localVar 0x40 [(0, 2, 0)], [], .mk 4 [76, 65, 59] []⟩, ⟨.offset 0x44 1, [(3, 1)], .mk 4 [76, 65, 59] []⟩]] }

def examplePool : Pool := poolTable [.utf8 [70, 111, 111], .utf8 sStackMapTable, .utf8 sRVTA, .utf8 [76, 65, 59]]

example : exampleCode.Legal examplePool none := by
  refine ⟨⟨by decide, by decide, ?_⟩, by decide, by decide, by decide, ?_, by decide, ?_, by decide, by decide⟩
  · intro i hi
    match i, hi with
    | 0, _ => exact ⟨by decide, by unfold inI16 relOff; decide⟩
    | 1, _ => exact (by decide : isSimpleOp 0xb1 = true)
  · intro e he
    simp only [exampleCode, List.mem_singleton] at he
    subst he
    exact ⟨by decide, by decide, by decide, by decide, rfl⟩
  · intro a ha
    simp only [exampleCode, List.mem_cons, List.not_mem_nil, or_false] at ha
    rcases ha with rfl | rfl | rfl
    · exact ⟨by decide, rfl, by decide, by decide⟩
    · exact ⟨by decide, rfl, by decide, ⟨by decide, trivial, (by decide : (0 : Nat) < 2), fun _ => by decide, trivial⟩, by decide⟩
    · refine ⟨by decide, rfl, by decide, ?_, by decide⟩
      intro a ha
      simp only [List.mem_cons, List.not_mem_nil, or_false] at ha
      rcases ha with rfl | rfl
      · exact ⟨⟨Or.inl rfl, by decide, by simp [exampleCode]⟩, ⟨by decide, by simp⟩, ⟨by decide, rfl, by decide, trivial⟩, by decide⟩
      · exact ⟨⟨by decide, by decide, by decide⟩, ⟨by decide, by simp⟩, ⟨by decide, rfl, by decide, trivial⟩, by decide⟩

/-! ## modified UTF-8 (`jstring.rs`, `java_string`) -/

/-- `mutf8_decode_encode`: `from_modified_utf8` reads the JVMS §4.4.7 encoding of every string of Unicode code
points / unpaired surrogates back (a high surrogate directly followed by a low surrogate is excluded: that *is* the
encoding of a supplementary code point) -/
theorem mutf8_decode_encode (s : JStr) (hs : Mutf8.Encodable s = true) : Mutf8.decode (Mutf8.encode s) = some s :=
  Mutf8.decode_encode s hs

example : Mutf8.Encodable [0, 0x41, 0x7ff, 0xd800, 0x41, 0xdc00, 0x10ffff] = true := by decide

/-- the decoder is more lenient than JVMS §4.4.7 (it first tries plain UTF-8): a raw NUL byte and a four-byte form are
accepted.  Such strings re-encode differently, so byte-exactness is not claimed for duke (only facts). -/
theorem mutf8_lenient_witness :
    Mutf8.decode [0] = some [0] ∧ Mutf8.decode [0xf0, 0x90, 0x80, 0x80] = some [0x10000] ∧
      Mutf8.decode (Mutf8.encode [0]) = some [0] ∧ Mutf8.encode [0] ≠ [0] := by decide

/-- a high surrogate followed by a low surrogate cannot be read back as two code points -/
theorem mutf8_split_pair_witness : Mutf8.decode (Mutf8.encode [0xd800, 0xdc00]) = some [0x10000] := by decide

/-! ## annotations -/

/-- `annotation_read_encode`: an annotation with element values of every kind (`B C D F I J S Z s e c @ [`), nested up
to the reader's limit of 255 levels (`a.Ok p` = `a.Legal p ∧ a.nest ≤ 255`, a decidable bound), any pool indices
resolving to its constants, is read back as exactly its description; the recursion fuel the model needs
(`2 * bytes + 2`) always suffices -/
theorem annotation_read_encode (p : Pool) (a : SAnno) (ha : a.Ok p) (r : Bytes) :
    readAnnotation p (a.encode ++ r) = ok (a.fact, r) :=
  readAnnotation_enc p a ha r

example : (SAnno.mk 1 [76, 65, 59] [.mk 2 [118] (.arr [.str 2 [118], .anno (.mk 1 [76, 65, 59] [])])]).Ok
    (poolTable [.utf8 [76, 65, 59], .utf8 [118]]) := by
  refine ⟨?_, by decide⟩
  simp [SAnno.Legal, pairsLegal, SPair.Legal, SElem.Legal, elemsLegal]
  exact ⟨rfl, rfl, rfl⟩

/-- `k` nested arrays around a string -/
def deepElem : Nat → SElem
  | 0 => .str 2 [118]
  | k + 1 => .arr [deepElem k]

theorem deepElem_nest (k : Nat) : (deepElem k).nest = k := by
  induction k with
  | zero => rfl
  | succ k ih => simp [deepElem, SElem.nest, elemsNest, ih]

theorem deepElem_legal (k : Nat) : (deepElem k).Legal (poolTable [.utf8 [76, 65, 59], .utf8 [118]]) := by
  induction k with
  | zero => exact ⟨by decide, rfl⟩
  | succ k ih => exact ⟨by simp, ih, trivial⟩

/-- `annotation_depth_limit_witness` (deliberate limit of the reader since 835fdd2, `MAX_ELEMENT_VALUE_DEPTH = 255`): every
JVMS-legal annotation whose element values nest deeper than 255 levels is **rejected** (`err`), so the bound in
`annotation_read_encode` is exact; e.g. `@A(v = [[…["v"]…]])` with 256 brackets is legal, nests 256 levels and is not
read, with 255 brackets it is -/
theorem annotation_depth_limit_witness :
    (∀ (p : Pool) (a : SAnno), a.Legal p → 255 < a.nest → ∀ r, readAnnotation p (a.encode ++ r) = err) ∧
    (SAnno.mk 1 [76, 65, 59] [.mk 2 [118] (deepElem 256)]).Legal (poolTable [.utf8 [76, 65, 59], .utf8 [118]]) ∧
    (SAnno.mk 1 [76, 65, 59] [.mk 2 [118] (deepElem 256)]).nest = 256 ∧
    (SAnno.mk 1 [76, 65, 59] [.mk 2 [118] (deepElem 255)]).Ok (poolTable [.utf8 [76, 65, 59], .utf8 [118]]) := by
  refine ⟨fun p a ha hn r => readAnnotation_deep p a ha hn r, ?_, ?_, ?_, ?_⟩
  · exact ⟨by decide, rfl, by decide, ⟨by decide, rfl, deepElem_legal 256⟩, trivial⟩
  · simp [SAnno.nest, pairsNest, SPair.nest, deepElem_nest]
  · exact ⟨by decide, rfl, by decide, ⟨by decide, rfl, deepElem_legal 255⟩, trivial⟩
  · simp [SAnno.nest, pairsNest, SPair.nest, deepElem_nest]

/-! ## constant pool -/

/-- `pool_read`: for every list of constant-pool entries — any order, duplicates, unused entries, `Long`/`Double` at
any position — the reader builds exactly the table these entries denote (slot 0 and the slot after a two-slot entry
unusable) and consumes exactly the pool.  Everything the reader later says about a class goes through the lazy
resolvers `Pool.get*` applied to this table at the indices the class file uses, so facts depend on the pool only
through what those indices resolve to. -/
theorem pool_read (es : List PoolEntry) (hes : ∀ e ∈ es, PoolEntryOk e) (hcount : poolCount es < 65536) (r : Bytes) :
    readPool (encPool es ++ r) = ok (poolTable es, r) :=
  readPool_enc es hes hcount r

/-- a pool with `k` `Dynamic` constants (indices 4 .. 3+k), the `j`-th taking the next one as its only bootstrap
argument -/
def chainPool (k : Nat) : Pool :=
  poolTable ([.utf8 [120], .utf8 [73], .nameAndType 1 2] ++ (List.range k).map (fun j => PoolEntry.dynamic j 3))

def chainBsms (k : Nat) : List Bsm := (List.range k).map (fun j => ⟨default, if j + 1 < k then [5 + j] else []⟩)

def isErr {α : Type} : Outcome α → Bool
  | .err => true
  | _ => false

/-- `dynamic_depth_limit_witness` (deliberate limit of the reader since cb2ce34, `MAX_BOOTSTRAP_ARGUMENT_DEPTH = 16`): a
`Dynamic` constant whose bootstrap arguments nest 16 further `Dynamic` constants is resolved, one that nests 17 is an
error although the class file is valid — and so is, in particular, every constant reachable from its own arguments
(it used to exhaust the stack) -/
theorem dynamic_depth_limit_witness :
    Outcome.isOk (Pool.getLoadable (chainPool 17) (some (chainBsms 17)) 4) = true ∧
    isErr (Pool.getLoadable (chainPool 18) (some (chainBsms 18)) 4) = true ∧
    isErr (Pool.getLoadable (poolTable [.utf8 [120], .utf8 [73], .nameAndType 1 2, .dynamic 0 3]) (some [⟨default, [4]⟩]) 4) = true := by
  decide +kernel

/-! ## the class file -/

/-- `class_read_encode_partial`: for **every** class layout of the fragment — any pool, any pool indices that resolve
to the intended constants, any interleaving order of the attributes of every owner, fields and methods with any of
their attributes, every method body as in `code_read_encode_partial` — reading the JVMS serialisation succeeds, stops
exactly at the end of the class file (so concatenated class files can be read one after the other), and after label
resolution yields exactly the facts the layout denotes: header, super types, every field and method with its own
flags, name, descriptor and attributes (nothing attached to another member), `BootstrapMethods` made available to
the methods whatever its position, unknown attributes byte for byte.

Fragment (attributes covered by the theorem): class — `Deprecated Synthetic SourceFile SourceDebugExtension Signature
InnerClasses EnclosingMethod NestHost NestMembers PermittedSubclasses BootstrapMethods RuntimeVisibleAnnotations
RuntimeInvisibleAnnotations RuntimeVisibleTypeAnnotations RuntimeInvisibleTypeAnnotations Record` (components with
`Signature`, annotations, type annotations, unknown attributes) `Module ModulePackages ModuleMainClass` + unknown;
field — `Deprecated Synthetic ConstantValue Signature Runtime(In)VisibleAnnotations Runtime(In)VisibleTypeAnnotations`
+ unknown; method — `Deprecated Synthetic Code Exceptions Signature
Runtime(In)VisibleAnnotations Runtime(In)VisibleTypeAnnotations AnnotationDefault MethodParameters` + unknown; `Code` —
`StackMapTable LineNumberTable LocalVariableTable LocalVariableTypeTable Runtime(In)VisibleTypeAnnotations` + unknown,
exception table.
Annotation attributes may occur several times (their annotations are concatenated in file order).
Outside the fragment (modelled, tied by the correspondence run and the oracles only): `StackMap` (CLDC) inside `Code`,
`Runtime(In)VisibleParameterAnnotations` (dropped by the reader, see the witness). -/
theorem class_read_encode_partial (c : ClassLayout) (hleg : c.Legal) (facts : ClassFacts) (hfacts : c.facts = some facts)
    (r : Bytes) : ∃ raw, ClassRead.read (c.encode ++ r) = ok (raw, r) ∧ raw.resolve = some facts :=
  read_encode c hleg facts hfacts r

/-- non-vacuity: the smallest class file `class A` (version 52.0, pool `[Utf8 "A", Class #1]`) -/
def exampleClass : ClassLayout :=
  { minor := 0, major := 52, pool := [.utf8 [65], .cls 1], access := 0x21, thisCp := 2, name := [65], superCp := 0, super := none,
    interfaces := [], fields := [], methods := [], attrs := [] }

example : exampleClass.Legal := by
  refine ⟨by decide, ?_, by decide, by decide, ⟨by decide, rfl⟩, ⟨by decide, rfl⟩, by decide, by simp [exampleClass],
    by decide, by simp [exampleClass], by decide, by simp [exampleClass], by decide, by simp [exampleClass], rfl⟩
  intro e he
  simp only [exampleClass, List.mem_cons, List.not_mem_nil, or_false] at he
  rcases he with rfl | rfl
  · exact ⟨by decide, by decide⟩
  · exact (by decide : (1 : Nat) < 65536)

/-- `Runtime(In)VisibleParameterAnnotations` are consumed but **not delivered** (the tree has no place for them,
`// TODO` in `read_method`): whatever the attribute says, the method description is unchanged.  This is why the
fidelity theorem is `_partial`; the gap is a known finding. -/
theorem parameter_annotations_dropped_witness (p : Pool) (bsms : Option (List Bsm)) (m : MethodFacts) (nc : Nat) (visible : Bool)
    (body r : Bytes) (hnc : nc < 65536) (hname : p.getUtf8 nc = ok (if visible then sRVPA else sRIPA))
    (hlen : body.length < 4294967296) :
    readMethodAttr p bsms m (attrFrame nc body ++ r) = ok (m, r) := by
  cases visible <;>
    simp [readMethodAttr, attrFrame, u16_be16 _ hnc, hname, u32_be32 _ hlen, skipN,
      show sRIPA ≠ sDeprecated ∧ sRIPA ≠ sSynthetic ∧ sRIPA ≠ sCode ∧ sRIPA ≠ sExceptions ∧ sRIPA ≠ sSignature ∧ sRIPA ≠ sRVA ∧
        sRIPA ≠ sRIA ∧ sRIPA ≠ sRVTA ∧ sRIPA ≠ sRITA ∧ sRIPA ≠ sRVPA by decide,
      show sRVPA ≠ sDeprecated ∧ sRVPA ≠ sSynthetic ∧ sRVPA ≠ sCode ∧ sRVPA ≠ sExceptions ∧ sRVPA ≠ sSignature ∧ sRVPA ≠ sRVA ∧
        sRVPA ≠ sRIA ∧ sRVPA ≠ sRVTA ∧ sRVPA ≠ sRITA by decide]

end Thm.C01
