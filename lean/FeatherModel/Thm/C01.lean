import FeatherModel.Lemmas.ClassReadFinal
import FeatherModel.Lemmas.ArmsConstants
import FeatherModel.Lemmas.ArmsReader
import FeatherModel.Lemmas.ArmsReaderJvms
import FeatherModel.Lemmas.ArmsTags
import FeatherModel.Lemmas.ArmsHarness

/-!
# C01 — the class reader delivers every fact of a valid class file accurately

Model: `FeatherModel/Model/ClassRead*.lean`, `Mutf8.lean` (hand-written mirror of `duke/src/class_reader.rs`,
`class_reader/pool.rs`, `class_reader/labels.rs`, `jstring.rs` + `java_string::from_modified_utf8`, tied to the Rust
code by the correspondence run of `harness/src/bin/c01.rs`).
Specification: `FeatherModel/Spec/ClassEncode.lean` — the JVMS encoding as a function of the facts **and** of the free
encoding choices (instruction forms, pool indices, switch padding, attribute order and splitting).

All theorems are for **all** layouts (no size bound); hypotheses are the explicit legality predicates of the
specification.
-/

namespace Thm.C01

open ClassRead ClassRead.Spec ClassRead.Outcome

/-! ## label table (`labels.rs`) -/

/-- Handing out a label never disturbs the table: the table stays well-formed (one slot per offset, ids below the
counter, **no id shared by two offsets**), every label handed out earlier keeps its id, the requested offset is
labelled afterwards, and at most one new id is consumed. -/
theorem labels_sound (l : Labels) (hwf : l.WF) (pc : Nat) (hpc : pc ≤ l.codeLength) (hcnt : l.count < 65535) :
    ∃ id l', l.addUnchecked pc = ok (id, l') ∧ l'.WF ∧ Labels.Le l l' ∧ l'.get pc = some id ∧ l'.count ≤ l.count + 1 :=
  Labels.addUnchecked_spec hwf hpc hcnt

/-- two offsets get the same label iff they are equal -/
theorem labels_injective (l : Labels) (hwf : l.WF) (p q id : Nat) (hp : l.get p = some id) (hq : l.get q = some id) : p = q :=
  hwf.inj p q id hp hq

/-- the bounds checks of `labels.rs`: an ordinary label must lie inside the code, an exclusive end may equal
`code_length` (the `end_pc == code_length` repair) -/
theorem labels_bounds (l : Labels) (pc : Nat) :
    (pc ≥ l.codeLength → l.getOrCreate pc = err) ∧ (pc > l.codeLength → l.getOrCreateExcl pc = err) := by
  constructor
  · intro h; simp [Labels.getOrCreate, h]
  · intro h; simp [Labels.getOrCreateExcl, h]

/-! ## instructions -/

/-- `insn_decode_encode`: for every instruction, every admissible form (`xload_n`/`xload`/`wide xload`, `ldc`/`ldc_w`/
`ldc2_w`, `goto`/`goto_w`, `jsr`/`jsr_w`, `iinc`/`wide iinc`, `ret`/`wide ret`), every pool index resolving to its
operand and every offset `a` (hence all four switch paddings, with arbitrary padding bytes): the second pass of the
reader decodes the encoding to the instruction — branch targets become the labels of the target offsets — and
consumes exactly its bytes. -/
theorem insn_decode_encode (p : Pool) (bsms : Option (List Bsm)) (l : Labels) (n : Nat) (pos : Nat → Nat) (a : Nat)
    (si : SInsn) (hleg : si.Legal p bsms n pos a) (ha : a ≤ 65535) (hpos : ∀ t, t < n → pos t ≤ 65535)
    (hl : TargetsLabelled l pos si.insn) (r : Bytes) :
    decodeInsn p bsms l (a, si.encode pos a ++ r) = ok (mapT (labOf l pos) si.insn, (a + si.size a, r)) :=
  decodeInsn_encode p bsms l n pos a si hleg ha hpos hl r

/-- the first pass creates exactly the labels of the branch / switch targets of an instruction, in order, and skips
exactly its bytes (so both passes tile the code array identically) -/
theorem insn_first_pass (p : Pool) (bsms : Option (List Bsm)) (l : Labels) (n : Nat) (pos : Nat → Nat) (a : Nat)
    (si : SInsn) (hleg : si.Legal p bsms n pos a) (ha : a ≤ 65535) (hpos : ∀ t, t < n → pos t ≤ 65535) (r : Bytes) :
    pass1Step l (a, si.encode pos a ++ r)
      = (do let l' ← createAll l ((targetsOf si.insn).map pos); pure (l', (a + si.size a, r))) :=
  pass1Step_encode p bsms l n pos a si hleg ha hpos r

/-- the encoded size used for the layout is the length of the encoding -/
theorem insn_size_exact (pos : Nat → Nat) (a : Nat) (si : SInsn) : (si.encode pos a).length = si.size a :=
  SInsn.encode_length pos a si

/-! ## the `Code` attribute -/

/-- `code_read_encode_partial`: reading any legal encoding of a method body (`Spec.CodeLayout.encode`: any instruction
forms, any pool indices, switches at any alignment, exception table incl. `end_pc = code_length`, any number and order
of `LineNumberTable` / `LocalVariableTable` / `LocalVariableTypeTable` / `RuntimeVisibleTypeAnnotations` /
`RuntimeInvisibleTypeAnnotations` / unknown attributes, a `StackMapTable` with every frame kind in compact or extended
form) succeeds, consumes exactly the attribute body, and — once the opaque
label ids are read back as the positions of the instructions that carry them (`Code.resolve`) — delivers **exactly**
the facts of the layout: same instructions, every branch target, switch target, exception range and handler, line
entry, local-variable range, `Uninitialized` verification type and type-annotation target (`localvar_target` ranges,
`offset_target`, `type_argument_target`) pointing at the instruction it was encoded for;
every stack-map frame attached to the instruction its accumulated `offset_delta` designates; line and local tables
merged in file order, type annotations concatenated per visibility in file order; unknown attributes byte for byte;
nothing else.

Partial: the attribute `StackMap` (CLDC) of `Code` is outside the proved fragment (it is modelled and covered by the
correspondence run only).
`hleg.refs` (fewer than 65535 label references) is the domain in which the reader's `u16` label counter cannot
overflow. -/
theorem code_read_encode_partial (p : Pool) (bsms : Option (List Bsm)) (c : CodeLayout) (hleg : c.Legal p bsms) (r : Bytes) :
    ∃ raw, readCode p bsms (c.encode ++ r) = ok (raw, r) ∧ raw.resolve = some c.facts :=
  readCode_resolve p bsms c hleg r

/-- the reader's own (label-id) output is determined by the layout and a well-formed final label table in which
every referenced offset is labelled -/
theorem code_read_raw (p : Pool) (bsms : Option (List Bsm)) (c : CodeLayout) (hleg : c.Legal p bsms) (r : Bytes) :
    ∃ lf, lf.WF ∧ lf.codeLength = c.pos c.insns.length ∧ (∀ pc ∈ c.refOffsets, (lf.get pc).isSome = true) ∧
      readCode p bsms (c.encode ++ r) = ok (c.raw lf, r) :=
  readCode_encode p bsms c hleg r

/-- non-vacuity of `code_read_encode_partial`: `goto L1; L1: return` with a handler range reaching the end of the code
(`end_pc = code_length`), an unknown attribute, a `StackMapTable` whose frame mentions an uninitialized object and a
`RuntimeVisibleTypeAnnotations` with a local-variable range and an offset target is a legal layout -/
def exampleCode : CodeLayout :=
  { maxStack := 1, maxLocals := 0,
    insns := [⟨.goto 1, .plain, 0, 0⟩, ⟨.simple 0xb1, .plain, 0, 0⟩],
    exceptions := [⟨0, 2, 1, 0, none⟩],
    attrs := [.unknown 1 [70, 111, 111] [1, 2], .frames 2 [⟨1, false, .same1 (.uninit 0)⟩],
      .typeAnnos 3 true [⟨.localVar 0x40 [(0, 2, 0)], [], .mk 4 [76, 65, 59] []⟩, ⟨.offset 0x44 1, [(3, 1)], .mk 4 [76, 65, 59] []⟩]] }

def examplePool : Pool := poolTable [.utf8 [70, 111, 111], .utf8 sStackMapTable, .utf8 sRVTA, .utf8 [76, 65, 59]]

example : exampleCode.Legal examplePool none := by
  refine ⟨⟨by decide, by decide, ?_⟩, by decide, by decide, by decide, ?_, by decide, ?_, by decide, by decide⟩
  · intro i hi
    match i, hi with
    | 0, _ => exact ⟨by decide, by unfold inI16 relOff; decide⟩
    | 1, _ => exact (by decide : isSimpleOp 0xb1 = true)
  · intro e he
    simp only [exampleCode, List.mem_singleton] at he
    subst he
    exact ⟨by decide, by decide, by decide, by decide, rfl⟩
  · intro a ha
    simp only [exampleCode, List.mem_cons, List.not_mem_nil, or_false] at ha
    rcases ha with rfl | rfl | rfl
    · exact ⟨by decide, rfl, by decide, by decide⟩
    · exact ⟨by decide, rfl, by decide, ⟨by decide, trivial, (by decide : (0 : Nat) < 2), fun _ => by decide, trivial⟩, by decide⟩
    · refine ⟨by decide, rfl, by decide, ?_, by decide⟩
      intro a ha
      simp only [List.mem_cons, List.not_mem_nil, or_false] at ha
      rcases ha with rfl | rfl
      · exact ⟨⟨Or.inl rfl, by decide, by simp [exampleCode]⟩, ⟨by decide, by simp⟩, ⟨by decide, rfl, by decide, trivial⟩, by decide⟩
      · exact ⟨⟨by decide, by decide, by decide⟩, ⟨by decide, by simp⟩, ⟨by decide, rfl, by decide, trivial⟩, by decide⟩

/-! ## modified UTF-8 (`jstring.rs`, `java_string`) -/

/-- `mutf8_decode_encode`: `from_modified_utf8` reads the JVMS §4.4.7 encoding of every string of Unicode code
points / unpaired surrogates back (a high surrogate directly followed by a low surrogate is excluded: that *is* the
encoding of a supplementary code point) -/
theorem mutf8_decode_encode (s : JStr) (hs : Mutf8.Encodable s = true) : Mutf8.decode (Mutf8.encode s) = some s :=
  Mutf8.decode_encode s hs

example : Mutf8.Encodable [0, 0x41, 0x7ff, 0xd800, 0x41, 0xdc00, 0x10ffff] = true := by decide

/-- the decoder is more lenient than JVMS §4.4.7 (it first tries plain UTF-8): a raw NUL byte and a four-byte form are
accepted.  Such strings re-encode differently, so byte-exactness is not claimed for duke (only facts). -/
theorem mutf8_lenient_witness :
    Mutf8.decode [0] = some [0] ∧ Mutf8.decode [0xf0, 0x90, 0x80, 0x80] = some [0x10000] ∧
      Mutf8.decode (Mutf8.encode [0]) = some [0] ∧ Mutf8.encode [0] ≠ [0] := by decide

/-- a high surrogate followed by a low surrogate cannot be read back as two code points -/
theorem mutf8_split_pair_witness : Mutf8.decode (Mutf8.encode [0xd800, 0xdc00]) = some [0x10000] := by decide

/-! ## annotations -/

/-- `annotation_read_encode`: an annotation with element values of every kind (`B C D F I J S Z s e c @ [`), nested up
to the reader's limit of 255 levels (`a.Ok p` = `a.Legal p ∧ a.nest ≤ 255`, a decidable bound), any pool indices
resolving to its constants, is read back as exactly its description; the recursion fuel the model needs
(`2 * bytes + 2`) always suffices -/
theorem annotation_read_encode (p : Pool) (a : SAnno) (ha : a.Ok p) (r : Bytes) :
    readAnnotation p (a.encode ++ r) = ok (a.fact, r) :=
  readAnnotation_enc p a ha r

example : (SAnno.mk 1 [76, 65, 59] [.mk 2 [118] (.arr [.str 2 [118], .anno (.mk 1 [76, 65, 59] [])])]).Ok
    (poolTable [.utf8 [76, 65, 59], .utf8 [118]]) := by
  refine ⟨?_, by decide⟩
  simp [SAnno.Legal, pairsLegal, SPair.Legal, SElem.Legal, elemsLegal]
  exact ⟨rfl, rfl, rfl⟩

/-- `k` nested arrays around a string -/
def deepElem : Nat → SElem
  | 0 => .str 2 [118]
  | k + 1 => .arr [deepElem k]

theorem deepElem_nest (k : Nat) : (deepElem k).nest = k := by
  induction k with
  | zero => rfl
  | succ k ih => simp [deepElem, SElem.nest, elemsNest, ih]

theorem deepElem_legal (k : Nat) : (deepElem k).Legal (poolTable [.utf8 [76, 65, 59], .utf8 [118]]) := by
  induction k with
  | zero => exact ⟨by decide, rfl⟩
  | succ k ih => exact ⟨by simp, ih, trivial⟩

/-- `annotation_depth_limit_witness` (deliberate limit of the reader since 835fdd2, `MAX_ELEMENT_VALUE_DEPTH = 255`): every
JVMS-legal annotation whose element values nest deeper than 255 levels is **rejected** (`err`), so the bound in
`annotation_read_encode` is exact; e.g. `@A(v = [[…["v"]…]])` with 256 brackets is legal, nests 256 levels and is not
read, with 255 brackets it is -/
theorem annotation_depth_limit_witness :
    (∀ (p : Pool) (a : SAnno), a.Legal p → 255 < a.nest → ∀ r, readAnnotation p (a.encode ++ r) = err) ∧
    (SAnno.mk 1 [76, 65, 59] [.mk 2 [118] (deepElem 256)]).Legal (poolTable [.utf8 [76, 65, 59], .utf8 [118]]) ∧
    (SAnno.mk 1 [76, 65, 59] [.mk 2 [118] (deepElem 256)]).nest = 256 ∧
    (SAnno.mk 1 [76, 65, 59] [.mk 2 [118] (deepElem 255)]).Ok (poolTable [.utf8 [76, 65, 59], .utf8 [118]]) := by
  refine ⟨fun p a ha hn r => readAnnotation_deep p a ha hn r, ?_, ?_, ?_, ?_⟩
  · exact ⟨by decide, rfl, by decide, ⟨by decide, rfl, deepElem_legal 256⟩, trivial⟩
  · simp [SAnno.nest, pairsNest, SPair.nest, deepElem_nest]
  · exact ⟨by decide, rfl, by decide, ⟨by decide, rfl, deepElem_legal 255⟩, trivial⟩
  · simp [SAnno.nest, pairsNest, SPair.nest, deepElem_nest]

/-! ## constant pool -/

/-- `pool_read`: for every list of constant-pool entries — any order, duplicates, unused entries, `Long`/`Double` at
any position — the reader builds exactly the table these entries denote (slot 0 and the slot after a two-slot entry
unusable) and consumes exactly the pool.  Everything the reader later says about a class goes through the lazy
resolvers `Pool.get*` applied to this table at the indices the class file uses, so facts depend on the pool only
through what those indices resolve to. -/
theorem pool_read (es : List PoolEntry) (hes : ∀ e ∈ es, PoolEntryOk e) (hcount : poolCount es < 65536) (r : Bytes) :
    readPool (encPool es ++ r) = ok (poolTable es, r) :=
  readPool_enc es hes hcount r

/-- a pool with `k` `Dynamic` constants (indices 4 .. 3+k), the `j`-th taking the next one as its only bootstrap
argument -/
def chainPool (k : Nat) : Pool :=
  poolTable ([.utf8 [120], .utf8 [73], .nameAndType 1 2] ++ (List.range k).map (fun j => PoolEntry.dynamic j 3))

def chainBsms (k : Nat) : List Bsm := (List.range k).map (fun j => ⟨default, if j + 1 < k then [5 + j] else []⟩)

def isErr {α : Type} : Outcome α → Bool
  | .err => true
  | _ => false

/-- `dynamic_depth_limit_witness` (deliberate limit of the reader since cb2ce34, `MAX_BOOTSTRAP_ARGUMENT_DEPTH = 16`): a
`Dynamic` constant whose bootstrap arguments nest 16 further `Dynamic` constants is resolved, one that nests 17 is an
error although the class file is valid — and so is, in particular, every constant reachable from its own arguments
(it used to exhaust the stack) -/
theorem dynamic_depth_limit_witness :
    Outcome.isOk (Pool.getLoadable (chainPool 17) (some (chainBsms 17)) 4) = true ∧
    isErr (Pool.getLoadable (chainPool 18) (some (chainBsms 18)) 4) = true ∧
    isErr (Pool.getLoadable (poolTable [.utf8 [120], .utf8 [73], .nameAndType 1 2, .dynamic 0 3]) (some [⟨default, [4]⟩]) 4) = true := by
  decide +kernel

/-! ## the class file -/

/-- `class_read_encode_partial`: for **every** class layout of the fragment — any pool, any pool indices that resolve
to the intended constants, any interleaving order of the attributes of every owner, fields and methods with any of
their attributes, every method body as in `code_read_encode_partial` — reading the JVMS serialisation succeeds, stops
exactly at the end of the class file (so concatenated class files can be read one after the other), and after label
resolution yields exactly the facts the layout denotes: header, super types, every field and method with its own
flags, name, descriptor and attributes (nothing attached to another member), `BootstrapMethods` made available to
the methods whatever its position, unknown attributes byte for byte.

Fragment (attributes covered by the theorem): class — `Deprecated Synthetic SourceFile SourceDebugExtension Signature
InnerClasses EnclosingMethod NestHost NestMembers PermittedSubclasses BootstrapMethods RuntimeVisibleAnnotations
RuntimeInvisibleAnnotations RuntimeVisibleTypeAnnotations RuntimeInvisibleTypeAnnotations Record` (components with
`Signature`, annotations, type annotations, unknown attributes) `Module ModulePackages ModuleMainClass` + unknown;
field — `Deprecated Synthetic ConstantValue Signature Runtime(In)VisibleAnnotations Runtime(In)VisibleTypeAnnotations`
+ unknown; method — `Deprecated Synthetic Code Exceptions Signature
Runtime(In)VisibleAnnotations Runtime(In)VisibleTypeAnnotations AnnotationDefault MethodParameters` + unknown; `Code` —
`StackMapTable LineNumberTable LocalVariableTable LocalVariableTypeTable Runtime(In)VisibleTypeAnnotations` + unknown,
exception table.
Annotation attributes may occur several times (their annotations are concatenated in file order).
Outside the fragment (modelled, tied by the correspondence run and the oracles only): `StackMap` (CLDC) inside `Code`,
`Runtime(In)VisibleParameterAnnotations` (dropped by the reader, see the witness). -/
theorem class_read_encode_partial (c : ClassLayout) (hleg : c.Legal) (facts : ClassFacts) (hfacts : c.facts = some facts)
    (r : Bytes) : ∃ raw, ClassRead.read (c.encode ++ r) = ok (raw, r) ∧ raw.resolve = some facts :=
  read_encode c hleg facts hfacts r

/-- non-vacuity: the smallest class file `class A` (version 52.0, pool `[Utf8 "A", Class #1]`) -/
def exampleClass : ClassLayout :=
  { minor := 0, major := 52, pool := [.utf8 [65], .cls 1], access := 0x21, thisCp := 2, name := [65], superCp := 0, super := none,
    interfaces := [], fields := [], methods := [], attrs := [] }

example : exampleClass.Legal := by
  refine ⟨by decide, ?_, by decide, by decide, ⟨by decide, rfl⟩, ⟨by decide, rfl⟩, by decide, by simp [exampleClass],
    by decide, by simp [exampleClass], by decide, by simp [exampleClass], by decide, by simp [exampleClass], rfl⟩
  intro e he
  simp only [exampleClass, List.mem_cons, List.not_mem_nil, or_false] at he
  rcases he with rfl | rfl
  · exact ⟨by decide, by decide⟩
  · exact (by decide : (1 : Nat) < 65536)

/-- `Runtime(In)VisibleParameterAnnotations` are consumed but **not delivered** (the tree has no place for them,
`// TODO` in `read_method`): whatever the attribute says, the method description is unchanged.  This is why the
fidelity theorem is `_partial`; the gap is a known finding. -/
theorem parameter_annotations_dropped_witness (p : Pool) (bsms : Option (List Bsm)) (m : MethodFacts) (nc : Nat) (visible : Bool)
    (body r : Bytes) (hnc : nc < 65536) (hname : p.getUtf8 nc = ok (if visible then sRVPA else sRIPA))
    (hlen : body.length < 4294967296) :
    readMethodAttr p bsms m (attrFrame nc body ++ r) = ok (m, r) := by
  cases visible <;>
    simp [readMethodAttr, attrFrame, u16_be16 _ hnc, hname, u32_be32 _ hlen, skipN,
      show sRIPA ≠ sDeprecated ∧ sRIPA ≠ sSynthetic ∧ sRIPA ≠ sCode ∧ sRIPA ≠ sExceptions ∧ sRIPA ≠ sSignature ∧ sRIPA ≠ sRVA ∧
        sRIPA ≠ sRIA ∧ sRIPA ≠ sRVTA ∧ sRIPA ≠ sRITA ∧ sRIPA ≠ sRVPA by decide,
      show sRVPA ≠ sDeprecated ∧ sRVPA ≠ sSynthetic ∧ sRVPA ≠ sCode ∧ sRVPA ≠ sExceptions ∧ sRVPA ≠ sSignature ∧ sRVPA ≠ sRVA ∧
        sRVPA ≠ sRIA ∧ sRVPA ≠ sRVTA ∧ sRVPA ≠ sRITA by decide]

/-! ## ═══ generated tables: the translator tie (independent of any test generator) ═══

Everything above is about the hand-written model, which is tied to the Rust code by differential testing. This section
ties it a second way. `translate/constants_to_lean.py` and `translate/insn_arms_to_lean.py` read `duke/src/class_constants.rs`,
`class_reader.rs` (both loops of `read_code`, `read_stack_map_frame`, `read_verification_type_info`, the `element_value`
readers), `class_reader/pool.rs`, `tree/**` (flag structs) and `tree/method/code.rs` (`enum Instruction`) before every build
and write what they find as data into `Gen/Constants.lean` and `Gen/ReaderArms.lean`; `Spec/Opcodes.lean` is a transcription
of the JVMS tables. The theorems compare the three — generated tables, hand-written model, JVMS — over the WHOLE tables
(all 256 opcode bytes, all tags), by kernel evaluation. Vocabulary: `Lemmas/ArmsDefs.lean`. -/

section GeneratedTables

open Arms JvmsTables

/-- the transcribed JVMS tables have the shape the lookups assume: `opcodes` lists 0..201 in order (so position = opcode);
reserved opcodes lie above; `forms`, `wideForms`, `negations` name real opcodes, `negations` is an involution on the
16-bit conditional branches -/
theorem jvms_tables_consistent :
    opcodes.map (·.1) = List.range 202 ∧
    (reserved.all fun r => decide (202 ≤ r.1 ∧ r.1 < 256)) = true ∧
    (forms.all fun f => (mnemonic? f.1).isSome && (mnemonic? f.2.1).isSome && !(forms.lookup f.2.1).isSome) = true ∧
    (wideForms.all fun f => (mnemonic? f.1).isSome) = true ∧
    (negations.all fun f => negations.lookup f.2 == some f.1 && operands? f.1 == some .branch16) = true :=
  Arms.jvms_tables_consistent

/-- **Every constant of `class_constants.rs` is the JVMS value under the JVMS name.** (1) the modules of the file are exactly
the seven tables below, no constant outside them, every value fits its Rust type; (2) `opcode`: the 205 constants are the
202 opcodes of JVMS §6.5 plus the 3 reserved ones, in opcode order, each named by the upper-cased mnemonic — with the one
exception that 0xbe `arraylength` is spelt `ARRAYLENGHT`; (3) `pool` = Table 4.4-A, `pool::method_handle_reference` =
Table 5.4.3.5-A (names up to case / underscores); (4) `type_annotation` = Tables 4.7.20-A/B, `atype` = Table 6.5.newarray-A,
`MAGIC`; (5) `attribute`: every constant is named like its text, and the texts are exactly the 30 predefined attributes of
Table 4.7-A plus the CLDC `StackMap`. -/
theorem constants_are_jvms :
    ((Gen.Constants.numeric.map fun m => (m.1, m.2.map fun e => (e.1, e.2.1))) =
      [([], Gen.Constants.rootConsts), (jstr "pool", Gen.Constants.poolConsts),
       (jstr "pool::method_handle_reference", Gen.Constants.poolMethodHandleReferenceConsts),
       (jstr "type_annotation", Gen.Constants.typeAnnotationConsts), (jstr "opcode", Gen.Constants.opcodeConsts),
       (jstr "atype", Gen.Constants.atypeConsts)] ∧
     Gen.Constants.strings = [(jstr "attribute", Gen.Constants.attributeConsts)] ∧
     Gen.Constants.modules = [[], jstr "pool", jstr "pool::method_handle_reference", jstr "attribute", jstr "type_annotation",
       jstr "opcode", jstr "atype"] ∧
     (Gen.Constants.numeric.all fun m => m.2.all fun e => decide (e.2.1 < 2 ^ e.2.2)) = true) ∧
    Gen.Constants.opcodeConsts.map (fun e => (e.2, lower e.1)) =
      (opcodes.map (fun r => (r.1, r.2.1)) ++ reserved).map
        (fun r => (r.1, if r.1 = 0xbe then jstr "arraylenght" else r.2)) ∧
    (Gen.Constants.poolConsts.map (fun e => (e.2, squash e.1)) = poolTags.map (fun r => (r.1, squash r.2.1)) ∧
     Gen.Constants.poolMethodHandleReferenceConsts.map (fun e => (e.2, squash e.1)) =
       methodHandleKinds.map (fun r => (r.1, squash r.2))) ∧
    (Gen.Constants.typeAnnotationConsts.map (fun e => (e.2, squash e.1)) = targetTypes.map (fun r => (r.1, squash r.2.1)) ∧
     Gen.Constants.atypeConsts.map (fun e => (e.2, e.1)) = arrayTypes ∧
     Gen.Constants.rootConsts = [(jstr "MAGIC", JvmsTables.magic)]) ∧
    ((Gen.Constants.attributeConsts.all fun e => squash e.1 == squash e.2) = true ∧
     (Gen.Constants.attributeConsts.all fun e => (attributeNames ++ cldcAttributeNames).contains e.2) = true ∧
     ((attributeNames ++ cldcAttributeNames).all fun n => (Gen.Constants.attributeConsts.map (·.2)).contains n) = true ∧
     Gen.Constants.attributeConsts.length = (attributeNames ++ cldcAttributeNames).length) :=
  ⟨Arms.constants_covered, Arms.opcode_constants, Arms.pool_constants, Arms.other_constants, Arms.attribute_constants⟩

/-- the access-flag structs of `duke/src/tree` (`impl From<u16> for X` and `impl From<X> for u16`): both directions use the
same masks, the structs are the nine of the specification, and **all of them** carry exactly the flags and masks of the JVMS
tables (4.1-B, 4.7.6-A, 4.5-A, 4.6-A, §4.7.24, §4.7.25 module / requires / exports / opens). Full strength since repo fix
ccf470b (`ModuleFlags::is_open` used `0x0010`; found by this comparison, invisible to the differential run because model and
harness mirrored the code). -/
theorem access_flags_are_jvms :
    Gen.Constants.flagsRead = Gen.Constants.flagsWrite ∧ Gen.Constants.flagsRead = flagSpecs :=
  ⟨Arms.flags_read_write, Arms.flags_jvms⟩

/-- regression of ccf470b: `ModuleFlags` reads and writes `is_open` with `ACC_OPEN = 0x0020` of JVMS §4.7.25 (was `0x0010`:
an `open module` was read as not open, a tree with `is_open` was written with an undefined bit) -/
theorem module_open_flag_is_jvms :
    Gen.Constants.flagsRead.lookup (jstr "ModuleFlags") =
      some [(jstr "open", 0x0020), (jstr "synthetic", 0x1000), (jstr "mandated", 0x8000)] ∧
    moduleFlags = [(jstr "open", 0x0020), (jstr "synthetic", 0x1000), (jstr "mandated", 0x8000)] :=
  Arms.module_open_flag

/-- the constants the hand-written model hard-codes are the ones of the Rust source: each of its 31 attribute names is the
text of the `class_constants::attribute` constant it mirrors (and there is no 32nd), each of its flag masks is the `|` of the
masks of the flag struct it mirrors -/
theorem model_constants_match :
    (modelAttributeNames.all fun e => Gen.Constants.attributeConsts.lookup e.1 == some e.2) = true ∧
    modelAttributeNames.length = Gen.Constants.attributeConsts.length ∧
    (modelMasks.all fun e => maskOf Gen.Constants.flagsRead e.1 == e.2) = true ∧
    modelMasks.map (·.1) = Gen.Constants.flagsRead.map (·.1) :=
  Arms.model_constants

/-- **For every opcode byte, the hand-written model takes the arm the Rust code takes, in both loops of `read_code`.**
Pass 1: same class (skip `n` bytes / 16-bit branch / 32-bit branch / tableswitch / lookupswitch / `wide` / error).
Pass 2: the model rejects the byte iff the Rust `match` has no arm for it or a `bail!` arm; `wide` is the same byte; the
model's operand-less arm `simple` covers exactly the arms `opcode::X => Instruction::Y` for a unit variant `Y`; and
whenever the model decodes an instruction `i` at that byte — whatever the pool, the labels, the operand bytes — the Rust
arm builds the constructor named like `i` (`insnMnemonic`, compared up to case and underscores), reads exactly as many
operand bytes as the model consumed (where the arm fixes them: everything except the switches), and for `*load_<n>` /
`*store_<n>` the index the Rust arithmetic (`(opcode - base) & mask`) gives is the model's. `i` is in `RdDomain`. -/
theorem reader_arms_match_model (p : Pool) (bsms : Option (List Bsm)) (l : Labels) (pc op : Nat) (rest : Bytes) (hop : op < 256) :
    p1Code (p1Kind op) = p1Class op ∧
    (rArm op = .bail ↔ opKind op = .invalid) ∧
    (rArm op = .wide ↔ opKind op = .wide) ∧
    ((rArm op).isUnit = true ↔ opKind op = .simple) ∧
    (rArm op = .bail → decodeInsn p bsms l (pc, op :: rest) = err) ∧
    (∀ i c', rArm op ≠ .wide → decodeInsn p bsms l (pc, op :: rest) = ok (i, c') →
      ∃ ctor, (rArm op).ctor? = some ctor ∧ squash (ctorName ctor) = squash (insnMnemonic i) ∧
        (∀ n, (rArm op).operandBytes? = some n → c'.1 = pc + 1 + n) ∧
        (∀ j, (rArm op).implicitIndex? = some j → insnLocal? i = some j) ∧ RdDomain i) :=
  Arms.reader_arms_match_model p bsms l pc op rest hop

/-- the same for the two `wide` sub-matches: pass 1 skips what the Rust sub-match skips (or fails where it bails), pass 2
fails where it bails and otherwise builds the constructor the Rust sub-arm names, consuming the bytes its primitives read -/
theorem reader_wide_arms_match_model (l : Labels) (pc w : Nat) (rest : Bytes) (hw : w < 256) :
    pass1Step l (pc, Gen.ReaderArms.wideOpcode :: w :: rest) =
      (match p1WideSkip? w with
        | some n => (do let c ← cSkip n (pc + 2, rest); pure (l, c))
        | none => err) ∧
    ((rWideArm w).ctor? = none → decodeWide (pc, w :: rest) = err) ∧
    (∀ i c', decodeWide (pc, w :: rest) = ok (i, c') →
      ∃ ctor n, (rWideArm w).ctor? = some ctor ∧ squash (ctorName ctor) = squash (insnMnemonic i) ∧
        (rWideArm w).operandBytes? = some n ∧ c'.1 = pc + 1 + n ∧ RdDomain i) :=
  Arms.reader_wide_arms_match_model l pc w rest hw

/-- **The Rust reader's dispatch is the JVMS instruction set** (no model involved). For every opcode byte: there is an
instruction-building arm exactly for the opcodes 0..201 of §6.5 — every one handled, everything from 202 up an error —;
plain operands / branches / switches / `wide` are told apart as in the JVMS; the constructor is named like the mnemonic
of the instruction's general form (`iload_2` ↦ `ILoad`, `ldc2_w` ↦ `Ldc`, `goto_w` ↦ `Goto`); the arm reads as many operand
bytes as the JVMS says; `<t>load_<n>` / `<t>store_<n>` get the index `<n>`; the first loop classifies the opcode as the
operand layout demands; both `wide` sub-matches accept exactly the opcodes of JVMS *wide* with its two formats. -/
theorem arms_are_jvms (op : Nat) (hop : op < 256) :
    (rArm op = .bail ↔ mnemonic? op = none) ∧
    (rArm op).operandClass = jvmsOperandClass (operands? op) ∧
    (rArm op ≠ .wide → ((rArm op).ctor?.map fun c => squash (ctorName c)) = (mnemonic? (baseOf op)).map squash) ∧
    (∀ c, (rArm op).ctor? = some c → (rArm op).operandBytes? = jvmsOperandBytes (operands? op)) ∧
    (rArm op).implicitIndex? = implicitIndex? op ∧
    p1Class op = jvmsP1Class (operands? op) ∧
    p1WideSkip? op = wideForms.lookup op ∧
    ((rWideArm op).ctor?.map fun c => (squash (ctorName c), (rWideArm op).operandBytes?)) =
      (wideForms.lookup op).map fun n => (((mnemonic? op).map squash).getD [], some n) :=
  Arms.arms_are_jvms op hop

/-- the small tag dispatches of the Rust reader are the JVMS tables: `PoolRead::read` (tag, entry kind, payload bytes,
`bytes[length]` or not, 1 or 2 slots) = Table 4.4-A / §4.4.1–11; `read_verification_type_info` = the `ITEM_*` table;
`read_stack_map_frame` = the `frame_type` ranges with the reserved range bailing, implicit / explicit `offset_delta`, `chop`
and `append` counting from 251; both `element_value` readers = Table 4.7.16.1-A with the right pool entry kind -/
theorem tag_arms_are_jvms :
    (Gen.ReaderArms.poolArms.map fun a => (a.1, squash a.2.1, a.2.2.1.sum, a.2.2.2.1, a.2.2.2.2)) =
      (poolTags.map fun r => (r.1, squash r.2.1, r.2.2.1.sum, (if r.2.2.2.1 then 1 else 0), r.2.2.2.2)) ∧
    Gen.ReaderArms.vtypeArms = verificationTypes ∧
    (((Gen.ReaderArms.frameArms.filter fun a => a.2.2.1 != jstr "bail").map
        fun a => (a.1, a.2.1, squash a.2.2.1, if a.2.2.2.1 = 0 then some a.2.2.2.2 else none)) =
      (frameTypes.map fun r => (r.1, r.2.1, squash r.2.2.2.1, r.2.2.2.2)) ∧
     ((Gen.ReaderArms.frameArms.filter fun a => a.2.2.1 == jstr "bail").map fun a => (a.1, a.2.1)) = [frameReserved] ∧
     Gen.ReaderArms.chopFrom = JvmsTables.chopFrom ∧ Gen.ReaderArms.appendFrom = JvmsTables.appendFrom) ∧
    (Gen.ReaderArms.elementArmsNamed = Gen.ReaderArms.elementArmsUnnamed ∧
     (Gen.ReaderArms.elementArmsNamed.map fun a =>
        (a.1, squash (if a.2.1 = jstr "Integer" then jstr "int" else a.2.1), getterKind a.2.2)) =
      (elementValueTags.map fun r => (r.1, squash r.2.1, squash r.2.2))) :=
  ⟨Arms.pool_arms_jvms, Arms.vtype_arms_jvms, Arms.frame_arms_jvms, Arms.element_arms_jvms⟩

/-- the model's constant-pool entry reader, evaluated on every tag byte (followed by zeros): it accepts exactly the tags
the Rust `match` has an arm for, with the same entry kind, the same number of payload bytes and the same number of slots -/
theorem pool_arms_match_model (tag : Nat) (h : tag < 256) :
    poolProbe tag = (Gen.ReaderArms.poolArms.lookup tag).map fun a => (a.1, a.2.1.sum, a.2.2.2) :=
  Arms.pool_arms_match_model tag h

/-- the model's `readVType` / `readFrame`, all inputs: a verification type / frame the model reads at tag `t` is the variant
the Rust arm for `t` builds; where the Rust computes `offset_delta` from the tag so does the model, `chop` counts from the
same constant; tags the Rust bails on are errors of the model -/
theorem vtype_frame_arms_match_model (p : Pool) (l l' : Labels) (t : Nat) (s s' : Bytes) (ht : t < 256) :
    (∀ v, readVType p l (t :: s) = ok (v, l', s') → ∃ extra, Gen.ReaderArms.vtypeArms.lookup t = some (vtypeName v, extra)) ∧
    (Gen.ReaderArms.vtypeArms.lookup t = none → readVType p l (t :: s) = err) ∧
    (∀ d f, readFrame p l (t :: s) = ok ((d, f), l', s') →
      ∃ b, frameArm? t = some (frameName f, b) ∧ (∀ k, b = some k → d = t - k) ∧ (∀ k, f = .chop k → k = Gen.ReaderArms.chopFrom - t)) ∧
    (frameArm? t = none → readFrame p l (t :: s) = err) :=
  Arms.vtype_frame_arms_match_model p l l' t s s' ht

/-- the hand-written printing glue of the harness (`harness/src/c01facts.rs`, extracted by
`translate/harness_glue_to_lean.py`), which the correspondence run trusts: it prints every constructor of `enum Instruction`;
the opcode it prints for an operand-less instruction, a conditional branch or a field access is an opcode whose arm in
`read_code` builds exactly that constructor; the kind it prints for `ILoad`.. / `IStore`.. is the offset from `iload` /
`istore`; everything else is printed under the constructor's own name. So "the model answers `(simple 96)`" and "duke
delivers `IAdd`" mean the same instruction by the Rust source itself, not only by the harness author's reading. -/
theorem harness_glue_matches_reader :
    ((Gen.HarnessGlue.simple ++ Gen.HarnessGlue.branch ++ Gen.HarnessGlue.field ++ Gen.HarnessGlue.load ++
        Gen.HarnessGlue.store).map (·.1) ++ Gen.HarnessGlue.other.map (·.1)).length = Gen.ReaderArms.ctorNames.length ∧
    (Gen.ReaderArms.ctorNames.all fun n =>
      ((Gen.HarnessGlue.simple ++ Gen.HarnessGlue.branch ++ Gen.HarnessGlue.field ++ Gen.HarnessGlue.load ++
        Gen.HarnessGlue.store).map (·.1) ++ Gen.HarnessGlue.other.map (·.1)).contains n) = true ∧
    ((Gen.HarnessGlue.simple ++ Gen.HarnessGlue.branch ++ Gen.HarnessGlue.field).all
      fun e => (rArm e.2).ctor?.map ctorName == some e.1) = true ∧
    (Gen.HarnessGlue.simple.all fun e => (rArm e.2).isUnit) = true ∧
    (Gen.HarnessGlue.load.all fun e => (rArm (0x15 + e.2)).ctor?.map ctorName == some e.1) = true ∧
    (Gen.HarnessGlue.store.all fun e => (rArm (0x36 + e.2)).ctor?.map ctorName == some e.1) = true ∧
    (Gen.HarnessGlue.other.all fun e => squash e.1 == squash e.2) = true :=
  Arms.harness_glue_matches_reader

/-- non-vacuity: `0x60` is read as `IAdd`, `0x2c` as `ALoad` with index 2, `0xc4 0x84` as `IInc` with four operand bytes,
`0xca` (breakpoint) is an error -/
example : (rArm 0x60).ctor?.map ctorName = some (jstr "IAdd") ∧
    ((rArm 0x2c).ctor?.map ctorName, (rArm 0x2c).implicitIndex?) = (some (jstr "ALoad"), some 2) ∧
    ((rWideArm 0x84).ctor?.map ctorName, (rWideArm 0x84).operandBytes?) = (some (jstr "IInc"), some 4) ∧
    rArm 0xca = .bail := by decide

end GeneratedTables

end Thm.C01
