import FeatherModel.Lemmas.ClassReadCodeFinal

/-!
# C01 — the class reader delivers every fact of a valid class file accurately

Model: `FeatherModel/Model/ClassRead*.lean`, `Mutf8.lean` (hand-written mirror of `duke/src/class_reader.rs`,
`class_reader/pool.rs`, `class_reader/labels.rs`, `jstring.rs` + `java_string::from_modified_utf8`, tied to the Rust
code by the correspondence run of `harness/src/bin/c01.rs`).
Specification: `FeatherModel/Spec/ClassEncode.lean` — the JVMS encoding as a function of the facts **and** of the free
encoding choices (instruction forms, pool indices, switch padding, attribute order and splitting).

All theorems are for **all** layouts (no size bound); hypotheses are the explicit legality predicates of the
specification.
-/

namespace Thm.C01

open ClassRead ClassRead.Spec ClassRead.Outcome

/-! ## label table (`labels.rs`) -/

/-- Handing out a label never disturbs the table: the table stays well-formed (one slot per offset, ids below the
counter, **no id shared by two offsets**), every label handed out earlier keeps its id, the requested offset is
labelled afterwards, and at most one new id is consumed. -/
theorem labels_sound (l : Labels) (hwf : l.WF) (pc : Nat) (hpc : pc ≤ l.codeLength) (hcnt : l.count < 65535) :
    ∃ id l', l.addUnchecked pc = ok (id, l') ∧ l'.WF ∧ Labels.Le l l' ∧ l'.get pc = some id ∧ l'.count ≤ l.count + 1 :=
  Labels.addUnchecked_spec hwf hpc hcnt

/-- two offsets get the same label iff they are equal -/
theorem labels_injective (l : Labels) (hwf : l.WF) (p q id : Nat) (hp : l.get p = some id) (hq : l.get q = some id) : p = q :=
  hwf.inj p q id hp hq

/-- the bounds checks of `labels.rs`: an ordinary label must lie inside the code, an exclusive end may equal
`code_length` (the `end_pc == code_length` repair) -/
theorem labels_bounds (l : Labels) (pc : Nat) :
    (pc ≥ l.codeLength → l.getOrCreate pc = err) ∧ (pc > l.codeLength → l.getOrCreateExcl pc = err) := by
  constructor
  · intro h; simp [Labels.getOrCreate, h]
  · intro h; simp [Labels.getOrCreateExcl, h]

/-! ## instructions -/

/-- `insn_decode_encode`: for every instruction, every admissible form (`xload_n`/`xload`/`wide xload`, `ldc`/`ldc_w`/
`ldc2_w`, `goto`/`goto_w`, `jsr`/`jsr_w`, `iinc`/`wide iinc`, `ret`/`wide ret`), every pool index resolving to its
operand and every offset `a` (hence all four switch paddings, with arbitrary padding bytes): the second pass of the
reader decodes the encoding to the instruction — branch targets become the labels of the target offsets — and
consumes exactly its bytes. -/
theorem insn_decode_encode (p : Pool) (bsms : Option (List Bsm)) (l : Labels) (n : Nat) (pos : Nat → Nat) (a : Nat)
    (si : SInsn) (hleg : si.Legal p bsms n pos a) (ha : a ≤ 65535) (hpos : ∀ t, t < n → pos t ≤ 65535)
    (hl : TargetsLabelled l pos si.insn) (r : Bytes) :
    decodeInsn p bsms l (a, si.encode pos a ++ r) = ok (mapT (labOf l pos) si.insn, (a + si.size a, r)) :=
  decodeInsn_encode p bsms l n pos a si hleg ha hpos hl r

/-- the first pass creates exactly the labels of the branch / switch targets of an instruction, in order, and skips
exactly its bytes (so both passes tile the code array identically) -/
theorem insn_first_pass (p : Pool) (bsms : Option (List Bsm)) (l : Labels) (n : Nat) (pos : Nat → Nat) (a : Nat)
    (si : SInsn) (hleg : si.Legal p bsms n pos a) (ha : a ≤ 65535) (hpos : ∀ t, t < n → pos t ≤ 65535) (r : Bytes) :
    pass1Step l (a, si.encode pos a ++ r)
      = (do let l' ← createAll l ((targetsOf si.insn).map pos); pure (l', (a + si.size a, r))) :=
  pass1Step_encode p bsms l n pos a si hleg ha hpos r

/-- the encoded size used for the layout is the length of the encoding -/
theorem insn_size_exact (pos : Nat → Nat) (a : Nat) (si : SInsn) : (si.encode pos a).length = si.size a :=
  SInsn.encode_length pos a si

/-! ## the `Code` attribute -/

/-- `code_read_encode_partial`: reading any legal encoding of a method body (`Spec.CodeLayout.encode`: any instruction
forms, any pool indices, switches at any alignment, exception table incl. `end_pc = code_length`, any number and order
of `LineNumberTable` / `LocalVariableTable` / `LocalVariableTypeTable` / unknown attributes) succeeds, consumes exactly
the attribute body, and — once the opaque label ids are read back as the positions of the instructions that carry
them (`Code.resolve`) — delivers **exactly** the facts of the layout: same instructions, every branch target, switch
target, exception range and handler, line entry and local-variable range pointing at the instruction it was
encoded for; line and local tables merged in file order; unknown attributes byte for byte; nothing else.

Partial: the attributes `StackMapTable`, `StackMap`, `RuntimeVisibleTypeAnnotations`, `RuntimeInvisibleTypeAnnotations`
of `Code` are outside the proved fragment (they are modelled and covered by the correspondence run only).
`hleg.refs` (fewer than 65535 label references) is the domain in which the reader's `u16` label counter cannot
overflow. -/
theorem code_read_encode_partial (p : Pool) (bsms : Option (List Bsm)) (c : CodeLayout) (hleg : c.Legal p bsms) (r : Bytes) :
    ∃ raw, readCode p bsms (c.encode ++ r) = ok (raw, r) ∧ raw.resolve = some c.facts :=
  readCode_resolve p bsms c hleg r

/-- the reader's own (label-id) output is determined by the layout and a well-formed final label table in which
every referenced offset is labelled -/
theorem code_read_raw (p : Pool) (bsms : Option (List Bsm)) (c : CodeLayout) (hleg : c.Legal p bsms) (r : Bytes) :
    ∃ lf, lf.WF ∧ lf.codeLength = c.pos c.insns.length ∧ (∀ pc ∈ c.refOffsets, (lf.get pc).isSome = true) ∧
      readCode p bsms (c.encode ++ r) = ok (c.raw lf, r) :=
  readCode_encode p bsms c hleg r

end Thm.C01
