import FeatherModel.Lemmas.Merge

/-!
# C09 — merging two mapping sets is a faithful join on the shared namespace
Property theorems only. Model: `FeatherModel/Model/Merge.lean` (`merge`, and the vocabulary `cls/fld/mth/prm` = entry at a
path, `joinRow`, `joinDoc`, `sideKeys`, `project`, `AgreesOn`, `Shape`, `KeysConsistent`, `conflict`, `Conflict`).
All statements hold for every pair of mapping sets (no size bound).
-/

namespace Thm.C09
open Merge AList

/-! ## namespaces -/

/-- a merge succeeds only on `(s, a)` and `(s, b)` and produces `(s, a, b)` -/
theorem merge_namespaces {A B R : Mappings} (h : merge A B = some R) :
    ∃ s a b, A.ns = [s, a] ∧ B.ns = [s, b] ∧ R.ns = [s, a, b] :=
  mergeNamespaces_spec (merge_inv h).1

/-! ## keys: the union, at every level, in the order of the code -/

/-- the key list of every map of the result is the key union of the corresponding maps of the inputs:
classes; fields and methods of every class of the result; parameters of every method of the result.
(`sideKeys`: the side's own key list when only one side has the parent, `unionKeys` when both have it.) -/
theorem merge_keys {A B R : Mappings} (h : merge A B = some R) :
    R.classes.keys = unionKeys A.classes B.classes ∧
    (∀ kc c, cls R kc = some c →
      c.fields.keys = sideKeys ((cls A kc).map (·.fields)) ((cls B kc).map (·.fields)) ∧
      c.methods.keys = sideKeys ((cls A kc).map (·.methods)) ((cls B kc).map (·.methods))) ∧
    (∀ kc km m, mth R kc km = some m →
      m.params.keys = sideKeys ((mth A kc km).map (·.params)) ((mth B kc km).map (·.params))) := by
  refine ⟨zipMap_keys (merge_inv h).2.1, ?_, ?_⟩
  · intro kc c hc
    have hj := merge_cls h kc
    cases hco : combOf (cls A kc) (cls B kc) with
    | none => rw [hj.2 hco] at hc; simp at hc
    | some co =>
      obtain ⟨r, hf, hr⟩ := hj.1 co hco
      rw [hr] at hc; simp only [Option.some.injEq] at hc; subst hc
      obtain ⟨_, hfs, hms, _⟩ := mergeClass_inv hf
      exact ⟨by rw [zipComb_keys hfs, combKeys_map hco], by rw [zipComb_keys hms, combKeys_map hco]⟩
  · intro kc km m hm
    have hj := merge_mth h kc km
    cases hco : combOf (mth A kc km) (mth B kc km) with
    | none => rw [hj.2 hco] at hm; simp at hm
    | some co =>
      obtain ⟨r, hf, hr⟩ := hj.1 co hco
      rw [hr] at hm; simp only [Option.some.injEq] at hm; subst hm
      obtain ⟨_, _, hps, _⟩ := mergeMethod_inv hf
      rw [zipComb_keys hps, combKeys_map hco]

/-- the order and multiplicity of a key union: A's keys in A's order, then the keys only B has in B's order; every key
exactly once; nothing else -/
theorem merge_keys_order {K V : Type} [BEq K] [LawfulBEq K] {m n : AList K V} (hm : NoDupKeys m) (hn : NoDupKeys n) :
    unionKeys m n = m.keys ++ n.keys.filter (fun k => !contains k m) ∧ (unionKeys m n).Nodup ∧
      ∀ k, k ∈ unionKeys m n ↔ k ∈ m.keys ∨ k ∈ n.keys :=
  ⟨unionKeys_eq hm hn, nodup_unionKeys m n, fun _ => mem_unionKeys⟩

/-- entry-wise: at every path the result has an entry iff A or B has one -/
theorem merge_keys_exact {A B R : Mappings} (h : merge A B = some R) :
    (∀ kc, (cls R kc).isSome = true ↔ (cls A kc).isSome = true ∨ (cls B kc).isSome = true) ∧
    (∀ kc kf, (fld R kc kf).isSome = true ↔ (fld A kc kf).isSome = true ∨ (fld B kc kf).isSome = true) ∧
    (∀ kc km, (mth R kc km).isSome = true ↔ (mth A kc km).isSome = true ∨ (mth B kc km).isSome = true) ∧
    (∀ kc km kp, (prm R kc km kp).isSome = true ↔
      (prm A kc km kp).isSome = true ∨ (prm B kc km kp).isSome = true) :=
  ⟨fun kc => (merge_cls h kc).isSome_iff, fun kc kf => (merge_fld h kc kf).isSome_iff,
   fun kc km => (merge_mth h kc km).isSome_iff, fun kc km kp => (merge_prm h kc km kp).isSome_iff⟩

/-! ## columns -/

/-- every entry of the result carries the row `[s, a?, b?]`: `a?` is A's name (absent when A lacks the entry or the name),
`b?` likewise for B, `s` the first-namespace name of the side(s) having the entry -/
theorem merge_columns {A B R : Mappings} (h : merge A B = some R) :
    (∀ kc r, cls R kc = some r → r.names = joinRow ((cls A kc).map (·.names)) ((cls B kc).map (·.names))) ∧
    (∀ kc kf r, fld R kc kf = some r →
      r.names = joinRow ((fld A kc kf).map (·.names)) ((fld B kc kf).map (·.names))) ∧
    (∀ kc km r, mth R kc km = some r →
      r.names = joinRow ((mth A kc km).map (·.names)) ((mth B kc km).map (·.names))) ∧
    (∀ kc km kp r, prm R kc km kp = some r →
      r.names = joinRow ((prm A kc km kp).map (·.names)) ((prm B kc km kp).map (·.names))) := by
  refine ⟨?_, ?_, ?_, ?_⟩
  · intro kc r hr
    obtain ⟨c, hl, hrr, hf⟩ := (merge_cls h kc).inv hr
    rw [← hl, ← hrr]; exact names_join (mergeClass_inv hf).1
  · intro kc kf r hr
    obtain ⟨c, hl, hrr, hf⟩ := (merge_fld h kc kf).inv hr
    rw [← hl, ← hrr]; exact names_join (mergeField_inv hf).2.1
  · intro kc km r hr
    obtain ⟨c, hl, hrr, hf⟩ := (merge_mth h kc km).inv hr
    rw [← hl, ← hrr]; exact names_join (mergeMethod_inv hf).2.1
  · intro kc km kp r hr
    obtain ⟨c, hl, hrr, hf⟩ := (merge_prm h kc km kp).inv hr
    rw [← hl, ← hrr]; exact names_join (mergeParam_inv hf).2.1

/-! ## comments -/

/-- the comment of every node of the result is A's if A has one, otherwise B's (an absent entry has none) -/
theorem merge_comments {A B R : Mappings} (h : merge A B = some R) :
    R.doc = joinDoc A.doc B.doc ∧
    (∀ kc r, cls R kc = some r → r.doc = joinDoc ((cls A kc).bind (·.doc)) ((cls B kc).bind (·.doc))) ∧
    (∀ kc kf r, fld R kc kf = some r →
      r.doc = joinDoc ((fld A kc kf).bind (·.doc)) ((fld B kc kf).bind (·.doc))) ∧
    (∀ kc km r, mth R kc km = some r →
      r.doc = joinDoc ((mth A kc km).bind (·.doc)) ((mth B kc km).bind (·.doc))) ∧
    (∀ kc km kp r, prm R kc km kp = some r →
      r.doc = joinDoc ((prm A kc km kp).bind (·.doc)) ((prm B kc km kp).bind (·.doc))) := by
  refine ⟨?_, ?_, ?_, ?_, ?_⟩
  · exact (mergeDoc_spec (merge_inv h).2.2).1
  · intro kc r hr
    obtain ⟨c, hl, hrr, hf⟩ := (merge_cls h kc).inv hr
    rw [← hl, ← hrr]; exact doc_join (mergeClass_inv hf).2.2.2
  · intro kc kf r hr
    obtain ⟨c, hl, hrr, hf⟩ := (merge_fld h kc kf).inv hr
    rw [← hl, ← hrr]; exact doc_join (mergeField_inv hf).2.2
  · intro kc km r hr
    obtain ⟨c, hl, hrr, hf⟩ := (merge_mth h kc km).inv hr
    rw [← hl, ← hrr]; exact doc_join (mergeMethod_inv hf).2.2.2
  · intro kc km kp r hr
    obtain ⟨c, hl, hrr, hf⟩ := (merge_prm h kc km kp).inv hr
    rw [← hl, ← hrr]; exact doc_join (mergeParam_inv hf).2.2

/-! ## projections -/

/-- projecting the result onto `(s, a)` and restricting it to the keys of A gives back A; likewise `(s, b)` and B:
names rows, descriptors, parameter indices; comments wherever the side has one (see `AgreesOn`, `merge_comments`) -/
theorem merge_project {A B R : Mappings} (h : merge A B = some R) :
    AgreesOn A (project 0 1 R) ∧ AgreesOn B (project 0 2 R) := by
  obtain ⟨s, a, b, hA, hB, hR⟩ := merge_namespaces h
  have hdoc := mergeDoc_spec (merge_inv h).2.2
  constructor
  · refine ⟨by simp [project, hA, hR], fun d hd => hdoc.2.1 d (by simp [Comb.left, hd]), ?_, ?_, ?_, ?_⟩
    · intro kc x hx
      obtain ⟨c, r, hl, _, hf, hr⟩ := (merge_cls h kc).of_left hx
      obtain ⟨hn, _, _, hd⟩ := mergeClass_inv hf
      exact ⟨projClass 0 1 r, by rw [cls_project, hr]; rfl, names_left hn hl, fun d hxd => doc_left hd hl hxd⟩
    · intro kc kf x hx
      obtain ⟨c, r, hl, _, hf, hr⟩ := (merge_fld h kc kf).of_left hx
      obtain ⟨he, hn, hd⟩ := mergeField_inv hf
      exact ⟨projField 0 1 r, by rw [fld_project, hr]; rfl, names_left hn hl, eq_left he hl,
        fun d hxd => doc_left hd hl hxd⟩
    · intro kc km x hx
      obtain ⟨c, r, hl, _, hf, hr⟩ := (merge_mth h kc km).of_left hx
      obtain ⟨he, hn, _, hd⟩ := mergeMethod_inv hf
      exact ⟨projMethod 0 1 r, by rw [mth_project, hr]; rfl, names_left hn hl, eq_left he hl,
        fun d hxd => doc_left hd hl hxd⟩
    · intro kc km kp x hx
      obtain ⟨c, r, hl, _, hf, hr⟩ := (merge_prm h kc km kp).of_left hx
      obtain ⟨he, hn, hd⟩ := mergeParam_inv hf
      exact ⟨projParam 0 1 r, by rw [prm_project, hr]; rfl, names_left hn hl, eq_left he hl,
        fun d hxd => doc_left hd hl hxd⟩
  · refine ⟨by simp [project, hB, hR], fun d hd => hdoc.2.2 d (by simp [Comb.right, hd]), ?_, ?_, ?_, ?_⟩
    · intro kc x hx
      obtain ⟨c, r, _, hl, hf, hr⟩ := (merge_cls h kc).of_right hx
      obtain ⟨hn, _, _, hd⟩ := mergeClass_inv hf
      exact ⟨projClass 0 2 r, by rw [cls_project, hr]; rfl, names_right hn hl, fun d hxd => doc_right hd hl hxd⟩
    · intro kc kf x hx
      obtain ⟨c, r, _, hl, hf, hr⟩ := (merge_fld h kc kf).of_right hx
      obtain ⟨he, hn, hd⟩ := mergeField_inv hf
      exact ⟨projField 0 2 r, by rw [fld_project, hr]; rfl, names_right hn hl, eq_right he hl,
        fun d hxd => doc_right hd hl hxd⟩
    · intro kc km x hx
      obtain ⟨c, r, _, hl, hf, hr⟩ := (merge_mth h kc km).of_right hx
      obtain ⟨he, hn, _, hd⟩ := mergeMethod_inv hf
      exact ⟨projMethod 0 2 r, by rw [mth_project, hr]; rfl, names_right hn hl, eq_right he hl,
        fun d hxd => doc_right hd hl hxd⟩
    · intro kc km kp x hx
      obtain ⟨c, r, _, hl, hf, hr⟩ := (merge_prm h kc km kp).of_right hx
      obtain ⟨he, hn, hd⟩ := mergeParam_inv hf
      exact ⟨projParam 0 2 r, by rw [prm_project, hr]; rfl, names_right hn hl, eq_right he hl,
        fun d hxd => doc_right hd hl hxd⟩

/-! ## errors -/

/-- every conflict is reported, whatever the inputs look like: different first namespaces, different comments on the two
sides of the set / a shared class / field / method / parameter, different source names of a shared parameter
(one side naming it and the other not counts as different) -/
theorem merge_fails {A B : Mappings} (hc : Conflict A B) : merge A B = none := by
  cases h : merge A B with
  | none => rfl
  | some R =>
    exfalso
    have clash : ∀ {c : Comb (Option JStr)} {d x y}, mergeDoc c = some d → c.left = some x → c.right = some y →
        docConflict x y = true → False := by
      intro c d x y hd hl hr hxy
      cases x <;> cases y <;> simp [docConflict] at hxy
      rename_i x y
      have h1 := (mergeDoc_spec hd).2.1 x hl
      have h2 := (mergeDoc_spec hd).2.2 y hr
      rw [h1] at h2; simp at h2; exact hxy h2
    rcases hc with hc | hc | ⟨kc, a, b, ha, hb, hc⟩ | ⟨kc, kf, a, b, ha, hb, hc⟩ | ⟨kc, km, a, b, ha, hb, hc⟩ |
      ⟨kc, km, kp, a, b, ha, hb, hc⟩
    · obtain ⟨s, a, b, hA, hB, _⟩ := merge_namespaces h
      simp [hA, hB] at hc
    · exact clash (merge_inv h).2.2 rfl rfl hc
    · obtain ⟨c, r, hl, hr, hf, _⟩ := (merge_cls h kc).of_left ha
      rw [hb] at hr
      have hd := (mergeClass_inv hf).2.2.2
      exact clash hd (by rw [Comb.left_map, hl]; rfl) (by rw [Comb.right_map, hr]; rfl) hc
    · obtain ⟨c, r, hl, hr, hf, _⟩ := (merge_fld h kc kf).of_left ha
      rw [hb] at hr
      have hd := (mergeField_inv hf).2.2
      exact clash hd (by rw [Comb.left_map, hl]; rfl) (by rw [Comb.right_map, hr]; rfl) hc
    · obtain ⟨c, r, hl, hr, hf, _⟩ := (merge_mth h kc km).of_left ha
      rw [hb] at hr
      have hd := (mergeMethod_inv hf).2.2.2
      exact clash hd (by rw [Comb.left_map, hl]; rfl) (by rw [Comb.right_map, hr]; rfl) hc
    · obtain ⟨c, r, hl, hr, hf, _⟩ := (merge_prm h kc km kp).of_left ha
      rw [hb] at hr
      obtain ⟨_, hn, hd⟩ := mergeParam_inv hf
      rcases hc with hc | hc
      · have h1 := names_left hn hl
        have h2 := names_right hn hr
        apply hc
        rw [← h1, ← h2]; simp [projRow]
      · exact clash hd (by rw [Comb.left_map, hl]; rfl) (by rw [Comb.right_map, hr]; rfl) hc

/-- on all values of the Rust input types (`Shape`: two non-empty namespace names, unique keys, rows `Names<2>`), `merge`
fails exactly when the executable predicate `conflict` holds: first namespaces differ, or some key present on both sides
leads to entries whose first names, descriptors, parameter indices or comments differ (at any level) -/
theorem merge_errors_general {A B : Mappings} (hA : Shape A) (hB : Shape B) :
    merge A B = none ↔ conflict A B = true :=
  merge_none_iff hA hB

/-- descriptor, parameter-index and (class, field, method) first-name conflicts are unreachable between key-consistent
inputs: they are part of the key under which two entries meet -/
theorem merge_key_conflicts_unreachable {A B : Mappings} (kA : KeysConsistent A) (kB : KeysConsistent B) :
    (∀ kc a b, cls A kc = some a → cls B kc = some b → a.names[0]? = b.names[0]?) ∧
    (∀ kc kf a b, fld A kc kf = some a → fld B kc kf = some b → a.desc = b.desc ∧ a.names[0]? = b.names[0]?) ∧
    (∀ kc km a b, mth A kc km = some a → mth B kc km = some b → a.desc = b.desc ∧ a.names[0]? = b.names[0]?) ∧
    (∀ kc km kp a b, prm A kc km kp = some a → prm B kc km kp = some b → a.index = b.index) := by
  refine ⟨?_, ?_, ?_, ?_⟩
  · intro kc a b ha hb
    have h1 := (kA _ (lookup_mem ha)).1
    have h2 := (kB _ (lookup_mem hb)).1
    simp only at h1 h2
    rw [h1, h2]
  · intro kc kf a b ha hb
    obtain ⟨ca, hca, hfa⟩ := fld_some ha
    obtain ⟨cb, hcb, hfb⟩ := fld_some hb
    have h1 := (kA _ (lookup_mem hca)).2.1 _ (lookup_mem hfa)
    have h2 := (kB _ (lookup_mem hcb)).2.1 _ (lookup_mem hfb)
    simp only at h1 h2
    exact ⟨by rw [h1.2, h2.2], by rw [h1.1, h2.1]⟩
  · intro kc km a b ha hb
    obtain ⟨ca, hca, hma⟩ := mth_some ha
    obtain ⟨cb, hcb, hmb⟩ := mth_some hb
    have h1 := (kA _ (lookup_mem hca)).2.2 _ (lookup_mem hma)
    have h2 := (kB _ (lookup_mem hcb)).2.2 _ (lookup_mem hmb)
    simp only at h1 h2
    exact ⟨by rw [h1.2.1, h2.2.1], by rw [h1.1, h2.1]⟩
  · intro kc km kp a b ha hb
    obtain ⟨ca, ma, hca, hma, hpa⟩ := prm_some ha
    obtain ⟨cb, mb, hcb, hmb, hpb⟩ := prm_some hb
    have h1 := ((kA _ (lookup_mem hca)).2.2 _ (lookup_mem hma)).2.2 _ (lookup_mem hpa)
    have h2 := ((kB _ (lookup_mem hcb)).2.2 _ (lookup_mem hmb)).2.2 _ (lookup_mem hpb)
    simp only at h1 h2
    rw [h1, h2]

/-- between key-consistent inputs `merge` fails iff the first namespaces differ, or a node present on both sides (the set,
a class, field, method, parameter) carries different comments, or a parameter present on both sides has different
source names — nothing else -/
theorem merge_errors {A B : Mappings} (hA : Shape A) (hB : Shape B) (kA : KeysConsistent A) (kB : KeysConsistent B) :
    merge A B = none ↔ Conflict A B :=
  ⟨fun h => conflict_imp_Conflict hA kA kB ((merge_none_iff hA hB).mp h), merge_fails⟩

/-- `merge` succeeds whenever none of the conflicts is present -/
theorem merge_total_on {A B : Mappings} (hA : Shape A) (hB : Shape B) (kA : KeysConsistent A) (kB : KeysConsistent B)
    (hc : ¬ Conflict A B) : ∃ R, merge A B = some R := by
  cases h : merge A B with
  | some R => exact ⟨R, rfl⟩
  | none => exact absurd ((merge_errors hA hB kA kB).mp h) hc

/-! ## the hypotheses are satisfiable; the statements are not vacuous -/

def mkParam (i : Nat) (s t : Option JStr) : Nat × Param := (i, { index := i, names := [s, t], doc := none })

def mkMethod (t : Option JStr) (d : Option JStr) (ps : AList Nat Param) : MemberKey × Method :=
  ((jstr "m", jstr "(I)V"), { desc := jstr "(I)V", names := [some (jstr "m"), t], doc := d, params := ps })

def mkField (t : Option JStr) : MemberKey × Field :=
  ((jstr "f", jstr "I"), { desc := jstr "I", names := [some (jstr "f"), t], doc := none })

def mkClass (k : JStr) (t d : Option JStr) (fs : AList MemberKey Field) (ms : AList MemberKey Method) : JStr × Class :=
  (k, { names := [some k, t], doc := d, fields := fs, methods := ms })

def exA : Mappings := { ns := [jstr "s", jstr "a"], doc := none, classes := [
  mkClass (jstr "C") (some (jstr "Ca")) (some (jstr "doc")) [] [mkMethod (some (jstr "ma")) none [mkParam 1 none (some (jstr "pa"))]],
  mkClass (jstr "OnlyA") none none [mkField (some (jstr "fa"))] []] }

def exB : Mappings := { ns := [jstr "s", jstr "b"], doc := none, classes := [
  mkClass (jstr "OnlyB") (some (jstr "Bb")) none [] [],
  mkClass (jstr "C") (some (jstr "Cb")) none []
    [mkMethod none (some (jstr "md")) [mkParam 0 none (some (jstr "p0")), mkParam 1 none (some (jstr "pb"))]]] }

/-- a partially overlapping pair satisfies `Shape`, `KeysConsistent`, has no conflict, and merges to the expected join -/
example : Shape exA ∧ Shape exB ∧ KeysConsistent exA ∧ KeysConsistent exB ∧ conflict exA exB = false ∧
    (merge exA exB).map (fun R => (R.ns, R.classes.keys)) =
      some ([jstr "s", jstr "a", jstr "b"], [jstr "C", jstr "OnlyA", jstr "OnlyB"]) ∧
    (merge exA exB).map (fun R => (prm R (jstr "C") (jstr "m", jstr "(I)V") 1).map (·.names)) =
      some (some [none, some (jstr "pa"), some (jstr "pb")]) ∧
    (merge exA exB).map (fun R => (mth R (jstr "C") (jstr "m", jstr "(I)V")).map (fun m => (m.doc, m.params.keys))) =
      some (some (some (jstr "md"), [1, 0])) := by decide

/-- a shared parameter named in the source namespace on one side only makes the merge fail -/
example :
    let A : Mappings := { ns := [jstr "s", jstr "a"], doc := none, classes := [
      mkClass (jstr "C") none none [] [mkMethod none none [mkParam 0 (some (jstr "x")) none]]] }
    let B : Mappings := { ns := [jstr "s", jstr "b"], doc := none, classes := [
      mkClass (jstr "C") none none [] [mkMethod none none [mkParam 0 none (some (jstr "y"))]]] }
    Shape A ∧ Shape B ∧ KeysConsistent A ∧ KeysConsistent B ∧ merge A B = none ∧ conflict A B = true := by decide

end Thm.C09
