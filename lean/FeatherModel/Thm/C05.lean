import FeatherModel.Model.VersionGraph
import FeatherModel.Lemmas.VersionGraph

/-!
# C05 — version graph resolves each version to root plus the diffs on its path
Theorems hold for every content pipeline `c : Content M D` (the driver instantiates it with the Tiny v2 / tiny-diff /
apply / inner-name models).
-/

namespace Thm.C05
open VG

variable {M D : Type}

/-! ## The answer is the fold of the diffs along a root path; path independence -/

/-- `p` is a chain of edges of `g` from `src` to `dst` -/
inductive IsPath (g : Graph) : JStr → JStr → List Edge → Prop where
  | nil (n : JStr) : IsPath g n n []
  | cons {e : Edge} {dst : JStr} {p : List Edge} :
      e ∈ g.edges → IsPath g e.child dst p → IsPath g e.parent dst (e :: p)

/-- every node carries a mapping set and every edge file is a diff that turns the parent's set into the child's -/
def Consistent (c : Content M D) (g : Graph) (label : JStr → Option M) : Prop :=
  ∀ e, e ∈ g.edges → ∀ mp, label e.parent = some mp →
    ∃ d mc, c.readDiff e.content = some d ∧ c.apply d mp = some mc ∧ label e.child = some mc

/-- on a consistent graph the fold along ANY path from a labelled node ends in the label of the end node -/
theorem fold_path_label (c : Content M D) {g : Graph} {label : JStr → Option M} (hc : Consistent c g label)
    {src dst : JStr} {p : List Edge} (hp : IsPath g src dst p) :
    ∀ m, label src = some m → ∃ m', foldPath c m p = some m' ∧ label dst = some m' := by
  induction hp with
  | nil n => intro m hm; exact ⟨m, rfl, hm⟩
  | cons he _ ih =>
    intro m hm
    obtain ⟨d, mc, hd, ha, hl⟩ := hc _ he m hm
    obtain ⟨m', hf, hl'⟩ := ih mc hl
    exact ⟨m', by simp [foldPath, hd, ha, hf], hl'⟩

theorem pathsOfLen_isPath {g : Graph} : ∀ (len : Nat) (src dst : JStr) (p : List Edge),
    p ∈ pathsOfLen g len src dst → IsPath g src dst p ∧ p.length = len := by
  intro len
  induction len with
  | zero =>
    intro src dst p hp
    simp only [pathsOfLen] at hp
    split at hp
    · rename_i h
      have : src = dst := by simpa using h
      subst this
      simp at hp; subst hp
      exact ⟨IsPath.nil _, rfl⟩
    · simp at hp
  | succ n ih =>
    intro src dst p hp
    simp only [pathsOfLen, List.mem_flatMap, List.mem_map, List.mem_filter] at hp
    obtain ⟨e, ⟨he, hpar⟩, q, hq, rfl⟩ := hp
    have hpar' : e.parent = src := by simpa using hpar
    obtain ⟨h1, h2⟩ := ih e.child dst q hq
    subst hpar'
    exact ⟨IsPath.cons he h1, by simp [h2]⟩

theorem shortestPaths_isPath {g : Graph} {src dst : JStr} {p : List Edge}
    (hp : p ∈ shortestPaths g src dst) : IsPath g src dst p := by
  unfold shortestPaths at hp
  generalize g.nodes.length + 1 = fuel at hp
  generalize (0 : Nat) = len at hp
  induction fuel generalizing len with
  | zero => simp [shortestPaths.go] at hp
  | succ f ih =>
    simp only [shortestPaths.go] at hp
    cases hps : pathsOfLen g len src dst with
    | nil => rw [hps] at hp; exact ih _ hp
    | cons q qs =>
      rw [hps] at hp
      simp only at hp
      rw [← hps] at hp
      exact (pathsOfLen_isPath _ _ _ _ hp).1

/-- the reported mappings are the root mappings with exactly the diffs along a root path applied in order, followed by
inner-class-name extension -/
theorem apply_is_fold (c : Content M D) (r : Resolved M) (target : JStr) :
    ∀ a, a ∈ applyDiffs c r target → ∃ p, IsPath r.graph r.rootName target p ∧
      a = (foldPath c r.rootMapping p).bind c.extend := by
  intro a ha
  simp only [applyDiffs, List.mem_map] at ha
  obtain ⟨p, hp, rfl⟩ := ha
  refine ⟨p, shortestPaths_isPath hp, ?_⟩
  simp only [applyAlong]
  cases foldPath c r.rootMapping p <;> rfl

/-- path independence: when every node carries `M_v` and every edge file is a diff from its parent's set to its child's,
every admissible answer for `v` is `extend M_v` — whatever path is taken (hence whatever the listing order made the
path search prefer) -/
theorem path_independent (c : Content M D) (r : Resolved M) {label : JStr → Option M}
    (hc : Consistent c r.graph label) (hroot : label r.rootName = some r.rootMapping) (target : JStr) :
    ∀ a, a ∈ applyDiffs c r target → ∃ mv, label target = some mv ∧ a = c.extend mv := by
  intro a ha
  simp only [applyDiffs, List.mem_map] at ha
  obtain ⟨p, hp, rfl⟩ := ha
  obtain ⟨m', hf, hl⟩ := fold_path_label c hc (shortestPaths_isPath hp) _ hroot
  exact ⟨m', hl, by simp [applyAlong, hf]⟩

/-- an unreachable version has no admissible answer: `apply_diffs` reports "there is no path" -/
theorem unreachable_is_error (c : Content M D) (r : Resolved M) (target : JStr)
    (h : shortestPaths r.graph r.rootName target = []) : applyDiffs c r target = [] := by
  simp [applyDiffs, h]

/-! ## Graph construction does not depend on the directory listing order -/

/-- well-formed directory: no two different version strings (file stems, both sides of `#`) share a lookup key
(a plain name, or either half of `client~server`) -/
def WellFormedDir (dir : List (JStr × Bytes)) : Prop := KeysDisjoint (dirVersions dir)

/-- closed form of the graph built from a well-formed directory: the lookup table, the edges and the root are given by
the *set* of files, not by the order in which `read_dir` lists them -/
theorem graph_closed_form {dir : List (JStr × Bytes)} {g : Graph} (hwf : WellFormedDir dir)
    (h : addFiles Graph.empty dir = some g) :
    (∀ k sp n, AList.lookup k g.versions = some (sp, n) ↔ (n ∈ dirVersions dir ∧ keyKind k n = some sp)) ∧
    g.edges = dirEdges dir ∧
    ((dirRoots dir = [] ∧ g.root = none) ∨ (∃ r, dirRoots dir = [r] ∧ g.root = some r)) := by
  obtain ⟨⟨seen', hseen, hspec⟩, he, hr⟩ :=
    addFiles_spec dir versionsSpec_empty (by simpa [WellFormedDir] using hwf) h
  refine ⟨?_, by simpa [Graph.empty] using he, by simpa [Graph.empty] using hr⟩
  intro k sp n
  rw [hspec k sp n, hseen n]
  simp

/-- every plain version is reachable under its name and every `client~server` version under either half -/
theorem lookup_names {dir : List (JStr × Bytes)} {g : Graph} (hwf : WellFormedDir dir)
    (h : addFiles Graph.empty dir = some g) {vs : JStr} (hvs : vs ∈ dirVersions dir) :
    (splitOnce TILDE vs = none → AList.lookup vs g.versions = some (Split.none, vs)) ∧
    (∀ c s, splitOnce TILDE vs = some (c, s) →
      AList.lookup c g.versions = some (Split.first, vs) ∧
      (s ≠ c → AList.lookup s g.versions = some (Split.second, vs))) := by
  obtain ⟨hl, _, _⟩ := graph_closed_form hwf h
  constructor
  · intro hs
    exact (hl vs Split.none vs).mpr ⟨hvs, by simp [keyKind, hs]⟩
  · intro c s hs
    exact ⟨(hl c Split.first vs).mpr ⟨hvs, by simp [keyKind, hs]⟩,
      fun hne => (hl s Split.second vs).mpr ⟨hvs, by simp [keyKind, hs, hne]⟩⟩

/-- a name that is no key of any version string of the directory is unknown (`get` fails) -/
theorem unknown_version {dir : List (JStr × Bytes)} {g : Graph} (hwf : WellFormedDir dir)
    (h : addFiles Graph.empty dir = some g) {k : JStr}
    (hk : ∀ n, n ∈ dirVersions dir → keyKind k n = none) : AList.lookup k g.versions = none := by
  obtain ⟨hl, _, _⟩ := graph_closed_form hwf h
  cases hq : AList.lookup k g.versions with
  | none => rfl
  | some q =>
    obtain ⟨sp, n⟩ := q
    obtain ⟨hn, hkk⟩ := (hl k sp n).mp hq
    rw [hk n hn] at hkk
    simp at hkk

theorem dirVersions_perm {d d' : List (JStr × Bytes)} (hp : d'.Perm d) (n : JStr) :
    n ∈ dirVersions d' ↔ n ∈ dirVersions d := by
  simp only [dirVersions, List.mem_flatMap]
  constructor
  · intro ⟨f, hf, hn⟩; exact ⟨f, hp.mem_iff.mp hf, hn⟩
  · intro ⟨f, hf, hn⟩; exact ⟨f, hp.mem_iff.mpr hf, hn⟩

/-- order independence: any two listing orders of a well-formed directory give the same lookup table, the same edge
set and the same root -/
theorem resolve_perm {dir dir' : List (JStr × Bytes)} {g g' : Graph} (hp : dir'.Perm dir) (hwf : WellFormedDir dir)
    (h : addFiles Graph.empty dir = some g) (h' : addFiles Graph.empty dir' = some g') :
    (∀ k, AList.lookup k g'.versions = AList.lookup k g.versions) ∧ g'.edges.Perm g.edges ∧ g'.root = g.root := by
  have hwf' : WellFormedDir dir' := by
    intro v1 h1 v2 h2 hne k hk
    exact hwf v1 ((dirVersions_perm hp v1).mp h1) v2 ((dirVersions_perm hp v2).mp h2) hne k hk
  obtain ⟨hl, he, hr⟩ := graph_closed_form hwf h
  obtain ⟨hl', he', hr'⟩ := graph_closed_form hwf' h'
  refine ⟨?_, ?_, ?_⟩
  · intro k
    cases hq : AList.lookup k g.versions with
    | some q =>
      obtain ⟨sp, n⟩ := q
      obtain ⟨hn, hkk⟩ := (hl k sp n).mp hq
      exact (hl' k sp n).mpr ⟨(dirVersions_perm hp n).mpr hn, hkk⟩
    | none =>
      cases hq' : AList.lookup k g'.versions with
      | none => rfl
      | some q =>
        obtain ⟨sp, n⟩ := q
        obtain ⟨hn, hkk⟩ := (hl' k sp n).mp hq'
        have := (hl k sp n).mpr ⟨(dirVersions_perm hp n).mp hn, hkk⟩
        rw [hq] at this; simp at this
  · rw [he, he']
    exact hp.filterMap _
  · have hroots : (dirRoots dir').Perm (dirRoots dir) := hp.filterMap _
    rcases hr with ⟨hn, hg⟩ | ⟨r, hn, hg⟩ <;> rcases hr' with ⟨hn', hg'⟩ | ⟨r', hn', hg'⟩
    · rw [hg, hg']
    · rw [hn, hn'] at hroots; simp at hroots
    · rw [hn, hn'] at hroots; simp at hroots
    · rw [hn, hn'] at hroots
      have : r' = r := by simpa using hroots
      rw [hg, hg', this]

/-- no root: a directory without a `.tiny` file is rejected -/
theorem no_root_is_error (c : Content M D) {dir : List (JStr × Bytes)} (hwf : WellFormedDir dir)
    (h : dirRoots dir = []) : resolve c dir = none := by
  unfold resolve
  cases ha : addFiles Graph.empty dir with
  | none => rfl
  | some g =>
    obtain ⟨_, _, hr⟩ := graph_closed_form hwf ha
    rcases hr with ⟨_, hg⟩ | ⟨r, hn, _⟩
    · simp [hg]
    · rw [h] at hn; simp at hn

/-- two roots: a directory with two `.tiny` files is rejected, in either listing order -/
theorem two_roots_is_error (c : Content M D) {dir : List (JStr × Bytes)} (hwf : WellFormedDir dir)
    (h : 2 ≤ (dirRoots dir).length) : resolve c dir = none := by
  unfold resolve
  cases ha : addFiles Graph.empty dir with
  | none => rfl
  | some g =>
    obtain ⟨_, _, hr⟩ := graph_closed_form hwf ha
    rcases hr with ⟨hn, _⟩ | ⟨r, hn, _⟩ <;> rw [hn] at h <;> simp at h

/-- a `.tinydiff` whose stem has no `#` is rejected -/
theorem bad_diff_name_is_error {g : Graph} {f : JStr × Bytes} {raw : JStr}
    (ht : stripSuffix EXT_TINY f.1 = none) (hd : stripSuffix EXT_DIFF f.1 = some raw)
    (hh : splitOnce HASH raw = none) : addFile g f = none := by
  simp [addFile, ht, hd, hh]

/-- a cycle through the children of the root is rejected by `resolve` -/
theorem loop_is_error (c : Content M D) {dir : List (JStr × Bytes)} {g : Graph} {rootName : JStr} {rb : Bytes}
    (ha : addFiles Graph.empty dir = some g) (hroot : g.root = some (rootName, rb))
    (hw : walkOk g (g.nodes.length + 2) [] rootName = false) : resolve c dir = none := by
  unfold resolve
  rw [ha]
  simp only [hroot]
  cases c.readRoot rb with
  | none => rfl
  | some m => simp [hw]

/-- non-vacuity (see the `example` below): a diamond `r -> a~x -> c`, `r -> b -> c` given in some listing order is well formed and resolves -/
def exampleDir : List (JStr × Bytes) :=
  [(jstr "a~x#c.tinydiff", [1]), (jstr "r.tiny", [0]), (jstr "r#a~x.tinydiff", [2]),
   (jstr "b#c.tinydiff", [3]), (jstr "r#b.tinydiff", [4]), (jstr "notes.txt", [9])]

example :
    (addFiles Graph.empty exampleDir).map (fun g => (g.nodes, AList.lookup (jstr "x") g.versions, g.edges.length, g.root.map (·.1),
      walkOk g (g.nodes.length + 2) [] (jstr "r"), (shortestPaths g (jstr "r") (jstr "c")).length)) =
    some ([jstr "c", jstr "a~x", jstr "r", jstr "b"], some (Split.second, jstr "a~x"), 4, some (jstr "r"), true, 2) := by
  rfl

end Thm.C05
