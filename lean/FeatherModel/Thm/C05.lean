import FeatherModel.Model.VersionGraph
import FeatherModel.Lemmas.VersionGraph
import FeatherModel.Lemmas.VersionGraphPaths
import FeatherModel.Lemmas.VersionGraphScan

/-!
# C05 — version graph resolves each version to root plus the diffs on its path
Theorems hold for every content pipeline `c : Content M D` (the driver instantiates it with the tiny-diff application and
inner-class-name models; reading of `.tiny` / `.tinydiff` text is C03 / C04).

Vocabulary (all in `Model/VersionGraph.lean`):
* `resolve c dir` — `VersionGraph::resolve` on the directory listing `dir` (file name, content) in `read_dir` order;
* `applyDiffs c r v` — the *admissible* results of `apply_diffs(v)`: one per shortest root path (`petgraph::astar` with
  unit weights is assumed to return some shortest path; which one is not specified), `[]` = "there is no path";
* `IsPath g a b p` — `p` is a chain of edges from `a` to `b`; `live g` — the edges `find_edge` can return.

`WellFormedDir` (the proved domain of the order-independence and lookup theorems) says that no two *different* version
strings of the directory share a lookup key (a plain name, or either half of `client~server`). Outside it the code
silently aliases the later string to the earlier node, so the graph depends on the listing order
(`resolve_perm_collision_witness`); this is why those theorems carry the suffix `_partial`.
-/

namespace Thm.C05
open VG

variable {M D : Type}

/-! ## `resolve` unfolded -/

theorem resolve_some {c : Content M D} {dir : List (JStr × Bytes)} {r : Resolved M} (h : resolve c dir = some r) :
    ∃ rb, addFiles Graph.empty dir = some r.graph ∧ r.graph.root = some (r.rootName, rb) ∧
      c.readRoot rb = some r.rootMapping ∧ walkOk r.graph (r.graph.edges.length + 1) [] r.rootName = true := by
  unfold resolve at h
  cases ha : addFiles Graph.empty dir with
  | none => rw [ha] at h; simp at h
  | some g =>
    rw [ha] at h; simp only at h
    cases hr : g.root with
    | none => rw [hr] at h; simp at h
    | some q =>
      obtain ⟨rn, rb⟩ := q
      rw [hr] at h; simp only at h
      cases hm : c.readRoot rb with
      | none => rw [hm] at h; simp at h
      | some m =>
        rw [hm] at h; simp only at h
        split at h
        · rename_i hw
          simp only [Option.some.injEq] at h
          subst h
          exact ⟨rb, rfl, hr, hm, hw⟩
        · simp at h

theorem resolve_of_scan (c : Content M D) {dir : List (JStr × Bytes)} {g : Graph}
    (ha : addFiles Graph.empty dir = some g) :
    resolve c dir =
      match g.root with
      | none => none
      | some (rootName, rootBytes) =>
        match c.readRoot rootBytes with
        | none => none
        | some m =>
          if walkOk g (g.edges.length + 1) [] rootName then some { graph := g, rootName := rootName, rootMapping := m }
          else none := by
  unfold resolve
  rw [ha]
  rfl

/-! ## The answer is the fold of the diffs along a shortest root path, then extension -/

/-- **answer = left fold of the diffs along a root path, then inner-class-name extension**; the path is a shortest one
among ALL root paths of the graph (this is what the `astar` call with unit weights contributes) -/
theorem apply_is_fold (c : Content M D) (r : Resolved M) (target : JStr) :
    ∀ a, a ∈ applyDiffs c r target → ∃ p, IsPath r.graph r.rootName target p ∧
      (∀ q, IsPath r.graph r.rootName target q → p.length ≤ q.length) ∧
      a = (foldPath c r.rootMapping p).bind c.extend := by
  intro a ha
  simp only [applyDiffs, List.mem_map] at ha
  obtain ⟨p, hp, rfl⟩ := ha
  obtain ⟨h1, h2, _⟩ := mem_shortestPaths_iff.mp hp
  refine ⟨p, h1.of_live, ?_, ?_⟩
  · intro q hq
    obtain ⟨q', hq1, hq2⟩ := hq.to_live
    rw [← hq2]
    exact h2 q' hq1
  · simp only [applyAlong]
    cases foldPath c r.rootMapping p <;> rfl

/-- the diff file used for a step `a -> b` of that path is the one `find_edge(a, b)` returns -/
theorem apply_path_live (r : Resolved M) (target : JStr) {p : List Edge}
    (hp : p ∈ shortestPaths r.graph r.rootName target) :
    ∀ e, e ∈ p → findEdge r.graph e.parent e.child = some e := by
  intro e he
  have h1 := (mem_shortestPaths_iff.mp hp).1
  have := h1.mem_edges e he
  simp only [live, liveEdges, List.mem_filter, decide_eq_true_eq] at this
  exact this.2

/-- on a graph that passed the loop check every version that can be reached from the root has an answer -/
theorem reachable_has_answer (c : Content M D) {dir : List (JStr × Bytes)} {r : Resolved M}
    (h : resolve c dir = some r) {target : JStr} {p : List Edge} (hp : IsPath r.graph r.rootName target p) :
    applyDiffs c r target ≠ [] := by
  obtain ⟨_, _, _, _, hw⟩ := resolve_some h
  obtain ⟨q, hq1, hq2⟩ := hp.to_live
  have hlen : q.length ≤ r.graph.edges.length := by
    cases Nat.lt_or_ge r.graph.edges.length q.length with
    | inr h => exact h
    | inl hlt =>
      have := walk_long_false (r.graph.edges.length + 1) [] r.rootName target p hp (by omega)
      rw [this] at hw; simp at hw
  -- the search stops at the first non-empty level, at the latest at `q.length`
  have key : ∀ (fuel len : Nat), len ≤ q.length → q.length < len + fuel →
      shortestPaths.go r.graph r.rootName target fuel len ≠ [] := by
    intro fuel
    induction fuel with
    | zero => intro len h1 h2; omega
    | succ f ih =>
      intro len h1 h2
      simp only [shortestPaths.go]
      cases hps : pathsOfLen r.graph len r.rootName target with
      | cons x xs => simp
      | nil =>
        simp only
        have hne : len ≠ q.length := by
          intro he
          have : q ∈ pathsOfLen r.graph len r.rootName target := (mem_pathsOfLen _ _ _ _).mpr ⟨hq1, he.symm⟩
          rw [hps] at this; simp at this
        exact ih (len + 1) (by omega) (by omega)
  have := key (r.graph.edges.length + 1) 0 (Nat.zero_le _) (by omega)
  intro hnil
  simp only [applyDiffs, List.map_eq_nil_iff] at hnil
  exact this hnil

/-- **unreachable version**: `apply_diffs` has no admissible answer ("there is no path") -/
theorem unreachable_is_error (c : Content M D) (r : Resolved M) (target : JStr)
    (h : ∀ p, ¬ IsPath r.graph r.rootName target p) : applyDiffs c r target = [] := by
  cases hs : shortestPaths r.graph r.rootName target with
  | nil => simp [applyDiffs, hs]
  | cons p ps =>
    have hp : p ∈ shortestPaths r.graph r.rootName target := by rw [hs]; simp
    exact absurd (mem_shortestPaths_iff.mp hp).1.of_live (h p)

/-! ## Path independence -/

/-- every node carries a mapping set and every edge file is a diff that turns the parent's set into the child's -/
def Consistent (c : Content M D) (g : Graph) (label : JStr → Option M) : Prop :=
  ∀ e, e ∈ g.edges → ∀ mp, label e.parent = some mp →
    ∃ d mc, c.readDiff e.content = some d ∧ c.apply d mp = some mc ∧ label e.child = some mc

/-- on a consistent graph the fold along ANY path from a labelled node ends in the label of the end node -/
theorem fold_path_label (c : Content M D) {g : Graph} {label : JStr → Option M} (hc : Consistent c g label)
    {src dst : JStr} {p : List Edge} (hp : IsPath g src dst p) :
    ∀ m, label src = some m → ∃ m', foldPath c m p = some m' ∧ label dst = some m' := by
  induction hp with
  | nil n => intro m hm; exact ⟨m, rfl, hm⟩
  | cons he _ ih =>
    intro m hm
    obtain ⟨d, mc, hd, ha, hl⟩ := hc _ he m hm
    obtain ⟨m', hf, hl'⟩ := ih mc hl
    exact ⟨m', by simp [foldPath, hd, ha, hf], hl'⟩

/-- **path independence**: when every node carries `M_v` and every edge file is a diff from its parent's set to its
child's, every admissible answer for `v` is `extend M_v` — whatever path is taken (hence whatever the listing order made
the path search prefer); in particular on trees, where the labels are given by the unique root paths -/
theorem path_independent (c : Content M D) (r : Resolved M) {label : JStr → Option M}
    (hc : Consistent c r.graph label) (hroot : label r.rootName = some r.rootMapping) (target : JStr) :
    ∀ a, a ∈ applyDiffs c r target → ∃ mv, label target = some mv ∧ a = c.extend mv := by
  intro a ha
  simp only [applyDiffs, List.mem_map] at ha
  obtain ⟨p, hp, rfl⟩ := ha
  obtain ⟨m', hf, hl⟩ := fold_path_label c hc (mem_shortestPaths_iff.mp hp).1.of_live _ hroot
  exact ⟨m', hl, by simp [applyAlong, hf]⟩

/-- a version with a single incoming edge per node on the way (a tree) has a single root path: if no node has two
incoming edges and the root has none, any two root paths to the same version are equal -/
theorem tree_unique_path {g : Graph} {root : JStr}
    (hin : ∀ e1, e1 ∈ g.edges → ∀ e2, e2 ∈ g.edges → e1.child = e2.child → e1 = e2)
    (hroot : ∀ e, e ∈ g.edges → e.child ≠ root) :
    ∀ (n : Nat) (v : JStr) (p q : List Edge), p.length = n → IsPath g root v p → IsPath g root v q → p = q := by
  intro n
  induction n with
  | zero =>
    intro v p q hn hp hq
    have : p = [] := List.eq_nil_of_length_eq_zero hn
    subst this
    have hv := hp.nil_inv
    subst hv
    -- `q` is a path root -> root; a non-empty one would end in an edge into the root
    rcases List.eq_nil_or_concat q with h | ⟨q', e, h⟩
    · exact h.symm
    · subst h
      rw [List.concat_eq_append] at hq
      obtain ⟨b, _, h2⟩ := hq.split
      obtain ⟨_, he, hch⟩ := h2.single_inv
      exact absurd hch (hroot e he)
  | succ n ih =>
    intro v p q hn hp hq
    rcases List.eq_nil_or_concat p with h | ⟨p', e, h⟩
    · subst h; simp at hn
    · subst h
      rw [List.concat_eq_append] at hp hn
      obtain ⟨b, hp1, hp2⟩ := hp.split
      obtain ⟨hb, he, hch⟩ := hp2.single_inv
      subst hb
      rcases List.eq_nil_or_concat q with h | ⟨q', e', h⟩
      · subst h
        have := hq.nil_inv
        rw [← this] at hch
        exact absurd hch (hroot e he)
      · subst h
        rw [List.concat_eq_append] at hq
        obtain ⟨b', hq1, hq2⟩ := hq.split
        obtain ⟨hb', he', hch'⟩ := hq2.single_inv
        subst hb'
        -- both paths end in an edge into `v`
        have hee : e' = e := hin e' he' e he (by rw [hch, hch'])
        subst hee
        have := ih e'.parent p' q' (by simpa using hn) hp1 hq1
        rw [this, List.concat_eq_append]

/-! ## Graph construction does not depend on the directory listing order -/

/-- well-formed directory: no two different version strings (file stems, both sides of `#`) share a lookup key
(a plain name, or either half of `client~server`) -/
def WellFormedDir (dir : List (JStr × Bytes)) : Prop := KeysDisjoint (dirVersions dir)

/-- the domain predicate is decidable (the driver and the harness evaluate it on every generated directory) -/
theorem wellFormed_decidable (dir : List (JStr × Bytes)) :
    keysDisjointB (dirVersions dir) = true ↔ WellFormedDir dir :=
  keysDisjointB_iff _

/-- closed form of the graph built from a well-formed directory: the lookup table, the edges and the root are given by
the *set* of files, not by the order in which `read_dir` lists them -/
theorem graph_closed_form {dir : List (JStr × Bytes)} {g : Graph} (hwf : WellFormedDir dir)
    (h : addFiles Graph.empty dir = some g) :
    (∀ k sp n, AList.lookup k g.versions = some (sp, n) ↔ (n ∈ dirVersions dir ∧ keyKind k n = some sp)) ∧
    g.edges = dirEdges dir ∧
    ((dirRoots dir = [] ∧ g.root = none) ∨ (∃ r, dirRoots dir = [r] ∧ g.root = some r)) := by
  obtain ⟨⟨seen', hseen, hspec⟩, he, hr⟩ :=
    addFiles_spec dir versionsSpec_empty (by simpa [WellFormedDir] using hwf) h
  refine ⟨?_, by simpa [Graph.empty] using he, by simpa [Graph.empty] using hr⟩
  intro k sp n
  rw [hspec k sp n, hseen n]
  simp

/-- **every plain version is reachable under its name and every `client~server` version under either half**
(`_partial`: on well-formed directories; with a shared key only one of the colliding versions can own it) -/
theorem lookup_names_partial {dir : List (JStr × Bytes)} {g : Graph} (hwf : WellFormedDir dir)
    (h : addFiles Graph.empty dir = some g) {vs : JStr} (hvs : vs ∈ dirVersions dir) :
    (splitOnce TILDE vs = none → AList.lookup vs g.versions = some (Split.none, vs)) ∧
    (∀ c s, splitOnce TILDE vs = some (c, s) →
      AList.lookup c g.versions = some (Split.first, vs) ∧
      (s ≠ c → AList.lookup s g.versions = some (Split.second, vs))) := by
  obtain ⟨hl, _, _⟩ := graph_closed_form hwf h
  constructor
  · intro hs
    exact (hl vs Split.none vs).mpr ⟨hvs, by simp [keyKind, hs]⟩
  · intro c s hs
    exact ⟨(hl c Split.first vs).mpr ⟨hvs, by simp [keyKind, hs]⟩,
      fun hne => (hl s Split.second vs).mpr ⟨hvs, by simp [keyKind, hs, hne]⟩⟩

/-- **unknown version**: a name that is no key of any version string of the directory is unknown (`get` fails) -/
theorem unknown_version {dir : List (JStr × Bytes)} {g : Graph} (hwf : WellFormedDir dir)
    (h : addFiles Graph.empty dir = some g) {k : JStr}
    (hk : ∀ n, n ∈ dirVersions dir → keyKind k n = none) : AList.lookup k g.versions = none := by
  obtain ⟨hl, _, _⟩ := graph_closed_form hwf h
  cases hq : AList.lookup k g.versions with
  | none => rfl
  | some q =>
    obtain ⟨sp, n⟩ := q
    obtain ⟨hn, hkk⟩ := (hl k sp n).mp hq
    rw [hk n hn] at hkk
    simp at hkk

theorem dirVersions_perm {d d' : List (JStr × Bytes)} (hp : d'.Perm d) (n : JStr) :
    n ∈ dirVersions d' ↔ n ∈ dirVersions d := by
  simp only [dirVersions, List.mem_flatMap]
  constructor
  · intro ⟨f, hf, hn⟩; exact ⟨f, hp.mem_iff.mp hf, hn⟩
  · intro ⟨f, hf, hn⟩; exact ⟨f, hp.mem_iff.mpr hf, hn⟩

theorem wellFormed_perm {dir dir' : List (JStr × Bytes)} (hp : dir'.Perm dir) (hwf : WellFormedDir dir) :
    WellFormedDir dir' := by
  intro v1 h1 v2 h2 hne k hk
  exact hwf v1 ((dirVersions_perm hp v1).mp h1) v2 ((dirVersions_perm hp v2).mp h2) hne k hk

/-- **the scan fails in one listing order iff it fails in every other** — for ALL directories, well formed or not: it
fails exactly when some `.tinydiff` stem has no `#` or there are two `.tiny` files -/
theorem scan_error_iff (dir : List (JStr × Bytes)) :
    addFiles Graph.empty dir = none ↔ (dir.any badDiffName = true ∨ 2 ≤ (dirRoots dir).length) := by
  rw [addFiles_none_iff]
  simp [rootBit, Graph.empty]

theorem scan_error_perm {dir dir' : List (JStr × Bytes)} (hp : dir'.Perm dir) :
    addFiles Graph.empty dir' = none ↔ addFiles Graph.empty dir = none := by
  rw [scan_error_iff, scan_error_iff]
  have h1 : dir'.any badDiffName = dir.any badDiffName := by
    cases h : dir.any badDiffName with
    | true =>
      rw [List.any_eq_true] at h ⊢
      obtain ⟨x, hx, hb⟩ := h
      exact ⟨x, hp.mem_iff.mpr hx, hb⟩
    | false =>
      rw [List.any_eq_false] at h ⊢
      intro x hx
      exact h x (hp.mem_iff.mp hx)
  have h2 : (dirRoots dir').length = (dirRoots dir).length := (hp.filterMap _).length_eq
  rw [h1, h2]

/-- **order independence of the graph**: any two listing orders of a well-formed directory give the same lookup table,
the same edge set and the same root -/
theorem resolve_perm_partial {dir dir' : List (JStr × Bytes)} {g g' : Graph} (hp : dir'.Perm dir)
    (hwf : WellFormedDir dir)
    (h : addFiles Graph.empty dir = some g) (h' : addFiles Graph.empty dir' = some g') :
    (∀ k, AList.lookup k g'.versions = AList.lookup k g.versions) ∧ g'.edges.Perm g.edges ∧ g'.root = g.root := by
  have hwf' : WellFormedDir dir' := wellFormed_perm hp hwf
  obtain ⟨hl, he, hr⟩ := graph_closed_form hwf h
  obtain ⟨hl', he', hr'⟩ := graph_closed_form hwf' h'
  refine ⟨?_, ?_, ?_⟩
  · intro k
    cases hq : AList.lookup k g.versions with
    | some q =>
      obtain ⟨sp, n⟩ := q
      obtain ⟨hn, hkk⟩ := (hl k sp n).mp hq
      exact (hl' k sp n).mpr ⟨(dirVersions_perm hp n).mpr hn, hkk⟩
    | none =>
      cases hq' : AList.lookup k g'.versions with
      | none => rfl
      | some q =>
        obtain ⟨sp, n⟩ := q
        obtain ⟨hn, hkk⟩ := (hl' k sp n).mp hq'
        have := (hl k sp n).mpr ⟨(dirVersions_perm hp n).mp hn, hkk⟩
        rw [hq] at this; simp at this
  · rw [he, he']
    exact hp.filterMap _
  · have hroots : (dirRoots dir').Perm (dirRoots dir) := hp.filterMap _
    rcases hr with ⟨hn, hg⟩ | ⟨r, hn, hg⟩ <;> rcases hr' with ⟨hn', hg'⟩ | ⟨r', hn', hg'⟩
    · rw [hg, hg']
    · rw [hn, hn'] at hroots; simp at hroots
    · rw [hn, hn'] at hroots; simp at hroots
    · rw [hn, hn'] at hroots
      have : r' = r := by simpa using hroots
      rw [hg, hg', this]

/-- **order independence of `resolve`**: it fails in one listing order of a well-formed directory iff it fails in every
other (scan errors, missing root, unreadable root, loop), and two successful runs agree on every lookup, on the edge set,
on the root and on the root mappings -/
theorem resolve_outcome_perm_partial (c : Content M D) {dir dir' : List (JStr × Bytes)} (hp : dir'.Perm dir)
    (hwf : WellFormedDir dir) :
    (resolve c dir' = none ↔ resolve c dir = none) ∧
    ∀ r r', resolve c dir = some r → resolve c dir' = some r' →
      (∀ k, get r' k = get r k) ∧ r'.graph.edges.Perm r.graph.edges ∧ r'.rootName = r.rootName ∧
        r'.rootMapping = r.rootMapping := by
  cases ha : addFiles Graph.empty dir with
  | none =>
    have ha' := (scan_error_perm hp).mpr ha
    constructor
    · simp [resolve, ha, ha']
    · intro r r' h; simp [resolve, ha] at h
  | some g =>
    cases ha' : addFiles Graph.empty dir' with
    | none => rw [(scan_error_perm hp).mp ha'] at ha; simp at ha
    | some g' =>
      obtain ⟨hl, he, hr⟩ := resolve_perm_partial hp hwf ha ha'
      rw [resolve_of_scan c ha, resolve_of_scan c ha', hr]
      cases hroot : g.root with
      | none => simp
      | some q =>
        obtain ⟨rn, rb⟩ := q
        simp only
        cases c.readRoot rb with
        | none => simp
        | some m =>
          simp only
          have hw : walkOk g' (g'.edges.length + 1) [] rn = walkOk g (g.edges.length + 1) [] rn := by
            rw [he.length_eq]
            exact walkOk_perm he _ _ _
          rw [hw]
          cases walkOk g (g.edges.length + 1) [] rn with
          | false => simp
          | true =>
            simp only [if_true]
            constructor
            · simp
            · intro r r' h h'
              simp only [Option.some.injEq] at h h'
              subst h; subst h'
              exact ⟨fun k => by simp [VG.get, hl k], he, rfl, rfl⟩

/-- **order independence of the answers**: for a well-formed directory without duplicate file names the admissible
answers for every version are the same in every listing order -/
theorem answers_perm_partial (c : Content M D) {dir dir' : List (JStr × Bytes)} (hp : dir'.Perm dir)
    (hwf : WellFormedDir dir) (hnd : (dir.map Prod.fst).Nodup) {r r' : Resolved M}
    (h : resolve c dir = some r) (h' : resolve c dir' = some r') (target : JStr) :
    ∀ a, a ∈ applyDiffs c r' target ↔ a ∈ applyDiffs c r target := by
  obtain ⟨_, he, hrn, hrm⟩ := (resolve_outcome_perm_partial c hp hwf).2 r r' h h'
  obtain ⟨_, ha, _, _, _⟩ := resolve_some h
  obtain ⟨_, ha', _, _, _⟩ := resolve_some h'
  have hnd' : (dir'.map Prod.fst).Nodup := (hp.map _).nodup_iff.mpr hnd
  have hnp : NoParallel r.graph := by
    intro e1 h1 e2 h2
    rw [(graph_closed_form hwf ha).2.1] at h1 h2
    exact dirEdges_noParallel hnd e1 h1 e2 h2
  have hnp' : NoParallel r'.graph := by
    intro e1 h1 e2 h2
    rw [(graph_closed_form (wellFormed_perm hp hwf) ha').2.1] at h1 h2
    exact dirEdges_noParallel hnd' e1 h1 e2 h2
  have hlive : ∀ e, e ∈ (live r'.graph).edges ↔ e ∈ (live r.graph).edges := by
    intro e
    simp only [live, liveEdges_of_noParallel hnp, liveEdges_of_noParallel hnp']
    exact he.mem_iff
  have hsp : ∀ p, p ∈ shortestPaths r'.graph r'.rootName target ↔ p ∈ shortestPaths r.graph r.rootName target := by
    intro p
    rw [mem_shortestPaths_iff, mem_shortestPaths_iff, hrn, he.length_eq]
    have hpath : ∀ q, IsPath (live r'.graph) r.rootName target q ↔ IsPath (live r.graph) r.rootName target q :=
      fun q => ⟨fun hq => hq.mono (fun e he => (hlive e).mp he), fun hq => hq.mono (fun e he => (hlive e).mpr he)⟩
    constructor
    · intro ⟨h1, h2, h3⟩
      exact ⟨(hpath p).mp h1, fun q hq => h2 q ((hpath q).mpr hq), h3⟩
    · intro ⟨h1, h2, h3⟩
      exact ⟨(hpath p).mpr h1, fun q hq => h2 q ((hpath q).mp hq), h3⟩
  intro a
  simp only [applyDiffs, List.mem_map]
  constructor
  · intro ⟨p, hp1, hp2⟩
    exact ⟨p, (hsp p).mp hp1, by rw [← hp2]; simp [applyAlong, hrm]⟩
  · intro ⟨p, hp1, hp2⟩
    exact ⟨p, (hsp p).mpr hp1, by rw [← hp2]; simp [applyAlong, hrm]⟩

/-- the directory of the negative theorem: `b` is both a plain version and the server half of `a~b` -/
def collisionDir : List (JStr × Bytes) :=
  [(jstr "r.tiny", [0]), (jstr "r#a~b.tinydiff", [1]), (jstr "r#b.tinydiff", [2])]

/-- **negative**: without `WellFormedDir` the graph depends on the listing order. Listing `collisionDir` forwards makes
`b` an alias of the node `a~b` (one node below the root, two parallel edges), listing it backwards makes `b` a node of
its own. (The property text calls a directory well formed when it has one root and `parent#child` diff files; this one
has, so order independence as literally stated fails here.) -/
theorem resolve_perm_collision_witness :
    collisionDir.reverse.Perm collisionDir ∧ ¬ WellFormedDir collisionDir ∧
    (addFiles Graph.empty collisionDir).map (fun g => (AList.lookup (jstr "b") g.versions, g.nodes.length)) =
      some (some (Split.second, jstr "a~b"), 2) ∧
    (addFiles Graph.empty collisionDir.reverse).map (fun g => (AList.lookup (jstr "b") g.versions, g.nodes.length)) =
      some (some (Split.none, jstr "b"), 3) := by
  refine ⟨List.reverse_perm _, ?_, by decide, by decide⟩
  rw [← wellFormed_decidable]
  decide

/-! ## Error shapes -/

/-- **no root**: a directory without a `.tiny` file is rejected (any directory, any listing order) -/
theorem no_root_is_error (c : Content M D) {dir : List (JStr × Bytes)} (h : dirRoots dir = []) :
    resolve c dir = none := by
  cases ha : addFiles Graph.empty dir with
  | none => simp [resolve, ha]
  | some g =>
    have : g.root = none := by
      rw [addFiles_root_none dir ha h]; rfl
    rw [resolve_of_scan c ha, this]

/-- **two roots**: a directory with two `.tiny` files is rejected (any directory, any listing order) -/
theorem two_roots_is_error (c : Content M D) {dir : List (JStr × Bytes)} (h : 2 ≤ (dirRoots dir).length) :
    resolve c dir = none := by
  have := (scan_error_iff dir).mpr (Or.inr h)
  simp [resolve, this]

/-- a `.tinydiff` whose stem has no `#` is rejected (any directory, any listing order) -/
theorem bad_diff_name_is_error (c : Content M D) {dir : List (JStr × Bytes)} {f : JStr × Bytes} (hf : f ∈ dir)
    (hb : badDiffName f = true) : resolve c dir = none := by
  have := (scan_error_iff dir).mpr (Or.inl (List.any_eq_true.mpr ⟨f, hf, hb⟩))
  simp [resolve, this]

/-- **cycle**: a cycle that can be reached from the root is rejected by `resolve` (with any amount of fuel: the
recursion bound of the model never hides a loop) -/
theorem cycle_is_error (c : Content M D) {dir : List (JStr × Bytes)} {g : Graph} {rootName : JStr} {rb : Bytes}
    (ha : addFiles Graph.empty dir = some g) (hroot : g.root = some (rootName, rb))
    (hcyc : ReachableCycle g rootName) : resolve c dir = none := by
  obtain ⟨v, p, q, hp, hq, hne⟩ := hcyc
  obtain ⟨p', hp', hlen⟩ := cycle_unbounded hp hq hne (g.edges.length + 1)
  have hw := walk_long_false (g.edges.length + 1) [] rootName v p' hp' hlen
  rw [resolve_of_scan c ha, hroot]
  simp only
  cases c.readRoot rb with
  | none => rfl
  | some m => simp [hw]

/-- **the loop check has no false alarms** (fuel sufficiency of the model's walk): a scanned directory with a readable
root and no cycle reachable from the root resolves -/
theorem acyclic_resolves (c : Content M D) {dir : List (JStr × Bytes)} {g : Graph} {rootName : JStr} {rb : Bytes}
    {m : M} (ha : addFiles Graph.empty dir = some g) (hroot : g.root = some (rootName, rb))
    (hm : c.readRoot rb = some m) (hac : ¬ ReachableCycle g rootName) :
    resolve c dir = some { graph := g, rootName := rootName, rootMapping := m } := by
  have hw : walkOk g (g.edges.length + 1) [] rootName = true := by
    cases h : walkOk g (g.edges.length + 1) [] rootName with
    | true => rfl
    | false =>
      exact absurd (walk_false_cycle (g.edges.length + 1) [] rootName [] (IsPath.nil _) rfl List.nodup_nil
        (by simp) h) hac
  rw [resolve_of_scan c ha, hroot]
  simp [hm, hw]

/-- **a version on a cycle never gets an arbitrary answer**: either the directory is rejected, or (the cycle cannot be
reached from the root) `apply_diffs` reports that there is no path -/
theorem cycle_node_error (c : Content M D) {dir : List (JStr × Bytes)} {r : Resolved M}
    (h : resolve c dir = some r) {v : JStr} {q : List Edge} (hq : IsPath r.graph v v q) (hne : q ≠ []) :
    applyDiffs c r v = [] := by
  apply unreachable_is_error
  intro p hp
  obtain ⟨rb, ha, hroot, _, _⟩ := resolve_some h
  have := cycle_is_error c ha hroot ⟨v, p, q, hp, hq, hne⟩
  rw [h] at this
  simp at this

/-! ## Non-vacuity -/

/-- a diamond `r -> a~x -> c`, `r -> b -> c` plus a stray file, in some listing order -/
def exampleDir : List (JStr × Bytes) :=
  [(jstr "a~x#c.tinydiff", [1]), (jstr "r.tiny", [0]), (jstr "r#a~x.tinydiff", [2]),
   (jstr "b#c.tinydiff", [3]), (jstr "r#b.tinydiff", [4]), (jstr "notes.txt", [9])]

/-- a content pipeline that records what happened: mappings = list of file ids applied so far -/
def traceContent : Content (List Nat) Nat where
  readRoot b := some b
  readDiff b := b.head?
  apply d m := some (m ++ [d])
  extend m := some (m ++ [100])

example : WellFormedDir exampleDir ∧ (exampleDir.map Prod.fst).Nodup := by
  refine ⟨(wellFormed_decidable _).mp (by decide), by decide⟩

example :
    (resolve traceContent exampleDir).map (fun r => (r.graph.nodes, get r (jstr "x"), r.graph.edges.length, r.rootName,
      applyDiffs traceContent r (jstr "c"), applyDiffs traceContent r (jstr "b"), applyDiffs traceContent r (jstr "q"),
      depth r (jstr "c"))) =
    some ([jstr "c", jstr "a~x", jstr "r", jstr "b"], some (Split.second, jstr "a~x"), 4, jstr "r",
      [some [0, 2, 1, 100], some [0, 4, 3, 100]], [some [0, 4, 100]], [], 2) := by
  rfl

/-- the same files listed backwards: same admissible answers (in another order) -/
example :
    (resolve traceContent exampleDir.reverse).map (fun r => applyDiffs traceContent r (jstr "c")) =
    some [some [0, 4, 3, 100], some [0, 2, 1, 100]] := by
  rfl

/-- a cycle below the root is rejected; a cycle the root cannot reach is not, its versions have no answer -/
example :
    resolve traceContent [(jstr "r.tiny", [0]), (jstr "r#a.tinydiff", [1]), (jstr "a#b.tinydiff", [2]),
      (jstr "b#a.tinydiff", [3])] = none ∧
    (resolve traceContent [(jstr "r.tiny", [0]), (jstr "c#b.tinydiff", [2]), (jstr "b#c.tinydiff", [3])]).map
      (fun r => applyDiffs traceContent r (jstr "b")) = some [] := by
  exact ⟨rfl, rfl⟩

end Thm.C05
