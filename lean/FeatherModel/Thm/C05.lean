import FeatherModel.Model.VersionGraph
import FeatherModel.Lemmas.VersionGraph
import FeatherModel.Lemmas.VersionGraphPaths
import FeatherModel.Lemmas.VersionGraphScan
import FeatherModel.Lemmas.VersionGraphAlias
import FeatherModel.Lemmas.VersionGraphPerm

/-!
# C05 — version graph resolves each version to root plus the diffs on its path
Theorems hold for every content pipeline `c : Content M D` (the driver instantiates it with the tiny-diff application and
inner-class-name models; reading of `.tiny` / `.tinydiff` text is C03 / C04).

Vocabulary (all in `Model/VersionGraph.lean`):
* `resolve c dir` — `VersionGraph::resolve` on the directory listing `dir` (file name, content) in `read_dir` order;
* `applyDiffs c r v` — the *admissible* results of `apply_diffs(v)`: one per shortest root path (`petgraph::astar` with
  unit weights is assumed to return some shortest path; which one is not specified), `[]` = "there is no path";
* `IsPath g a b p` — `p` is a chain of edges from `a` to `b`; `live g` — the edges `find_edge` can return.

What the file names of a directory *say* (functions of the set of files, `Model/VersionGraph.lean`): `dirVersions` (the
version strings: file stems, both sides of `#`), `nodeStrings` (those that name a node: every `client~server` string, and
every plain string that is not a half of one), `nodeOf` (the node a version string stands for: a plain string that is a
half of a `client~server` string of the directory is an *alias* of that node), `nodeEdges`, `dirRoots`;
`Ambiguous` (two different `client~server` strings share a half) and `DupEdges` (two diff files join the same ordered pair
of nodes) are the two new ways a directory can be rejected.

`resolve` first sorts the listing, registers every `client~server` string, and only then walks over the files: the graph
is a function of the set of files (`resolve_perm`, all directories, no hypothesis), and of a real directory (no two
entries with the same name) even literally the same value in every listing order (`resolve_perm_eq`).
-/

namespace Thm.C05
open VG

variable {M D : Type}

/-! ## `resolve` unfolded -/

theorem resolve_some {c : Content M D} {dir : List (JStr × Bytes)} {r : Resolved M} (h : resolve c dir = some r) :
    ∃ rb, scan dir = some r.graph ∧ r.graph.root = some (r.rootName, rb) ∧
      c.readRoot rb = some r.rootMapping ∧ walkOk r.graph (r.graph.edges.length + 1) [] r.rootName = true := by
  unfold resolve at h
  cases ha : scan dir with
  | none => rw [ha] at h; simp at h
  | some g =>
    rw [ha] at h; simp only at h
    cases hr : g.root with
    | none => rw [hr] at h; simp at h
    | some q =>
      obtain ⟨rn, rb⟩ := q
      rw [hr] at h; simp only at h
      cases hm : c.readRoot rb with
      | none => rw [hm] at h; simp at h
      | some m =>
        rw [hm] at h; simp only at h
        split at h
        · rename_i hw
          simp only [Option.some.injEq] at h
          subst h
          exact ⟨rb, rfl, hr, hm, hw⟩
        · simp at h

theorem resolve_of_scan (c : Content M D) {dir : List (JStr × Bytes)} {g : Graph}
    (ha : scan dir = some g) :
    resolve c dir =
      match g.root with
      | none => none
      | some (rootName, rootBytes) =>
        match c.readRoot rootBytes with
        | none => none
        | some m =>
          if walkOk g (g.edges.length + 1) [] rootName then some { graph := g, rootName := rootName, rootMapping := m }
          else none := by
  unfold resolve
  rw [ha]
  rfl

/-! ## The answer is the fold of the diffs along a shortest root path, then extension -/

/-- **answer = left fold of the diffs along a root path, then inner-class-name extension**; the path is a shortest one
among ALL root paths of the graph (this is what the `astar` call with unit weights contributes) -/
theorem apply_is_fold (c : Content M D) (r : Resolved M) (target : JStr) :
    ∀ a, a ∈ applyDiffs c r target → ∃ p, IsPath r.graph r.rootName target p ∧
      (∀ q, IsPath r.graph r.rootName target q → p.length ≤ q.length) ∧
      a = (foldPath c r.rootMapping p).bind c.extend := by
  intro a ha
  simp only [applyDiffs, List.mem_map] at ha
  obtain ⟨p, hp, rfl⟩ := ha
  obtain ⟨h1, h2, _⟩ := mem_shortestPaths_iff.mp hp
  refine ⟨p, h1.of_live, ?_, ?_⟩
  · intro q hq
    obtain ⟨q', hq1, hq2⟩ := hq.to_live
    rw [← hq2]
    exact h2 q' hq1
  · simp only [applyAlong]
    cases foldPath c r.rootMapping p <;> rfl

/-- the diff file used for a step `a -> b` of that path is the one `find_edge(a, b)` returns -/
theorem apply_path_live (r : Resolved M) (target : JStr) {p : List Edge}
    (hp : p ∈ shortestPaths r.graph r.rootName target) :
    ∀ e, e ∈ p → findEdge r.graph e.parent e.child = some e := by
  intro e he
  have h1 := (mem_shortestPaths_iff.mp hp).1
  have := h1.mem_edges e he
  simp only [live, liveEdges, List.mem_filter, decide_eq_true_eq] at this
  exact this.2

/-- on a graph that passed the loop check every version that can be reached from the root has an answer -/
theorem reachable_has_answer (c : Content M D) {dir : List (JStr × Bytes)} {r : Resolved M}
    (h : resolve c dir = some r) {target : JStr} {p : List Edge} (hp : IsPath r.graph r.rootName target p) :
    applyDiffs c r target ≠ [] := by
  obtain ⟨_, _, _, _, hw⟩ := resolve_some h
  obtain ⟨q, hq1, hq2⟩ := hp.to_live
  have hlen : q.length ≤ r.graph.edges.length := by
    cases Nat.lt_or_ge r.graph.edges.length q.length with
    | inr h => exact h
    | inl hlt =>
      have := walk_long_false (r.graph.edges.length + 1) [] r.rootName target p hp (by omega)
      rw [this] at hw; simp at hw
  -- the search stops at the first non-empty level, at the latest at `q.length`
  have key : ∀ (fuel len : Nat), len ≤ q.length → q.length < len + fuel →
      shortestPaths.go r.graph r.rootName target fuel len ≠ [] := by
    intro fuel
    induction fuel with
    | zero => intro len h1 h2; omega
    | succ f ih =>
      intro len h1 h2
      simp only [shortestPaths.go]
      cases hps : pathsOfLen r.graph len r.rootName target with
      | cons x xs => simp
      | nil =>
        simp only
        have hne : len ≠ q.length := by
          intro he
          have : q ∈ pathsOfLen r.graph len r.rootName target := (mem_pathsOfLen _ _ _ _).mpr ⟨hq1, he.symm⟩
          rw [hps] at this; simp at this
        exact ih (len + 1) (by omega) (by omega)
  have := key (r.graph.edges.length + 1) 0 (Nat.zero_le _) (by omega)
  intro hnil
  simp only [applyDiffs, List.map_eq_nil_iff] at hnil
  exact this hnil

/-- **unreachable version**: `apply_diffs` has no admissible answer ("there is no path") -/
theorem unreachable_is_error (c : Content M D) (r : Resolved M) (target : JStr)
    (h : ∀ p, ¬ IsPath r.graph r.rootName target p) : applyDiffs c r target = [] := by
  cases hs : shortestPaths r.graph r.rootName target with
  | nil => simp [applyDiffs, hs]
  | cons p ps =>
    have hp : p ∈ shortestPaths r.graph r.rootName target := by rw [hs]; simp
    exact absurd (mem_shortestPaths_iff.mp hp).1.of_live (h p)

/-! ## Path independence -/

/-- every node carries a mapping set and every edge file is a diff that turns the parent's set into the child's -/
def Consistent (c : Content M D) (g : Graph) (label : JStr → Option M) : Prop :=
  ∀ e, e ∈ g.edges → ∀ mp, label e.parent = some mp →
    ∃ d mc, c.readDiff e.content = some d ∧ c.apply d mp = some mc ∧ label e.child = some mc

/-- on a consistent graph the fold along ANY path from a labelled node ends in the label of the end node -/
theorem fold_path_label (c : Content M D) {g : Graph} {label : JStr → Option M} (hc : Consistent c g label)
    {src dst : JStr} {p : List Edge} (hp : IsPath g src dst p) :
    ∀ m, label src = some m → ∃ m', foldPath c m p = some m' ∧ label dst = some m' := by
  induction hp with
  | nil n => intro m hm; exact ⟨m, rfl, hm⟩
  | cons he _ ih =>
    intro m hm
    obtain ⟨d, mc, hd, ha, hl⟩ := hc _ he m hm
    obtain ⟨m', hf, hl'⟩ := ih mc hl
    exact ⟨m', by simp [foldPath, hd, ha, hf], hl'⟩

/-- **path independence**: when every node carries `M_v` and every edge file is a diff from its parent's set to its
child's, every admissible answer for `v` is `extend M_v` — whatever path is taken (hence whatever the listing order made
the path search prefer); in particular on trees, where the labels are given by the unique root paths -/
theorem path_independent (c : Content M D) (r : Resolved M) {label : JStr → Option M}
    (hc : Consistent c r.graph label) (hroot : label r.rootName = some r.rootMapping) (target : JStr) :
    ∀ a, a ∈ applyDiffs c r target → ∃ mv, label target = some mv ∧ a = c.extend mv := by
  intro a ha
  simp only [applyDiffs, List.mem_map] at ha
  obtain ⟨p, hp, rfl⟩ := ha
  obtain ⟨m', hf, hl⟩ := fold_path_label c hc (mem_shortestPaths_iff.mp hp).1.of_live _ hroot
  exact ⟨m', hl, by simp [applyAlong, hf]⟩

/-- a version with a single incoming edge per node on the way (a tree) has a single root path: if no node has two
incoming edges and the root has none, any two root paths to the same version are equal -/
theorem tree_unique_path {g : Graph} {root : JStr}
    (hin : ∀ e1, e1 ∈ g.edges → ∀ e2, e2 ∈ g.edges → e1.child = e2.child → e1 = e2)
    (hroot : ∀ e, e ∈ g.edges → e.child ≠ root) :
    ∀ (n : Nat) (v : JStr) (p q : List Edge), p.length = n → IsPath g root v p → IsPath g root v q → p = q := by
  intro n
  induction n with
  | zero =>
    intro v p q hn hp hq
    have : p = [] := List.eq_nil_of_length_eq_zero hn
    subst this
    have hv := hp.nil_inv
    subst hv
    -- `q` is a path root -> root; a non-empty one would end in an edge into the root
    rcases List.eq_nil_or_concat q with h | ⟨q', e, h⟩
    · exact h.symm
    · subst h
      rw [List.concat_eq_append] at hq
      obtain ⟨b, _, h2⟩ := hq.split
      obtain ⟨_, he, hch⟩ := h2.single_inv
      exact absurd hch (hroot e he)
  | succ n ih =>
    intro v p q hn hp hq
    rcases List.eq_nil_or_concat p with h | ⟨p', e, h⟩
    · subst h; simp at hn
    · subst h
      rw [List.concat_eq_append] at hp hn
      obtain ⟨b, hp1, hp2⟩ := hp.split
      obtain ⟨hb, he, hch⟩ := hp2.single_inv
      subst hb
      rcases List.eq_nil_or_concat q with h | ⟨q', e', h⟩
      · subst h
        have := hq.nil_inv
        rw [← this] at hch
        exact absurd hch (hroot e he)
      · subst h
        rw [List.concat_eq_append] at hq
        obtain ⟨b', hq1, hq2⟩ := hq.split
        obtain ⟨hb', he', hch'⟩ := hq2.single_inv
        subst hb'
        -- both paths end in an edge into `v`
        have hee : e' = e := hin e' he' e he (by rw [hch, hch'])
        subst hee
        have := ih e'.parent p' q' (by simpa using hn) hp1 hq1
        rw [this, List.concat_eq_append]

/-! ## The scan: closed form, errors -/

/-- closed form of the scan in terms of what the file names of `dir` say, for EVERY directory and listing order (the
sorted listing `resolve` works on is a permutation of `dir`) -/
theorem scan_spec (dir : List (JStr × Bytes)) :
    match scan dir with
    | some g => dir.any badDiffName = false ∧ KeysDisjoint (splitsOf (dirVersions dir)) ∧
        (dirRoots dir).length ≤ 1 ∧ (pairs (nodeEdges dir)).Nodup ∧
        VersionsSpec g (nodeStrings (dirVersions dir)) ∧ NodesSpec g (nodeStrings (dirVersions dir)) ∧
        g.edges.Perm (nodeEdges dir) ∧ g.root = ((dirRoots dir).map (rootAt (dirVersions dir))).head?
    | none => dir.any badDiffName = true ∨ ¬ KeysDisjoint (splitsOf (dirVersions dir)) ∨
        2 ≤ (dirRoots dir).length ∨ ¬ (pairs (nodeEdges dir)).Nodup :=
  scanListed_spec_perm (sortFiles_perm dir)

/-- **the scan fails exactly for four reasons** (any directory, any listing order): a `.tinydiff` stem without `#`, an
ambiguous half, a second `.tiny` file, a second diff for an edge -/
theorem scan_error_iff (dir : List (JStr × Bytes)) :
    scan dir = none ↔ (dir.any badDiffName = true ∨ Ambiguous (dirVersions dir) ∨ 2 ≤ (dirRoots dir).length ∨
      DupEdges dir) := by
  have h := scan_spec dir
  constructor
  · intro hs
    rw [hs] at h
    exact h
  · intro hr
    cases hs : scan dir with
    | none => rfl
    | some g =>
      rw [hs] at h
      simp only at h
      obtain ⟨h1, h2, h3, h4, _⟩ := h
      rcases hr with h' | h' | h' | h'
      · rw [h1] at h'; simp at h'
      · exact absurd h2 h'
      · omega
      · exact absurd h4 h'

/-- `Ambiguous` spelled out: two different `client~server` version strings of the directory have a half in common
(`a~b` with `c~b`, `a~c`, `b~c`, `b~a`, `a~a`, …) -/
theorem ambiguous_iff (vss : List JStr) :
    Ambiguous vss ↔ ∃ v1 v2 k, v1 ∈ vss ∧ v2 ∈ vss ∧ isSplit v1 = true ∧ isSplit v2 = true ∧ v1 ≠ v2 ∧
      k ∈ keysOf v1 ∧ k ∈ keysOf v2 := by
  constructor
  · intro h
    cases Classical.em (∃ v1 v2 k, v1 ∈ vss ∧ v2 ∈ vss ∧ isSplit v1 = true ∧ isSplit v2 = true ∧ v1 ≠ v2 ∧
        k ∈ keysOf v1 ∧ k ∈ keysOf v2) with
    | inl h' => exact h'
    | inr h' =>
      exfalso
      apply h
      intro v1 h1 v2 h2 hne k hk hk2
      obtain ⟨m1, s1⟩ := mem_splitsOf.mp h1
      obtain ⟨m2, s2⟩ := mem_splitsOf.mp h2
      exact h' ⟨v1, v2, k, m1, m2, s1, s2, hne, hk, hk2⟩
  · intro ⟨v1, v2, k, m1, m2, s1, s2, hne, hk, hk2⟩ hd
    exact hd v1 (mem_splitsOf.mpr ⟨m1, s1⟩) v2 (mem_splitsOf.mpr ⟨m2, s2⟩) hne k hk hk2

/-- the predicates of the error characterisation are decidable (the driver and the harness evaluate them) -/
theorem ambiguous_decidable (vss : List JStr) : ambiguousB vss = true ↔ Ambiguous vss := by
  unfold ambiguousB Ambiguous
  rw [← keysDisjointB_iff]
  cases keysDisjointB (splitsOf vss) <;> simp

theorem distinctB_iff {α : Type} [BEq α] [LawfulBEq α] : ∀ (l : List α), distinctB l = true ↔ l.Nodup := by
  intro l
  induction l with
  | nil => simp [distinctB]
  | cons x xs ih => simp [distinctB, ih]

theorem dupEdges_decidable (dir : List (JStr × Bytes)) : dupEdgesB dir = true ↔ DupEdges dir := by
  unfold dupEdgesB DupEdges
  rw [← distinctB_iff]
  cases distinctB (List.map (fun e => (e.parent, e.child)) (nodeEdges dir)) <;> simp

/-- closed form of the graph of ANY directory that scans: the lookup table holds exactly the node strings, each under its
keys; the nodes are the node strings (each once); the edges are those of the diff files between the nodes their two
version strings stand for; the root is the node of the one `.tiny` file -/
theorem graph_closed_form {dir : List (JStr × Bytes)} {g : Graph} (h : scan dir = some g) :
    (∀ k sp n, AList.lookup k g.versions = some (sp, n) ↔ (n ∈ nodeStrings (dirVersions dir) ∧ keyKind k n = some sp)) ∧
    (∀ n, n ∈ g.nodes ↔ n ∈ nodeStrings (dirVersions dir)) ∧ g.nodes.Nodup ∧
    g.edges.Perm (nodeEdges dir) ∧
    ((dirRoots dir = [] ∧ g.root = none) ∨
      (∃ r, dirRoots dir = [r] ∧ g.root = some (nodeOf (dirVersions dir) r.1, r.2))) := by
  have hs := scan_spec dir
  rw [h] at hs
  simp only at hs
  obtain ⟨_, _, h3, _, h5, h6, h7, h8⟩ := hs
  refine ⟨h5, h6.1, h6.2, h7, ?_⟩
  cases hr : dirRoots dir with
  | nil => left; rw [hr] at h8; exact ⟨rfl, h8⟩
  | cons r rest =>
    cases rest with
    | nil => right; rw [hr] at h8; exact ⟨r, rfl, h8⟩
    | cons r2 rest2 => rw [hr] at h3; simp at h3

/-- a resolved graph never has two edges for one ordered pair of nodes (`find_edge` has nothing to choose) -/
theorem scanned_noParallel {dir : List (JStr × Bytes)} {g : Graph} (h : scan dir = some g) : NoParallel g := by
  have hs := scan_spec dir
  rw [h] at hs
  simp only at hs
  obtain ⟨_, _, _, h4, _, _, h7, _⟩ := hs
  have hnd : (pairs g.edges).Nodup := (pairs_perm h7).nodup_iff.mpr h4
  intro e1 h1 e2 h2 hp hc
  exact nodup_map_inj hnd h1 h2 (by simp [hp, hc])

/-- **every plain version is reachable under its name and every `client~server` version under either half** — full
strength, every directory that scans. A plain string that is a half of a `client~server` string of the directory is an
alias of that version (with the `Split` of the half), whatever file comes first -/
theorem lookup_names {dir : List (JStr × Bytes)} {g : Graph} (h : scan dir = some g) {vs : JStr}
    (hvs : vs ∈ dirVersions dir) :
    (splitOnce TILDE vs = none →
      AList.lookup vs g.versions =
        match ownerOf (dirVersions dir) vs with
        | some (sp, n) => some (sp, n)
        | none => some (Split.none, vs)) ∧
    (∀ c s, splitOnce TILDE vs = some (c, s) →
      AList.lookup c g.versions = some (Split.first, vs) ∧
      (s ≠ c → AList.lookup s g.versions = some (Split.second, vs))) := by
  obtain ⟨hl, _, _, _, _⟩ := graph_closed_form h
  constructor
  · intro hs
    cases ho : ownerOf (dirVersions dir) vs with
    | some q =>
      obtain ⟨sp, n⟩ := q
      obtain ⟨hn, hk⟩ := ownerOf_some ho
      obtain ⟨hm, hsp⟩ := mem_splitsOf.mp hn
      exact (hl vs sp n).mpr ⟨mem_nodeStrings.mpr ⟨hm, Or.inl hsp⟩, hk⟩
    | none =>
      exact (hl vs Split.none vs).mpr ⟨mem_nodeStrings.mpr ⟨hvs, Or.inr ho⟩, by simp [keyKind, hs]⟩
  · intro c s hs
    have hns : vs ∈ nodeStrings (dirVersions dir) :=
      mem_nodeStrings.mpr ⟨hvs, Or.inl (isSplit_iff.mpr ⟨_, hs⟩)⟩
    exact ⟨(hl c Split.first vs).mpr ⟨hns, by simp [keyKind, hs]⟩,
      fun hne => (hl s Split.second vs).mpr ⟨hns, by simp [keyKind, hs, hne]⟩⟩

/-- the node a version string of a file name stands for is a node of the graph, and is what the lookup of its first key
yields -/
theorem nodeOf_is_node {dir : List (JStr × Bytes)} {g : Graph} (h : scan dir = some g) {vs : JStr}
    (hvs : vs ∈ dirVersions dir) : nodeOf (dirVersions dir) vs ∈ g.nodes := by
  obtain ⟨_, hn, _, _, _⟩ := graph_closed_form h
  rw [hn]
  unfold nodeOf
  cases hsp : isSplit vs with
  | true => simp only [if_true]; exact mem_nodeStrings.mpr ⟨hvs, Or.inl hsp⟩
  | false =>
    simp only [Bool.false_eq_true, if_false]
    cases ho : ownerOf (dirVersions dir) vs with
    | none => exact mem_nodeStrings.mpr ⟨hvs, Or.inr ho⟩
    | some q =>
      obtain ⟨sp, n⟩ := q
      obtain ⟨hm, hs⟩ := mem_splitsOf.mp (ownerOf_some ho).1
      exact mem_nodeStrings.mpr ⟨hm, Or.inl hs⟩

/-- **unknown version**: a name that is no key of any version string of the directory is unknown (`get` fails) -/
theorem unknown_version {dir : List (JStr × Bytes)} {g : Graph} (h : scan dir = some g) {k : JStr}
    (hk : ∀ n, n ∈ dirVersions dir → keyKind k n = none) : AList.lookup k g.versions = none := by
  obtain ⟨hl, _, _, _, _⟩ := graph_closed_form h
  cases hq : AList.lookup k g.versions with
  | none => rfl
  | some q =>
    obtain ⟨sp, n⟩ := q
    obtain ⟨hn, hkk⟩ := (hl k sp n).mp hq
    rw [hk n (mem_nodeStrings.mp hn).1] at hkk
    simp at hkk

/-! ## Graph construction does not depend on the directory listing order -/

theorem dirVersions_perm {d d' : List (JStr × Bytes)} (hp : d'.Perm d) (n : JStr) :
    n ∈ dirVersions d' ↔ n ∈ dirVersions d := dirVersions_mem_perm hp n

/-- each of the four reasons is a property of the set of files -/
theorem scan_error_perm {dir dir' : List (JStr × Bytes)} (hp : dir'.Perm dir) : scan dir' = none ↔ scan dir = none := by
  have h := scanListed_spec_perm ((sortFiles_perm dir').trans hp)
  have h0 := scan_spec dir
  unfold scan at h0 ⊢
  cases hs' : scanListed (sortFiles dir') with
  | none =>
    rw [hs'] at h
    simp only at h
    cases hs : scanListed (sortFiles dir) with
    | none => simp
    | some g =>
      rw [hs] at h0
      simp only at h0
      obtain ⟨h1, h2, h3, h4, _⟩ := h0
      rcases h with h | h | h | h
      · rw [h1] at h; simp at h
      · exact absurd h2 h
      · omega
      · exact absurd h4 h
  | some g' =>
    rw [hs'] at h
    simp only at h
    obtain ⟨h1, h2, h3, h4, _⟩ := h
    cases hs : scanListed (sortFiles dir) with
    | some g => simp
    | none =>
      rw [hs] at h0
      simp only at h0
      rcases h0 with h | h | h | h
      · rw [h1] at h; simp at h
      · exact absurd h2 h
      · omega
      · exact absurd h4 h

/-- **order independence of the graph** — full strength: any two listing orders of ANY directory give the same lookup
table, the same nodes, the same edge set and the same root -/
theorem scan_perm {dir dir' : List (JStr × Bytes)} {g g' : Graph} (hp : dir'.Perm dir)
    (h : scan dir = some g) (h' : scan dir' = some g') :
    (∀ k, AList.lookup k g'.versions = AList.lookup k g.versions) ∧ g'.nodes.Perm g.nodes ∧
      g'.edges.Perm g.edges ∧ g'.root = g.root := by
  have hs := scan_spec dir
  have hs' := scanListed_spec_perm ((sortFiles_perm dir').trans hp)
  rw [h] at hs
  unfold scan at h'
  rw [h'] at hs'
  simp only at hs hs'
  obtain ⟨_, _, _, _, h5, h6, h7, h8⟩ := hs
  obtain ⟨_, _, _, _, h5', h6', h7', h8'⟩ := hs'
  refine ⟨?_, ?_, h7'.trans h7.symm, h8'.trans h8.symm⟩
  · intro k
    cases hq : AList.lookup k g.versions with
    | some q =>
      obtain ⟨sp, n⟩ := q
      exact (h5' k sp n).mpr ((h5 k sp n).mp hq)
    | none =>
      cases hq' : AList.lookup k g'.versions with
      | none => rfl
      | some q =>
        obtain ⟨sp, n⟩ := q
        have := (h5 k sp n).mpr ((h5' k sp n).mp hq')
        rw [hq] at this; simp at this
  · rw [List.perm_ext_iff_of_nodup h6'.2 h6.2]
    intro n
    rw [h6'.1 n, h6.1 n]

/-- **order independence of `resolve`** — full strength, every directory `dir` and every permutation `dir'` of it: it
fails in one listing order iff it fails in every other (bad diff name, ambiguous half, second root, second diff for an
edge, missing root, unreadable root, loop), and two successful runs agree on every lookup, on the nodes, on the edge set, on
the root and on the root mappings -/
theorem resolve_perm (c : Content M D) {dir dir' : List (JStr × Bytes)} (hp : dir'.Perm dir) :
    (resolve c dir' = none ↔ resolve c dir = none) ∧
    ∀ r r', resolve c dir = some r → resolve c dir' = some r' →
      (∀ k, get r' k = get r k) ∧ r'.graph.nodes.Perm r.graph.nodes ∧ r'.graph.edges.Perm r.graph.edges ∧
        r'.rootName = r.rootName ∧ r'.rootMapping = r.rootMapping := by
  cases ha : scan dir with
  | none =>
    have ha' := (scan_error_perm hp).mpr ha
    constructor
    · simp [resolve, ha, ha']
    · intro r r' h; simp [resolve, ha] at h
  | some g =>
    cases ha' : scan dir' with
    | none => rw [(scan_error_perm hp).mp ha'] at ha; simp at ha
    | some g' =>
      obtain ⟨hl, hn, he, hr⟩ := scan_perm hp ha ha'
      rw [resolve_of_scan c ha, resolve_of_scan c ha', hr]
      cases hroot : g.root with
      | none => simp
      | some q =>
        obtain ⟨rn, rb⟩ := q
        simp only
        cases c.readRoot rb with
        | none => simp
        | some m =>
          simp only
          have hw : walkOk g' (g'.edges.length + 1) [] rn = walkOk g (g.edges.length + 1) [] rn := by
            rw [he.length_eq]
            exact walkOk_perm he _ _ _
          rw [hw]
          cases walkOk g (g.edges.length + 1) [] rn with
          | false => simp
          | true =>
            simp only [if_true]
            constructor
            · simp
            · intro r r' h h'
              simp only [Option.some.injEq] at h h'
              subst h; subst h'
              exact ⟨fun k => by simp [VG.get, hl k], hn, he, rfl, rfl⟩

/-- **a real directory resolves to literally the same value in every listing order** (node list and edge list in the
same order as well): `resolve` sorts the listing, and a listing without repeated file names has one sorted form. Hence
everything computed from the result — also by code that is not modelled here, like the choice `petgraph::astar` makes
among equally short paths — is the same in every listing order -/
theorem resolve_perm_eq (c : Content M D) {dir dir' : List (JStr × Bytes)} (hp : dir'.Perm dir)
    (hnd : (dir.map Prod.fst).Nodup) : resolve c dir' = resolve c dir := by
  unfold resolve scan
  rw [sortFiles_eq_of_perm hp hnd]

theorem resolved_noParallel (c : Content M D) {dir : List (JStr × Bytes)} {r : Resolved M}
    (h : resolve c dir = some r) : NoParallel r.graph := by
  obtain ⟨_, ha, _, _, _⟩ := resolve_some h
  exact scanned_noParallel ha

/-- **order independence of the answers** — full strength: the admissible answers for every version are the same in
every listing order of every directory -/
theorem answers_perm (c : Content M D) {dir dir' : List (JStr × Bytes)} (hp : dir'.Perm dir) {r r' : Resolved M}
    (h : resolve c dir = some r) (h' : resolve c dir' = some r') (target : JStr) :
    ∀ a, a ∈ applyDiffs c r' target ↔ a ∈ applyDiffs c r target := by
  obtain ⟨_, _, he, hrn, hrm⟩ := (resolve_perm c hp).2 r r' h h'
  have hnp := resolved_noParallel c h
  have hnp' := resolved_noParallel c h'
  have hlive : ∀ e, e ∈ (live r'.graph).edges ↔ e ∈ (live r.graph).edges := by
    intro e
    simp only [live, liveEdges_of_noParallel hnp, liveEdges_of_noParallel hnp']
    exact he.mem_iff
  have hsp : ∀ p, p ∈ shortestPaths r'.graph r'.rootName target ↔ p ∈ shortestPaths r.graph r.rootName target := by
    intro p
    rw [mem_shortestPaths_iff, mem_shortestPaths_iff, hrn, he.length_eq]
    have hpath : ∀ q, IsPath (live r'.graph) r.rootName target q ↔ IsPath (live r.graph) r.rootName target q :=
      fun q => ⟨fun hq => hq.mono (fun e he => (hlive e).mp he), fun hq => hq.mono (fun e he => (hlive e).mpr he)⟩
    constructor
    · intro ⟨h1, h2, h3⟩
      exact ⟨(hpath p).mp h1, fun q hq => h2 q ((hpath q).mpr hq), h3⟩
    · intro ⟨h1, h2, h3⟩
      exact ⟨(hpath p).mpr h1, fun q hq => h2 q ((hpath q).mp hq), h3⟩
  intro a
  simp only [applyDiffs, List.mem_map]
  constructor
  · intro ⟨p, hp1, hp2⟩
    exact ⟨p, (hsp p).mp hp1, by rw [← hp2]; simp [applyAlong, hrm]⟩
  · intro ⟨p, hp1, hp2⟩
    exact ⟨p, (hsp p).mpr hp1, by rw [← hp2]; simp [applyAlong, hrm]⟩

/-! ## Regressions: the former order-dependence witness, and a half used as an alias -/

/-- the directory of the former negative theorem: `b` is both a plain version string and the server half of `a~b` -/
def collisionDir : List (JStr × Bytes) :=
  [(jstr "r.tiny", [0]), (jstr "r#a~b.tinydiff", [1]), (jstr "r#b.tinydiff", [2])]

/-- **regression** (formerly `resolve_perm_collision_witness`: forwards `b` was the node `a~b`, backwards a node of its
own). Now `b` stands for `a~b` in every listing order, which makes `r#a~b.tinydiff` and `r#b.tinydiff` two diffs for the one
edge `r → a~b`: the directory is rejected, in both listing orders (and by `resolve_perm` in every other) -/
theorem resolve_perm_collision_regression :
    collisionDir.reverse.Perm collisionDir ∧
    nodeOf (dirVersions collisionDir) (jstr "b") = jstr "a~b" ∧ DupEdges collisionDir ∧
    scan collisionDir = none ∧ scan collisionDir.reverse = none := by
  refine ⟨List.reverse_perm _, by decide, ?_, by decide, by decide⟩
  rw [← dupEdges_decidable]
  decide

/-- a diff names its parent `a~b` by the half `b` only -/
def aliasDir : List (JStr × Bytes) :=
  [(jstr "r.tiny", [0]), (jstr "r#a~b.tinydiff", [1]), (jstr "b#c.tinydiff", [2])]

/-- **regression**: `b` is the node `a~b` (three nodes, the chain `r → a~b → c`) forwards and backwards — before the
repair, listing `b#c.tinydiff` first made `b` a node of its own and left `a~b` without its second half -/
theorem alias_regression :
    (scan aliasDir).map (fun g => (AList.lookup (jstr "b") g.versions, g.nodes.length,
        g.edges.map fun e => (e.parent, e.child))) =
      some (some (Split.second, jstr "a~b"), 3, [(jstr "a~b", jstr "c"), (jstr "r", jstr "a~b")]) ∧
    scan aliasDir.reverse = scan aliasDir := by
  exact ⟨by decide, by decide⟩

/-! ## Error shapes -/

/-- **no root**: a directory without a `.tiny` file is rejected (any directory, any listing order) -/
theorem no_root_is_error (c : Content M D) {dir : List (JStr × Bytes)} (h : dirRoots dir = []) :
    resolve c dir = none := by
  cases ha : scan dir with
  | none => simp [resolve, ha]
  | some g =>
    have : g.root = none := by
      rcases (graph_closed_form ha).2.2.2.2 with ⟨_, hr⟩ | ⟨r, hr, _⟩
      · exact hr
      · rw [h] at hr; simp at hr
    rw [resolve_of_scan c ha, this]

/-- **two roots**: a directory with two `.tiny` files is rejected (any directory, any listing order) -/
theorem two_roots_is_error (c : Content M D) {dir : List (JStr × Bytes)} (h : 2 ≤ (dirRoots dir).length) :
    resolve c dir = none := by
  have := (scan_error_iff dir).mpr (Or.inr (Or.inr (Or.inl h)))
  simp [resolve, this]

/-- a `.tinydiff` whose stem has no `#` is rejected (any directory, any listing order) -/
theorem bad_diff_name_is_error (c : Content M D) {dir : List (JStr × Bytes)} {f : JStr × Bytes} (hf : f ∈ dir)
    (hb : badDiffName f = true) : resolve c dir = none := by
  have := (scan_error_iff dir).mpr (Or.inl (List.any_eq_true.mpr ⟨f, hf, hb⟩))
  simp [resolve, this]

/-- **ambiguous half**: two different `client~server` version strings with a common half are rejected (any directory, any
listing order) instead of letting the first one in the listing own the half -/
theorem ambiguous_is_error (c : Content M D) {dir : List (JStr × Bytes)} {v1 v2 k : JStr}
    (h1 : v1 ∈ dirVersions dir) (h2 : v2 ∈ dirVersions dir) (s1 : isSplit v1 = true) (s2 : isSplit v2 = true)
    (hne : v1 ≠ v2) (hk1 : k ∈ keysOf v1) (hk2 : k ∈ keysOf v2) : resolve c dir = none := by
  have := (scan_error_iff dir).mpr (Or.inr (Or.inl ((ambiguous_iff _).mpr ⟨v1, v2, k, h1, h2, s1, s2, hne, hk1, hk2⟩)))
  simp [resolve, this]

/-- **second diff for an edge**: two diff files whose version strings stand for the same ordered pair of nodes are
rejected (any directory, any listing order) instead of letting the last one in the listing win -/
theorem second_diff_is_error (c : Content M D) {dir : List (JStr × Bytes)} (h : DupEdges dir) : resolve c dir = none := by
  have := (scan_error_iff dir).mpr (Or.inr (Or.inr (Or.inr h)))
  simp [resolve, this]

/-- **cycle**: a cycle that can be reached from the root is rejected by `resolve` (with any amount of fuel: the
recursion bound of the model never hides a loop) -/
theorem cycle_is_error (c : Content M D) {dir : List (JStr × Bytes)} {g : Graph} {rootName : JStr} {rb : Bytes}
    (ha : scan dir = some g) (hroot : g.root = some (rootName, rb))
    (hcyc : ReachableCycle g rootName) : resolve c dir = none := by
  obtain ⟨v, p, q, hp, hq, hne⟩ := hcyc
  obtain ⟨p', hp', hlen⟩ := cycle_unbounded hp hq hne (g.edges.length + 1)
  have hw := walk_long_false (g.edges.length + 1) [] rootName v p' hp' hlen
  rw [resolve_of_scan c ha, hroot]
  simp only
  cases c.readRoot rb with
  | none => rfl
  | some m => simp [hw]

/-- **the loop check has no false alarms** (fuel sufficiency of the model's walk): a scanned directory with a readable
root and no cycle reachable from the root resolves -/
theorem acyclic_resolves (c : Content M D) {dir : List (JStr × Bytes)} {g : Graph} {rootName : JStr} {rb : Bytes}
    {m : M} (ha : scan dir = some g) (hroot : g.root = some (rootName, rb))
    (hm : c.readRoot rb = some m) (hac : ¬ ReachableCycle g rootName) :
    resolve c dir = some { graph := g, rootName := rootName, rootMapping := m } := by
  have hw : walkOk g (g.edges.length + 1) [] rootName = true := by
    cases h : walkOk g (g.edges.length + 1) [] rootName with
    | true => rfl
    | false =>
      exact absurd (walk_false_cycle (g.edges.length + 1) [] rootName [] (IsPath.nil _) rfl List.nodup_nil
        (by simp) h) hac
  rw [resolve_of_scan c ha, hroot]
  simp [hm, hw]

/-- **a version on a cycle never gets an arbitrary answer**: either the directory is rejected, or (the cycle cannot be
reached from the root) `apply_diffs` reports that there is no path -/
theorem cycle_node_error (c : Content M D) {dir : List (JStr × Bytes)} {r : Resolved M}
    (h : resolve c dir = some r) {v : JStr} {q : List Edge} (hq : IsPath r.graph v v q) (hne : q ≠ []) :
    applyDiffs c r v = [] := by
  apply unreachable_is_error
  intro p hp
  obtain ⟨rb, ha, hroot, _, _⟩ := resolve_some h
  have := cycle_is_error c ha hroot ⟨v, p, q, hp, hq, hne⟩
  rw [h] at this
  simp at this

/-- with well-formed diff names and at most one `.tiny` file, the scan fails iff a half is ambiguous or an edge has two
diffs -/
theorem ambiguous_or_second_diff_iff_error {dir : List (JStr × Bytes)} (hb : dir.any badDiffName = false)
    (hr : (dirRoots dir).length ≤ 1) : scan dir = none ↔ (Ambiguous (dirVersions dir) ∨ DupEdges dir) := by
  rw [scan_error_iff]
  constructor
  · intro h
    rcases h with h | h | h | h
    · rw [hb] at h; simp at h
    · exact Or.inl h
    · omega
    · exact Or.inr h
  · intro h
    rcases h with h | h
    · exact Or.inr (Or.inl h)
    · exact Or.inr (Or.inr (Or.inr h))

/-- **every way `resolve` can fail**, for every directory in every listing order: the four scan errors, no root, an
unreadable root file, a cycle that can be reached from the root — and nothing else -/
theorem resolve_error_iff (c : Content M D) (dir : List (JStr × Bytes)) :
    resolve c dir = none ↔
      (dir.any badDiffName = true ∨ Ambiguous (dirVersions dir) ∨ 2 ≤ (dirRoots dir).length ∨ DupEdges dir ∨
        dirRoots dir = [] ∨
        ∃ g rn rb, scan dir = some g ∧ g.root = some (rn, rb) ∧ (c.readRoot rb = none ∨ ReachableCycle g rn)) := by
  cases ha : scan dir with
  | none =>
    have := (scan_error_iff dir).mp ha
    constructor
    · intro _
      rcases this with h | h | h | h
      · exact Or.inl h
      · exact Or.inr (Or.inl h)
      · exact Or.inr (Or.inr (Or.inl h))
      · exact Or.inr (Or.inr (Or.inr (Or.inl h)))
    · intro _; simp [resolve, ha]
  | some g =>
    have hno : ¬ (dir.any badDiffName = true ∨ Ambiguous (dirVersions dir) ∨ 2 ≤ (dirRoots dir).length ∨
        DupEdges dir) := by
      intro h
      rw [(scan_error_iff dir).mpr h] at ha
      simp at ha
    have hcf := (graph_closed_form ha).2.2.2.2
    constructor
    · intro hres
      right; right; right; right
      rcases hcf with ⟨hnil, _⟩ | ⟨r, hr, hroot⟩
      · exact Or.inl hnil
      · right
        refine ⟨g, _, _, rfl, hroot, ?_⟩
        cases hm : c.readRoot r.2 with
        | none => exact Or.inl rfl
        | some m =>
          right
          cases Classical.em (ReachableCycle g (nodeOf (dirVersions dir) r.1)) with
          | inl h => exact h
          | inr h =>
            rw [acyclic_resolves c ha hroot hm h] at hres
            simp at hres
    · intro h
      rcases h with h | h | h | h | h | ⟨g', rn, rb, hg, hroot, h⟩
      · exact absurd (Or.inl h) hno
      · exact absurd (Or.inr (Or.inl h)) hno
      · exact absurd (Or.inr (Or.inr (Or.inl h))) hno
      · exact absurd (Or.inr (Or.inr (Or.inr h))) hno
      · exact no_root_is_error c h
      · simp only [Option.some.injEq] at hg
        subst hg
        rcases h with h | h
        · rw [resolve_of_scan c ha, hroot]
          simp [h]
        · exact cycle_is_error c ha hroot h

/-! ## Non-vacuity -/

/-- a diamond `r -> a~x -> c`, `r -> b -> c` plus a stray file, in some listing order -/
def exampleDir : List (JStr × Bytes) :=
  [(jstr "a~x#c.tinydiff", [1]), (jstr "r.tiny", [0]), (jstr "r#a~x.tinydiff", [2]),
   (jstr "b#c.tinydiff", [3]), (jstr "r#b.tinydiff", [4]), (jstr "notes.txt", [9])]

/-- a content pipeline that records what happened: mappings = list of file ids applied so far -/
def traceContent : Content (List Nat) Nat where
  readRoot b := some b
  readDiff b := b.head?
  apply d m := some (m ++ [d])
  extend m := some (m ++ [100])

example : (exampleDir.map Prod.fst).Nodup := by decide

/-- nodes in the order the sorted listing creates them (`a~x` in the first pass) -/
example :
    (resolve traceContent exampleDir).map (fun r => (r.graph.nodes, get r (jstr "x"), r.graph.edges.length, r.rootName,
      applyDiffs traceContent r (jstr "c"), applyDiffs traceContent r (jstr "b"), applyDiffs traceContent r (jstr "q"),
      depth r (jstr "c"))) =
    some ([jstr "a~x", jstr "c", jstr "b", jstr "r"], some (Split.second, jstr "a~x"), 4, jstr "r",
      [some [0, 2, 1, 100], some [0, 4, 3, 100]], [some [0, 4, 100]], [], 2) := by
  rfl

/-- the same files listed backwards: the same value (`resolve_perm_eq`) -/
example : resolve traceContent exampleDir.reverse = resolve traceContent exampleDir :=
  resolve_perm_eq traceContent (List.reverse_perm _) (by decide)

/-- a half shared by two `client~server` strings in each of its places (`a~b` with `c~b`, `b~c`, `a~c`, `b~a`), a half
that is `a~a`'s only key, and a second diff for the edge `r → a~b` spelled `r#a`: rejected, forwards and backwards; the
hypotheses of `ambiguous_is_error` are satisfiable -/
example :
    (∀ other, other ∈ [jstr "r#c~b.tinydiff", jstr "r#b~c.tinydiff", jstr "r#a~c.tinydiff", jstr "r#b~a.tinydiff",
        jstr "a~a#b.tinydiff", jstr "r#a.tinydiff"] →
      scan [(jstr "r.tiny", [0]), (jstr "r#a~b.tinydiff", [1]), (other, [2])] = none ∧
      scan [(other, [2]), (jstr "r#a~b.tinydiff", [1]), (jstr "r.tiny", [0])] = none) ∧
    (jstr "a~b" ∈ dirVersions [(jstr "r.tiny", [0]), (jstr "r#a~b.tinydiff", [1]), (jstr "r#c~b.tinydiff", [2])] ∧
      isSplit (jstr "a~b") = true ∧ jstr "b" ∈ keysOf (jstr "a~b") ∧ jstr "b" ∈ keysOf (jstr "c~b")) := by
  decide

/-- not ambiguous: the same `client~server` string in several file names, its halves as names of their own, `a~a` -/
example :
    (scan [(jstr "b#c.tinydiff", [3]), (jstr "a~b#d.tinydiff", [2]), (jstr "r#a~b.tinydiff", [1]), (jstr "r.tiny", [0]),
      (jstr "a#e~e.tinydiff", [4])]).map (fun g => (g.nodes, AList.lookup (jstr "a") g.versions,
        AList.lookup (jstr "e") g.versions, g.edges.map fun e => (e.parent, e.child))) =
    some ([jstr "e~e", jstr "a~b", jstr "d", jstr "c", jstr "r"], some (Split.first, jstr "a~b"),
      some (Split.first, jstr "e~e"),
      [(jstr "a~b", jstr "e~e"), (jstr "a~b", jstr "d"), (jstr "a~b", jstr "c"), (jstr "r", jstr "a~b")]) := by
  rfl

/-- a cycle below the root is rejected; a cycle the root cannot reach is not, its versions have no answer -/
example :
    resolve traceContent [(jstr "r.tiny", [0]), (jstr "r#a.tinydiff", [1]), (jstr "a#b.tinydiff", [2]),
      (jstr "b#a.tinydiff", [3])] = none ∧
    (resolve traceContent [(jstr "r.tiny", [0]), (jstr "c#b.tinydiff", [2]), (jstr "b#c.tinydiff", [3])]).map
      (fun r => applyDiffs traceContent r (jstr "b")) = some [] := by
  exact ⟨by decide, by decide⟩

end Thm.C05
