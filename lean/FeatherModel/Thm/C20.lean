import FeatherModel.Lemmas.RawReadWrite2
import FeatherModel.Lemmas.RawWriteRead2
import FeatherModel.Lemmas.RawFuel
import FeatherModel.Lemmas.RawAttrLen
import FeatherModel.Lemmas.RawPoolCount
import FeatherModel.Gen.RawLayouts

/-!
# C20 — raw_class_file reads and writes class files byte-exactly

Model: `FeatherModel/Model/RawLayout.lean` interprets a *layout environment* (a list of struct / enum layouts) the way
`raw_class_file/src/macros.rs` expands a `notation!` block into `_write`, `_read`, `_len`.  The environment of the real
crate, `Gen.RawLayouts.env`, is regenerated from `raw_class_file/src/lib.rs` by `translate/notation_to_lean.py` before
this file is checked, so the instantiated theorems below are statements about the tables the code contains *now*.

Part 1 (generic) holds for **every** layout environment, in particular for every well-formed one (`WF`, decidable);
no hypothesis on the environment is needed; it covers the three vector forms of the DSL (`[count type]`, `{len}`,
`{len; slots}`).  Part 2 instantiates: the translated environment is well-formed and conforms to the JVMS tables of
`FeatherModel/Spec/JvmsRaw.lean`, including the two-slot rule for long and double constant-pool entries (§4.4.5).
Three former defects (NestMembers `attribute_length`, MethodParameters `parameters_count`, constant-pool accounting of
long/double entries) were repaired in /repo (commits 5d79841, 94d3d58 and the `fix:` commit for
C20-long-double-pool); their former witnesses are kept as `_regression` theorems over the regenerated tables.
-/

namespace Thm.C20
open RawLayout JvmsRaw

/-! ## Part 1 — every layout environment -/

/-- `_len()` announces the number of bytes `_write` produces: whenever writing succeeds (no arithmetic panic), the
mathematical length is the output length, and `_len()` (a `u32`) returns it if it fits. -/
theorem len_eq_write_length (env : Env) (ty : Ty) (v : Val) (b : Bytes) (h : writeV env ty v = some b) :
    lenV env ty v = b.length ∧ (b.length < 4294967296 → len32 (lenV env ty v) = some b.length) := by
  have := RawLayout.len_eq_write_length env ty v b h
  exact ⟨this.symm, fun hl => by simp [len32, ← this, hl]⟩

/-- **read ∘ write.** A value in the domain `fitsV` (counts fit their count type, every variant's written tag
dispatches back to that variant — for attributes: the name index points to the Utf8 entry with the attribute's name and
to no earlier variant's —, `{len}` and `nowrite` expressions re-evaluate to what the value holds, literal constants have
their literal value) that `_write` serialises to `b` is read back from `b ++ r` by the Rust reader as exactly that value
with `r` left untouched, for every fuel above the nesting depth of the value. -/
theorem read_write (env : Env) (id : Nat) (pool : Pool) (v : Val) (b r : Bytes) (fuel : Nat)
    (hd : depthV v ≤ fuel) (hf : fitsV env pool [] (.ref id) v = true) (hw : writeV env (.ref id) v = some b) :
    read env fuel id pool (b ++ r) = .ok (v, r) :=
  RawLayout.read_write false env id pool v b r fuel hd hf hw

/-- what `_write` produces for a value of the domain satisfies `ConstsAgree` (the hypothesis of `write_read` is
satisfiable by every canonical encoding) -/
theorem consts_agree_of_write (env : Env) (id : Nat) (pool : Pool) (v : Val) (b r : Bytes) (fuel : Nat)
    (hd : depthV v ≤ fuel) (hf : fitsV env pool [] (.ref id) v = true) (hw : writeV env (.ref id) v = some b) :
    constsAgree env fuel id pool (b ++ r) = true := by
  have h := RawLayout.read_write true env id pool v b r fuel hd hf hw
  unfold constsAgree
  show (match readG true env fuel id pool (b ++ r) with | .ok _ => true | _ => false) = true
  rw [h]

/-- **write ∘ read.** If the Rust reader returns `(v, r)` on the bytes `b` and `b` satisfies `ConstsAgree` (every
constant the reader does not verify — the computed `attribute_length`s, `constant_pool_count` — and every computed tag
in `b` is the one `_write` recomputes), then writing `v` succeeds and reproduces exactly the consumed prefix of `b`. -/
theorem write_read (env : Env) (id : Nat) (pool : Pool) (v : Val) (b r : Bytes) (fuel : Nat) (hb : IsBytes b)
    (hr : read env fuel id pool b = .ok (v, r)) (hc : constsAgree env fuel id pool b = true) :
    ∃ b', writeV env (.ref id) v = some b' ∧ b' ++ r = b := by
  simp only [constsAgree] at hc
  split at hc
  · rename_i x hx
    have := readStrict_le_read env fuel id pool b x hx
    have hr' : readG false env fuel id pool b = .ok (v, r) := hr
    rw [hr'] at this
    cases this
    exact readStrict_wr env fuel id pool b v r hb hx
  · cases hc

/-- the checking reader only ever rejects more: whatever it returns, the Rust reader returns too -/
theorem strict_refines_read (env : Env) (fuel id : Nat) (pool : Pool) (b : Bytes) (x : Val × Bytes)
    (h : readStrict env fuel id pool b = .ok x) : read env fuel id pool b = .ok x :=
  readStrict_le_read env fuel id pool b x h

/-- **fuel independence**: fuel only bounds the nesting of definitions; any answer of the reader other than "out of
fuel" (a value, an error, a panic) is its answer for every larger fuel (`read_write` gives a sufficient fuel for every
written value: its nesting depth) -/
theorem read_fuel_independent (env : Env) (f g : Nat) (h : f ≤ g) (id : Nat) (pool : Pool) (b : Bytes)
    (hne : read env f id pool b ≠ .fuel) : read env g id pool b = read env f id pool b :=
  readG_fuel_independent false env f g h id pool b hne

/-! ## Part 2 — the layouts of `raw_class_file/src/lib.rs` -/

abbrev genv : Env := Gen.RawLayouts.env
abbrev classFileTy : Ty := .ref Gen.RawLayouts.classFileId
abbrev attrTy : Ty := .ref Gen.RawLayouts.attributeInfoId

/-- variants of `AttributeInfo` / `CpInfo` as translated -/
def attrVariants : List Variant :=
  match Gen.RawLayouts.defs[Gen.RawLayouts.attributeInfoId]? with
  | some (.enum _ _ _ vs _) => vs
  | _ => []
def cpVariants : List Variant :=
  match Gen.RawLayouts.defs[Gen.RawLayouts.cpInfoId]? with
  | some (.enum _ _ _ vs _) => vs
  | _ => []

/-- every translated layout is well-formed -/
theorem layouts_wf : WF genv = true := by decide +kernel

/-- `WF` is not vacuous: a dangling reference, a read-side expression over an unbound name, a mislabelled literal
constant and a slot-counted vector of something that is not a pool entry are rejected -/
theorem wf_rejects_ill_formed :
    WF ⟨[.struct 0 ⟨[], [⟨1, .field (.ref 7) false, []⟩]⟩], 0, []⟩ = false ∧
    WF ⟨[.struct 0 ⟨[], [⟨1, .field (.vecLen ⟨16, .var 9⟩ (.prim .u8)) false, []⟩]⟩], 0, []⟩ = false ∧
    WF ⟨[.struct 0 ⟨[⟨1, .u8, ⟨8, .lit 3⟩, none⟩], []⟩], 0, []⟩ = false ∧
    WF ⟨[.struct 0 ⟨[⟨1, .u8, ⟨8, .lit 3⟩, some 3⟩], [⟨2, .field (.vecSlots ⟨8, .var 1⟩ [] (.prim .u8)) false, []⟩]⟩], 0, []⟩
      = false := by decide

/-! ### attribute_length -/

theorem attr_def_check :
    (match genv.defs[Gen.RawLayouts.attributeInfoId]? with
     | some (.enum _ _ .u16 vs _) => vs == attrVariants
     | _ => false) = true := by decide +kernel

theorem attr_shapes_check : attrVariants.all attrLenShape = true := by decide +kernel

/-- **attribute_length (full strength: every attribute kind).**  For every value of every variant of `AttributeInfo`
that `_write` serialises (total `_len()` below 4 GiB), the u4 written after `attribute_name_index` is exactly the
number of bytes that follow it in the attribute — the JVMS meaning of `attribute_length`. -/
theorem attribute_length (k : Nat) (v : Variant) (fs : List Val) (b : Bytes)
    (hv : attrVariants[k]? = some v)
    (hw : writeV genv attrTy (.node k fs) = some b) (hl : lenV genv attrTy (.node k fs) < 4294967296) :
    attrFramed b = true := by
  have hshape : attrLenShape v = true := List.all_eq_true.mp attr_shapes_check v (List.mem_of_getElem? hv)
  have hdef := attr_def_check
  split at hdef
  · rename_i nm tn vs fb hd
    simp only [beq_iff_eq] at hdef
    subst hdef
    exact attrFramed_of_shape hd hv hshape hw hl
  · cases hdef

/-- regression (was `attribute_length_witness` before /repo 5d79841): NestMembers with one class is written with
`attribute_length` 4 = 2 + 2·1 in front of its 4-byte body (it used to be 2) -/
theorem attribute_length_nestmembers_regression :
    (attrVariants[25]?).map (·.guard) = some (some (jstr "NestMembers")) ∧
    writeV genv attrTy (.node 25 [.num 1, .list [.num 7]]) = some [0, 1, 0, 0, 0, 4, 0, 1, 0, 7] ∧
    attrFramed [0, 1, 0, 0, 0, 4, 0, 1, 0, 7] = true ∧ attrFramed [0, 1, 0, 0, 0, 2, 0, 1, 0, 7] = false := by
  refine ⟨by decide +kernel, by decide +kernel, by decide +kernel, by decide +kernel⟩

/-! ### conformance with the JVMS tables (item names, widths, count widths) -/

/-- **layouts = JVMS tables (full strength).**  Every translated struct and every variant of every translated enum puts
on the wire exactly the items the JVMS lists — same names, same order, same widths, every table with the JVMS width of
its count item, the constant pool as a table counted in slots; attribute variants are guarded by the attribute name
they are called after; `AttributeInfo` has a u2 tag; and the slot table of the implementation (`CpInfo::slots`) gives
two slots to exactly the variants written with the tags of CONSTANT_Long and CONSTANT_Double (§4.4.5). -/
theorem layouts_jvms :
    Gen.RawLayouts.defs.all (defConforms Gen.RawLayouts.nameCodes) = true ∧ slotsConform cpVariants genv.wide = true := by
  refine ⟨by decide +kernel, by decide +kernel⟩

/-- every predefined attribute of the JVMS table has a variant -/
theorem attributes_covered : attrsCovered attrVariants = true := by decide +kernel

/-- regression (was `method_parameters_count_witness` before /repo 94d3d58): `parameters_count` of MethodParameters is
a u1, as in JVMS §4.7.24 -/
theorem method_parameters_count_regression :
    ∃ v ∈ attrVariants, v.guard = some (jstr "MethodParameters") ∧
      attrItems Gen.RawLayouts.nameCodes v = [.tbl (jstr "parameters") .u8 (.s (jstr "MethodParametersEntry"))] ∧
      assoc (jstr "MethodParameters") attrs = some (attrItems Gen.RawLayouts.nameCodes v) := by
  refine ⟨attrVariants[20]!, by decide +kernel, by decide +kernel, by decide +kernel, by decide +kernel⟩

/-! ### constant_pool_count -/

theorem class_def_check :
    (match genv.defs[Gen.RawLayouts.classFileId]? with
     | some (.struct _ body) => poolCountShape genv.wide body
     | _ => false) = true := by decide +kernel

/-- bytes 8–9 of every class file `_write` produces are `(pool_slots(constant_pool) + 1) as u16` -/
theorem pool_count_written (fs : List Val) (b : Bytes) (hw : writeV genv classFileTy (.node 0 fs) = some b) :
    ∃ es, fs[2]? = some (.list es) ∧ (b.drop 8).take 2 = be .u16 ((slotsAll genv.wide es + 1) % 65536) := by
  have hdef := class_def_check
  split at hdef
  · rename_i nm body hd
    exact pool_count_bytes genv genv.wide _ nm body fs b hd hdef hw
  · cases hdef

/-- **constant_pool_count (full strength: every pool, long/double entries included).**  The count written is the JVMS
count `1 + Σ slots` (as u16), where an entry written with tag 5 or 6 takes two slots (§4.1, §4.4.5). -/
theorem pool_count (fs : List Val) (b : Bytes) (hw : writeV genv classFileTy (.node 0 fs) = some b) :
    ∃ es, fs[2]? = some (.list es) ∧ (b.drop 8).take 2 = be .u16 (jvmsPoolCount cpVariants es % 65536) := by
  obtain ⟨es, h1, h2⟩ := pool_count_written fs b hw
  exact ⟨es, h1, by rw [← slotsAll_eq_jvms cpVariants genv.wide layouts_jvms.2 es]; exact h2⟩

/-- **constant-pool indices (full strength).**  `pool_get(pool, i)` (what `pool_has_utf8` looks an attribute name up
with) returns an entry iff `i` is that entry's JVMS constant-pool index: one more than the slots the entries in front
of it take up.  In particular index 0, the second index of a long/double entry and any index past the end name no entry
(`pool_index_regression`). -/
theorem pool_index (es : List Val) (i : Nat) (e : Val) :
    poolGet genv.wide es 1 i = some e ↔
      ∃ pre post, es = pre ++ e :: post ∧ i = jvmsPoolCount cpVariants pre := by
  constructor
  · intro h
    obtain ⟨pre, post, h1, h2⟩ := poolGet_some genv.wide es 1 i e h
    exact ⟨pre, post, h1, by rw [← slotsAll_eq_jvms cpVariants genv.wide layouts_jvms.2 pre]; omega⟩
  · rintro ⟨pre, post, rfl, rfl⟩
    rw [← slotsAll_eq_jvms cpVariants genv.wide layouts_jvms.2 pre, Nat.add_comm]
    exact poolGet_at genv.wide pre e post 1

/-- a class with an empty interface/field/method/attribute list and the given pool -/
def classOf (pool : List Val) (methods attrs : List Val) : Val :=
  .node 0 [.num 0, .num 52, .list pool, .num 33, .num 0, .num 0, .list [], .list [], .list methods, .list attrs]

/-- `p` holds of the bytes `_write` produces for the class value `c` (false if writing panics) -/
def writes (c : Val) (p : Bytes → Bool) : Bool :=
  match writeV genv classFileTy c with
  | some b => p b
  | none => false

def utf8Entry (s : String) : Val := .node Gen.RawLayouts.utf8Variant [.list ((jstr s).map Val.num)]

/-- regression (was `pool_count_witness` before the `fix:` commit for C20-long-double-pool-write): a pool holding one
`Long` is in the round-trip domain and is written with the JVMS count 3 (it used to be 2); the output is a well-framed
class file -/
theorem pool_count_regression :
    fitsV genv none [] classFileTy (classOf [.node 7 [.num 0, .num 1]] [] []) = true ∧
    jvmsPoolCount cpVariants [.node 7 [.num 0, .num 1]] = 3 ∧
    writes (classOf [.node 7 [.num 0, .num 1]] [] [])
      (fun b => (b.drop 8).take 2 == [0, 3] && Walk.classFile b) = true := by
  refine ⟨by decide +kernel, by decide +kernel, by decide +kernel⟩

/-- regression (was `pool_read_witness` before the `fix:` commit for C20-long-double-pool-read): the JVMS-correct
encoding of that class (count 3) is well framed and the Rust reader returns the class with its one `Long` entry,
consuming all input (it used to fail, taking the byte after the `Long` for the tag of a second entry); the encoding with
count 2, which ends in the middle of the `Long`, is rejected by the frame walker and by the reader -/
theorem pool_read_regression :
    Walk.classFile [202, 254, 186, 190, 0, 0, 0, 52, 0, 3, 5, 0, 0, 0, 0, 0, 0, 0, 1, 0, 33, 0, 0, 0, 0,
      0, 0, 0, 0, 0, 0, 0, 0] = true ∧
    read genv 8 Gen.RawLayouts.classFileId none [202, 254, 186, 190, 0, 0, 0, 52, 0, 3, 5, 0, 0, 0, 0, 0, 0, 0, 1, 0,
      33, 0, 0, 0, 0, 0, 0, 0, 0, 0, 0, 0, 0] = .ok (classOf [.node 7 [.num 0, .num 1]] [] [], []) ∧
    Walk.classFile [202, 254, 186, 190, 0, 0, 0, 52, 0, 2, 5, 0, 0, 0, 0, 0, 0, 0, 1, 0, 33, 0, 0, 0, 0,
      0, 0, 0, 0, 0, 0, 0, 0] = false ∧
    read genv 8 Gen.RawLayouts.classFileId none [202, 254, 186, 190, 0, 0, 0, 52, 0, 2, 5, 0, 0, 0, 0, 0, 0, 0, 1, 0,
      33, 0, 0, 0, 0, 0, 0, 0, 0, 0, 0, 0, 0] = .err := by
  refine ⟨by decide +kernel, by decide +kernel, by decide +kernel, by decide +kernel⟩

/-- a class whose pool holds long/double entries first, last, adjacent and in front of the Utf8 entries naming its
attributes (`Deprecated` at JVMS index 3, `Synthetic` at index 8) -/
def wideClass : Val :=
  classOf [.node 7 [.num 0, .num 1], utf8Entry "Deprecated", .node 8 [.num 2, .num 3], .node 8 [.num 4, .num 5],
    utf8Entry "Synthetic", .node 7 [.num 6, .num 7]] [] [.node 13 [.num 3], .node 6 [.num 8]]

/-- regression for attribute names behind long/double entries: `wideClass` is in the round-trip domain, is written with
count 11 = 1 + 2 + 1 + 2 + 2 + 1 + 2, its output is well framed, is read back to the same value and satisfies
`ConstsAgree`; the indices 0, 2, 5, 7, 10 (second slots of the long/double entries) and 11 name no entry, index 3 names
the entry after the `Long` -/
theorem pool_index_regression :
    fitsV genv none [] classFileTy wideClass = true ∧
    writes wideClass (fun b => (b.drop 8).take 2 == [0, 11] && Walk.classFile b &&
      decide (read genv 5 Gen.RawLayouts.classFileId none b = .ok (wideClass, [])) &&
      constsAgree genv 5 Gen.RawLayouts.classFileId none b) = true ∧
    (match wideClass with
     | .node _ (_ :: _ :: .list es :: _) =>
       [0, 2, 5, 7, 10, 11].all (fun i => (poolGet genv.wide es 1 i).isNone) &&
       decide (poolGet genv.wide es 1 3 = some (utf8Entry "Deprecated"))
     | _ => false) = true := by
  refine ⟨by decide +kernel, by decide +kernel, by decide +kernel⟩

/-! ### the repaired NestMembers and MethodParameters defects seen by a JVMS reader, and non-vacuity -/

/-- regression (was `jvms_frame_witness`): the former witness classes of the NestMembers and MethodParameters defects are
in the round-trip domain and their output is a well-framed class file -/
theorem jvms_frame_regression :
    fitsV genv none [] classFileTy (classOf [utf8Entry "NestMembers"] [] [.node 25 [.num 1, .list [.num 1]]]) = true ∧
    writes (classOf [utf8Entry "NestMembers"] [] [.node 25 [.num 1, .list [.num 1]]])
      (fun b => Walk.classFile b) = true ∧
    fitsV genv none [] classFileTy (classOf [utf8Entry "MethodParameters"]
      [.node 0 [.num 0, .num 0, .num 0, .list [.node 20 [.num 1, .list []]]]] []) = true ∧
    writes (classOf [utf8Entry "MethodParameters"]
      [.node 0 [.num 0, .num 0, .num 0, .list [.node 20 [.num 1, .list []]]]] [])
      (fun b => Walk.classFile b) = true := by
  refine ⟨by decide +kernel, by decide +kernel, by decide +kernel, by decide +kernel⟩

/-- a class with a method carrying `Code` (with a nested `LineNumberTable`) and `Exceptions`: used by the examples -/
def sampleClass : Val :=
  classOf [utf8Entry "Exceptions", utf8Entry "Code", utf8Entry "LineNumberTable", .node 0 [.num 1]]
    [.node 0 [.num 1, .num 0, .num 0, .list [
      .node 3 [.num 1, .list [.num 5, .num 6]],
      .node 1 [.num 2, .num 1, .num 1, .list [.num 177], .list [], .list [.node 10 [.num 3, .list [.node 0 [.num 0, .num 7]]]]]]]]
    []

/-- the hypotheses of the round-trip theorems are satisfiable by a non-trivial value, whose output is well framed; its
announced length is its size; it is read back and satisfies `ConstsAgree` -/
example : fitsV genv none [] classFileTy sampleClass = true ∧ depthV sampleClass ≤ 5 ∧
    len32 (lenV genv classFileTy sampleClass) = some 116 ∧
    writes sampleClass (fun b => b.length == 116 && Walk.classFile b &&
      decide (read genv 5 Gen.RawLayouts.classFileId none b = .ok (sampleClass, [])) &&
      constsAgree genv 5 Gen.RawLayouts.classFileId none b) = true := by
  refine ⟨by decide +kernel, by decide +kernel, by decide +kernel, by decide +kernel⟩

/-- **`ConstsAgree` is needed**: changing the (unverified) `attribute_length` of the `Exceptions` attribute of the sample
class from 6 to 7 gives bytes the Rust reader still accepts, returning the same value, so writing cannot give them back;
they do not satisfy `ConstsAgree`. -/
theorem write_read_needs_consts_agree_witness :
    writes sampleClass (fun b' =>
      let b := b'.set 76 7
      b != b' && b.all (· < 256) &&
      decide (read genv 5 Gen.RawLayouts.classFileId none b = .ok (sampleClass, [])) &&
      !constsAgree genv 5 Gen.RawLayouts.classFileId none b) = true := by
  decide +kernel

end Thm.C20
