import FeatherModel.Lemmas.DiffTop
import FeatherModel.Lemmas.DiffTotal
import FeatherModel.Lemmas.DiffNorm
import FeatherModel.Lemmas.DiffTextRead
import FeatherModel.Lemmas.DiffKeySync

/-!
# C04 — applying a mapping diff is exact; diff and apply are inverse
Property theorems only. Model: `FeatherModel/Model/Diff.lean` (apply, diff), `FeatherModel/Model/TinyDiff.lean`
(`.tinydiff` reader, specification writer), `FeatherModel/Model/DiffSpec.lean` (the table `applySpec`, domains).

`NoDup m` (keys of `m` pairwise different) is the `IndexMap` invariant; it is a hypothesis wherever a map is looked up.
All theorems of parts (1)–(3) are for every namespace count, every namespace index and maps of every size; parts (4)–(6)
are about `MappingsDiff::diff`, which the Rust types restrict to two namespaces.

Overview: (1) `apply_exact` + the five level theorems, (2) `apply_untouched*`, (3) `apply_refuses*` and the refusal tables, (3b) `apply_preserves_wf` (full strength) with its regression input,
(4) `diff_total_on`, `diff_apply_partial` with its witnesses, (5) the `.tinydiff` text: `read_write`,
`read_no_top_level`, `apply_read_back`, `diff_apply_text_partial` with its witnesses, (6) non-vacuity examples.
-/

namespace Thm.C04
open DiffModel AList

/-! ## (1) exactness: the result under every key is what the 4 × 3 table says — at every level -/

/-- **apply_exact** (level-generic: `ops`/`child` are instantiated with the class, field, method and parameter level
below). If `apply_diff_map` succeeds, then under EVERY key `k` the result holds exactly what the explicit table
`applySpec` gives for the diff entry under `k` (if any) and the target entry under `k` (if any): untouched without a diff
entry; created from the key by Add on an absent key; name filled by Add on a nameless entry; entry gone (children not
looked at) by Remove with the right old name; name replaced by Edit with the right old name; children/javadoc diff applied
for None/Add/Edit. -/
theorem apply_exact {K D T : Type} [BEq K] [LawfulBEq K] (ops : Ops K D T) (ns N : Nat) (child : D → T → Option T)
    {diffs : AList K D} {targets res : AList K T} (hnD : NoDup diffs) (hnT : NoDup targets)
    (h : applyMap ops ns N child diffs targets = some res) (k : K) :
    applySpec ops ns N child k (lookup k diffs) (lookup k targets) = some (lookup k res) := by
  have := applyMap_spec ops ns N child diffs targets hnD hnT
  rw [h] at this
  simp only [MapPost] at this
  rw [← applySpecM_eq]
  exact this k

/-- **apply_refuses** (level-generic, both directions): `apply_diff_map` is refused exactly when the table refuses some
key. Which combinations the table refuses is spelled out by `refuses_present_iff` / `refuses_absent_iff` /
`option_refuses_iff`; refusal of a child (its javadoc or one of its own child maps) propagates through `child`. Entries
below a removed entry are never looked at (`Remove` does not call `child`). -/
theorem apply_refuses {K D T : Type} [BEq K] [LawfulBEq K] (ops : Ops K D T) (ns N : Nat) (child : D → T → Option T)
    {diffs : AList K D} {targets : AList K T} (hnD : NoDup diffs) (hnT : NoDup targets) :
    applyMap ops ns N child diffs targets = none ↔
      ∃ k, applySpec ops ns N child k (lookup k diffs) (lookup k targets) = none := by
  have hs := applyMap_spec ops ns N child diffs targets hnD hnT
  constructor
  · intro h
    rw [h] at hs
    simp only [MapPost] at hs
    obtain ⟨k, hk⟩ := hs
    exact ⟨k, by rw [← applySpecM_eq]; exact hk⟩
  · intro ⟨k, hk⟩
    cases hr : applyMap ops ns N child diffs targets with
    | none => rfl
    | some res =>
      rw [hr] at hs
      simp only [MapPost] at hs
      have := hs k
      rw [applySpecM_eq, hk] at this
      cases this

/-- the refused combinations for a key that exists in the target -/
theorem refuses_present_iff {K D T : Type} (ops : Ops K D T) (ns N : Nat) (child : D → T → Option T) (k : K) (d : D) (t : T) :
    applySpec ops ns N child k (some d) (some t) = none ↔
      match ops.action d with
      | .none => child d t = none
      | .add b => ns = 0 ∨ (ops.names t)[ns]? ≠ some none ∨
          child d (ops.setNames t ((ops.names t).set ns (some b))) = none
      | .remove a => ns = 0 ∨ (ops.names t)[ns]? ≠ some (some a)
      | .edit a b => ns = 0 ∨ (ops.names t)[ns]? ≠ some (some a) ∨
          child d (ops.setNames t ((ops.names t).set ns (some b))) = none := by
  simp only [applySpec]
  cases ops.action d with
  | none => simp
  | add b =>
    simp only
    by_cases h0 : ns = 0
    · simp [h0]
    · by_cases h1 : (ops.names t)[ns]? = some none <;> simp [h0, h1]
  | remove a =>
    simp only
    by_cases h0 : ns = 0
    · simp [h0]
    · by_cases h1 : (ops.names t)[ns]? = some (some a) <;> simp [h0, h1]
  | edit a b =>
    simp only
    by_cases h0 : ns = 0
    · simp [h0]
    · by_cases h1 : (ops.names t)[ns]? = some (some a) <;> simp [h0, h1]

/-- the refused combinations for a key that does not exist in the target: everything but Add; an Add in the first
namespace (the new name goes through `change_name` like any other: the first namespace "needs to be kept in sync with the
keys"); an Add whose children/javadoc diff is refused. (`(names (fromKey N k))[ns]? = some none` holds for every
namespace index `0 < ns < N` a mapping set has — parameters: `ns < N` — so this disjunct never fires in `apply_to`.) -/
theorem refuses_absent_iff {K D T : Type} (ops : Ops K D T) (ns N : Nat) (child : D → T → Option T) (k : K) (d : D) :
    applySpec ops ns N child k (some d) none = none ↔
      match ops.action d with
      | .add b => ns = 0 ∨ (ops.names (ops.fromKey N k))[ns]? ≠ some none ∨
          child d (ops.setNames (ops.fromKey N k) ((ops.names (ops.fromKey N k)).set ns (some b))) = none
      | _ => True := by
  simp only [applySpec]
  cases ops.action d with
  | none => simp
  | remove a => simp
  | edit a b => simp
  | add b =>
    simp only
    by_cases h0 : ns = 0
    · simp [h0]
    · by_cases h1 : (ops.names (ops.fromKey N k))[ns]? = some none <;> simp [h0, h1]

/-- in the first namespace nothing can be added, removed or renamed: every diff entry whose action is not `None` is
refused, whether its key exists or not -/
theorem first_namespace_refuses {K D T : Type} (ops : Ops K D T) (N : Nat) (child : D → T → Option T) (k : K) (d : D)
    (ot : Option T) (h : ops.action d ≠ .none) : applySpec ops 0 N child k (some d) ot = none := by
  cases ot with
  | none => rw [refuses_absent_iff]; cases ha : ops.action d <;> simp_all
  | some t => rw [refuses_present_iff]; cases ha : ops.action d <;> simp_all

/-- the refused combinations of `apply_diff_option` (javadoc at all five levels): Add on an existing comment,
Remove/Edit with an absent or different old comment -/
theorem option_refuses_iff {α : Type} [DecidableEq α] (a : Action α) (t : Option α) :
    applyOption a t = none ↔
      match a with
      | .none => False
      | .add _ => t ≠ none
      | .remove x => t ≠ some x
      | .edit x _ => t ≠ some x := by
  cases a with
  | none => simp [applyOption]
  | add b => cases t <;> simp [applyOption]
  | remove x =>
    cases t with
    | none => simp [applyOption]
    | some y =>
      by_cases h : y = x <;> simp [applyOption, h]
  | edit x b =>
    cases t with
    | none => simp [applyOption]
    | some y =>
      by_cases h : y = x <;> simp [applyOption, h]

/-- the accepted combinations of `apply_diff_option` and their results -/
theorem option_exact {α : Type} [DecidableEq α] (a : Action α) (t r : Option α) :
    applyOption a t = some r ↔
      match a with
      | .none => r = t
      | .add b => t = none ∧ r = some b
      | .remove x => t = some x ∧ r = none
      | .edit x b => t = some x ∧ r = some b := by
  cases a with
  | none => simp [applyOption, eq_comm]
  | add b => cases t <;> simp [applyOption, eq_comm]
  | remove x =>
    cases t with
    | none => simp [applyOption]
    | some y =>
      by_cases h : y = x
      · simp [applyOption, h, eq_comm]
      · simp [applyOption, h]
  | edit x b =>
    cases t with
    | none => simp [applyOption]
    | some y =>
      by_cases h : y = x
      · simp [applyOption, h, eq_comm]
      · simp [applyOption, h]

/-! ### the five levels: what each node function is made of -/

/-- parameter level: only the javadoc is touched by the child step -/
theorem apply_exact_param (d : PDiff) (p : Param) :
    applyParam d p = (applyOption d.doc p.doc).map fun doc => { p with doc := doc } := by
  unfold applyParam; cases applyOption d.doc p.doc <;> rfl

theorem apply_exact_field (d : FDiff) (f : Field) :
    applyField d f = (applyOption d.doc f.doc).map fun doc => { f with doc := doc } := by
  unfold applyField; cases applyOption d.doc f.doc <;> rfl

/-- method level: javadoc by the option table, parameters by `apply_exact` at parameter level, nothing else changes -/
theorem apply_exact_method {ns N : Nat} {d : MDiff} {m m' : Method} (hd : NoDup d.params) (hm : NoDup m.params)
    (h : applyMethod ns N d m = some m') :
    applyOption d.doc m.doc = some m'.doc ∧ m'.desc = m.desc ∧ m'.names = m.names ∧
    ∀ k, applySpec paramOps ns N applyParam k (lookup k d.params) (lookup k m.params) = some (lookup k m'.params) := by
  unfold applyMethod at h
  cases ho : applyOption d.doc m.doc with
  | none => rw [ho] at h; simp at h
  | some doc =>
    rw [ho] at h
    simp only at h
    cases hp : applyMap paramOps ns N applyParam d.params m.params with
    | none => rw [hp] at h; simp at h
    | some ps =>
      rw [hp] at h
      simp only [Option.some.injEq] at h
      subst h
      exact ⟨rfl, rfl, rfl, fun k => apply_exact paramOps ns N applyParam hd hm hp k⟩

/-- class level: javadoc by the option table, fields and methods by `apply_exact` at their levels -/
theorem apply_exact_class {ns N : Nat} {d : CDiff} {c c' : Class}
    (hdf : NoDup d.fields) (hcf : NoDup c.fields) (hdm : NoDup d.methods) (hcm : NoDup c.methods)
    (h : applyClass ns N d c = some c') :
    applyOption d.doc c.doc = some c'.doc ∧ c'.names = c.names ∧
    (∀ k, applySpec fieldOps ns N applyField k (lookup k d.fields) (lookup k c.fields) = some (lookup k c'.fields)) ∧
    ∀ k, applySpec methodOps ns N (applyMethod ns N) k (lookup k d.methods) (lookup k c.methods) =
      some (lookup k c'.methods) := by
  unfold applyClass at h
  cases ho : applyOption d.doc c.doc with
  | none => rw [ho] at h; simp at h
  | some doc =>
    rw [ho] at h
    simp only at h
    cases hf : applyMap fieldOps ns N applyField d.fields c.fields with
    | none => rw [hf] at h; simp at h
    | some fs =>
      rw [hf] at h
      simp only at h
      cases hm : applyMap methodOps ns N (applyMethod ns N) d.methods c.methods with
      | none => rw [hm] at h; simp at h
      | some ms =>
        rw [hm] at h
        simp only [Option.some.injEq] at h
        subst h
        exact ⟨rfl, rfl, fun k => apply_exact fieldOps ns N applyField hdf hcf hf k,
          fun k => apply_exact methodOps ns N (applyMethod ns N) hdm hcm hm k⟩

/-- top level: unknown namespace refused; namespace name by `applyInfo` (Add/Remove refused, Edit needs the old name),
javadoc by the option table, classes by `apply_exact` at class level -/
theorem apply_exact_mappings {d : Diff} {t r : Mappings} {nsName : JStr}
    (hd : NoDup d.classes) (ht : NoDup t.classes) (h : applyTo d t nsName = some r) :
    ∃ ns, t.getNamespace nsName = some ns ∧
      applyInfo d.info t.ns ns = some r.ns ∧ applyOption d.doc t.doc = some r.doc ∧
      ∀ k, applySpec classOps ns t.ns.length (applyClass ns t.ns.length) k (lookup k d.classes) (lookup k t.classes) =
        some (lookup k r.classes) := by
  unfold applyTo at h
  cases hn : t.getNamespace nsName with
  | none => rw [hn] at h; simp at h
  | some ns =>
    rw [hn] at h
    simp only [applyAt] at h
    refine ⟨ns, rfl, ?_⟩
    cases hi : applyInfo d.info t.ns ns with
    | none => rw [hi] at h; simp at h
    | some nss =>
      rw [hi] at h
      simp only at h
      cases ho : applyOption d.doc t.doc with
      | none => rw [ho] at h; simp at h
      | some doc =>
        rw [ho] at h
        simp only at h
        cases hc : applyMap classOps ns t.ns.length (applyClass ns t.ns.length) d.classes t.classes with
        | none => rw [hc] at h; simp at h
        | some cs =>
          rw [hc] at h
          simp only [Option.some.injEq] at h
          subst h
          exact ⟨rfl, rfl, fun k => apply_exact classOps ns t.ns.length _ hd ht hc k⟩

/-! ## (2) untouched -/

/-- **apply_untouched**: an entry whose key the diff does not mention is returned identical (with its whole subtree),
and a key in neither stays absent -/
theorem apply_untouched {K D T : Type} [BEq K] [LawfulBEq K] (ops : Ops K D T) (ns N : Nat) (child : D → T → Option T)
    {diffs : AList K D} {targets res : AList K T} (hnD : NoDup diffs) (hnT : NoDup targets)
    (h : applyMap ops ns N child diffs targets = some res) (k : K) (hk : lookup k diffs = none) :
    lookup k res = lookup k targets := by
  have := apply_exact ops ns N child hnD hnT h k
  rw [hk] at this
  simp only [applySpec, Option.some.injEq] at this
  exact this.symm

/-- **apply_untouched_names**: in an entry that stays, the names of all OTHER namespaces are untouched, and so is
everything a child step does not touch (`f`: descriptor, index, …). `hchild`/`hset` hold for all four levels, see the
instances below. -/
theorem apply_untouched_names {K D T : Type} [BEq K] [LawfulBEq K] (ops : Ops K D T) (ns N : Nat)
    (child : D → T → Option T)
    (hget : ∀ t n, ops.names (ops.setNames t n) = n)
    (hchild : ∀ d t t', child d t = some t' → ops.names t' = ops.names t)
    {diffs : AList K D} {targets res : AList K T} (hnD : NoDup diffs) (hnT : NoDup targets)
    (h : applyMap ops ns N child diffs targets = some res) {k : K} {t t' : T}
    (ht : lookup k targets = some t) (hr : lookup k res = some t') (i : Nat) (hi : i ≠ ns) :
    (ops.names t')[i]? = (ops.names t)[i]? := by
  have := apply_exact ops ns N child hnD hnT h k
  rw [ht, hr] at this
  cases hd : lookup k diffs with
  | none =>
    rw [hd] at this
    simp only [applySpec, Option.some.injEq] at this
    cases this; rfl
  | some d =>
    rw [hd] at this
    simp only [applySpec] at this
    have hset : ∀ b t'', child d (ops.setNames t ((ops.names t).set ns (some b))) = some t'' →
        (ops.names t'')[i]? = (ops.names t)[i]? := by
      intro b t'' hc
      rw [hchild _ _ _ hc, hget, List.getElem?_set_ne (Ne.symm hi)]
    cases ha : ops.action d with
    | none =>
      rw [ha] at this
      simp only [Option.map_eq_some_iff, Option.some.injEq] at this
      obtain ⟨x, hx, rfl⟩ := this
      rw [hchild _ _ _ hx]
    | add b =>
      rw [ha] at this
      simp only at this
      split at this
      · simp only [Option.map_eq_some_iff, Option.some.injEq] at this
        obtain ⟨x, hx, rfl⟩ := this
        exact hset b _ hx
      · cases this
    | remove a =>
      rw [ha] at this
      simp only at this
      split at this <;> simp at this
    | edit a b =>
      rw [ha] at this
      simp only at this
      split at this
      · simp only [Option.map_eq_some_iff, Option.some.injEq] at this
        obtain ⟨x, hx, rfl⟩ := this
        exact hset b _ hx
      · cases this

/-- the child steps of all four levels keep the names (hypothesis `hchild` of `apply_untouched_names`) and, where there
is one, the descriptor / index -/
theorem child_keeps_names (ns N : Nat) :
    (∀ d p p', applyParam d p = some p' → p'.names = p.names ∧ p'.index = p.index) ∧
    (∀ d f f', applyField d f = some f' → f'.names = f.names ∧ f'.desc = f.desc) ∧
    (∀ d m m', applyMethod ns N d m = some m' → m'.names = m.names ∧ m'.desc = m.desc) ∧
    (∀ d c c', applyClass ns N d c = some c' → c'.names = c.names) := by
  refine ⟨?_, ?_, ?_, ?_⟩
  · intro d p p' h
    unfold applyParam at h
    cases ho : applyOption d.doc p.doc with
    | none => rw [ho] at h; simp at h
    | some doc => rw [ho] at h; simp only [Option.some.injEq] at h; subst h; exact ⟨rfl, rfl⟩
  · intro d f f' h
    unfold applyField at h
    cases ho : applyOption d.doc f.doc with
    | none => rw [ho] at h; simp at h
    | some doc => rw [ho] at h; simp only [Option.some.injEq] at h; subst h; exact ⟨rfl, rfl⟩
  · intro d m m' h
    unfold applyMethod at h
    cases ho : applyOption d.doc m.doc with
    | none => rw [ho] at h; simp at h
    | some doc =>
      rw [ho] at h; simp only at h
      cases hp : applyMap paramOps ns N applyParam d.params m.params with
      | none => rw [hp] at h; simp at h
      | some ps => rw [hp] at h; simp only [Option.some.injEq] at h; subst h; exact ⟨rfl, rfl⟩
  · intro d c c' h
    unfold applyClass at h
    cases ho : applyOption d.doc c.doc with
    | none => rw [ho] at h; simp at h
    | some doc =>
      rw [ho] at h; simp only at h
      cases hf : applyMap fieldOps ns N applyField d.fields c.fields with
      | none => rw [hf] at h; simp at h
      | some fs =>
        rw [hf] at h; simp only at h
        cases hm : applyMap methodOps ns N (applyMethod ns N) d.methods c.methods with
        | none => rw [hm] at h; simp at h
        | some ms => rw [hm] at h; simp only [Option.some.injEq] at h; subst h; rfl

/-! ## (3) refusal at the five levels -/

/-- a parameter / field child step is refused exactly when its javadoc action is -/
theorem param_refuses_iff (d : PDiff) (p : Param) : applyParam d p = none ↔ applyOption d.doc p.doc = none := by
  unfold applyParam; cases applyOption d.doc p.doc <;> simp

theorem field_refuses_iff (d : FDiff) (f : Field) : applyField d f = none ↔ applyOption d.doc f.doc = none := by
  unfold applyField; cases applyOption d.doc f.doc <;> simp

theorem method_refuses_iff {ns N : Nat} {d : MDiff} {m : Method} (hd : NoDup d.params) (hm : NoDup m.params) :
    applyMethod ns N d m = none ↔ applyOption d.doc m.doc = none ∨
      ∃ k, applySpec paramOps ns N applyParam k (lookup k d.params) (lookup k m.params) = none := by
  rw [← apply_refuses paramOps ns N applyParam hd hm]
  unfold applyMethod
  cases applyOption d.doc m.doc with
  | none => simp
  | some doc =>
    cases applyMap paramOps ns N applyParam d.params m.params <;> simp

theorem class_refuses_iff {ns N : Nat} {d : CDiff} {c : Class}
    (hdf : NoDup d.fields) (hcf : NoDup c.fields) (hdm : NoDup d.methods) (hcm : NoDup c.methods) :
    applyClass ns N d c = none ↔ applyOption d.doc c.doc = none ∨
      (∃ k, applySpec fieldOps ns N applyField k (lookup k d.fields) (lookup k c.fields) = none) ∨
      ∃ k, applySpec methodOps ns N (applyMethod ns N) k (lookup k d.methods) (lookup k c.methods) = none := by
  rw [← apply_refuses fieldOps ns N applyField hdf hcf, ← apply_refuses methodOps ns N (applyMethod ns N) hdm hcm]
  unfold applyClass
  cases applyOption d.doc c.doc with
  | none => simp
  | some doc =>
    cases applyMap fieldOps ns N applyField d.fields c.fields with
    | none => simp
    | some fs => cases applyMap methodOps ns N (applyMethod ns N) d.methods c.methods <;> simp

/-- **apply_refuses_mappings**: the whole application is refused exactly when the namespace is unknown, or the
namespace-name action is Add/Remove/an Edit with the wrong old name, or the top-level javadoc action is inconsistent, or
the table refuses some class key (which, through `class_refuses_iff`, `method_refuses_iff`, `field_refuses_iff`,
`param_refuses_iff`, `refuses_present_iff`, `refuses_absent_iff`, `option_refuses_iff`, means: some node that is not below
a removed entry carries an inconsistent action) -/
theorem apply_refuses_mappings {d : Diff} {t : Mappings} {nsName : JStr} (hd : NoDup d.classes) (ht : NoDup t.classes) :
    applyTo d t nsName = none ↔
      match t.getNamespace nsName with
      | none => True
      | some ns =>
        (match d.info with
          | .none => False
          | .add _ => True
          | .remove _ => True
          | .edit a _ => t.ns[ns]? ≠ some a) ∨
        applyOption d.doc t.doc = none ∨
        ∃ k, applySpec classOps ns t.ns.length (applyClass ns t.ns.length) k (lookup k d.classes) (lookup k t.classes)
          = none := by
  unfold applyTo
  cases t.getNamespace nsName with
  | none => simp
  | some ns =>
    simp only [applyAt]
    rw [← apply_refuses classOps ns t.ns.length (applyClass ns t.ns.length) hd ht]
    cases hinfo : d.info with
    | none =>
      simp only [applyInfo]
      cases applyOption d.doc t.doc with
      | none => simp
      | some doc => cases applyMap classOps ns t.ns.length (applyClass ns t.ns.length) d.classes t.classes <;> simp
    | add b => simp [applyInfo]
    | remove a => simp [applyInfo]
    | edit a b =>
      simp only [applyInfo]
      by_cases hh : t.ns[ns]? = some a
      · simp only [hh, if_true, ne_eq, not_true_eq_false, false_or]
        cases applyOption d.doc t.doc with
        | none => simp
        | some doc => cases applyMap classOps ns t.ns.length (applyClass ns t.ns.length) d.classes t.classes <;> simp
      · simp [hh]

/-- **regression** (defect C04-add-first-namespace-absent-key, repaired in /repo by "fix: applying a diff refuses an
addition under a new key in the first namespace"): an `Add` under a key the target does not have used to be applied to
the first namespace too (entry stored under key `Z` with first-namespace name `b`); now it is refused -/
theorem add_absent_first_namespace_refused :
    applyTo { info := .none, doc := .none, classes := [(jstr "Z", { info := .add (jstr "b"), doc := .none, fields := [], methods := [] })] }
      { ns := [jstr "official", jstr "named"], doc := none, classes := [] } (jstr "official") = none := by
  decide

/-! ## (3b) the result is a well-formed mapping set again -/

/-- the result of `apply_diff_map` has unique keys, whatever the diff -/
theorem apply_result_keys_unique {K D T : Type} [BEq K] [LawfulBEq K] (ops : Ops K D T) (ns N : Nat) (child : D → T → Option T)
    {diffs : AList K D} {targets res : AList K T} (h : applyMap ops ns N child diffs targets = some res) : NoDup res :=
  nodup_applyMap ops ns N child h

/-- **apply_preserves_wf** (full strength, every namespace): a successful application of a key-unique diff to a
well-formed set (`WF`: unique keys, every entry stored under the key its first-namespace name (+ descriptor / index)
gives, name rows as long as the namespace list) gives a well-formed set again — nothing "silently wrong" comes out. -/
theorem apply_preserves_wf {d : Diff} {t r : Mappings} {nsName : JStr} (hd : Diff.WF d) (ht : WF t)
    (h : applyTo d t nsName = some r) : WF r :=
  applyTo_preserves_wf hd ht h

/-- **regression**: the input on which `apply_preserves_wf` used to fail (first namespace, `Add` under an absent key)
is inside its domain and is refused -/
theorem apply_preserves_wf_first_namespace_regression :
    let d : Diff := { info := .none, doc := .none, classes := [(jstr "Z", { info := .add (jstr "b"), doc := .none, fields := [], methods := [] })] }
    let t : Mappings := { ns := [jstr "official", jstr "named"], doc := none, classes := [] }
    Diff.WF d ∧ WF t ∧ t.getNamespace (jstr "official") = some 0 ∧ applyTo d t (jstr "official") = none := by
  decide

/-! ## (4) `diff` then `apply` -/

/-- **diff_total_on**: for key-unique mapping sets, `diff a b` succeeds exactly when both have two namespaces with the
same names and every class, field, method and parameter of both has a name in the second namespace (`gen_diff_names`
fails on an absent name; nothing else can fail) -/
theorem diff_total_on {a b : Mappings} (ka : KeysUnique a) (kb : KeysUnique b) :
    (diff a b).isSome = (decide (a.ns.length = 2) && decide (a.ns = b.ns) && allNamed a && allNamed b) :=
  diff_isSome ka kb

/-- `diff` never renames the namespace (`// TODO: namespace renaming is possible!`) -/
theorem diff_info_none {a b : Mappings} {d : Diff} (h : diff a b = some d) : d.info = .none := by
  unfold diff at h
  split at h
  · cases h
  · split at h
    · cases h
    · cases hz : zipMap diffClass a.classes b.classes with
      | none => rw [hz] at h; cases h
      | some cs => rw [hz] at h; simp only [Option.some.injEq] at h; subst h; rfl

/-- **diff_apply_partial** (`apply(diff(A, B), A) ≈ B`). For well-formed `A`, `B` (`WF`: unique keys, entries stored under
the key their first name gives — the invariants of trees built through quill's API) over two DIFFERENT namespace names:
whenever `diff A B` succeeds, applying it to `A` in the second namespace succeeds and the result has the same namespaces,
the same comment and, under every key at every level, the same entry as `B` (`MappingsEqv`; `eqvMappings` is the Boolean
the oracles evaluate). Weaker than the property text in two ways, each with a witness below:
* `ParamSrcless A B`: a parameter of `B` carries the first-namespace name of the same parameter of `A`, and none if `A`
  has no such parameter (`diff_apply_param_src_witness`: the diff has no place for it and `from_key` creates the row empty);
* `≈` instead of `=`: the ORDER of the result is `A`'s order followed by the additions (`diff_apply_order_witness`). -/
theorem diff_apply_partial {a b : Mappings} {d : Diff} {n0 n1 : JStr} (wa : WF a) (wb : WF b)
    (hns : a.ns = [n0, n1]) (hne : n0 ≠ n1) (hsrc : ParamSrcless a b) (hd : diff a b = some d) :
    ∃ r, applyTo d a n1 = some r ∧ MappingsEqv r b ∧ eqvMappings r b = true := by
  obtain ⟨r, hr, he⟩ := diff_apply_eqv wa wb hns hne hsrc hd
  exact ⟨r, hr, he, eqvMappings_of he⟩

/-- **the known gap** (reproduced on the real code): `B` adds parameter 0 with names `src`/`dst`; the diff carries `Add dst`
only, the applied result has the parameter with an EMPTY first-namespace name, so it differs from `B` -/
theorem diff_apply_param_src_witness :
    let m (ps : AList Nat Param) : Mappings := { ns := [jstr "official", jstr "named"], doc := none, classes := [
      (jstr "A", { names := [some (jstr "A"), some (jstr "X")], doc := none, fields := [], methods := [
        ((jstr "m", jstr "(I)V"), { desc := jstr "(I)V", names := [some (jstr "m"), some (jstr "n")], doc := none, params := ps })] })] }
    let a := m []
    let b := m [(0, { index := 0, names := [some (jstr "src"), some (jstr "dst")], doc := none })]
    WF a ∧ WF b ∧ ¬ ParamSrcless a b ∧
      ∃ d, diff a b = some d ∧
        applyTo d a (jstr "named") = some (m [(0, { index := 0, names := [none, some (jstr "dst")], doc := none })]) ∧
        ∀ r, applyTo d a (jstr "named") = some r → eqvMappings r b = false := by
  decide

/-- the namespace names must differ: `apply_to` looks the namespace up BY NAME, finds the first one, and the first
namespace cannot be edited -/
theorem diff_apply_same_namespace_witness :
    let m (x : String) : Mappings := { ns := [jstr "n", jstr "n"], doc := none, classes := [
      (jstr "A", { names := [some (jstr "A"), some (jstr x)], doc := none, fields := [], methods := [] })] }
    WF (m "X") ∧ WF (m "Y") ∧ ParamSrcless (m "X") (m "Y") ∧
      ∃ d, diff (m "X") (m "Y") = some d ∧ applyTo d (m "X") (jstr "n") = none := by
  decide

/-- content equality is the most that holds: additions are appended after the surviving entries of `A`, whatever their
place in `B` -/
theorem diff_apply_order_witness :
    let c (k x : String) : JStr × Class := (jstr k, { names := [some (jstr k), some (jstr x)], doc := none, fields := [], methods := [] })
    let a : Mappings := { ns := [jstr "official", jstr "named"], doc := none, classes := [c "B" "Y"] }
    let b : Mappings := { ns := [jstr "official", jstr "named"], doc := none, classes := [c "A" "X", c "B" "Y"] }
    WF a ∧ WF b ∧ ParamSrcless a b ∧
      ∃ d, diff a b = some d ∧ ∃ r, applyTo d a (jstr "named") = some r ∧ eqvMappings r b = true ∧ r ≠ b := by
  decide

/-! ## (5) the same through `.tinydiff` text
The repository has a READER only (`quill/src/tiny_v2_diff.rs`); `TinyDiff.writeSpec` is specification text (mirrored by
`harness/src/diffcodec.rs::write_spec`, which is harness code, not repository code): the statements below say that the
reader inverts this printer. -/

/-- **read_write**: the reader reads the specification text of a `Writable` diff back as the diff with every
`Edit(a, a)` replaced by `None` (two equal cells mean "no action" in the format), same keys in the same order -/
theorem read_write (d : Diff) (h : Writable d) : TinyDiff.read (TinyDiff.writeSpec d) = some (normDiff d) :=
  TinyDiff.read_writeSpec d h

/-- no text at all carries a namespace rename or a change of the top-level comment: the reader always returns
`info = None`, `javadoc = None` -/
theorem read_no_top_level {text : List Nat} {d : Diff} (h : TinyDiff.read text = some d) :
    d.info = .none ∧ d.doc = .none := by
  unfold TinyDiff.read at h
  split at h
  · cases h
  · split at h
    · cases h
    · split at h
      · cases h
      · simp only [Option.some.injEq] at h; subst h; exact ⟨rfl, rfl⟩

/-- … hence applying a diff that was read from text never changes namespaces or top-level comment -/
theorem text_keeps_top_level {text : List Nat} {d : Diff} {t r : Mappings} {nsName : JStr}
    (h : TinyDiff.read text = some d) (ha : applyTo d t nsName = some r) : r.ns = t.ns ∧ r.doc = t.doc := by
  obtain ⟨hi, hdoc⟩ := read_no_top_level h
  unfold applyTo at ha
  cases hn : t.getNamespace nsName with
  | none => rw [hn] at ha; cases ha
  | some ns =>
    rw [hn] at ha
    simp only [applyAt, hi, hdoc, applyInfo, applyOption] at ha
    cases hc : applyMap classOps ns t.ns.length (applyClass ns t.ns.length) d.classes t.classes with
    | none => rw [hc] at ha; cases ha
    | some cs => rw [hc] at ha; simp only [Option.some.injEq] at ha; subst ha; exact ⟨rfl, rfl⟩

/-- **apply_read_back**: replacing `Edit(a, a)` by `None` (what travelling through text does) never changes a SUCCESSFUL
application: same namespaces, same comment, and under every key at every level the same entry. (The converse is false:
`text_weakens_same_edit_witness`.) -/
theorem apply_read_back {d : Diff} {t r : Mappings} {nsName : JStr} (hd : Diff.WF d) (ht : KeysUnique t)
    (hinfo : d.info = .none) (hdoc : normAction d.doc = .none) (h : applyTo d t nsName = some r) :
    ∃ r', applyTo (normDiff d) t nsName = some r' ∧ MappingsEqv r' r :=
  norm_applyTo hd ht hinfo hdoc h

/-- an `Edit(X, X)` with a WRONG old value is refused when applied directly, but is accepted (as `None`) after the diff
went through text: the old-value check of an unchanged name does not survive the format -/
theorem text_weakens_same_edit_witness :
    let d : Diff := { info := .none, doc := .none, classes := [
      (jstr "A", { info := .edit (jstr "X") (jstr "X"), doc := .none, fields := [], methods := [] })] }
    let t : Mappings := { ns := [jstr "official", jstr "named"], doc := none, classes := [
      (jstr "A", { names := [some (jstr "A"), some (jstr "Y")], doc := none, fields := [], methods := [] })] }
    Writable d ∧ applyTo d t (jstr "named") = none ∧
      ∃ d', TinyDiff.read (TinyDiff.writeSpec d) = some d' ∧ applyTo d' t (jstr "named") = some t := by
  decide

theorem keysUnique_of_WF {m : Mappings} (h : WF m) : KeysUnique m :=
  ⟨h.1, fun c hc => ⟨(h.2 c hc).2.2.1, (h.2 c hc).2.2.2.2.1, fun me hme => ((h.2 c hc).2.2.2.2.2 me hme).2.2.2.1⟩⟩

/-- **diff_apply_text_partial**: on the domain of `diff_apply_partial`, if moreover the diff is `Writable` (names and
comments survive a line of text; the top-level comment is unchanged), the diff read back from its specification text
still turns `A` into (something `≈`) `B` -/
theorem diff_apply_text_partial {a b : Mappings} {d : Diff} {n0 n1 : JStr} (wa : WF a) (wb : WF b)
    (hns : a.ns = [n0, n1]) (hne : n0 ≠ n1) (hsrc : ParamSrcless a b) (hd : diff a b = some d) (hw : Writable d) :
    ∃ d' r, TinyDiff.read (TinyDiff.writeSpec d) = some d' ∧ applyTo d' a n1 = some r ∧
      MappingsEqv r b ∧ eqvMappings r b = true := by
  obtain ⟨r, hr, he, _⟩ := diff_apply_partial wa wb hns hne hsrc hd
  obtain ⟨r', hr', he'⟩ := apply_read_back hw.2.2.1 (keysUnique_of_WF wa) hw.1 hw.2.1 hr
  have := mappingsEqv_trans he' he
  exact ⟨normDiff d, r', read_write d hw, hr', this, eqvMappings_of this⟩

/-- a change of the top-level comment cannot travel through text (`Writable` excludes it for this reason) -/
theorem diff_apply_text_top_comment_witness :
    let m (doc : Option JStr) : Mappings := { ns := [jstr "official", jstr "named"], doc := doc, classes := [] }
    (∃ d, diff (m none) (m (some (jstr "x"))) = some d ∧ ¬ Writable d ∧
      applyTo d (m none) (jstr "named") = some (m (some (jstr "x")))) ∧
    ∀ text d' r, TinyDiff.read text = some d' → applyTo d' (m none) (jstr "named") = some r → r.doc = none := by
  refine ⟨by decide, ?_⟩
  intro text d' r h ha
  exact (text_keeps_top_level h ha).2

/-! ## (6) the hypotheses are satisfiable -/

/-- `diff_apply_partial` / `diff_apply_text_partial` apply to a pair sharing some keys and differing at all five levels
(class renamed, field removed, method added with a parameter, parameter renamed keeping its source name, comments
added / removed / edited with a line feed, a TAB, a CR, a backslash and the two characters backslash-`n`) -/
example :
    let a : Mappings := { ns := [jstr "official", jstr "named"], doc := some (jstr "top"), classes := [
      (jstr "p/A", { names := [some (jstr "p/A"), some (jstr "q/X")], doc := some (jstr "old"), fields := [((jstr "f", jstr "I"), { desc := jstr "I", names := [some (jstr "f"), some (jstr "g")], doc := none })], methods := [((jstr "m", jstr "(I)V"), { desc := jstr "(I)V", names := [some (jstr "m"), some (jstr "n")], doc := none, params := [(0, { index := 0, names := [some (jstr "s"), some (jstr "p")], doc := some (jstr "pd") })] })] }),
      (jstr "B", { names := [some (jstr "B"), some (jstr "Y")], doc := none, fields := [], methods := [] })] }
    let b : Mappings := { ns := [jstr "official", jstr "named"], doc := some (jstr "top"), classes := [
      (jstr "C", { names := [some (jstr "C"), some (jstr "Z")], doc := none, fields := [], methods := [] }),
      (jstr "p/A", { names := [some (jstr "p/A"), some (jstr "q/W")], doc := some (jstr "new\nline\ttab \\n bs\\ cr\r"), fields := [], methods := [((jstr "k", jstr "()V"), { desc := jstr "()V", names := [some (jstr "k"), some (jstr "l")], doc := some (jstr "md"), params := [(1, { index := 1, names := [none, some (jstr "q")], doc := none })] }), ((jstr "m", jstr "(I)V"), { desc := jstr "(I)V", names := [some (jstr "m"), some (jstr "n")], doc := none, params := [(0, { index := 0, names := [some (jstr "s"), some (jstr "r")], doc := none })] })] })] }
    WF a ∧ WF b ∧ ParamSrcless a b ∧ ∃ d, diff a b = some d ∧ Writable d ∧ d ≠ normDiff d := by
  decide

/-- `apply_exact` / `apply_refuses` speak about real refusals: one diff per refused combination of the table -/
example :
    let t : Mappings := { ns := [jstr "official", jstr "named"], doc := none, classes := [
      (jstr "A", { names := [some (jstr "A"), some (jstr "X")], doc := none, fields := [], methods := [] }),
      (jstr "B", { names := [some (jstr "B"), none], doc := none, fields := [], methods := [] })] }
    let d (k : String) (a : Action JStr) : Diff := { info := .none, doc := .none, classes := [
      (jstr k, { info := a, doc := .none, fields := [], methods := [] })] }
    applyTo (d "A" (.add (jstr "N"))) t (jstr "named") = none ∧ applyTo (d "A" (.remove (jstr "W"))) t (jstr "named") = none ∧
    applyTo (d "A" (.edit (jstr "W") (jstr "N"))) t (jstr "named") = none ∧ applyTo (d "Z" .none) t (jstr "named") = none ∧
    applyTo (d "Z" (.remove (jstr "X"))) t (jstr "named") = none ∧ applyTo (d "B" (.remove (jstr "X"))) t (jstr "named") = none ∧
    (applyTo (d "B" (.add (jstr "N"))) t (jstr "named")).isSome ∧ (applyTo (d "A" (.remove (jstr "X"))) t (jstr "named")).isSome ∧
    (applyTo (d "Z" (.add (jstr "N"))) t (jstr "named")).isSome ∧ applyTo (d "A" (.edit (jstr "X") (jstr "N"))) t (jstr "official") = none ∧
    applyTo (d "Z" (.add (jstr "N"))) t (jstr "official") = none := by
  decide

end Thm.C04
