import FeatherModel.Lemmas.TotalPasses
import FeatherModel.Lemmas.TotalDyn
import FeatherModel.Lemmas.TotalText
import FeatherModel.Model.TotalClass

/-!
# C16 — parsers fail with an error, never crash, on arbitrary input

> Given arbitrary bytes or text, the class reader, the Tiny v2, tiny-diff, Enigma and nests parsers and the
> descriptor parsers either return a value or return an error: they do not panic, overflow the stack, loop forever or
> allocate memory unrelated to the input size; and whatever the class reader accepts, the class writer handles without
> panicking.

The models (`Model/Total*.lean`) return `ok | err | panic site`; every unchecked Rust operation found by the audit
(`Total.Sites.table`) is a checked operation of the model.  All theorems quantify over **all** inputs (`Bytes = List
Nat`, elements are taken modulo 256) and all initial accounts.

State of the code (`/repo` after e3534dd, 4853513, 6b80d4b, 8349742, cf30e8c, cb2ce34, 835fdd2, 136eeb3): the nine sites
the audit found open in the class reader, in `get_arguments_size` (1–8) and in the class writer's `if_helper` (9) are
repaired; each former `_witness` theorem is now a regression theorem (`…_is_err` / `…_is_ok`).  No audited site is open
(`open_sites`).  The expansion of acyclic bootstrap-argument DAGs into trees (a copy per use, formerly `fanout ^ 16` nodes)
is bounded since the budget `MAX_BOOTSTRAP_ARGUMENT_CONSTANTS`: `dyn_nodes_bounded`.  The writer as a whole is C02's model: `Thm.C02.write_fails_cleanly`
(the code array is written or refused with an error for every instruction list).

* Full strength (`no_panic_X`): Tiny v2, tiny-diff, Enigma, nests, the three descriptor parsers, `read_code`
  (`no_panic_code`: in particular the guarded sites 20–34 never fire), element values, `Dynamic` resolution,
  `get_arguments_size`.
* The writer scenario of former site 9: `no_panic_writer_grow` (full strength).
* Termination: every model function is structurally recursive (Lean's own check); the two bytecode loops and the
  `get_arguments_size` loop take fuel, `pass1_fuel` / `pass2_fuel` show that more fuel never changes the result.
* Recursion is bounded by constants: `depth_bound_anno` (a value that is read is nested at most 256 deep),
  `depth_bound_dyn` (the resolver is structurally recursive in `16 - depth`), `depth_bound_enigma`.
* Allocation: `alloc_bound_code` (`≤ max 65535 (|input| + 2)` elements: 16-bit counts, switch capacities through
  `passes_visit_same_instructions`, `read_u8_vec` buffers hold bytes that are present).
-/

namespace Thm.C16

open Total

/-! ## text formats and descriptors -/

/-- `quill::tiny_v2::read::<N>` never panics: the only unchecked operation (`&line[idents..]`, lines.rs:86) is always on
a char boundary -/
theorem no_panic_tiny (n : Nat) (b : Bytes) (st : Acct) (s : Nat) : (Text.tinyOp n b st).1 ≠ .panic s :=
  (Text.tinyOp_spec n b).panicsIn.not_panic st s

theorem no_panic_tinydiff (b : Bytes) (st : Acct) (s : Nat) : (Text.tinyDiffOp b st).1 ≠ .panic s :=
  (Text.tinyDiffOp_spec b).panicsIn.not_panic st s

theorem no_panic_enigma (b : Bytes) (st : Acct) (s : Nat) : (Text.enigmaOp b st).1 ≠ .panic s :=
  (Text.enigmaOp_spec b).panicsIn.not_panic st s

theorem no_panic_nests (b : Bytes) (st : Acct) (s : Nat) : (Text.nestsOp b st).1 ≠ .panic s :=
  (Text.nestsOp_spec b).panicsIn.not_panic st s

/-- the slice `&line[idents..]` is on a char boundary for every string, not only for the lines of a valid file -/
theorem line_slice_on_char_boundary (line : List Nat) : isCharBoundary line (Text.leadingTabs line) = true :=
  Text.isCharBoundary_leadingTabs line

/-- recursion depth of `parse_class` (bounded by the longest run of TABs + 1) is at most linear in the input -/
theorem depth_bound_enigma (t : List Nat) : Text.enigmaDepth t ≤ t.length + 1 := Text.enigmaDepth_le t

theorem no_panic_desc_field (d : JStr) (st : Acct) (s : Nat) : (Text.descFieldOp d st).1 ≠ .panic s :=
  (Text.descFieldOp_spec d).panicsIn.not_panic st s

theorem no_panic_desc_method (d : JStr) (st : Acct) (s : Nat) : (Text.descMethodOp d st).1 ≠ .panic s :=
  (Text.descMethodOp_spec d).panicsIn.not_panic st s

theorem no_panic_desc_return (d : JStr) (st : Acct) (s : Nat) : (Text.descReturnOp d st).1 ≠ .panic s :=
  (Text.descReturnOp_spec d).panicsIn.not_panic st s

/-- `array_dimension += 1` in `u8` (descriptor.rs:101) never overflows, and the checked loop is the loop C18 models -/
theorem array_dimension_never_overflows (d : JStr) (st : Acct) :
    Text.bracketsChecked 0 d st = (match Descriptor.readBrackets 0 d with
      | some r => (.ok r, st)
      | none => (.err, st)) :=
  Text.bracketsChecked_eq d 0 st (Nat.zero_le _)

/-! ## `read_code` (class reader, wrapper pool) -/

/-- `read_code` never panics: the guarded operations (slice in the second pass, `iload_n` / `istore_n` arithmetic,
frame-type subtractions, the `unreachable!()`s: sites 20–34) never fire, and the formerly open sites 1, 2, 3, 5 are
errors or gone -/
theorem no_panic_code (body : Bytes) (st : Acct) (s : Nat) : (Code.codeOp body st).1 ≠ .panic s :=
  (Code.codeOp_spec_sharp body).panicsIn.not_panic st s

example : (Code.codeOp [0, 1, 0, 1, 0, 0, 0, 1, 177, 0, 0, 0, 0]).run.1 = .ok () := by decide +kernel

/-- regression of site 1 (e3534dd): `nop; return` with a LocalVariableTable entry `start_pc = 1, length = 65535` -/
theorem code_labels_range_is_err :
    (Code.codeOp [0, 1, 0, 1, 0, 0, 0, 2, 0, 177, 0, 0, 0, 1, 0, 26, 0, 0, 0, 12,
      0, 1, 0, 1, 255, 255, 0, 1, 0, 10, 0, 0]).run.1 = .err := by decide +kernel

/-- regression of site 3 (6b80d4b): `return` with a StackMapTable of two frames, the second `same_frame_extended` with
`offset_delta = 65535` -/
theorem code_frame_offset_is_err :
    (Code.codeOp [0, 1, 0, 1, 0, 0, 0, 1, 177, 0, 0, 0, 1, 0, 24, 0, 0, 0, 6,
      0, 2, 0, 251, 255, 255]).run.1 = .err := by decide +kernel

/-- regression of site 2 (4853513): every offset `0 … n` can get a label, for every `n` (in particular `n = 65535`: all
65536 offsets; the harness replays the full class file: `labels-full 65534`) -/
theorem labels_all_offsets_is_ok (n : Nat) (st : Acct) :
    ((Code.Labels.addRange ⟨n, 0, 0⟩ n >>= fun l => l.addUnchecked n) st).1 = .ok ⟨n, 2 ^ (n + 1) - 1, n + 1⟩ := by
  rw [bnd_apply, Code.addRange_new n n st]
  exact congrArg Prod.fst (Code.addUnchecked_fresh n n st)

/-- regression (52b8362): a truncated last instruction (`sipush` with one operand byte) is an error -/
theorem code_truncated_insn_is_err :
    (Code.codeOp [0, 4, 0, 4, 0, 0, 0, 2, 17, 0, 0, 0, 0, 0]).run.1 = .err := by decide +kernel

/-- regression (52b8362): `tableswitch` with `low = i32::MIN`, `high = i32::MAX` is an error -/
theorem code_tableswitch_range_is_err :
    (Code.codeOp [0, 4, 0, 4, 0, 0, 0, 16, 170, 0, 0, 0, 0, 0, 0, 0, 128, 0, 0, 0, 127, 255, 255, 255,
      0, 0, 0, 0]).run.1 = .err := by decide +kernel

/-- fuel of the first pass: anything ≥ `len - pos` gives the same result -/
theorem pass1_fuel (f1 f2 : Nat) (l : Code.Labels) (c : Code.Cur) (h1 : c.len - c.pos ≤ f1) (h2 : c.len - c.pos ≤ f2) :
    Code.pass1 f1 l c = Code.pass1 f2 l c :=
  Code.pass1_fuel f1 f2 l c h1 h2

/-- fuel of the second pass -/
theorem pass2_fuel (l : Code.Labels) (f1 f2 : Nat) (code : Bytes) (h1 : code.length ≤ f1) (h2 : code.length ≤ f2) :
    Code.pass2 l f1 (Code.Cur.start code) = Code.pass2 l f2 (Code.Cur.start code) :=
  Code.pass2_fuel l f1 f2 _ (Code.WF.start code) (by simpa [Code.Cur.start] using h1) (by simpa [Code.Cur.start] using h2)

/-- the two decoders agree: where a step of the first pass ends, a successful step of the second pass at the same
cursor ends too (all 256 opcodes, `wide`, both switches with every padding) -/
theorem passes_visit_same_instructions (l l2 : Code.Labels) (c : Code.Cur) (st st2 : Acct) (l1 : Code.Labels)
    (c1 c2 : Code.Cur) (hw : Code.WF c) (hlen : c.len ≤ 65535)
    (h1 : (Code.pass1Step l c st).1 = .ok (l1, c1)) (h2 : (Code.pass2Step l2 c st2).1 = .ok c2) : c2 = c1 := by
  have h := (Code.step_agree (B := 65535) (Nat.le_refl _) l l2 c st l1 c1 hw hlen h1 st2).2
  rw [h2] at h
  exact h

/-- every allocation request of `read_code` is at most `max 65535 (|input| + 2)` elements: 16-bit counts and what is
derived from them, `Vec::with_capacity(high - low + 1)` / `(npairs)` of the second pass (sites 33, 34; up to 2^31 - 1
by themselves, but the first pass has read that many offsets from the same bytes: `passes_visit_same_instructions`),
and the buffers of `read_u8_vec`, which since 8349742 only hold bytes that are present (former site 6) -/
theorem alloc_bound_code (body : Bytes) : (Code.codeOp body).run.2.alloc ≤ max 65535 (body.length + 2) :=
  (Code.codeOp_spec_sharp body).alloc_le

/-- regression of site 6 (8349742): a Code attribute with one unknown attribute of `attribute_length = 0xFFFFFFFF`
is an error after a request of the 2 bytes that are left (was: 4 GiB) -/
theorem alloc_u32_is_small :
    (Code.codeOp [0, 1, 0, 1, 0, 0, 0, 1, 177, 0, 0, 0, 1, 0, 32, 255, 255, 255, 255]).run = (.err, { alloc := 2 }) := by
  decide +kernel

/-! ## element values -/

/-- the element-value reader never panics (former site 5) -/
theorem no_panic_anno (body : Bytes) (st : Acct) (s : Nat) : (Anno.annoOp body st).1 ≠ .panic s :=
  (Anno.annoOp_spec body).panicsIn.not_panic st s

/-- the recursion is structural in `255 - depth`, and a value that is read is nested at most 256 levels deep -/
theorem depth_bound_anno (body : Bytes) (st : Acct) (d : Nat) (h : (Anno.annoOp body st).1 = .ok d) : d ≤ 256 := by
  have := ((Anno.annoOp_spec body) st).2
  rw [h] at this
  exact this

/-- 255 nested arrays are read … -/
theorem anno_nesting_255_is_ok : (Anno.annoOp (Anno.nested 255)).run.1 = .ok 256 := by decide +kernel

/-- … one more is an error (regression of site 5, 835fdd2; was: the stack is exhausted by `3·gas + 3` bytes for every
stack size `gas`) -/
theorem anno_nesting_is_err : (Anno.annoOp (Anno.nested 256)).run.1 = .err := by decide +kernel

/-! ## `Dynamic` constants -/

/-- resolving `Dynamic` constants never panics (former site 4) -/
theorem no_panic_dyn (spec : Dyn.Bsms) (st : Acct) (s : Nat) : (Dyn.dynOp spec st).1 ≠ .panic s :=
  (Dyn.dynOp_spec (S := []) (Dyn.argsLe_sum spec)).panicsIn.not_panic st s

/-- **the expansion of shared bootstrap arguments is bounded** (full strength, every pool, every sharing structure, every
initial account): one resolution of a loadable constant builds at most `MAX_BOOTSTRAP_ARGUMENT_CONSTANTS = 65536`
`Loadable` nodes — each `get_loadable_at_depth` call pays one unit of a budget that the top-level call sets up — and the
largest single allocation request is the length of an argument list of the input. Before the repair a pool of `16·k`
two-byte indices described `k ^ 16` nodes (`dyn_expansion_is_err` below ran out of memory) -/
theorem dyn_nodes_bounded (spec : Dyn.Bsms) (st : Acct) (n : Nat) (h : (Dyn.dynOp spec st).1 = .ok n) :
    n ≤ 65536 ∧ (st.alloc ≤ (spec.map List.length).sum → (Dyn.dynOp spec st).2.alloc ≤ (spec.map List.length).sum) := by
  have hs := Dyn.dynOp_spec (S := []) (Dyn.argsLe_sum spec) st
  refine ⟨?_, hs.1⟩
  have h2 := hs.2
  rw [h] at h2
  exact h2

/-- regression of site 4 (cb2ce34): a `Dynamic` constant that lists itself as bootstrap argument is an error (was:
exhausts every stack) -/
theorem dyn_self_reference_is_err : (Dyn.dynOp Dyn.selfRef).run.1 = .err := by decide +kernel

/-- the recursion depth is bounded by a constant: `resolve` is structurally recursive in `16 - depth`; a chain of 17
constants (depths 0 … 16) is resolved, a chain of 18 is an error -/
theorem depth_bound_dyn :
    (Dyn.dynOp ((List.range 17).map fun i => if i + 1 < 17 then [Dyn.Arg.dyn (i + 1)] else [])).run.1 = .ok 17 ∧
    (Dyn.dynOp ((List.range 18).map fun i => if i + 1 < 18 then [Dyn.Arg.dyn (i + 1)] else [])).run.1 = .err := by
  decide +kernel

/-- sharing is still resolved by copying: 7 constants (a binary DAG of depth 6) become 127 `Loadable`s … -/
theorem dyn_sharing_is_copied : (Dyn.dynOp (Dyn.binDag 6 0)).run.1 = .ok 127 := by decide +kernel

/-- … but the copies are paid from the budget: three constants whose bootstrap methods list the next one 300 times
(1 + 300 + 90000 nodes, a pool of about 1.3 KB) are an error, not 90301 nodes (regression of the expansion repair; with
sixteen such levels the unrepaired reader asked for `300 ^ 16` nodes) -/
theorem dyn_expansion_is_err :
    (Dyn.dynOp [List.replicate 300 (Dyn.Arg.dyn 1), List.replicate 300 (Dyn.Arg.dyn 2), []]).run.1 = .err := by
  decide +kernel

/-! ## the writer on reader output -/

/-- `get_arguments_size` (reached from the writer's `invokeinterface` arm on any descriptor the reader accepted)
never panics (former sites 7, 8) -/
theorem no_panic_argsize (d : JStr) (st : Acct) (s : Nat) : (Text.argSizeOp d st).1 ≠ .panic s :=
  (Text.argSizeOp_spec d).panicsIn.not_panic st s

/-- regression of site 7 (cf30e8c): `(` + 128 × `D` + `)V` -/
theorem argsize_wide_is_err :
    (Text.argSizeOp (40 :: List.replicate 128 68 ++ [41, 86])).run.1 = .err := by decide +kernel

/-- regression of site 8 (cf30e8c): `(` + 255 × `I` + `)V` -/
theorem argsize_one_is_err :
    (Text.argSizeOp (40 :: List.replicate 255 73 ++ [41, 86])).run.1 = .err := by decide +kernel

example : (Text.argSizeOp (jstr "(IDLjava/lang/Thread;)V")).run.1 = .ok () := by decide +kernel
example : (Text.argSizeOp (40 :: List.replicate 254 73 ++ [41, 86])).run.1 = .ok () := by decide +kernel

/-- the writer scenario `if_helper` with a known target never panics (former site 9; the writer as a whole:
`Thm.C02.write_fails_cleanly`) -/
theorem no_panic_writer_grow (nops nitf : Nat) (st : Acct) (s : Nat) : (Writer.growOp nops nitf st).1 ≠ .panic s :=
  (Text.growOp_spec nops nitf).panicsIn.not_panic st s

/-- regression of site 9 (136eeb3): a 65535-byte method (65530 `nop`, `ldc`, `ifeq` 32768 bytes back) in a class with
130 interfaces: the writer turns `ldc` into `ldc_w`; `65533 + 1 + 2` leaves `u16` — an error (was: a panic) -/
theorem writer_if_wide_is_err : (Writer.growOp 65530 130).run.1 = .err := by decide +kernel

example : (Writer.growOp 65530 100).run.1 = .ok () := by decide +kernel

/-- no site of the audit is still open -/
theorem open_sites : Sites.openIds = [] := by decide +kernel

/-! ## whole class files (C01's reader model) -/

/-- the outcome class of a whole file is `ok` or `err` (the unchecked operations of the reader are the subject of the
component theorems above; C01's model is only the value part) -/
theorem no_panic_classRead (b : Bytes) (st : Acct) (s : Nat) : (classReadOp b st).1 ≠ .panic s := by
  unfold classReadOp
  cases ClassRead.read b <;> simp [TM.fail, Pure.pure, TM.ret]

end Thm.C16
