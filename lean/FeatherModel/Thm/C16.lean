import FeatherModel.Lemmas.TotalPasses
import FeatherModel.Lemmas.TotalDyn
import FeatherModel.Lemmas.TotalText
import FeatherModel.Model.ClassRead

/-!
# C16 — parsers fail with an error, never crash, on arbitrary input

> Given arbitrary bytes or text, the class reader, the Tiny v2, tiny-diff, Enigma and nests parsers and the
> descriptor parsers either return a value or return an error: they do not panic, overflow the stack, loop forever or
> allocate memory unrelated to the input size; and whatever the class reader accepts, the class writer handles without
> panicking.

The models (`Model/Total*.lean`) return `ok | err | panic site`; every unchecked Rust operation found by the audit
(`Total.Sites.table`) is a checked operation of the model.  All theorems quantify over **all** inputs (`Bytes = List
Nat`, elements are taken modulo 256) and all initial accounts.

* Full strength (`no_panic_X`): Tiny v2, tiny-diff, Enigma, nests, the three descriptor parsers.
* The class reader does **not** satisfy the property: `no_panic_code_partial`, `no_panic_anno_partial`,
  `no_panic_dyn_partial`, `no_panic_classRead_partial` exclude exactly the open sites; one `…_witness` per site shows a
  concrete input (or, where the site needs 64 KiB of input or depends on the stack, a family of inputs) reaching it.
  The same for the writer on reader output: `no_panic_argsize_partial`, `no_panic_writer_grow_partial`.
* Guarded sites (20–37): the models keep them as checked operations and the same theorems show they never fire.
* Termination: every model function is structurally recursive (Lean's own check); the two bytecode loops and the
  `get_arguments_size` loop take fuel, `pass1_fuel` / `pass2_fuel` show that more fuel never changes the result.
* Recursion: `depth_bound_anno` (≤ |input| / 3 + 1 levels), `depth_bound_dyn_partial` (acyclic: ≤ number of constants
  + 1), `depth_bound_enigma`; unbounded: `dyn_self_reference_witness`; linear and therefore beyond any fixed stack:
  `anno_nesting_witness`.
* Allocation: `alloc_bound_code` (every request sized by a 16-bit field or by bytes present is ≤ 65535 elements; needs
  `passes_visit_same_instructions`),
  `alloc_u32_witness` (the request sized by the raw 32-bit `attribute_length`).
-/

namespace Thm.C16

open Total

/-! ## text formats and descriptors: full strength -/

/-- `quill::tiny_v2::read::<N>` never panics: the only unchecked operation (`&line[idents..]`, lines.rs:86) is always on
a char boundary -/
theorem no_panic_tiny (n : Nat) (b : Bytes) (st : Acct) (s : Nat) : (Text.tinyOp n b st).1 ≠ .panic s :=
  (Text.tinyOp_spec n b).panicsIn.not_panic st s

theorem no_panic_tinydiff (b : Bytes) (st : Acct) (s : Nat) : (Text.tinyDiffOp b st).1 ≠ .panic s :=
  (Text.tinyDiffOp_spec b).panicsIn.not_panic st s

theorem no_panic_enigma (b : Bytes) (st : Acct) (s : Nat) : (Text.enigmaOp b st).1 ≠ .panic s :=
  (Text.enigmaOp_spec b).panicsIn.not_panic st s

theorem no_panic_nests (b : Bytes) (st : Acct) (s : Nat) : (Text.nestsOp b st).1 ≠ .panic s :=
  (Text.nestsOp_spec b).panicsIn.not_panic st s

/-- the slice `&line[idents..]` is on a char boundary for every string, not only for the lines of a valid file -/
theorem line_slice_on_char_boundary (line : List Nat) : isCharBoundary line (Text.leadingTabs line) = true :=
  Text.isCharBoundary_leadingTabs line

/-- recursion depth of `parse_class` (bounded by the longest run of TABs + 1) is at most linear in the input -/
theorem depth_bound_enigma (t : List Nat) : Text.enigmaDepth t ≤ t.length + 1 := Text.enigmaDepth_le t

theorem no_panic_desc_field (d : JStr) (st : Acct) (s : Nat) : (Text.descFieldOp d st).1 ≠ .panic s :=
  (Text.descFieldOp_spec d).panicsIn.not_panic st s

theorem no_panic_desc_method (d : JStr) (st : Acct) (s : Nat) : (Text.descMethodOp d st).1 ≠ .panic s :=
  (Text.descMethodOp_spec d).panicsIn.not_panic st s

theorem no_panic_desc_return (d : JStr) (st : Acct) (s : Nat) : (Text.descReturnOp d st).1 ≠ .panic s :=
  (Text.descReturnOp_spec d).panicsIn.not_panic st s

/-- `array_dimension += 1` in `u8` (descriptor.rs:101) never overflows, and the checked loop is the loop C18 models -/
theorem array_dimension_never_overflows (d : JStr) (st : Acct) :
    Text.bracketsChecked 0 d st = (match Descriptor.readBrackets 0 d with
      | some r => (.ok r, st)
      | none => (.err, st)) :=
  Text.bracketsChecked_eq d 0 st (Nat.zero_le _)

/-! ## `read_code` (class reader, wrapper pool) -/

/-- `read_code` panics at most at: `start_pc + length` (1), the label counter (2), the StackMapTable offset (3), the
element-value stack (5).  In particular the guarded sites 20–34 never fire. -/
theorem no_panic_code_partial (body : Bytes) (st : Acct) (s : Nat) (h : (Code.codeOp body st).1 = .panic s) :
    s ∈ [Sites.labelsRange, Sites.labelsMaxId, Sites.frameOffset, Sites.stackElementValue] :=
  (Code.codeOp_spec body).panicsIn st s h

example : (Code.codeOp [0, 1, 0, 1, 0, 0, 0, 1, 177, 0, 0, 0, 0]).run.1 = .ok () := by decide +kernel

/-- site 1: `nop; return` with a LocalVariableTable entry `start_pc = 1, length = 65535` -/
theorem code_labels_range_witness :
    (Code.codeOp [0, 1, 0, 1, 0, 0, 0, 2, 0, 177, 0, 0, 0, 1, 0, 26, 0, 0, 0, 12,
      0, 1, 0, 1, 255, 255, 0, 1, 0, 10, 0, 0]).run.1 = .panic Sites.labelsRange := by decide +kernel

/-- site 3: `return` with a StackMapTable of two frames, the second `same_frame_extended` with `offset_delta = 65535` -/
theorem code_frame_offset_witness :
    (Code.codeOp [0, 1, 0, 1, 0, 0, 0, 1, 177, 0, 0, 0, 1, 0, 24, 0, 0, 0, 6,
      0, 2, 0, 251, 255, 255]).run.1 = .panic Sites.frameOffset := by decide +kernel

/-- site 2: labels at all of `0 … 65534` are fine (`addRange` succeeds), the next one overflows the `u16` counter.
(`n` is a variable equal to 65535 only to keep the kernel from unfolding 65535 steps; the harness replays the full class
file: `labels-full 65534`.) -/
theorem labels_maxid_witness (n : Nat) (hn : n = 65535) (st : Acct) :
    ((Code.Labels.addRange ⟨n, 0, 0⟩ n >>= fun l => l.addUnchecked n) st).1 = .panic Sites.labelsMaxId :=
  Code.maxid_overflows n hn st

/-- regression (52b8362): a truncated last instruction (`sipush` with one operand byte) is an error -/
theorem code_truncated_insn_is_err :
    (Code.codeOp [0, 4, 0, 4, 0, 0, 0, 2, 17, 0, 0, 0, 0, 0]).run.1 = .err := by decide +kernel

/-- regression (52b8362): `tableswitch` with `low = i32::MIN`, `high = i32::MAX` is an error -/
theorem code_tableswitch_range_is_err :
    (Code.codeOp [0, 4, 0, 4, 0, 0, 0, 16, 170, 0, 0, 0, 0, 0, 0, 0, 128, 0, 0, 0, 127, 255, 255, 255,
      0, 0, 0, 0]).run.1 = .err := by decide +kernel

/-- fuel of the first pass: anything ≥ `len - pos` gives the same result -/
theorem pass1_fuel (f1 f2 : Nat) (l : Code.Labels) (c : Code.Cur) (h1 : c.len - c.pos ≤ f1) (h2 : c.len - c.pos ≤ f2) :
    Code.pass1 f1 l c = Code.pass1 f2 l c :=
  Code.pass1_fuel f1 f2 l c h1 h2

/-- fuel of the second pass -/
theorem pass2_fuel (l : Code.Labels) (f1 f2 : Nat) (code : Bytes) (h1 : code.length ≤ f1) (h2 : code.length ≤ f2) :
    Code.pass2 l f1 (Code.Cur.start code) = Code.pass2 l f2 (Code.Cur.start code) :=
  Code.pass2_fuel l f1 f2 _ (Code.WF.start code) (by simpa [Code.Cur.start] using h1) (by simpa [Code.Cur.start] using h2)

/-- the two decoders agree: where a step of the first pass ends, a successful step of the second pass at the same
cursor ends too (all 256 opcodes, `wide`, both switches with every padding) -/
theorem passes_visit_same_instructions (l l2 : Code.Labels) (c : Code.Cur) (st st2 : Acct) (l1 : Code.Labels)
    (c1 c2 : Code.Cur) (hw : Code.WF c) (hlen : c.len ≤ 65535)
    (h1 : (Code.pass1Step l c st).1 = .ok (l1, c1)) (h2 : (Code.pass2Step l2 c st2).1 = .ok c2) : c2 = c1 := by
  have h := (Code.step_agree (B := 65535) (Nat.le_refl _) l l2 c st l1 c1 hw hlen h1 st2).2
  rw [h2] at h
  exact h

/-- every allocation request of `read_code` whose size is a 16-bit field, a count derived from one, or the number of
bytes present is at most 65535 elements (`0·|input| + 65535`).  This includes `Vec::with_capacity(high - low + 1)` and
`Vec::with_capacity(npairs)` of the second pass (sites 33, 34; up to 2^31 - 1 by themselves): the first pass has read
that many offsets from the same bytes (`passes_visit_same_instructions`). -/
theorem alloc_bound_code (body : Bytes) : (Code.codeOp body).run.2.alloc ≤ 65535 :=
  (Code.codeOp_spec_sharp body).alloc_le

/-- site 6: a 29-byte Code attribute (one unknown attribute with `attribute_length = 0xFFFFFFFF`) requests 4 GiB -/
theorem alloc_u32_witness :
    (Code.codeOp [0, 1, 0, 1, 0, 0, 0, 1, 177, 0, 0, 0, 1, 0, 32, 255, 255, 255, 255]).run
      = (.err, { alloc := 1, big := 4294967295, depth := 0 }) := by decide +kernel

/-! ## element values -/

theorem no_panic_anno_partial (gas : Nat) (body : Bytes) (st : Acct) (s : Nat)
    (h : (Anno.annoOp gas body st).1 = .panic s) : s ∈ [Sites.stackElementValue] :=
  (Anno.annoOp_spec gas body).panicsIn st s h

/-- the recursion depth of the element-value reader is at most `|input| / 3 + 1`: a stack of that many levels is
never exhausted (and nothing else panics) -/
theorem depth_bound_anno (gas level : Nat) (input : Bytes) (h : input.length / 3 + 1 ≤ gas) (st : Acct) (s : Nat) :
    (Anno.readValue gas level input st).1 ≠ .panic s :=
  (Anno.readValue_depth_bound gas level input h).not_panic st s

example : (Anno.annoOp 3 (Anno.nested 2)).run.1 = .ok 3 := by decide +kernel

/-- site 5: the bound is attained — for **every** stack size `gas` the `3·gas + 3`-byte input `[[[…[I` exhausts it -/
theorem anno_nesting_witness (gas : Nat) (st : Acct) :
    (Anno.annoOp gas (Anno.nested gas) st).1 = .panic Sites.stackElementValue ∧ (Anno.nested gas).length = 3 * gas + 3 :=
  ⟨Anno.annoOp_nested_overflows gas st, Anno.nested_length gas⟩

/-! ## `Dynamic` constants -/

theorem no_panic_dyn_partial (gas : Nat) (spec : Dyn.Bsms) (st : Acct) (s : Nat)
    (h : (Dyn.dynOp gas spec st).1 = .panic s) : s ∈ [Sites.stackDynamic] :=
  (Dyn.resolve_spec (S := [Sites.stackDynamic]) (by decide) (Dyn.argsLe_sum spec) gas 1 0).panicsIn st s h

/-- site 4: a `Dynamic` constant that lists itself as bootstrap argument exhausts **every** stack: the recursion is
unbounded -/
theorem dyn_self_reference_witness (gas : Nat) (st : Acct) :
    (Dyn.dynOp gas Dyn.selfRef st).1 = .panic Sites.stackDynamic :=
  Dyn.selfRef_overflows gas 1 st

/-- argument structures whose references only go forward (hence acyclic) need at most `k + 1` levels for `k`
constants -/
theorem depth_bound_dyn_partial (spec : Dyn.Bsms) (hf : Dyn.Forward spec) (gas : Nat) (h : spec.length + 1 ≤ gas)
    (st : Acct) (s : Nat) : (Dyn.dynOp gas spec st).1 ≠ .panic s := by
  have hB := Dyn.argsLe_sum spec
  exact (Dyn.resolve_forward hf hB gas 1 0 (by omega) (by omega)).panicsIn.not_panic st s

example : Dyn.Forward [[.dyn 1, .int], [.dyn 2], []] := by
  intro i args h j hj
  match i, h with
  | 0, h => simp at h; subst h; simp at hj; omega
  | 1, h => simp at h; subst h; simp at hj; omega
  | 2, h => simp at h; subst h; simp at hj
  | n + 3, h => simp at h

/-- acyclic structures are expanded into trees: 11 constants (a binary DAG of depth 10) become 2047 `Loadable`s -/
theorem dyn_expansion_witness : (Dyn.dynOp 12 (Dyn.binDag 10 0)).run.1 = .ok 2047 := by decide +kernel

/-! ## the writer on reader output -/

/-- `get_arguments_size` (reached from the writer's `invokeinterface` arm on any descriptor the reader accepted)
panics only at its two `u8` additions -/
theorem no_panic_argsize_partial (d : JStr) (st : Acct) (s : Nat) (h : (Text.argSizeOp d st).1 = .panic s) :
    s ∈ [Sites.argSizeWide, Sites.argSizeOne] :=
  (Text.argSizeOp_spec d).panicsIn st s h

/-- site 7: `(` + 128 × `D` + `)V` -/
theorem argsize_wide_witness :
    (Text.argSizeOp (40 :: List.replicate 128 68 ++ [41, 86])).run.1 = .panic Sites.argSizeWide := by decide +kernel

/-- site 8: `(` + 255 × `I` + `)V` -/
theorem argsize_one_witness :
    (Text.argSizeOp (40 :: List.replicate 255 73 ++ [41, 86])).run.1 = .panic Sites.argSizeOne := by decide +kernel

example : (Text.argSizeOp (jstr "(IDLjava/lang/Thread;)V")).run.1 = .ok () := by decide +kernel

theorem no_panic_writer_grow_partial (nops nitf : Nat) (st : Acct) (s : Nat)
    (h : (Writer.growOp nops nitf st).1 = .panic s) : s ∈ [Sites.writerIfWide] :=
  (Text.growOp_spec nops nitf).panicsIn st s h

/-- site 9: a 65535-byte method (65530 `nop`, `ldc`, `ifeq` 32768 bytes back) in a class with 130 interfaces: the
writer turns `ldc` into `ldc_w` and computes `65533 + 1 + 2` in `u16` -/
theorem writer_if_wide_witness : (Writer.growOp 65530 130).run.1 = .panic Sites.writerIfWide := by decide +kernel

example : (Writer.growOp 65530 100).run.1 = .ok () := by decide +kernel

/-! ## whole class files (C01's reader model) -/

/-- the whole-file reader model of C01 crashes at most at sites 1, 2, 3 and by unbounded `Dynamic` recursion -/
theorem no_panic_classRead_partial (b : Bytes) (s : ClassRead.Site) (h : ClassRead.read b = .crash s) :
    s ∈ [ClassRead.Site.labelsRangeAdd, .labelsMaxId, .frameOffsetAdd, .recursion] := by
  cases s <;> simp

end Thm.C16
