import FeatherModel.Lemmas.NestNames
import FeatherModel.Lemmas.NestFilter
import FeatherModel.Lemmas.NestJar
import FeatherModel.Lemmas.NestUndo
import FeatherModel.Lemmas.NestApply
import FeatherModel.Lemmas.NestMap

/-!
# C14 — nesting renames classes identically in jars and in mappings
Property theorems only. Model: `FeatherModel/Model/Nest.lean` (mirror of `dukenest/src/*.rs`), decidable domains and the
state-free filter specification: `FeatherModel/Model/NestDomain.lean`.

A nests table is a list of nests in `IndexMap` order; `get` is the lookup by class name. All theorems are for every
table (any length, any chain depth), every jar and every mapping set.
-/

namespace Thm.C14
open Nest

/-- the table has one entry per class name (what `IndexMap` gives for a table built by `Nests::add`) -/
def KeysUnique (ns : Nests) : Prop := (ns.map (·.className)).Nodup

/-- no chain of enclosing classes returns to where it started: some rank decreases from every listed class to its
enclosing class -/
def Acyclic (ns : Nests) : Prop := ∃ rank : JStr → Nat, ∀ n ∈ ns, rank n.enclClass < rank n.className

/-! ## 1. Transitive naming: the recursion, its depth bound, cyclic tables
The Rust recursions count their depth and fail beyond `number of nests`; `build ns fuel` is that recursion with
`fuel = number of nests + 1 - depth`, `none` is the error. -/

/-- a larger bound never changes a name that was already computed -/
theorem build_fuel_mono (ns : Nests) {f f' : Nat} {c r : JStr} (h : build ns f c = some r) (hle : f ≤ f') :
    build ns f' c = some r :=
  build_mono_le ns h hle

/-- on an acyclic table the depth bound of the code is never hit: from every class the recursion ends within
`number of nests + 1` calls, no error is reported -/
theorem build_fuel_enough (ns : Nests) (h : Acyclic ns) (c : JStr) : (build ns (fuelFor ns) c).isSome = true := by
  obtain ⟨rank, hr⟩ := h
  exact build_isSome_of_rank_len ns rank hr c

/-- the remapper is built without error exactly for the acyclic tables: the bound rejects every cyclic table and nothing else -/
theorem acyclic_iff_mapTable (ns : Nests) (hu : KeysUnique ns) : Acyclic ns ↔ (mapTable ns).isSome = true := by
  constructor
  · intro h
    exact (mapTable_isSome_iff ns).mpr (fun n _ => build_fuel_enough ns h n.enclClass)
  · intro h
    exact rank_of_mapTable ns hu h

/-- the cyclic table `A in B, B in A` -/
def cyclicTable : Nests :=
  [{ kind := .inner, className := jstr "A", enclClass := jstr "B", enclMethod := none, innerName := jstr "X", access := 0 },
   { kind := .inner, className := jstr "B", enclClass := jstr "A", enclMethod := none, innerName := jstr "Y", access := 0 }]

/-- a cyclic table is an error for every operation that builds the name table: nesting and un-nesting mappings (whatever
the mapping set) and nesting a jar in which the applied nests form the cycle -/
theorem cyclic_err (ns : Nests) (hu : KeysUnique ns) (hc : ¬ Acyclic ns) :
    mapTable ns = none ∧ (∀ m, applyNests m ns = .error "e") ∧ (∀ m, undoNests m ns = .error "e") ∧
    (∀ r jar, allApply jar ns = true → nestJar r jar ns = .error "e") := by
  have ht : mapTable ns = none := by
    cases h : mapTable ns with
    | none => rfl
    | some t => exact absurd ((acyclic_iff_mapTable ns hu).mpr (by rw [h]; rfl)) hc
  refine ⟨ht, fun m => applyNests_table_err m ns ht, fun m => undoNests_table_err m ns ht, ?_⟩
  intro r jar ha
  apply nestJar_table_err
  unfold allApply at ha
  have hk : (filterRun jar ns).kept = ns := by simpa using ha
  rw [hk, jarTable_eq_mapTable, ht]

/-- no bound is large enough on the table `A in B, B in A` (it is really cyclic) -/
theorem build_cyclic_none : ∀ fuel : Nat,
    build cyclicTable fuel (jstr "A") = none ∧ build cyclicTable fuel (jstr "B") = none := by
  intro fuel
  induction fuel with
  | zero => exact ⟨rfl, rfl⟩
  | succ f ih =>
    have hA : get cyclicTable (jstr "A") = some cyclicTable[0] := by decide
    have hB : get cyclicTable (jstr "B") = some cyclicTable[1] := by decide
    constructor
    · simp only [build, hA]
      show (match build cyclicTable f (jstr "B") with | none => none | some a => _) = none
      rw [ih.2]
    · simp only [build, hB]
      show (match build cyclicTable f (jstr "A") with | none => none | some a => _) = none
      rw [ih.1]

theorem cyclicTable_not_acyclic : ¬ Acyclic cyclicTable := by
  intro h
  have := build_fuel_enough cyclicTable h (jstr "A")
  rw [(build_cyclic_none (fuelFor cyclicTable)).1] at this
  exact Bool.noConfusion this

/-- REGRESSION (fixed defect 0532d54: these calls used to overflow the stack): the cyclic table `A in B, B in A` is
answered with an error by every entry point -/
theorem build_cyclic_regression :
    mapTable cyclicTable = none ∧ jarTable cyclicTable = none ∧
    (∀ m, applyNests m cyclicTable = .error "e") ∧ (∀ m, undoNests m cyclicTable = .error "e") ∧
    (∀ r jar, allApply jar cyclicTable = true → nestJar r jar cyclicTable = .error "e") := by
  obtain ⟨h1, h2, h3, h4⟩ := cyclic_err cyclicTable (by unfold KeysUnique; decide) cyclicTable_not_acyclic
  exact ⟨h1, by rw [jarTable_eq_mapTable, h1], h2, h3, h4⟩

/-- `Enclosing$Inner`, transitively: on an acyclic table the mappings-side name of a listed class is the name of its
enclosing class, `$`, its inner name; every other class keeps its name -/
theorem mapName_spec (ns : Nests) (h : (mapTable ns).isSome = true) (c : JStr) :
    mapName ns c = match get ns c with
      | none => some c
      | some n => (mapName ns n.enclClass).map (fun a => join a n.innerName) :=
  mapName_rec ns h c

/-- a chain of depth 3 -/
def chain3 : Nests :=
  [{ kind := .inner, className := jstr "c3", enclClass := jstr "c2", enclMethod := none, innerName := jstr "Z", access := 0 },
   { kind := .anonymous, className := jstr "c2", enclClass := jstr "c1", enclMethod := none, innerName := jstr "1", access := 0 },
   { kind := .inner, className := jstr "c1", enclClass := jstr "p/Top", enclMethod := none, innerName := jstr "In", access := 0 }]

example : mapName chain3 (jstr "c3") = some (jstr "p/Top$In$1$Z") := by decide
example : mapName chain3 (jstr "p/Top") = some (jstr "p/Top") := by decide
example : (mapTable chain3).isSome = true := by decide
example : Acyclic chain3 := (acyclic_iff_mapTable chain3 (by unfold KeysUnique; decide)).mpr (by decide)

/-! ## 2. Jar side and mappings side agree -/

/-- `remap` of `nester_jar.rs` and `build_translation` of `nester_run.rs` compute the same name, step by step, on every
table (cyclic ones included) -/
theorem recursions_agree (ns : Nests) (fuel : Nat) (n : Nest) :
    jarRemap ns fuel n = (build ns fuel n.enclClass).map (fun a => join a n.innerName) :=
  jarRemap_eq_build ns fuel n

/-- the jar-side name of every class is its mappings-side name under the table of the nests that were applied -/
theorem names_agree_kept (jar : Jar) (ns : Nests) (c : JStr) :
    jarName jar ns c = mapName (filterRun jar ns).kept c := by
  unfold jarName mapName
  rw [jarTable_eq_mapTable]

/-- HEADLINE: if every nest of the table applies to the jar, jar and mappings agree on every class name -/
theorem names_agree (jar : Jar) (ns : Nests) (h : allApply jar ns = true) (c : JStr) :
    jarName jar ns c = mapName ns c := by
  rw [names_agree_kept]
  unfold allApply at h
  have : (filterRun jar ns).kept = ns := by simpa using h
  rw [this]

def exJar : Jar :=
  [(jstr "p/Top.class", .cls (newClass 8 (jstr "p/Top"))), (jstr "c1.class", .cls (newClass 8 (jstr "c1"))),
   (jstr "c2.class", .cls (newClass 8 (jstr "c2"))), (jstr "c3.class", .cls (newClass 8 (jstr "c3")))]

example : allApply exJar chain3 = true := by decide
example : jarName exJar chain3 (jstr "c3") = some (jstr "p/Top$In$1$Z") := by decide

/-- the hypothesis is needed: a nest that does not apply (its class is not in the jar) is renamed in the mappings only -/
theorem names_agree_witness :
    let ns : Nests := [{ kind := .inner, className := jstr "X", enclClass := jstr "A", enclMethod := none, innerName := jstr "In", access := 0 }]
    let jar : Jar := [(jstr "A.class", .cls (newClass 8 (jstr "A")))]
    allApply jar ns = false ∧ jarName jar ns (jstr "X") = some (jstr "X") ∧ mapName ns (jstr "X") = some (jstr "A$In") := by
  decide

/-! ## 3. The filter rule -/

/-- the closure with its side effects computes exactly the state-free specification: a nest is applied iff its class is
present (in the jar, or synthesised as the enclosing class of an EARLIER listed nest whose class was present) and the
rule of its kind holds; an enclosing class is synthesised for every listed nest whose class is present and whose
enclosing class is not — before the rule of the kind is looked at -/
theorem filter_spec (jar : Jar) (ns : Nests) :
    (filterRun jar ns).kept = keptSpec jar ns ∧ (filterRun jar ns).created = createdSpec jar ns :=
  ⟨(filterRun_spec jar ns).1, (filterRun_spec jar ns).2.1⟩

/-- the rule of the property text, exact and order independent, when no listed class has to be synthesised: a listed
class is nested iff it is in the jar and satisfies the rule of its kind.
PARTIAL: outside `noSynthListed` "present" also covers classes synthesised for earlier nests and the result depends on the
order of the table (`filter_order_witness`); `filter_spec` is the exact statement on the whole domain. -/
theorem filter_exact_partial (jar : Jar) (ns : Nests) (h : noSynthListed jar ns = true) :
    (filterRun jar ns).kept =
      ns.filter (fun n => (jarNames jar).contains n.className && kindRule (methodsMap (classesOf jar)) n) := by
  rw [(filter_spec jar ns).1]
  unfold keptSpec
  apply keptSpecGo_eq_filter (jarNames jar) _ ns ?_ ns [] (fun _ h => h) (fun _ h => by simp at h)
  intro n hn
  unfold noSynthListed at h
  have := List.all_eq_true.mp h n hn
  simp only [Bool.or_eq_true, List.all_eq_true, bne_iff_ne, ne_eq] at this
  exact this

theorem mem_kept_iff (jar : Jar) (ns : Nests) (h : noSynthListed jar ns = true) (n : Nest) :
    n ∈ (filterRun jar ns).kept ↔
      n ∈ ns ∧ n.className ∈ jarNames jar ∧ kindRule (methodsMap (classesOf jar)) n = true := by
  rw [filter_exact_partial jar ns h]
  simp [List.mem_filter, List.contains_eq_mem]

/-- anonymous ⇒ the inner name is a positive number (as `i32`) -/
theorem kindRule_anonymous (mm : AList JStr (List (JStr × JStr))) (n : Nest) (h : n.kind = .anonymous) :
    kindRule mm n = true ↔ ∃ x : Int, parseI32 n.innerName = some x ∧ x ≥ 1 := by
  unfold kindRule anonOk
  rw [h]
  simp only
  cases parseI32 n.innerName with
  | none => simp
  | some x => simp

/-- inner ⇒ the enclosing method is absent from the enclosing class -/
theorem kindRule_inner (mm : AList JStr (List (JStr × JStr))) (n : Nest) (h : n.kind = .inner) :
    kindRule mm n = true ↔ hasEnclMethod mm n = false := by
  unfold kindRule
  rw [h]
  simp

/-- local ⇒ the enclosing method is present in the enclosing class -/
theorem kindRule_local (mm : AList JStr (List (JStr × JStr))) (n : Nest) (h : n.kind = .local) :
    kindRule mm n = true ↔ hasEnclMethod mm n = true := by
  unfold kindRule
  rw [h]

/-- "the enclosing method is present": the nest names a method and the enclosing class, as found in the jar, declares it -/
theorem hasEnclMethod_iff (mm : AList JStr (List (JStr × JStr))) (n : Nest) :
    hasEnclMethod mm n = true ↔
      ∃ m ms, n.enclMethod = some m ∧ AList.lookup n.enclClass mm = some ms ∧ m ∈ ms := by
  unfold hasEnclMethod
  cases n.enclMethod with
  | none => simp
  | some m =>
    cases AList.lookup n.enclClass mm with
    | none => simp
    | some ms => simp [List.contains_eq_mem]

/-- every applied nest was listed and satisfies its rule; at the end its class and its enclosing class exist: in the jar
or synthesised -/
theorem kept_sound (jar : Jar) (ns : Nests) (n : Nest) (h : n ∈ (filterRun jar ns).kept) :
    n ∈ ns ∧ kindRule (methodsMap (classesOf jar)) n = true ∧
    (n.className ∈ jarNames jar ∨ n.className ∈ (filterRun jar ns).created) ∧
    (n.enclClass ∈ jarNames jar ∨ n.enclClass ∈ (filterRun jar ns).created) := by
  rw [(filter_spec jar ns).1] at h
  rw [(filter_spec jar ns).2]
  obtain ⟨h1, h2, h3, h4⟩ := keptSpecGo_mem _ _ ns [] n h
  simp only [List.append_nil] at h3 h4
  exact ⟨h1, h2, (present_final jar ns _).mp h3, (present_final jar ns _).mp h4⟩

/-- only enclosing classes of listed nests that are missing from the jar are synthesised -/
theorem created_sound (jar : Jar) (ns : Nests) (c : JStr) (h : c ∈ (filterRun jar ns).created) :
    c ∉ jarNames jar ∧ ∃ n ∈ ns, n.enclClass = c := by
  rw [(filter_spec jar ns).2] at h
  obtain ⟨h1, h2⟩ := createdSpecGo_mem (jarNames jar) ns [] c h
  refine ⟨?_, h2⟩
  intro hc
  simp only [presentRev, List.contains_eq_mem, hc, decide_true] at h1
  exact Bool.noConfusion h1

/-- the filter depends on the order of the table: `Y` (not in the jar) is nested when the nest that makes it an enclosing
class comes first, and not when it comes second -/
theorem filter_order_witness :
    let nX : Nest := { kind := .inner, className := jstr "X", enclClass := jstr "Y", enclMethod := none, innerName := jstr "In", access := 0 }
    let nY : Nest := { kind := .inner, className := jstr "Y", enclClass := jstr "Z", enclMethod := none, innerName := jstr "Mid", access := 0 }
    let jar : Jar := [(jstr "X.class", .cls (newClass 8 (jstr "X")))]
    (filterRun jar [nX, nY]).kept = [nX, nY] ∧ (filterRun jar [nY, nX]).kept = [nX] ∧
    noSynthListed jar [nX, nY] = false := by
  decide

/-- FINDING witness: a rejected nest still has its enclosing class synthesised. A local class whose enclosing class is
missing can never be applied (the synthesised class has no methods), yet the empty class `Out` is emitted -/
theorem created_for_rejected_witness :
    let ns : Nests := [{ kind := .local, className := jstr "X", enclClass := jstr "Out",
                         enclMethod := some (jstr "m", jstr "()V"), innerName := jstr "1Foo", access := 0 }]
    let jar : Jar := [(jstr "X.class", .cls (newClass 8 (jstr "X")))]
    (filterRun jar ns).kept = [] ∧ (filterRun jar ns).created = [jstr "Out"] ∧
    (match nestJar false jar ns with
     | .ok out => AList.lookup (jstr "Out.class") out == some (.cls (newClass 8 (jstr "Out")))
     | .error _ => false) = true := by
  decide

example : noSynthListed exJar chain3 = true := by decide

/-! ## 4. The jar that is produced (without renaming: `remap = false`) -/

/-- nesting without renaming succeeds on every jar that has a class, for every acyclic table (a cyclic table of applied
nests is an error, `cyclic_err`; a jar without classes too) -/
theorem nestJar_false_total (jar : Jar) (ns : Nests) (hv : (minVersion (classesOf jar)).isSome = true)
    (ha : Acyclic ns) : ∃ out, nestJar false jar ns = .ok out := by
  have hk : Acyclic (filterRun jar ns).kept := by
    obtain ⟨rank, hr⟩ := ha
    exact ⟨rank, fun n hn => hr n (kept_sound jar ns n hn).1⟩
  have ht : (jarTable (filterRun jar ns).kept).isSome = true := by
    rw [jarTable_eq_mapTable]
    exact (mapTable_isSome_iff _).mpr (fun n _ => build_fuel_enough _ hk n.enclClass)
  cases hmv : minVersion (classesOf jar) with
  | none => rw [hmv] at hv; exact Bool.noConfusion hv
  | some v =>
    cases htb : jarTable (filterRun jar ns).kept with
    | none => rw [htb] at ht; exact Bool.noConfusion ht
    | some table =>
      unfold nestJar
      rw [hmv]
      simp only
      rw [htb]
      simp only [emitCreated_false, emitSource_false]
      exact ⟨_, rfl⟩

/-- every source entry is still there under its name; a class entry carries the attributes of `addAttrs`, directories and
resources are untouched -/
theorem attrs_spec (jar : Jar) (ns : Nests) (out : Jar) (hnd : (jar.map Prod.fst).Nodup)
    (h : nestJar false jar ns = .ok out) (e : JStr × Entry) (he : e ∈ jar) :
    AList.lookup e.1 out = some (emitEntry (filterRun jar ns).kept e.2) := by
  obtain ⟨v, _, hout⟩ := nestJar_false_eq jar ns out h
  rw [hout]
  apply lookup_insertAll_mem (fun e : JStr × Entry => e.1) (fun e => emitEntry (filterRun jar ns).kept e.2) jar _ e he
  intro x hx y hy exy
  rw [eq_of_fst_eq_of_nodup hnd x hx y hy exy]

/-- a class without an applied nest is emitted unchanged -/
theorem attrs_untouched (this : Nests) (c : JClass) (h : get this c.name = none) : addAttrs this c = c :=
  addAttrs_none this c h

/-- a class with an applied nest gets one more `InnerClasses` entry (appended to what it had) and, when anonymous or
local, an `EnclosingMethod` attribute naming the enclosing class and the method of the nest; nothing else changes -/
theorem attrs_nested (this : Nests) (c : JClass) (n : Nest) (h : get this c.name = some n) :
    addAttrs this c =
      { c with
        innerClasses := some (c.innerClasses.getD [] ++ [innerClassOf n]),
        enclosingMethod :=
          if n.kind = .anonymous ∨ n.kind = .local then some { cls := n.enclClass, method := n.enclMethod }
          else c.enclosingMethod } :=
  addAttrs_some this c n h

/-- the `InnerClasses` entry per kind -/
theorem innerClass_inner (n : Nest) (h : n.kind = .inner) :
    innerClassOf n = { inner := n.className, outer := some n.enclClass, name := some (stripLocalPrefix n.innerName), flags := n.access } := by
  simp [innerClassOf, h]

theorem innerClass_local (n : Nest) (h : n.kind = .local) :
    innerClassOf n = { inner := n.className, outer := none, name := some (stripLocalPrefix n.innerName), flags := n.access } := by
  simp [innerClassOf, h]

theorem innerClass_anonymous (n : Nest) (h : n.kind = .anonymous) :
    innerClassOf n = { inner := n.className, outer := none, name := none, flags := n.access } := by
  simp [innerClassOf, h]

/-- (`remap = false`; with renaming the same classes come first in `remap_names_partial`, under their new names.)
Missing enclosing classes are created: each synthesised class is an entry `<name>.class` holding an empty public
class of the jar's lowest class version that extends `java/lang/Object` (with nest attributes if it is itself nested),
unless a source entry of that very name replaces it -/
theorem created_enclosing (jar : Jar) (ns : Nests) (out : Jar) (h : nestJar false jar ns = .ok out) (name : JStr)
    (hc : name ∈ (filterRun jar ns).created) (hfree : name ++ DOT_CLASS ∉ jar.map Prod.fst) :
    ∃ v, minVersion (classesOf jar) = some v ∧
      AList.lookup (name ++ DOT_CLASS) out = some (.cls (addAttrs (filterRun jar ns).kept (newClass v name))) := by
  obtain ⟨v, hv, hout⟩ := nestJar_false_eq jar ns out h
  refine ⟨v, hv, ?_⟩
  rw [hout, lookup_insertAll_other]
  · apply lookup_insertAll_mem (fun name : JStr => name ++ DOT_CLASS)
      (fun name => Entry.cls (addAttrs (filterRun jar ns).kept (newClass v name))) _ _ name hc
    intro x _ y _ exy
    rw [append_dotclass_inj exy]
  · intro b hb e
    exact hfree (List.mem_map.mpr ⟨b, hb, e⟩)

/-- nothing else is in the produced jar -/
theorem nothing_else (jar : Jar) (ns : Nests) (out : Jar) (h : nestJar false jar ns = .ok out) (k : JStr)
    (h1 : k ∉ jar.map Prod.fst) (h2 : ∀ name ∈ (filterRun jar ns).created, name ++ DOT_CLASS ≠ k) :
    AList.lookup k out = none := by
  obtain ⟨v, _, hout⟩ := nestJar_false_eq jar ns out h
  rw [hout, lookup_insertAll_other, lookup_insertAll_other]
  · rfl
  · exact h2
  · intro b hb e
    exact h1 (List.mem_map.mpr ⟨b, hb, e⟩)

/-! ### with renaming (`remap = true`): names only; the rewrite of the class body is C07 -/

/-- attributes are synthesised first, then the class is renamed (the rename of the class body is C07's theorem) -/
theorem attrs_then_rename (this : Nests) (f : JStr → JStr) (c : JClass) :
    emitClass true this f c = remapClass f (addAttrs this c) := rfl

/-- "rewrites every reference … records each in an InnerClasses entry (plus EnclosingMethod)": after renaming with the class
map `f` (the jar-side map, `remap_names_partial`) the attributes synthesised for a nested class carry the NEW names — the
last `InnerClasses` entry names the new name of the class and, for an inner class, the new name of its enclosing class;
the `EnclosingMethod` attribute of an anonymous or local class names the new name of the enclosing class (also when there
is no enclosing method) and the method with its descriptor rewritten -/
theorem attrs_renamed (this : Nests) (f : JStr → JStr) (c c' : JClass) (n : Nest)
    (h : emitClass true this f c = some c') (hg : get this c.name = some n)
    (h1 : n.className.head? ≠ some LBRACK) (h2 : n.enclClass.head? ≠ some LBRACK) :
    (∃ ics, c'.innerClasses = some (ics ++ [renamedInnerClass f n])) ∧
    ((n.kind = .anonymous ∨ n.kind = .local) → ∃ em, renamedEnclMethod f n = some em ∧ c'.enclosingMethod = some em) :=
  emitClass_true_attrs this f c c' n h hg h1 h2

/-- an anonymous class without enclosing method whose enclosing class is itself nested: the attribute names `Top$Mid` -/
example :
    let ns : Nests :=
      [{ kind := .inner, className := jstr "A", enclClass := jstr "Top", enclMethod := none, innerName := jstr "Mid", access := 0 },
       { kind := .anonymous, className := jstr "B", enclClass := jstr "A", enclMethod := none, innerName := jstr "1", access := 0 }]
    let jar : Jar := [(jstr "Top.class", .cls (newClass 8 (jstr "Top"))), (jstr "A.class", .cls (newClass 8 (jstr "A"))),
                      (jstr "B.class", .cls (newClass 8 (jstr "B")))]
    (match nestJar true jar ns with
     | .ok out => (AList.lookup (jstr "Top$Mid$1.class") out).map (fun e => match e with
         | .cls c => c.enclosingMethod | _ => none) == some (some { cls := jstr "Top$Mid", method := none })
     | .error _ => false) = true := by
  decide

/-- a class entry `<c>.class` is renamed to `<f c>.class` -/
theorem entry_renamed (f : JStr → JStr) (c : JStr) : remapEntryName f (c ++ DOT_CLASS) = f c ++ DOT_CLASS :=
  remapEntryName_class f c

/-- the emitted class carries the jar-side name of its source class -/
theorem class_renamed (this : Nests) (f : JStr → JStr) (c c' : JClass) (h : emitClass true this f c = some c') :
    c'.name = f c.name :=
  emitClass_true_name this f c c' h

/-- nesting with renaming: first the synthesised enclosing classes, each under `<new name>.class` holding the class of that
name, then the source entries in order, every class entry renamed with the jar-side class map (`jarName`) and holding the
class of that name, directories and resources under their old names.
PARTIAL: the expected entry names must be pairwise different — the result is an `IndexMap`, entries whose new names
coincide replace each other (`remap_names_collision_witness`). -/
theorem remap_names_partial (jar : Jar) (ns : Nests) (out : Jar) (h : nestJar true jar ns = .ok out) :
    ∃ table, jarTable (filterRun jar ns).kept = some table ∧ (∀ c, jarName jar ns c = some (tableMap table c)) ∧
      (((filterRun jar ns).created.map (fun n => (createdView (tableMap table) n).1) ++
          jar.map (fun e => (renamedView (tableMap table) e).1)).Nodup →
        out.map nameView = (filterRun jar ns).created.map (createdView (tableMap table)) ++
          jar.map (renamedView (tableMap table))) := by
  obtain ⟨table, h1, h2⟩ := nestJar_true_view jar ns out h
  refine ⟨table, h1, ?_, h2⟩
  intro c
  unfold jarName
  rw [h1]
  rfl

/-- a class that already carries the nested name of a listed class is replaced by it -/
theorem remap_names_collision_witness :
    let ns : Nests := [{ kind := .inner, className := jstr "X", enclClass := jstr "A", enclMethod := none, innerName := jstr "In", access := 0 }]
    let jar : Jar := [(jstr "A.class", .cls (newClass 8 (jstr "A"))), (jstr "A$In.class", .cls (newClass 8 (jstr "A$In"))),
                      (jstr "X.class", .cls (newClass 8 (jstr "X")))]
    (match nestJar true jar ns with
     | .ok out => out.map Prod.fst == [jstr "A.class", jstr "A$In.class"]
     | .error _ => false) = true := by
  decide

/-- REGRESSION (fixed defect 8d867d6: the entry used to be `Out`, without `.class`): with `remap = true` a synthesised
enclosing class is stored under `<name>.class`, like without renaming -/
theorem created_entry_name_remap_regression :
    let ns : Nests := [{ kind := .inner, className := jstr "X", enclClass := jstr "Out", enclMethod := none, innerName := jstr "In", access := 0 }]
    let jar : Jar := [(jstr "X.class", .cls (newClass 8 (jstr "X")))]
    (match nestJar true jar ns with
     | .ok out => out.map Prod.fst == [jstr "Out.class", jstr "Out$In.class"]
     | .error _ => false) = true ∧
    (match nestJar false jar ns with
     | .ok out => out.map Prod.fst == [jstr "Out.class", jstr "X.class"]
     | .error _ => false) = true := by
  decide

/-! ## 5. Nesting and un-nesting mappings -/

/-- nesting renames every class key with the mappings-side name, stores it as first name, keeps entry order and count -/
theorem apply_classes (m m1 : Mappings) (ns : Nests) (h : applyNests m ns = .ok m1) :
    ∃ t, mapTable ns = some t ∧ m1.classes.length = m.classes.length ∧
      ∀ (i : Nat) (e : JStr × Class), m.classes[i]? = some e →
        ∃ e', m1.classes[i]? = some e' ∧ e'.1 = tableMap t e.1 ∧ name0 e'.2.names = some (tableMap t e.1) ∧
          e'.2.doc = e.2.doc ∧
          mapE (stepField (tableMap t)) e.2.fields = .ok e'.2.fields ∧
          mapE (stepMethod (tableMap t)) e.2.methods = .ok e'.2.methods := by
  obtain ⟨mapped, t, mt, _, ht, _, hm, _, _⟩ := applyNests_ok h
  refine ⟨t, ht, mapE_length hm, ?_⟩
  intro i e he
  obtain ⟨e', h1, h2⟩ := mapE_getElem hm i e he
  obtain ⟨g1, g2, g3, g4, g5, _⟩ := rewriteClass_ok h2
  exact ⟨e', h1, g1, g2, g3, g4, g5⟩

/-- …and rewrites descriptors accordingly: every field keeps names and comment, its descriptor is `map_desc` with the
nesting names and its key is recomputed from first name and new descriptor -/
theorem apply_field (tr : JStr → JStr) (e e' : MemberKey × Field) (h : stepField tr e = .ok e') :
    MapDesc.mapDesc tr e.2.desc = some e'.2.desc ∧ name0 e.2.names = some e'.1.1 ∧ e'.1.2 = e'.2.desc ∧
    e'.2.names = e.2.names ∧ e'.2.doc = e.2.doc :=
  stepField_ok h

theorem apply_method (tr : JStr → JStr) (e e' : MemberKey × Method) (h : stepMethod tr e = .ok e') :
    MapDesc.mapDesc tr e.2.desc = some e'.2.desc ∧ name0 e.2.names = some e'.1.1 ∧ e'.1.2 = e'.2.desc ∧
    e'.2.names = e.2.names ∧ e'.2.doc = e.2.doc ∧ e'.2.params = e.2.params :=
  stepMethod_ok h

/-- HEADLINE, PARTIAL (the property text has no side condition; `undo_apply_witness` shows one is needed):
un-nesting a nested mapping set succeeds and restores class keys, first names, comments, and all fields
and methods with their keys and descriptors — everything but the second-namespace class names — on well-formed mapping
sets, when the translation is injective on the names the set uses (`undoApplyDomain`) -/
theorem undo_apply_partial (m m1 : Mappings) (ns : Nests) (hwf : wfMappings m = true) (hdom : undoApplyDomain m ns = true)
    (h : applyNests m ns = .ok m1) : ∃ m2, undoNests m1 ns = .ok m2 ∧ srcView m2 = srcView m :=
  undo_apply_main m m1 ns hwf hdom h

/-- the inverse remapper inverts the nesting remapper on every name that does not collide -/
theorem unmap_map (t : AList JStr JStr) (c : JStr) (h : noCollision t c = true) : tableUnmap t (tableMap t c) = c :=
  tableUnmap_tableMap t c h

def exNests : Nests :=
  [{ kind := .inner, className := jstr "X", enclClass := jstr "A", enclMethod := none, innerName := jstr "B", access := 0 }]

def exField (name desc : String) : MemberKey × Field :=
  ((jstr name, jstr desc), { desc := jstr desc, names := [some (jstr name), none], doc := none })

def exMappings (descs : List String) : Mappings :=
  { ns := [jstr "a", jstr "b"], doc := none,
    classes := [(jstr "P", { names := [some (jstr "P"), some (jstr "Q")], doc := none,
                             fields := descs.mapIdx (fun i d => exField ("f" ++ toString i) d), methods := [] })] }

example : wfMappings (exMappings ["LX;", "[LA;"]) = true ∧ undoApplyDomain (exMappings ["LX;", "[LA;"]) exNests = true ∧
    (match applyNests (exMappings ["LX;", "[LA;"]) exNests with | .ok _ => true | .error _ => false) = true := by
  decide

/-- the domain is needed: when a mentioned class already has the nested name of a listed class (`A$B` next to `X ↦ A$B`),
un-nesting maps both back to `X` -/
theorem undo_apply_witness :
    let m := exMappings ["LX;", "LA$B;"]
    wfMappings m = true ∧ undoApplyDomain m exNests = false ∧
    (match applyNests m exNests with
     | .ok m1 => (match undoNests m1 exNests with
                  | .ok m2 => !decide (srcView m2 = srcView m)
                  | .error _ => false)
     | .error _ => false) = true := by
  decide

/-! ## 6. Translating a table through mappings (`remap_nests`) -/

/-- every nest is kept: the translated table has, under the translated class name of each nest, a translated nest; it has
nothing else; its keys are unique -/
theorem mapNests_keeps_every_nest (ns out : Nests) (m : Mappings) (h : mapNests ns m = some out) :
    ∃ r, remB m = some r ∧
      (∀ n ∈ ns, ∃ n', mapNest r n = some n' ∧ ∃ o, get out n'.className = some o ∧ o.className = n'.className ∧
        ∃ n2 ∈ ns, mapNest r n2 = some o) ∧
      (∀ o ∈ out, ∃ n ∈ ns, mapNest r n = some o) ∧ KeysUnique out := by
  unfold mapNests at h
  cases hr : remB m with
  | none => rw [hr] at h; simp at h
  | some r =>
    rw [hr] at h
    simp only at h
    obtain ⟨imgs, h1, h2⟩ := mapNestsGo_eq r ns [] out h
    refine ⟨r, rfl, ?_, ?_, ?_⟩
    · intro n hn
      obtain ⟨n', hn', e⟩ := mapOpt_mem_of_mem h1 n hn
      obtain ⟨o, g1, g2, g3⟩ := foldl_add_get_mem imgs [] n' hn'
      obtain ⟨n2, hn2, e2⟩ := mapOpt_mem' h1 o g2
      exact ⟨n', e, o, by rw [h2]; exact g1, g3, n2, hn2, e2⟩
    · intro o ho
      rw [h2] at ho
      rcases foldl_add_mem imgs [] o ho with ho | ho
      · exact mapOpt_mem' h1 o ho
      · simp at ho
    · rw [h2]
      exact foldl_add_keysUnique imgs [] (by simp)

/-- when the class mapping is injective on the table the translated table is the translated nests in table order -/
theorem mapNests_injective (ns out : Nests) (m : Mappings) (h : mapNests ns m = some out)
    (r : RemB) (hr : remB m = some r) (imgs : Nests) (hi : mapOpt (mapNest r) ns = some imgs)
    (hnd : (imgs.map (·.className)).Nodup) : out = imgs := by
  unfold mapNests at h
  rw [hr] at h
  simp only at h
  obtain ⟨imgs', h1, h2⟩ := mapNestsGo_eq r ns [] out h
  rw [hi] at h1
  simp only [Option.some.injEq] at h1
  subst h1
  rw [h2, foldl_add_nodup imgs [] (by simpa using hnd)]
  simp

/-- each translated nest: kind and access flags are copied, the class name and the enclosing method go through the
mappings (the method is looked up in the source enclosing class); enclosing class and inner name are the two halves of the
translated class name when that contains `__` ("already nested"), and otherwise the translated enclosing class and the
inner name computed by `inner_name` -/
theorem mapNest_spec (r : RemB) (n n' : Nest) (h : mapNest r n = some n') :
    n'.kind = n.kind ∧ n'.access = n.access ∧ n'.className = remBMapClass r n.className ∧
    mapMOpt (remBMapMethod r n.enclClass) n.enclMethod = some n'.enclMethod ∧
    ((∃ e i, rsplitUnderscore (remBMapClass r n.className) = some (some (e, i)) ∧ n'.enclClass = e ∧ n'.innerName = i) ∨
     (rsplitUnderscore (remBMapClass r n.className) = some none ∧ n'.enclClass = remBMapClass r n.enclClass ∧
      innerNameOf n.className n.innerName (remBMapClass r n.className) = some n'.innerName)) :=
  mapNest_some h

/-- the split is at the LAST `__` and loses nothing -/
theorem rsplit_spec (s p i : List Nat) (h : rsplitUU s = some (p, i)) :
    s = p ++ USCORE :: USCORE :: i ∧ rsplitUU i = none :=
  rsplitUU_some h

/-- `inner_name`, anonymous: a Calamus name `C_<digits>` gives the digits, any other target name keeps the table's number -/
theorem innerName_anonymous (cls inner mapped : JStr) (hd : (inner.dropWhile isDigit).isEmpty = true) :
    innerNameOf cls inner mapped =
      match stripPrefix C_ (simpleName mapped) with
      | some number => if number.all isDigit then some number else none
      | none => some inner := by
  simp only [innerNameOf, nestTypeA, hd, if_true]
  rfl

/-- `inner_name`, inner: a derived inner name (the class name ends with it) follows the translated simple name, a custom
one is kept -/
theorem innerName_inner (cls inner mapped : JStr) (hd : (inner.dropWhile isDigit).isEmpty = false)
    (hp : (inner.takeWhile isDigit).isEmpty = true) :
    innerNameOf cls inner mapped = if inner.isSuffixOf cls then some (simpleName mapped) else some inner := by
  simp [innerNameOf, nestTypeA, hd, hp]

/-- `inner_name`, local: the digits are kept, the rest follows the translated simple name unless custom -/
theorem innerName_local (cls inner mapped : JStr) (hd : (inner.dropWhile isDigit).isEmpty = false)
    (hp : (inner.takeWhile isDigit).isEmpty = false) :
    innerNameOf cls inner mapped =
      if (inner.dropWhile isDigit).isSuffixOf cls then some (inner.takeWhile isDigit ++ simpleName mapped) else some inner := by
  simp [innerNameOf, nestTypeA, hd, hp]

def exMap2 : Mappings :=
  { ns := [jstr "a", jstr "b"], doc := none,
    classes := [(jstr "X", { names := [some (jstr "X"), some (jstr "q/T")], doc := none, fields := [], methods := [] }),
                (jstr "Y", { names := [some (jstr "Y"), some (jstr "q/T")], doc := none, fields := [], methods := [] })] }

/-- "keeps every nest" is by translated name: when the mappings send two listed classes to one name, the later nest
replaces the earlier (`Nests::add` is `IndexMap::insert`) -/
theorem mapNests_collapse_witness :
    let ns : Nests :=
      [{ kind := .inner, className := jstr "X", enclClass := jstr "A", enclMethod := none, innerName := jstr "I", access := 0 },
       { kind := .inner, className := jstr "Y", enclClass := jstr "B", enclMethod := none, innerName := jstr "J", access := 0 }]
    (mapNests ns exMap2).map (fun out => out.map (fun n => (n.className, n.enclClass))) =
      some [(jstr "q/T", jstr "B")] := by
  decide

example : (mapNests exNests exMap2).map (fun out => out.map (fun n => (n.className, n.enclClass, n.innerName))) =
    some [(jstr "q/T", jstr "A", jstr "B")] := by decide

/-! ## 7. `Nests::read` -/

/-- every nest of a table that was read has its kind from the text of its inner name (all digits: anonymous; leading
digit: local; else inner), non-empty valid class names, and the table has unique keys -/
theorem read_spec (text : List Nat) (ns : Nests) (h : Nest.read text = some ns) :
    KeysUnique ns ∧ ∀ n ∈ ns, n.kind = kindOfInnerName n.innerName ∧ n.className ≠ [] ∧ n.enclClass ≠ [] ∧
      n.innerName ≠ [] ∧ validObjClassName n.className = true ∧ validObjClassName n.enclClass = true ∧
      validObjClassName n.innerName = true := by
  unfold Nest.read at h
  have := readLines_all
    (fun n => n.kind = kindOfInnerName n.innerName ∧ n.className ≠ [] ∧ n.enclClass ≠ [] ∧
      n.innerName ≠ [] ∧ validObjClassName n.className = true ∧ validObjClassName n.enclClass = true ∧
      validObjClassName n.innerName = true)
    (fun l n hl => by
      obtain ⟨h1, h2, h3, h4, h5, h6, h7, _⟩ := readLine_some hl
      exact ⟨h1, h2, h3, h4, h5, h6, h7⟩)
    (lines text) [] ns (fun _ h => by simp at h) (by simp) h
  exact ⟨this.2, this.1⟩

/-- one line: six TAB-separated fields — class, enclosing class, method name, method descriptor, inner name, access
(decimal, `0x…`, `0b…`; bits duke knows) -/
theorem readLine_spec (line : List Nat) (n : Nest) (h : readLine line = some n) :
    ∃ cn en mn md inn acc, splitOn TAB line = [cn, en, mn, md, inn, acc] ∧ n.className = cn ∧ n.enclClass = en ∧
      n.innerName = inn ∧ (n.enclMethod = none ↔ (mn = [] ∨ md = [])) ∧
      ∃ a, parseAccess acc = some a ∧ n.access = maskAccess a :=
  (readLine_some h).2.2.2.2.2.2.2

/-- a parsed anonymous nest is not always applicable: `0` is all digits but not positive -/
theorem anonymous_zero_witness :
    (readLine (jstr "a\tb\t\t\t0\t0")).map (fun n => (n.kind, anonOk n.innerName)) = some (Kind.anonymous, false) := by
  decide

example : (Nest.read (jstr "p/A$1\tp/A\tm\t()V\t1\t0x8\np/B\tp/A\t\t\t1Loc\t0\n")).map (fun ns => ns.map (·.kind)) =
    some [Kind.anonymous, Kind.local] := by decide

end Thm.C14
