import FeatherModel.Model.Enigma

/-!
# C12 — Enigma files and directories round-trip the mappings they can express
Property theorems only. Model: `FeatherModel/Model/Enigma.lean`.
-/

namespace Thm.C12
open Enigma

/-- write everything into one stream, read it back into fresh mappings with the same namespaces -/
def roundTrip (m : Mappings) : Option Mappings :=
  (writeAll m).bind (fun t => readInto t (emptyLike m))

def mk (cs : AList JStr Class) : Mappings := { ns := [jstr "official", jstr "named"], doc := none, classes := cs }
def cls (k : String) (d : Option String) : JStr × Class :=
  (jstr k, { names := [some (jstr k), d.map jstr], doc := none, fields := [], methods := [] })

/-! ## Witnesses: what the format cannot express (each restriction of `writableB` that is a real loss) -/

/-- regression of the fixed defect: the orphan inner class `A$B -> X$Y` (no `A` in the set) round-trips -/
theorem orphan_inner_roundtrip :
    writableB (mk [cls "A$B" (some "X$Y")]) = true ∧
    roundTrip (mk [cls "A$B" (some "X$Y")]) = some (mk [cls "A$B" (some "X$Y")]) := by decide

/-- a nested class below its parent whose target name does not extend the parent's target name is read back with the
parent's target name in front: `A -> X`, `A$B -> Y` comes back as `A$B -> X$Y` -/
theorem nested_target_witness :
    roundTrip (mk [cls "A" (some "X"), cls "A$B" (some "Y")]) =
      some (mk [cls "A$B" (some "X$Y"), cls "A" (some "X")]) := by decide

/-- a target name that looks like a modifier token is dropped -/
theorem modifier_target_witness :
    roundTrip (mk [cls "A" (some "ACC:X")]) = some (mk [cls "A" none]) := by decide

/-- two top-level classes with the same file name: one of them is lost -/
theorem file_collision_witness :
    roundTrip (mk [cls "A" (some "X"), cls "B" (some "X")]) = some (mk [cls "B" (some "X")]) := by decide

/-- a TAB in a comment comes back as a space -/
theorem comment_tab_witness :
    roundTrip (mk [(jstr "A", { names := [some (jstr "A"), none], doc := some (jstr "a\tb"), fields := [], methods := [] })]) =
      some (mk [(jstr "A", { names := [some (jstr "A"), none], doc := some (jstr "a b"), fields := [], methods := [] })]) := by
  decide

def clsM (k : String) (ms : AList MemberKey Method) : JStr × Class :=
  (jstr k, { names := [some (jstr k), none], doc := none, fields := [], methods := ms })
def mth (n : String) (dst : Option String) (ps : AList Nat Param) : MemberKey × Method :=
  ((jstr n, jstr "()V"), { desc := jstr "()V", names := [some (jstr n), dst.map jstr], doc := none, params := ps })

/-- a method target name `<init>` is not written, and a parameter's source name is not written -/
theorem init_and_param_source_witness :
    roundTrip (mk [clsM "A" [mth "m" (some "<init>") [(0, { index := 0, names := [some (jstr "s"), some (jstr "p")], doc := none })]]]) =
      some (mk [clsM "A" [mth "m" none [(0, { index := 0, names := [none, some (jstr "p")], doc := none })]]]) := by
  decide

/-- a parameter without target name cannot be written at all -/
theorem param_without_target_witness :
    writeAll (mk [clsM "A" [mth "m" none [(0, { index := 0, names := [none, none], doc := none })]]]) = none := by
  decide

end Thm.C12
