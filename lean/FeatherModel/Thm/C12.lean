import FeatherModel.Lemmas.EnigmaPlacement
import FeatherModel.Lemmas.EnigmaPerm

/-!
# C12 — Enigma files and directories round-trip the mappings they can express
Property theorems only. Model: `FeatherModel/Model/Enigma.lean` (`writeAll`, `files`, `readInto`, `readFiles`,
`dirRoundTrip`, the decidable domain `writableB`). Helper lemmas: `FeatherModel/Lemmas/Enigma*.lean`.

The domain `writableB m` ("Enigma-expressible"): consistent keys (the invariants of every `Mappings` built through quill's
API), names that are single tokens (no `White_Space`, `#`, unmatched surrogate) and valid for their `duke` name type,
the target name of a class that is written below a present parent is `parent's target (or source) name $ simple name`,
no target name that looks like a modifier (`ACC:…`), parameters with a target and without a source name, javadocs in
which space and LF are the only Java whitespace, distinct file names of the classes that get a file. Orphan inner
classes (outer class absent), classes without target name, parameter comments, comments with blank lines, leading spaces
and `#`, packages of any depth are all inside the domain. Everything else is shown to be a real loss by a `…_witness`.

Equalities. The reader returns the classes in the order in which their `CLASS` loops end: file after file (stream:
file-name order; directory: sorted walk order), inside a file children before the class that contains them
(`postOf`). So the round trip is stated (a) exactly, with that order (`read_write_all`, `read_write_dir`), (b) as a
permutation of the canonical form (`read_back_perm`, `read_back_dir_perm`), and (c) as content equality `ContentEq`
(same classes under the same source keys, same names, javadocs, fields, methods, parameters; `<init>` target names
count as absent) in `read_write_all_content`, `read_write_dir_content`. Member order inside a class *is* determined: it
is the writer's sort order (`canonClass`).
-/

namespace Thm.C12
open Enigma

/-- write everything into one stream, read it back into fresh mappings with the same namespaces -/
def roundTrip (m : Mappings) : Option Mappings :=
  (writeAll m).bind (fun t => readInto t (emptyLike m))

def mk (cs : AList JStr Class) : Mappings := { ns := [jstr "official", jstr "named"], doc := none, classes := cs }
def cls (k : String) (d : Option String) : JStr × Class :=
  (jstr k, { names := [some (jstr k), d.map jstr], doc := none, fields := [], methods := [] })

/-! ## Content equality -/

/-- constructors are treated as unnamed: a target name `<init>` counts as absent -/
def unnameInit : Names → Names
  | [n, some d] => if d = kwINIT then [n, none] else [n, some d]
  | ns => ns

def optRel {α : Type} (R : α → α → Prop) : Option α → Option α → Prop
  | none, none => True
  | some a, some b => R a b
  | _, _ => False

/-- same method entry: descriptor, javadoc, names (up to `<init>`), the same parameters under the same indices -/
def MethodEq (a b : Method) : Prop :=
  a.desc = b.desc ∧ a.doc = b.doc ∧ unnameInit a.names = unnameInit b.names ∧
    ∀ i, AList.lookup i a.params = AList.lookup i b.params

/-- same class entry: names, javadoc, the same fields and methods under the same `(name, descriptor)` keys -/
def ClassEq (a b : Class) : Prop :=
  a.names = b.names ∧ a.doc = b.doc ∧ (∀ k, AList.lookup k a.fields = AList.lookup k b.fields) ∧
    ∀ k, optRel MethodEq (AList.lookup k a.methods) (AList.lookup k b.methods)

/-- same namespaces and the same classes under the same source keys -/
def ContentEq (r m : Mappings) : Prop :=
  r.ns = m.ns ∧ ∀ k, optRel ClassEq (AList.lookup k r.classes) (AList.lookup k m.classes)

theorem unnameInit_idem : ∀ ns : Names, unnameInit (unnameInit ns) = unnameInit ns
  | [] => rfl
  | [_] => rfl
  | [_, none] => rfl
  | [n, some d] => by
    by_cases h : d = kwINIT
    · simp [unnameInit, h]
    · simp [unnameInit, h]
  | _ :: none :: _ :: _ => rfl
  | _ :: some _ :: _ :: _ => rfl

theorem canonMethod_names (m : Method) : (canonMethod m).names = unnameInit m.names := rfl

theorem lookup_map_snd {K V W : Type} [BEq K] (f : V → W) (k : K) : ∀ l : AList K V,
    AList.lookup k (l.map fun e => (e.1, f e.2)) = (AList.lookup k l).map f
  | [] => rfl
  | (k', v) :: rest => by
    simp only [List.map_cons, AList.lookup]
    split
    · rfl
    · exact lookup_map_snd f k rest

/-- the canonical form of a method has the same content -/
theorem canonMethod_content (m : Method) (hnd : (m.params.map Prod.fst).Nodup) : MethodEq (canonMethod m) m := by
  refine ⟨rfl, rfl, ?_, ?_⟩
  · rw [canonMethod_names, unnameInit_idem]
  · intro i
    have hp : (canonMethod m).params = isort paramLe m.params := rfl
    rw [hp]
    exact lookup_perm (((isort_perm paramLe m.params).map Prod.fst).nodup_iff.mpr hnd) (isort_perm paramLe m.params) i

/-- the canonical form of a class has the same content -/
theorem canonClass_content (c : Class) (hf : (c.fields.map Prod.fst).Nodup) (hm : (c.methods.map Prod.fst).Nodup)
    (hp : ∀ e ∈ c.methods, (e.2.params.map Prod.fst).Nodup) : ClassEq (canonClass c) c := by
  refine ⟨rfl, rfl, ?_, ?_⟩
  · intro k
    exact lookup_perm (((isort_perm fieldLe c.fields).map Prod.fst).nodup_iff.mpr hf) (isort_perm fieldLe c.fields) k
  · intro k
    have e1 : (canonClass c).methods = (isort methodLe c.methods).map fun e => (e.1, canonMethod e.2) := rfl
    rw [e1, lookup_map_snd,
      lookup_perm (((isort_perm methodLe c.methods).map Prod.fst).nodup_iff.mpr hm) (isort_perm methodLe c.methods) k]
    cases hl : AList.lookup k c.methods with
    | none => exact True.intro
    | some x => exact canonMethod_content x (hp (k, x) (mem_of_lookup hl))

/-- a permutation of the canonical classes has the content of the classes -/
theorem contentEq_of_perm {m : Mappings} (h : writableB m = true) {r : Mappings} (hns : r.ns = m.ns)
    (hp : r.classes.Perm (canonClasses m.classes)) : ContentEq r m := by
  obtain ⟨hok, hnd, _⟩ := writableB_spec h
  refine ⟨hns, fun k => ?_⟩
  rw [lookup_of_perm_canon hnd hp k]
  cases hl : AList.lookup k m.classes with
  | none => exact True.intro
  | some c =>
    obtain ⟨_, _, _, _, _, _, _, hfn, hms, hmn⟩ := classOk_spec (hok (k, c) (mem_of_lookup hl))
    exact canonClass_content c hfn hmn (fun e he => (methodOk_spec (hms e he)).choose_spec.2.2.2.2.2.2.2.2)

/-! ## The layers of the round trip -/

/-- line layer: `BufRead::lines` undoes `writeln!` for lines without LF inside and CR at the end -/
theorem lines_roundtrip (lines : List Text) (h : ∀ l ∈ lines, LF ∉ l ∧ l.getLast? ≠ some CR) :
    splitLines (render lines) [] = lines := splitLines_render lines h

/-- tokeniser layer: a keyword line (`CLASS`, `FIELD`, `METHOD`, `ARG`) made of tokens that contain no `White_Space` and
no `#` is cut into exactly these tokens, the indentation is the number of tabs -/
theorem tokenise_keyword_line (n : Nat) (kw : JStr) (toks : List JStr)
    (hkw : kw ∈ [kwCLASS, kwFIELD, kwMETHOD, kwARG]) (ht : ∀ t ∈ toks, tokOk t = true) :
    lexLine (tabs n ++ joinSp (kw :: toks)) = some { idents := n, first := kw, fields := toks } := by
  have hT : ∀ t ∈ toks, Tok t := fun t h => tokOk_tok (ht t h)
  rw [joinSp_eq]
  simp only [List.mem_cons, List.not_mem_nil, or_false] at hkw
  rcases hkw with rfl | rfl | rfl | rfl
  · exact (lexLine_tokens n _ toks tok_CLASS (notComment_CLASS _) hT).2
  · exact (lexLine_tokens n _ toks tok_FIELD (notComment_FIELD _) hT).2
  · exact (lexLine_tokens n _ toks tok_METHOD (notComment_METHOD _) hT).2
  · exact (lexLine_tokens n _ toks tok_ARG (notComment_ARG _) hT).2

/-- comment layer: the `COMMENT` lines written for a javadoc (any text in which space and LF are the only Java
whitespace: blank lines, leading and repeated spaces, `#` included) are put together to the same javadoc -/
theorem comment_roundtrip (n : Nat) (d : Option JStr) (h : docOk d = true) :
    ((commentLines n d).filterMap lexLine).foldl insertComment none = d := by
  rw [(commentLines_lex n d h).2, foldl_commentEL n d h]

/-- class-tree layer (induction on the nesting): reading the text of the tree of `key` below the open classes `st`
adds exactly the classes of the tree, children first, with their full names rebuilt from the enclosing `CLASS` lines -/
theorem class_tree_roundtrip (classes : AList JStr Class) (hok : ∀ e ∈ classes, classOk classes e = true)
    (hnd : (classes.map Prod.fst).Nodup) (fuel : Nat) : TreeRun classes fuel := treeRun classes hok hnd fuel

/-- the fuel of `treeLines` (longest key + 1) is never used up on the domain … -/
theorem treeLines_fuel (m : Mappings) (h : writableB m = true) (e : JStr × Class) (he : e ∈ m.classes) (d : Nat) :
    (treeLines m.classes (treeFuel m.classes) e.1 e.2 d).isSome = true := by
  obtain ⟨hok, _, _⟩ := writableB_spec h
  obtain ⟨ls, hl, _⟩ := tree_lex m.classes hok (treeFuel m.classes) e.1 e.2 d he (by simp [treeFuel]; omega)
  rw [hl]; rfl

/-- … and more fuel never changes a result (for every mapping set) -/
theorem treeLines_fuel_mono (classes : AList JStr Class) (fuel : Nat) (key : JStr) (c : Class) (d : Nat) (ls : List Text)
    (h : treeLines classes fuel key c d = some ls) : treeLines classes (fuel + 1) key c d = some ls :=
  treeLines_mono classes fuel key c d ls h

/-! ## Round trip: single stream -/

/-- **`read_into(write_all(M))`, exactly**: on the Enigma-expressible domain writing succeeds and reading the text into
fresh mappings with the same namespaces succeeds with the canonical classes in the order `postOf` -/
theorem read_write_all (m : Mappings) (h : writableB m = true) :
    ∃ t, writeAll m = some t ∧
      readInto t (emptyLike m) = some { emptyLike m with classes := postOf m (fileEntries m) } := by
  obtain ⟨t, hw, hr⟩ := readClasses_writeAll h
  refine ⟨t, hw, ?_⟩
  simp only [readInto, emptyLike, hr]

/-- the classes read back are a permutation of the canonical forms of the classes written (every class exactly once) -/
theorem read_back_perm (m : Mappings) (h : writableB m = true) :
    (postOf m (fileEntries m)).Perm (canonClasses m.classes) :=
  postOf_perm (writableB_spec h).2.1 _ (fileEntries_snd_perm m)

/-- **`read_into(write_all(M)) ≈ M`**: same classes under the same source keys with the same target names, javadocs,
fields, methods and parameters -/
theorem read_write_all_content (m : Mappings) (h : writableB m = true) :
    ∃ r, roundTrip m = some r ∧ r.doc = none ∧ ContentEq r m := by
  obtain ⟨t, hw, hr⟩ := read_write_all m h
  refine ⟨{ emptyLike m with classes := postOf m (fileEntries m) }, ?_, rfl, ?_⟩
  · simp only [roundTrip, hw, Option.bind_some, hr]
  · exact contentEq_of_perm h rfl (read_back_perm m h)

/-! ## Round trip: directory -/

/-- `enigma_dir::write` succeeds on the whole domain: one file per class without present parent, at the path
`<target name, or source name> + ".mapping"`, holding the tree of that class -/
theorem dir_paths (m : Mappings) (h : writableB m = true) :
    files m = some ((fileEntries m).map fun x => (fileNameOf x.2.1 x.2.2 ++ extMAPPING, treeText m x.2)) := by
  rw [files_spec h]
  congr 1
  apply List.map_congr_left
  intro x hx
  simp only [fileOf, (mem_fileEntries hx).2.2]

/-- **`enigma_dir::read(enigma_dir::write(M))`, exactly**: the files are read in sorted walk order (`dirEntries`) -/
theorem read_write_dir (m : Mappings) (h : writableB m = true) :
    dirRoundTrip m = some { emptyLike m with classes := postOf m (dirEntries m) } := dirRoundTrip_spec h

theorem read_back_dir_perm (m : Mappings) (h : writableB m = true) :
    (postOf m (dirEntries m)).Perm (canonClasses m.classes) :=
  postOf_perm (writableB_spec h).2.1 _ (((dirEntries_perm m).map Prod.snd).trans (fileEntries_snd_perm m))

/-- **the directory round trip gives back the content** -/
theorem read_write_dir_content (m : Mappings) (h : writableB m = true) :
    ∃ r, dirRoundTrip m = some r ∧ r.doc = none ∧ ContentEq r m :=
  ⟨_, read_write_dir m h, rfl, contentEq_of_perm h rfl (read_back_dir_perm m h)⟩

/-- the two forms agree up to the order of the classes -/
theorem dir_stream_same_classes (m : Mappings) (h : writableB m = true) :
    (postOf m (dirEntries m)).Perm (postOf m (fileEntries m)) :=
  (read_back_dir_perm m h).trans (read_back_perm m h).symm

/-! ## Placement -/

/-- **every class lands in exactly one file, exactly once**: the classes of the trees of all files together are a
permutation of the classes of the set (needs only unique keys) -/
theorem placement_partition (m : Mappings) (hnd : (m.classes.map Prod.fst).Nodup) :
    ((fileEntries m).flatMap fun x => postRaw m.classes (treeFuel m.classes) x.2.1 x.2.2).Perm m.classes := by
  have := forest_perm hnd _ (fileEntries_snd_perm m)
  rwa [List.flatMap_map] at this

/-- a file is made for exactly the classes without a present parent -/
theorem placement_roots (m : Mappings) : ((fileEntries m).map Prod.snd).Perm (m.classes.filter fun e => (parentInSet m.classes e.1).isNone) :=
  fileEntries_snd_perm m

/-- **the file of a class is the file of its outermost present ancestor**: `e` is in the tree of the file entry `x`
iff the root of `x` is reached from `e` along parents that are present in the set -/
theorem placement_file_of_class (m : Mappings) (hnd : (m.classes.map Prod.fst).Nodup) (x : JStr × (JStr × Class))
    (hx : x ∈ fileEntries m) (e : JStr × Class) (he : e ∈ m.classes) :
    e ∈ postRaw m.classes (treeFuel m.classes) x.2.1 x.2.2 ↔ Anc m.classes e.1 x.2.1 :=
  mem_tree_iff hnd ((fileEntries_snd_perm m).subset (List.mem_map.mpr ⟨x, hx, rfl⟩)) he

/-- no class is in the trees of two files -/
theorem placement_unique (m : Mappings) (hnd : (m.classes.map Prod.fst).Nodup) (x y : JStr × (JStr × Class))
    (hx : x ∈ fileEntries m) (hy : y ∈ fileEntries m) (e : JStr × Class)
    (h1 : e ∈ postRaw m.classes (treeFuel m.classes) x.2.1 x.2.2)
    (h2 : e ∈ postRaw m.classes (treeFuel m.classes) y.2.1 y.2.2) : x.2 = y.2 :=
  tree_unique hnd ((fileEntries_snd_perm m).subset (List.mem_map.mpr ⟨x, hx, rfl⟩))
    ((fileEntries_snd_perm m).subset (List.mem_map.mpr ⟨y, hy, rfl⟩)) h1 h2

/-- **nesting in the text mirrors source-name nesting**: the written stream is tokenised (by the reader's tokeniser)
into lines whose `CLASS` lines are, file after file, the pre-order walk of the tree along present parents; the line of a
class is indented one level deeper than the line of its present parent (`preDepth_spec`) and shows the simple names
below a parent, the full names at the top of a file (`headerEL`) -/
theorem nesting_mirror (m : Mappings) (h : writableB m = true) :
    ∃ t, writeAll m = some t ∧
      (lexText t).filter isClassLine =
        ((fileEntries m).flatMap fun x => preDepth m.classes (treeFuel m.classes) x.2.1 x.2.2 0).map headerEL := by
  obtain ⟨ls, hw, lx⟩ := writeAll_lex h
  refine ⟨_, hw, ?_⟩
  rw [lx.text, allEL, List.map_flatMap]
  generalize fileEntries m = fm
  induction fm with
  | nil => rfl
  | cons x rest ih =>
    simp only [List.flatMap_cons, List.filter_append, ih, treeEL_classLines]

/-- depth 0 exactly for the class at the top of the file; every other class one deeper than its present parent, which
is in the same walk -/
theorem nesting_depth (classes : AList JStr Class) (fuel : Nat) (key : JStr) (c : Class) (x : Nat × (JStr × Class))
    (hx : x ∈ preDepth classes fuel key c 0) :
    x = (0, (key, c)) ∨ (0 < x.1 ∧ ∃ p ∈ preDepth classes fuel key c 0,
      parentInSet classes x.2.1 = some p.2.1 ∧ x.1 = p.1 + 1) :=
  preDepth_spec classes fuel key c 0 x hx

/-! ## Determinism and sortedness -/

/-- **the output does not depend on the insertion order**: two Enigma-expressible sets with the same entries under
the same keys at every level, inserted in any order at every level (`Shuffled`), give the same stream and the same
files -/
theorem write_order_independent (m m' : Mappings) (hw : writableB m = true) (hw' : writableB m' = true)
    (h : Shuffled m m') : writeAll m = writeAll m' ∧ files m = files m' := write_shuffled hw hw' h

/-- **the output is sorted**: files by file name, nested classes by source name, fields and methods by
`(names, descriptor)`, parameters by `(index, names)` -/
theorem output_sorted (m : Mappings) :
    (fileEntries m).Pairwise (fun a b => keyLe a b = true) ∧
    (∀ key, (childrenOf m.classes key).Pairwise (fun a b => keyLe a b = true)) ∧
    ∀ c : Class, (isort fieldLe c.fields).Pairwise (fun a b => fieldLe a b = true) ∧
      (isort methodLe c.methods).Pairwise (fun a b => methodLe a b = true) ∧
      ∀ e ∈ c.methods, (isort paramLe e.2.params).Pairwise (fun a b => paramLe a b = true) :=
  ⟨fileEntries_sorted m, childrenOf_sorted m.classes, fun _ =>
    ⟨isort_pairwise fieldLe_ord.total fieldLe_ord.trans _, isort_pairwise methodLe_ord.total methodLe_ord.trans _,
      fun _ _ => isort_pairwise paramLe_ord.total paramLe_ord.trans _⟩⟩

/-- the sort keys are total orders: equal keys only for equal `(names, descriptor)` resp. file names -/
theorem sort_keys_total :
    (∀ a b : MemberKey × Field, fieldLe a b = true → fieldLe b a = true → (a.2.names, a.2.desc) = (b.2.names, b.2.desc)) ∧
    (∀ a b : MemberKey × Method, methodLe a b = true → methodLe b a = true → (a.2.names, a.2.desc) = (b.2.names, b.2.desc)) ∧
    (∀ a b : Nat × Param, paramLe a b = true → paramLe b a = true → (a.2.index, a.2.names) = (b.2.index, b.2.names)) ∧
    (∀ a b : JStr × (JStr × Class), keyLe a b = true → keyLe b a = true → a.1 = b.1) :=
  ⟨fieldLe_ord.antisymm, methodLe_ord.antisymm, paramLe_ord.antisymm, keyLe_ord.antisymm⟩

/-! ## Non-vacuity -/

def fld (n d : String) (dst : Option String) (doc : Option String) : MemberKey × Field :=
  ((jstr n, jstr d), { desc := jstr d, names := [some (jstr n), dst.map jstr], doc := doc.map jstr })
def prm (i : Nat) (n : String) (doc : Option String) : Nat × Param :=
  (i, { index := i, names := [none, some (jstr n)], doc := doc.map jstr })
def mth' (n d : String) (dst : Option String) (doc : Option String) (ps : AList Nat Param) : MemberKey × Method :=
  ((jstr n, jstr d), { desc := jstr d, names := [some (jstr n), dst.map jstr], doc := doc.map jstr, params := ps })
def clsF (k : String) (d : Option String) (doc : Option String) (fs : AList MemberKey Field) (ms : AList MemberKey Method) :
    JStr × Class :=
  (jstr k, { names := [some (jstr k), d.map jstr], doc := doc.map jstr, fields := fs, methods := ms })

/-- nested class below its parent, orphan inner class, class without target name, package, members out of order,
constructor, parameters with comments; comments with a blank line, leading spaces and `#`, an empty comment, comments
whose last line is blank (at class, field, method and parameter level) -/
def sample : Mappings := mk [
  clsF "p/A$B" (some "q/X$Y") (some "") [] [],
  clsF "p/A" (some "q/X") (some "first line\n\n  indented # not a comment\n") [fld "b" "I" (some "y") (some "f\n"), fld "a" "I" none (some "")]
    [mth' "m" "(I)V" (some "n") (some "m\n\n") [prm 1 "q" (some ""), prm 0 "p" (some "par\n doc\n")], mth' "<init>" "()V" (some "<init>") none []],
  clsF "O$I" none none [] [],
  clsF "O$I$J" (some "O$I$K") none [] []]

example : writableB sample = true := by decide

def sampleShuffled : Mappings := mk [
  clsF "O$I$J" (some "O$I$K") none [] [],
  clsF "p/A$B" (some "q/X$Y") (some "") [] [],
  clsF "O$I" none none [] [],
  clsF "p/A" (some "q/X") (some "first line\n\n  indented # not a comment\n") [fld "a" "I" none (some ""), fld "b" "I" (some "y") (some "f\n")]
    [mth' "<init>" "()V" (some "<init>") none [], mth' "m" "(I)V" (some "n") (some "m\n\n") [prm 0 "p" (some "par\n doc\n"), prm 1 "q" (some "")]]]

example : writableB sampleShuffled = true := by decide

-- the hypotheses of `write_order_independent` are satisfiable by two different insertion orders
set_option maxRecDepth 100000 in
example : writeAll sample = writeAll sampleShuffled ∧ sample ≠ sampleShuffled := by decide

/-! ## Witnesses: what the format cannot express (each restriction of `writableB` that is a real loss) -/

/-- regression of the fixed defect: the orphan inner class `A$B -> X$Y` (no `A` in the set) round-trips -/
theorem orphan_inner_roundtrip :
    writableB (mk [cls "A$B" (some "X$Y")]) = true ∧
    roundTrip (mk [cls "A$B" (some "X$Y")]) = some (mk [cls "A$B" (some "X$Y")]) := by decide

/-- a nested class below its parent whose target name does not extend the parent's target name is read back with the
parent's target name in front: `A -> X`, `A$B -> Y` comes back as `A$B -> X$Y` -/
theorem nested_target_witness :
    roundTrip (mk [cls "A" (some "X"), cls "A$B" (some "Y")]) =
      some (mk [cls "A$B" (some "X$Y"), cls "A" (some "X")]) := by decide

/-- a target name that looks like a modifier token is dropped -/
theorem modifier_target_witness :
    roundTrip (mk [cls "A" (some "ACC:X")]) = some (mk [cls "A" none]) := by decide

/-- two top-level classes with the same file name: one of them is lost -/
theorem file_collision_witness :
    roundTrip (mk [cls "A" (some "X"), cls "B" (some "X")]) = some (mk [cls "B" (some "X")]) := by decide

/-- a TAB in a comment comes back as a space -/
theorem comment_tab_witness :
    roundTrip (mk [(jstr "A", { names := [some (jstr "A"), none], doc := some (jstr "a\tb"), fields := [], methods := [] })]) =
      some (mk [(jstr "A", { names := [some (jstr "A"), none], doc := some (jstr "a b"), fields := [], methods := [] })]) := by
  decide

/-- a CR at the end of a comment line is eaten by `BufRead::lines`, a CR inside a line comes back as a space -/
theorem comment_cr_witness :
    roundTrip (mk [(jstr "A", { names := [some (jstr "A"), none], doc := some (jstr "a\r\nb\rc"), fields := [], methods := [] })]) =
      some (mk [(jstr "A", { names := [some (jstr "A"), none], doc := some (jstr "a\nb c"), fields := [], methods := [] })]) := by
  decide

/-- inside the domain: an empty comment and a comment whose last line is blank come back unchanged -/
theorem comment_blank_roundtrip :
    roundTrip (mk [(jstr "A", { names := [some (jstr "A"), none], doc := some (jstr "x\n"), fields := [], methods := [] }),
                   (jstr "B", { names := [some (jstr "B"), none], doc := some (jstr ""), fields := [], methods := [] })]) =
      some (mk [(jstr "A", { names := [some (jstr "A"), none], doc := some (jstr "x\n"), fields := [], methods := [] }),
                (jstr "B", { names := [some (jstr "B"), none], doc := some (jstr ""), fields := [], methods := [] })]) := by
  decide

/-- a `#` in a name cuts the line: the target name `X#Y` comes back as `X` -/
theorem hash_in_name_witness :
    roundTrip (mk [cls "A" (some "X#Y")]) = some (mk [cls "A" (some "X")]) := by decide

/-- a space in a name makes two tokens: the target name `X Y` comes back as `X` (`Y` is taken for a modifier) -/
theorem space_in_name_witness :
    roundTrip (mk [cls "A" (some "X Y")]) = some (mk [cls "A" (some "X")]) := by decide

def clsM (k : String) (ms : AList MemberKey Method) : JStr × Class :=
  (jstr k, { names := [some (jstr k), none], doc := none, fields := [], methods := ms })
def mth (n : String) (dst : Option String) (ps : AList Nat Param) : MemberKey × Method :=
  ((jstr n, jstr "()V"), { desc := jstr "()V", names := [some (jstr n), dst.map jstr], doc := none, params := ps })

/-- a method target name `<init>` is not written, and a parameter's source name is not written -/
theorem init_and_param_source_witness :
    roundTrip (mk [clsM "A" [mth "m" (some "<init>") [(0, { index := 0, names := [some (jstr "s"), some (jstr "p")], doc := none })]]]) =
      some (mk [clsM "A" [mth "m" none [(0, { index := 0, names := [none, some (jstr "p")], doc := none })]]]) := by
  decide

/-- a parameter without target name cannot be written at all -/
theorem param_without_target_witness :
    writeAll (mk [clsM "A" [mth "m" none [(0, { index := 0, names := [none, none], doc := none })]]]) = none := by
  decide

end Thm.C12
