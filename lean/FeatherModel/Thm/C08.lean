import FeatherModel.Lemmas.ReorderInv

/-!
# C08 — reordering namespaces is a faithful permutation
Property theorems only. Model: `FeatherModel/Model/Reorder.lean` (`Reorder.reorder m req`, `none` = `Err`).
The relational specification `Reorder.Spec` (with `ClassRel`, `FieldRel`, `MethodRel`, `ParamRel`, `ListRel`) is defined in
`FeatherModel/Lemmas/ReorderSpec.lean`; the domains `WF`, `DescsOk`, `DescInjective` in the model file.
All statements are for every mapping set, every number of namespaces and every request.
-/

namespace Thm.C08
open Reorder MapDesc

/-! ## the specification -/

/-- `ListRel R l l'` = same length and `R` at every position (so: entry order preserved) -/
theorem listRel_iff_index {α β : Type} {R : α → β → Prop} {l : List α} {l' : List β} :
    ListRel R l l' ↔ l.length = l'.length ∧ ∀ (i : Nat) (hi : i < l.length) (hi' : i < l'.length), R l[i] l'[i] :=
  ListRel.iff_get

/-- position `j` of a reordered row is position `table[j]` of the old row -/
theorem reorderNames_row (table : List Nat) (names : Names) :
    (reorderNames table names).length = table.length ∧
    ∀ (j : Nat) (hj : j < table.length), (reorderNames table names)[j]? = some (names.getD table[j] none) := by
  refine ⟨by simp [reorderNames], ?_⟩
  intro j hj
  simp [reorderNames, hj]

/-- **Faithful permutation.** `reorder` succeeds with `m'` exactly when `m'` is the specified result: namespaces,
entries (in the same order) at all four levels, every row read through the table, descriptors rewritten by the class map
`0 → table[0]`, comments and parameter indices equal, every entry stored under its new first name (+ new descriptor) /
its index, keys of every map pairwise different. In particular the result is unique and failure means no such result. -/
theorem reorder_spec {m m' : Mappings} {req : List JStr} : reorder m req = some m' ↔ Spec m req m' :=
  reorder_iff_spec

/-- the specification unfolded for the class level, index by index -/
theorem reorder_spec_classes {m m' : Mappings} {req : List JStr} {table : List Nat}
    (h : reorder m req = some m') (ht : tableOf m req = some table) :
    m'.ns = table.map (fun i => m.ns.getD i []) ∧ m'.ns = req ∧ m'.doc = m.doc ∧
    m'.classes.length = m.classes.length ∧
    ∀ (i : Nat) (hi : i < m.classes.length) (hi' : i < m'.classes.length),
      m'.classes[i].2.names = reorderNames table m.classes[i].2.names ∧
      m'.classes[i].2.names.head? = some (some m'.classes[i].1) ∧
      m'.classes[i].2.doc = m.classes[i].2.doc ∧
      ListRel (FieldRel (mapClass (rows m (table.headD 0))) table) m.classes[i].2.fields m'.classes[i].2.fields ∧
      ListRel (MethodRel (mapClass (rows m (table.headD 0))) table) m.classes[i].2.methods m'.classes[i].2.methods := by
  obtain ⟨_, t0, rest, htab, hns, hdoc, hrel, _⟩ := reorder_spec.mp h
  rw [ht] at htab
  simp only [Option.some.injEq] at htab
  subst htab
  refine ⟨hns, by rw [hns]; exact tableOf_ns ht, hdoc, hrel.length_eq.symm, ?_⟩
  intro i hi hi'
  obtain ⟨h1, h2, h3, h4, _, h6, _⟩ := hrel.get i hi hi'
  exact ⟨h1, h3, h2, h4, h6⟩

/-! ## failure instead of dropping or mis-keying -/

/-- an unknown namespace name in the request is an error -/
theorem reorder_fails_unknown_namespace {m : Mappings} {req : List JStr} {x : JStr}
    (hx : x ∈ req) (hns : m.getNamespace x = none) : reorder m req = none := by
  cases h : reorder m req with
  | none => rfl
  | some m' =>
    obtain ⟨_, t0, rest, htab, _⟩ := reorder_spec.mp h
    obtain ⟨i, _, hi⟩ := (tableOf_rel htab).mem_left hx
    rw [hns] at hi; simp at hi

/-- a class without a name in the new first namespace makes the whole operation fail -/
theorem reorder_fails_missing_class {m : Mappings} {req : List JStr} {t0 : Nat} {rest : List Nat} {e : JStr × Class}
    (ht : tableOf m req = some (t0 :: rest)) (he : e ∈ m.classes) (hmiss : e.2.names.getD t0 none = none) :
    reorder m req = none := by
  cases h : reorder m req with
  | none => rfl
  | some m' =>
    obtain ⟨_, t0', rest', htab, _, _, hrel, _⟩ := reorder_spec.mp h
    rw [ht] at htab
    simp only [Option.some.injEq, List.cons.injEq] at htab
    obtain ⟨h1, h2⟩ := htab; subst h1 h2
    obtain ⟨e', _, hr⟩ := hrel.mem_left he
    have h3 := hr.2.2.1
    rw [hr.1, reorderNames_head, hmiss] at h3
    simp at h3

/-- the same for a field -/
theorem reorder_fails_missing_field {m : Mappings} {req : List JStr} {t0 : Nat} {rest : List Nat} {e : JStr × Class}
    {x : MemberKey × Field}
    (ht : tableOf m req = some (t0 :: rest)) (he : e ∈ m.classes) (hx : x ∈ e.2.fields)
    (hmiss : x.2.names.getD t0 none = none) : reorder m req = none := by
  cases h : reorder m req with
  | none => rfl
  | some m' =>
    obtain ⟨_, t0', rest', htab, _, _, hrel, _⟩ := reorder_spec.mp h
    rw [ht] at htab
    simp only [Option.some.injEq, List.cons.injEq] at htab
    obtain ⟨h1, h2⟩ := htab; subst h1 h2
    obtain ⟨e', _, hr⟩ := hrel.mem_left he
    obtain ⟨x', _, hxr⟩ := hr.2.2.2.1.mem_left hx
    have h3 := hxr.2.2.2.1
    rw [hxr.2.1, reorderNames_head, hmiss] at h3
    simp at h3

/-- the same for a method -/
theorem reorder_fails_missing_method {m : Mappings} {req : List JStr} {t0 : Nat} {rest : List Nat} {e : JStr × Class}
    {x : MemberKey × Method}
    (ht : tableOf m req = some (t0 :: rest)) (he : e ∈ m.classes) (hx : x ∈ e.2.methods)
    (hmiss : x.2.names.getD t0 none = none) : reorder m req = none := by
  cases h : reorder m req with
  | none => rfl
  | some m' =>
    obtain ⟨_, t0', rest', htab, _, _, hrel, _⟩ := reorder_spec.mp h
    rw [ht] at htab
    simp only [Option.some.injEq, List.cons.injEq] at htab
    obtain ⟨h1, h2⟩ := htab; subst h1 h2
    obtain ⟨e', _, hr⟩ := hrel.mem_left he
    obtain ⟨x', _, hxr⟩ := hr.2.2.2.2.2.1.mem_left hx
    have h3 := hxr.2.2.2.1
    rw [hxr.2.1, reorderNames_head, hmiss] at h3
    simp at h3

/-- two classes with the same name in the new first namespace: error (neither is dropped or overwritten) -/
theorem reorder_fails_dup_class {m : Mappings} {req : List JStr} {t0 : Nat} {rest : List Nat} {i j : Nat}
    (ht : tableOf m req = some (t0 :: rest)) (hi : i < m.classes.length) (hj : j < m.classes.length) (hij : i < j)
    (hsame : m.classes[i].2.names.getD t0 none = m.classes[j].2.names.getD t0 none) :
    reorder m req = none := by
  cases h : reorder m req with
  | none => rfl
  | some m' =>
    exfalso
    obtain ⟨_, t0', rest', htab, _, _, hrel, hnd⟩ := reorder_spec.mp h
    rw [ht] at htab
    simp only [Option.some.injEq, List.cons.injEq] at htab
    obtain ⟨h1, h2⟩ := htab; subst h1 h2
    have hlen := hrel.length_eq
    have ri := hrel.get i hi (by omega)
    have rj := hrel.get j hj (by omega)
    have hki := ri.2.2.1
    have hkj := rj.2.2.1
    rw [ri.1, reorderNames_head] at hki
    rw [rj.1, reorderNames_head, ← hsame, hki] at hkj
    simp only [Option.some.injEq] at hkj
    have := nodup_get_ne hnd (i := i) (j := j) (by simp [AList.keys]; omega) (by simp [AList.keys]; omega) hij
    simp only [AList.keys, List.getElem_map] at this
    exact this hkj

/-- two fields of a class with the same new first name and the same rewritten descriptor: error -/
theorem reorder_fails_dup_field {m : Mappings} {req : List JStr} {t0 : Nat} {rest : List Nat} {e : JStr × Class}
    {i j : Nat}
    (ht : tableOf m req = some (t0 :: rest)) (he : e ∈ m.classes)
    (hi : i < e.2.fields.length) (hj : j < e.2.fields.length) (hij : i < j)
    (hname : e.2.fields[i].2.names.getD t0 none = e.2.fields[j].2.names.getD t0 none)
    (hdesc : mapDesc (mapClass (rows m t0)) e.2.fields[i].2.desc = mapDesc (mapClass (rows m t0)) e.2.fields[j].2.desc) :
    reorder m req = none := by
  cases h : reorder m req with
  | none => rfl
  | some m' =>
    exfalso
    obtain ⟨_, t0', rest', htab, _, _, hrel, _⟩ := reorder_spec.mp h
    rw [ht] at htab
    simp only [Option.some.injEq, List.cons.injEq] at htab
    obtain ⟨h1, h2⟩ := htab; subst h1 h2
    obtain ⟨e', _, hr⟩ := hrel.mem_left he
    have hfr := hr.2.2.2.1
    have hnd := hr.2.2.2.2.1
    have hlen := hfr.length_eq
    have ri := hfr.get i hi (by omega)
    have rj := hfr.get j hj (by omega)
    have hki := ri.2.2.2.1
    have hkj := rj.2.2.2.1
    rw [ri.2.1, reorderNames_head] at hki
    rw [rj.2.1, reorderNames_head, ← hname, hki] at hkj
    simp only [Option.some.injEq] at hkj
    have hd : e'.2.fields[i].2.desc = e'.2.fields[j].2.desc := by
      have a := ri.1; have b := rj.1
      rw [hdesc, b] at a
      simpa using a.symm
    have := nodup_get_ne hnd (i := i) (j := j) (by simp [AList.keys]; omega) (by simp [AList.keys]; omega) hij
    simp only [AList.keys, List.getElem_map] at this
    apply this
    apply Prod.ext
    · exact hkj
    · rw [ri.2.2.2.2, rj.2.2.2.2, hd]

/-- two methods of a class with the same new first name and the same rewritten descriptor: error -/
theorem reorder_fails_dup_method {m : Mappings} {req : List JStr} {t0 : Nat} {rest : List Nat} {e : JStr × Class}
    {i j : Nat}
    (ht : tableOf m req = some (t0 :: rest)) (he : e ∈ m.classes)
    (hi : i < e.2.methods.length) (hj : j < e.2.methods.length) (hij : i < j)
    (hname : e.2.methods[i].2.names.getD t0 none = e.2.methods[j].2.names.getD t0 none)
    (hdesc : mapDesc (mapClass (rows m t0)) e.2.methods[i].2.desc = mapDesc (mapClass (rows m t0)) e.2.methods[j].2.desc) :
    reorder m req = none := by
  cases h : reorder m req with
  | none => rfl
  | some m' =>
    exfalso
    obtain ⟨_, t0', rest', htab, _, _, hrel, _⟩ := reorder_spec.mp h
    rw [ht] at htab
    simp only [Option.some.injEq, List.cons.injEq] at htab
    obtain ⟨h1, h2⟩ := htab; subst h1 h2
    obtain ⟨e', _, hr⟩ := hrel.mem_left he
    have hfr := hr.2.2.2.2.2.1
    have hnd := hr.2.2.2.2.2.2
    have hlen := hfr.length_eq
    have ri := hfr.get i hi (by omega)
    have rj := hfr.get j hj (by omega)
    have hki := ri.2.2.2.1
    have hkj := rj.2.2.2.1
    rw [ri.2.1, reorderNames_head] at hki
    rw [rj.2.1, reorderNames_head, ← hname, hki] at hkj
    simp only [Option.some.injEq] at hkj
    have hd : e'.2.methods[i].2.desc = e'.2.methods[j].2.desc := by
      have a := ri.1; have b := rj.1
      rw [hdesc, b] at a
      simpa using a.symm
    have := nodup_get_ne hnd (i := i) (j := j) (by simp [AList.keys]; omega) (by simp [AList.keys]; omega) hij
    simp only [AList.keys, List.getElem_map] at this
    apply this
    apply Prod.ext
    · exact hkj
    · rw [ri.2.2.2.2.1, rj.2.2.2.2.1, hd]

/-- a descriptor `map_desc` rejects (`L;`, missing `;`) is an error -/
theorem reorder_fails_bad_descriptor {m : Mappings} {req : List JStr} {d : JStr}
    (hd : d ∈ descsOf m) (hbad : ¬ DescOk d) : reorder m req = none := by
  cases h : reorder m req with
  | none => rfl
  | some m' =>
    exfalso
    obtain ⟨_, t0, rest, _, _, _, hrel, _⟩ := reorder_spec.mp h
    obtain ⟨e, he, hx⟩ := mem_descsOf.mp hd
    obtain ⟨e', _, hr⟩ := hrel.mem_left he
    apply hbad
    unfold DescOk
    rcases hx with ⟨x, hx, rfl⟩ | ⟨x, hx, rfl⟩
    · obtain ⟨x', _, hxr⟩ := hr.2.2.2.1.mem_left hx
      rw [mapDesc_id_of_isSome (f := mapClass (rows m t0)) (by rw [hxr.1]; rfl)]; rfl
    · obtain ⟨x', _, hxr⟩ := hr.2.2.2.2.2.1.mem_left hx
      rw [mapDesc_id_of_isSome (f := mapClass (rows m t0)) (by rw [hxr.1]; rfl)]; rfl

/-- parameters never fail on a missing name: rebuilding a parameter map succeeds as soon as the indices are pairwise
different (always the case in a map keyed by index), whatever names are absent -/
theorem reorder_params_never_fail (table : List Nat) (ps : AList Nat Param)
    (hnd : (ps.map (fun e => e.2.index)).Nodup) :
    ∃ ps', buildMap (reorderParam table) (AList.values ps) [] = some ps' ∧ ListRel (ParamRel table) ps ps' := by
  let ps' : AList Nat Param := ps.map (fun e => (e.2.index, { e.2 with names := reorderNames table e.2.names }))
  have hrel : ListRel (ParamRel table) ps ps' := by
    apply ListRel.of_get (by simp [ps'])
    intro i hi hi'
    simp [ps', ParamRel]
  refine ⟨ps', ?_, hrel⟩
  apply (buildVals_iff (R := ParamRel table) (fun a b => reorderParam_iff a b)).mpr
  refine ⟨hrel, ?_⟩
  simpa [ps', AList.keys, List.map_map, Function.comp_def] using hnd

/-! ## identity -/

/-- **Identity.** Reordering to the current order returns the input unchanged, for every well-formed set (unique
namespace names, rows of length `N`, entries stored under the keys derived from their info) whose descriptors
`map_desc` accepts. Each hypothesis is needed: see the two `_witness` theorems below (inconsistent keys are re-keyed,
which is the specified behaviour). -/
theorem reorder_id {m : Mappings} (hwf : WF m) (hd : DescsOk m) (hne : m.ns ≠ []) : reorder m m.ns = some m := by
  apply reorder_spec.mpr
  obtain ⟨hnsnd, hknd, hcwf⟩ := hwf
  obtain ⟨table, htab⟩ : ∃ table, tableOf m m.ns = some table := tableOf_exists (fun x hx => hx)
  have hlen : table.length = m.ns.length := ((tableOf_rel htab).length_eq).symm
  have hid : ∀ (i : Nat) (hi : i < table.length), table[i] = i := by
    intro i hi
    have hi2 : i < m.ns.length := by omega
    have h1 := (tableOf_rel htab).get i hi2 hi
    rw [getNamespace_nodup hnsnd (List.getElem?_eq_getElem hi2)] at h1
    simpa using h1.symm
  have hnames : ∀ names : Names, names.length = m.ns.length → reorderNames table names = names := by
    intro names hn
    apply reorderNames_ext (by omega)
    intro i hi
    rw [hid i hi]
  cases table with
  | nil =>
    simp only [List.length_nil] at hlen
    exact absurd (List.length_eq_zero_iff.mp hlen.symm) hne
  | cons t0 rest =>
  have ht0 : t0 = 0 := by
    have := hid 0 (by simp)
    simpa using this
  subst ht0
  have hf : mapClass (rows m 0) = id := funext (mapClass_diag (rows_zero_diag m))
  have hdesc : ∀ d ∈ descsOf m, mapDesc (mapClass (rows m 0)) d = some d := by
    intro d hdm
    rw [hf]
    exact mapDesc_id_of_isSome (f := id) (hd d hdm)
  refine ⟨rfl, 0, rest, htab, (tableOf_ns htab).symm, rfl, ?_, hknd⟩
  apply ListRel.refl_mem
  intro e he
  obtain ⟨w1, w2, w3, w4, w5, w6⟩ := hcwf e he
  refine ⟨(hnames _ w1).symm, rfl, w2, ?_, w3, ?_, w5⟩
  · apply ListRel.refl_mem
    intro x hx
    obtain ⟨x1, x2, x3⟩ := w4 x hx
    exact ⟨hdesc _ (mem_descsOf.mpr ⟨e, he, Or.inl ⟨x, hx, rfl⟩⟩), (hnames _ x1).symm, rfl, x2, x3⟩
  · apply ListRel.refl_mem
    intro x hx
    obtain ⟨x1, x2, x3, x4, x5⟩ := w6 x hx
    refine ⟨hdesc _ (mem_descsOf.mpr ⟨e, he, Or.inr ⟨x, hx, rfl⟩⟩), (hnames _ x1).symm, rfl, x2, x3, ?_, x4⟩
    apply ListRel.refl_mem
    intro p hp
    obtain ⟨p1, p2⟩ := x5 p hp
    exact ⟨p2, rfl, (hnames _ p1).symm, rfl⟩

/-- with two namespaces of the same name the "identity" request resolves both to the first one -/
theorem reorder_id_dupns_witness :
    let m : Mappings := { ns := [jstr "a", jstr "a"], doc := none, classes := [
      (jstr "A", { names := [some (jstr "A"), some (jstr "B")], doc := none, fields := [], methods := [] })] }
    reorder m m.ns ≠ some m := by decide

/-- a descriptor `map_desc` rejects makes even the identity reorder fail -/
theorem reorder_id_baddesc_witness :
    let m : Mappings := { ns := [jstr "a", jstr "b"], doc := none, classes := [
      (jstr "A", { names := [some (jstr "A"), some (jstr "B")], doc := none, fields := [((jstr "f", jstr "L;"), { desc := jstr "L;", names := [some (jstr "f"), none], doc := none })], methods := [] })] }
    reorder m m.ns = none := by decide

/-! ## inverse -/

/-- **Inverse.** For a well-formed set, a request containing every namespace (a permutation, the length being fixed) and
an injective class-name map (`DescInjective`), reordering back to the original order returns exactly the original set,
entry order included. -/
theorem reorder_inverse {m m' : Mappings} {req : List JStr} {t0 : Nat} {rest : List Nat}
    (hwf : WF m) (hreq : ∀ n ∈ m.ns, n ∈ req) (ht : tableOf m req = some (t0 :: rest))
    (hinj : DescInjective m t0) (h : reorder m req = some m') : reorder m' m.ns = some m :=
  reorder_spec.mpr (spec_inverse hwf hreq ht hinj (reorder_spec.mp h))

/-- outside `DescInjective`: a descriptor mentions `B`, which is not a class of the set (so it stays `B`), while the
class `A` is called `B` in the other namespace; on the way back `B` is taken for the class and becomes `A` -/
theorem reorder_inverse_witness :
    let m : Mappings := { ns := [jstr "x", jstr "y"], doc := none, classes := [
      (jstr "A", { names := [some (jstr "A"), some (jstr "B")], doc := none, fields := [((jstr "f", jstr "LB;"), { desc := jstr "LB;", names := [some (jstr "f"), some (jstr "g")], doc := none })], methods := [] })] }
    WF m ∧ (∃ m', reorder m [jstr "y", jstr "x"] = some m' ∧ ∃ m'', reorder m' m.ns = some m'' ∧ m'' ≠ m) := by
  decide

/-- the hypotheses of `reorder_inverse` and `reorder_id` are satisfiable by a set with three namespaces, an absent
name, descriptors mentioning a mapped, an unmapped and an array class, a parameter and comments -/
example :
    let m : Mappings := { ns := [jstr "x", jstr "y", jstr "z"], doc := none, classes := [
      (jstr "p/A", { names := [some (jstr "p/A"), some (jstr "q/B"), none], doc := some (jstr "doc"), fields := [((jstr "f", jstr "[Lp/A;"), { desc := jstr "[Lp/A;", names := [some (jstr "f"), some (jstr "g"), none], doc := none })], methods := [((jstr "m", jstr "(Lp/A;Lun/mapped;I)V"), { desc := jstr "(Lp/A;Lun/mapped;I)V", names := [some (jstr "m"), some (jstr "n"), some (jstr "o")], doc := none, params := [(1, { index := 1, names := [none, some (jstr "arg"), none], doc := some (jstr "d") })] })] })] }
    WF m ∧ DescsOk m ∧ DescInjective m 1 ∧ tableOf m [jstr "y", jstr "z", jstr "x"] = some [1, 2, 0] ∧
    reorder m [jstr "y", jstr "z", jstr "x"] = some { ns := [jstr "y", jstr "z", jstr "x"], doc := none, classes := [
      (jstr "q/B", { names := [some (jstr "q/B"), none, some (jstr "p/A")], doc := some (jstr "doc"), fields := [((jstr "g", jstr "[Lq/B;"), { desc := jstr "[Lq/B;", names := [some (jstr "g"), none, some (jstr "f")], doc := none })], methods := [((jstr "n", jstr "(Lq/B;Lun/mapped;I)V"), { desc := jstr "(Lq/B;Lun/mapped;I)V", names := [some (jstr "n"), some (jstr "o"), some (jstr "m")], doc := none, params := [(1, { index := 1, names := [some (jstr "arg"), none, none], doc := some (jstr "d") })] })] })] } := by
  decide

end Thm.C08
