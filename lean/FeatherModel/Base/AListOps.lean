import FeatherModel.Base.AList

/-!
# Order-faithful `IndexMap` operations on association lists
`IndexMap::insert` (replace in place or append), `IndexMap::swap_remove` (the last entry takes the place of the removed
one), `IndexMap::shift_remove`. The resulting ORDER is what the Rust code later iterates over, so it is modelled exactly.
-/

namespace AList
variable {K V W : Type}

/-- `IndexMap::insert`: an existing key keeps its position and gets the new value, a new key is appended -/
def insert [BEq K] (k : K) (v : V) : AList K V → AList K V
  | [] => [(k, v)]
  | (k', v') :: rest => if k' == k then (k', v) :: rest else (k', v') :: insert k v rest

/-- `IndexMap::shift_remove` -/
def shiftRemove [BEq K] (k : K) : AList K V → AList K V
  | [] => []
  | (k', v') :: rest => if k' == k then rest else (k', v') :: shiftRemove k rest

/-- what is left of `x :: rest` after `swap_remove` of its head: the last entry moves to the front -/
def swapHead (rest : AList K V) : AList K V :=
  match rest.getLast? with
  | none => []
  | some l => l :: rest.dropLast

/-- `IndexMap::swap_remove`: removes the first entry with key `k`; the last entry of the map takes its place.
Returns the removed value and the remaining map. -/
def swapRemove [BEq K] (k : K) : AList K V → Option (V × AList K V)
  | [] => none
  | (k', v') :: rest =>
    if k' == k then some (v', swapHead rest)
    else
      match swapRemove k rest with
      | none => none
      | some (v, rest') => some (v, (k', v') :: rest')

end AList
