/-!
# Canonical S-expressions for the line protocol (DESIGN Appendix A)

request := op (SP sexp)*
sexp    := atom | "(" sexp (SP sexp)* ")" | "()"
atom    := "#" hex ("." hex)*   string as code points      (#41.24.1f600, "#" alone = empty string)
         | "x" hexbyte*         byte string
         | ["-"] digit+         integer
         | ident                tag
-/

abbrev JStr := List Nat
abbrev Bytes := List Nat

/-- code points of a string literal (for examples and constants) -/
def jstr (s : String) : JStr := s.toList.map Char.toNat

inductive Sexp where
  | atom (s : String)
  | list (xs : List Sexp)
  deriving Inhabited, Repr

namespace Sexp

partial def toStr : Sexp → String
  | atom s => s
  | list xs => "(" ++ " ".intercalate (xs.map toStr) ++ ")"

def hexDigit (n : Nat) : Char :=
  if n < 10 then Char.ofNat (48 + n) else Char.ofNat (87 + n)

def hexVal (c : Char) : Option Nat :=
  if '0' ≤ c ∧ c ≤ '9' then some (c.toNat - 48)
  else if 'a' ≤ c ∧ c ≤ 'f' then some (c.toNat - 87)
  else if 'A' ≤ c ∧ c ≤ 'F' then some (c.toNat - 55)
  else none

partial def natToHexAux (n : Nat) (acc : List Char) : List Char :=
  if n < 16 then hexDigit n :: acc else natToHexAux (n / 16) (hexDigit (n % 16) :: acc)

def natToHex (n : Nat) : String := String.ofList (natToHexAux n [])

def hexToNat (cs : List Char) : Option Nat :=
  if cs.isEmpty then none else
  cs.foldl (fun acc c => match acc, hexVal c with
    | some a, some v => some (a * 16 + v)
    | _, _ => none) (some 0)

/-- string atom from code points -/
def ofJStr (s : JStr) : Sexp :=
  atom ("#" ++ ".".intercalate (s.map natToHex))

def ofBytes (b : Bytes) : Sexp :=
  atom (String.ofList ('x' :: b.flatMap (fun n => [hexDigit (n / 16 % 16), hexDigit (n % 16)])))

def ofNat (n : Nat) : Sexp := atom (toString n)
def ofInt (n : Int) : Sexp := atom (toString n)
def ofBool (b : Bool) : Sexp := atom (if b then "t" else "f")
def tag (s : String) : Sexp := atom s
def ofOption (f : α → Sexp) : Option α → Sexp
  | none => list []
  | some a => list [f a]
def ofList (f : α → Sexp) (xs : List α) : Sexp := list (xs.map f)

def splitOnChar (cs : List Char) (sep : Char) : List (List Char) :=
  let rec go (cs : List Char) (cur : List Char) (acc : List (List Char)) : List (List Char) :=
    match cs with
    | [] => (cur.reverse :: acc).reverse
    | c :: rest => if c == sep then go rest [] (cur.reverse :: acc) else go rest (c :: cur) acc
  go cs [] []

def toJStr? : Sexp → Option JStr
  | atom s =>
    match s.toList with
    | '#' :: rest =>
      if rest.isEmpty then some [] else
      (splitOnChar rest '.').mapM hexToNat
    | _ => none
  | _ => none

def bytesAux : List Char → List Nat → Option (List Nat)
  | [], acc => some acc.reverse
  | [_], _ => none
  | a :: b :: rest, acc =>
    match hexVal a, hexVal b with
    | some x, some y => bytesAux rest ((x * 16 + y) :: acc)
    | _, _ => none

def toBytes? : Sexp → Option Bytes
  | atom s =>
    match s.toList with
    | 'x' :: rest => bytesAux rest []
    | _ => none
  | _ => none

def toNat? : Sexp → Option Nat
  | atom s => s.toNat?
  | _ => none

def toInt? : Sexp → Option Int
  | atom s => s.toInt?
  | _ => none

def toBool? : Sexp → Option Bool
  | atom "t" => some true
  | atom "f" => some false
  | _ => none

def toTag? : Sexp → Option String
  | atom s => some s
  | _ => none

def toList? : Sexp → Option (List Sexp)
  | list xs => some xs
  | _ => none

def toOption? (f : Sexp → Option α) : Sexp → Option (Option α)
  | list [] => some none
  | list [x] => (f x).map some
  | _ => none

def toListOf? (f : Sexp → Option α) : Sexp → Option (List α)
  | list xs => xs.mapM f
  | _ => none

/-! ## Parser: a request line into top-level items -/

inductive Tok where
  | lp | rp | at (s : String)

def tokenize (cs : List Char) : List Tok :=
  let flush (cur : List Char) (acc : List Tok) : List Tok :=
    if cur.isEmpty then acc else Tok.at (String.ofList cur.reverse) :: acc
  let rec go (cs : List Char) (cur : List Char) (acc : List Tok) : List Tok :=
    match cs with
    | [] => (flush cur acc).reverse
    | c :: rest =>
      if c == '(' then go rest [] (Tok.lp :: flush cur acc)
      else if c == ')' then go rest [] (Tok.rp :: flush cur acc)
      else if c == ' ' || c == '\n' || c == '\r' || c == '\t' then go rest [] (flush cur acc)
      else go rest (c :: cur) acc
  go cs [] []

/-- parse tokens with an explicit stack; `none` on unbalanced input -/
def parseToks : List Tok → List (List Sexp) → Option (List Sexp)
  | [], [top] => some top.reverse
  | [], _ => none
  | Tok.lp :: rest, stack => parseToks rest ([] :: stack)
  | Tok.rp :: rest, cur :: parent :: stack => parseToks rest ((list cur.reverse :: parent) :: stack)
  | Tok.rp :: _, _ => none
  | Tok.at s :: rest, cur :: stack => parseToks rest ((atom s :: cur) :: stack)
  | Tok.at _ :: _, [] => none

def parseLine (line : String) : Option (List Sexp) :=
  parseToks (tokenize line.toList) [[]]

end Sexp
