import FeatherModel.Base.Sexp

/-! Generic request loop of the model drivers: one request line in, one answer line out. -/

namespace Driver

inductive Ans where
  | ok (s : Sexp)
  | err (cls : String)
  | panic (site : String)
  | skip (why : String)
  | badop

def Ans.toStr : Ans → String
  | .ok s => "ok " ++ s.toStr
  | .err c => "err " ++ c
  | .panic s => "panic " ++ s
  | .skip w => "skip " ++ w
  | .badop => "bad-op"

def answer (handle : String → List Sexp → Option Ans) (line : String) : String :=
  match Sexp.parseLine line with
  | some (Sexp.atom op :: args) =>
    match handle op args with
    | some a => a.toStr
    | none => "bad-op"
  | _ => "bad-op"

partial def loop (h : IO.FS.Stream) (out : IO.FS.Stream) (handle : String → List Sexp → Option Ans) : IO Unit := do
  let line ← h.getLine
  if line.isEmpty then return ()
  out.putStrLn (answer handle line)
  loop h out handle

def run (handle : String → List Sexp → Option Ans) : IO Unit := do
  let stdin ← IO.getStdin
  let stdout ← IO.getStdout
  loop stdin stdout handle
  stdout.flush

end Driver
