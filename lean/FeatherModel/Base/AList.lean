/-!
# Association lists modelling `IndexMap<K, V>` (insertion ordered, unique keys)
The uniqueness invariant `NoDupKeys` is a separate predicate, never a subtype.
-/

abbrev AList (K V : Type) := List (K × V)

namespace AList
variable {K V W : Type}

def keys (m : AList K V) : List K := m.map Prod.fst
def values (m : AList K V) : List V := m.map Prod.snd

def lookup [BEq K] (k : K) : AList K V → Option V
  | [] => none
  | (k', v) :: rest => if k' == k then some v else lookup k rest

def contains [BEq K] (k : K) (m : AList K V) : Bool := (lookup k m).isSome

/-- `add_child`: append when the key is new, fail otherwise -/
def insertNew [BEq K] (k : K) (v : V) (m : AList K V) : Option (AList K V) :=
  if contains k m then none else some (m ++ [(k, v)])

def NoDupKeys [BEq K] : AList K V → Prop
  | [] => True
  | (k, _) :: rest => contains k rest = false ∧ NoDupKeys rest

def mapVals (f : V → W) (m : AList K V) : AList K W := m.map (fun (k, v) => (k, f v))

/-- map values with a partial function, failing on the first failure (like `collect::<Result<_>>`) -/
def mapValsM (f : K → V → Option W) : AList K V → Option (AList K W)
  | [] => some []
  | (k, v) :: rest =>
    match f k v with
    | none => none
    | some w =>
      match mapValsM f rest with
      | none => none
      | some rest' => some ((k, w) :: rest')

end AList
