import FeatherModel.Model.RawLayout

/-!
# C20 — the hand-written "every field by name" class as a positional value in JVMS item order

`harness/src/rawgolden.rs` builds one `raw_class_file::ClassFile` addressing every field of every struct and variant
*by name*, each with a value distinct within its struct.  This is the same class as a generic value whose fields are
listed in the order in which the JVMS lists the items (frozen from the conversion of that class at a time when the
theorem `Thm.C20.layouts_jvms` certified that the translated layouts list their fields in JVMS order).
The op `raw-golden` compares the implementation's conversion and bytes with this value and what the model writes for
it: exchanging two fields of equal width in `lib.rs` changes the implementation's answer but not the model's.
Do not regenerate this file from a mutated tree.
-/

namespace RawLayout

def goldenClass : Val :=
  .node 0 [
    .num 3,
    .num 65,
    .list [
      .node 10 [
        .list [.num 67, .num 111, .num 110, .num 115, .num 116, .num 97, .num 110, .num 116, .num 86, .num 97, .num 108, .num 117, .num 101]],
      .node 10 [.list [.num 67, .num 111, .num 100, .num 101]],
      .node 10 [
        .list [.num 83, .num 116, .num 97, .num 99, .num 107, .num 77, .num 97, .num 112, .num 84, .num 97, .num 98, .num 108, .num 101]],
      .node 10 [
        .list [.num 69, .num 120, .num 99, .num 101, .num 112, .num 116, .num 105, .num 111, .num 110, .num 115]],
      .node 10 [
        .list [.num 73, .num 110, .num 110, .num 101, .num 114, .num 67, .num 108, .num 97, .num 115, .num 115, .num 101, .num 115]],
      .node 10 [
        .list [.num 69, .num 110, .num 99, .num 108, .num 111, .num 115, .num 105, .num 110, .num 103, .num 77, .num 101, .num 116, .num 104, .num 111, .num 100]],
      .node 10 [
        .list [.num 83, .num 121, .num 110, .num 116, .num 104, .num 101, .num 116, .num 105, .num 99]],
      .node 10 [
        .list [.num 83, .num 105, .num 103, .num 110, .num 97, .num 116, .num 117, .num 114, .num 101]],
      .node 10 [
        .list [.num 83, .num 111, .num 117, .num 114, .num 99, .num 101, .num 70, .num 105, .num 108, .num 101]],
      .node 10 [
        .list [.num 83, .num 111, .num 117, .num 114, .num 99, .num 101, .num 68, .num 101, .num 98, .num 117, .num 103, .num 69, .num 120, .num 116, .num 101, .num 110, .num 115, .num 105, .num 111, .num 110]],
      .node 10 [
        .list [.num 76, .num 105, .num 110, .num 101, .num 78, .num 117, .num 109, .num 98, .num 101, .num 114, .num 84, .num 97, .num 98, .num 108, .num 101]],
      .node 10 [
        .list [.num 76, .num 111, .num 99, .num 97, .num 108, .num 86, .num 97, .num 114, .num 105, .num 97, .num 98, .num 108, .num 101, .num 84, .num 97, .num 98, .num 108, .num 101]],
      .node 10 [
        .list [.num 76, .num 111, .num 99, .num 97, .num 108, .num 86, .num 97, .num 114, .num 105, .num 97, .num 98, .num 108, .num 101, .num 84, .num 121, .num 112, .num 101, .num 84, .num 97, .num 98, .num 108, .num 101]],
      .node 10 [
        .list [.num 68, .num 101, .num 112, .num 114, .num 101, .num 99, .num 97, .num 116, .num 101, .num 100]],
      .node 10 [
        .list [.num 82, .num 117, .num 110, .num 116, .num 105, .num 109, .num 101, .num 86, .num 105, .num 115, .num 105, .num 98, .num 108, .num 101, .num 65, .num 110, .num 110, .num 111, .num 116, .num 97, .num 116, .num 105, .num 111, .num 110, .num 115]],
      .node 10 [
        .list [.num 82, .num 117, .num 110, .num 116, .num 105, .num 109, .num 101, .num 73, .num 110, .num 118, .num 105, .num 115, .num 105, .num 98, .num 108, .num 101, .num 65, .num 110, .num 110, .num 111, .num 116, .num 97, .num 116, .num 105, .num 111, .num 110, .num 115]],
      .node 10 [
        .list [.num 82, .num 117, .num 110, .num 116, .num 105, .num 109, .num 101, .num 86, .num 105, .num 115, .num 105, .num 98, .num 108, .num 101, .num 80, .num 97, .num 114, .num 97, .num 109, .num 101, .num 116, .num 101, .num 114, .num 65, .num 110, .num 110, .num 111, .num 116, .num 97, .num 116, .num 105, .num 111, .num 110, .num 115]],
      .node 10 [
        .list [.num 82, .num 117, .num 110, .num 116, .num 105, .num 109, .num 101, .num 73, .num 110, .num 118, .num 105, .num 115, .num 105, .num 98, .num 108, .num 101, .num 80, .num 97, .num 114, .num 97, .num 109, .num 101, .num 116, .num 101, .num 114, .num 65, .num 110, .num 110, .num 111, .num 116, .num 97, .num 116, .num 105, .num 111, .num 110, .num 115]],
      .node 10 [
        .list [.num 65, .num 110, .num 110, .num 111, .num 116, .num 97, .num 116, .num 105, .num 111, .num 110, .num 68, .num 101, .num 102, .num 97, .num 117, .num 108, .num 116]],
      .node 10 [
        .list [.num 66, .num 111, .num 111, .num 116, .num 115, .num 116, .num 114, .num 97, .num 112, .num 77, .num 101, .num 116, .num 104, .num 111, .num 100, .num 115]],
      .node 10 [
        .list [.num 77, .num 101, .num 116, .num 104, .num 111, .num 100, .num 80, .num 97, .num 114, .num 97, .num 109, .num 101, .num 116, .num 101, .num 114, .num 115]],
      .node 10 [.list [.num 77, .num 111, .num 100, .num 117, .num 108, .num 101]],
      .node 10 [
        .list [.num 77, .num 111, .num 100, .num 117, .num 108, .num 101, .num 80, .num 97, .num 99, .num 107, .num 97, .num 103, .num 101, .num 115]],
      .node 10 [
        .list [.num 77, .num 111, .num 100, .num 117, .num 108, .num 101, .num 77, .num 97, .num 105, .num 110, .num 67, .num 108, .num 97, .num 115, .num 115]],
      .node 10 [.list [.num 78, .num 101, .num 115, .num 116, .num 72, .num 111, .num 115, .num 116]],
      .node 10 [
        .list [.num 78, .num 101, .num 115, .num 116, .num 77, .num 101, .num 109, .num 98, .num 101, .num 114, .num 115]],
      .node 10 [.list [.num 82, .num 101, .num 99, .num 111, .num 114, .num 100]],
      .node 10 [
        .list [.num 80, .num 101, .num 114, .num 109, .num 105, .num 116, .num 116, .num 101, .num 100, .num 83, .num 117, .num 98, .num 99, .num 108, .num 97, .num 115, .num 115, .num 101, .num 115]],
      .node 10 [.list [.num 67, .num 117, .num 115, .num 116, .num 111, .num 109]],
      .node 0 [.num 257],
      .node 1 [
        .num 513,
        .num 514],
      .node 2 [
        .num 769,
        .num 770],
      .node 3 [
        .num 1025,
        .num 1026],
      .node 4 [.num 1281],
      .node 5 [.num 100729347],
      .node 6 [.num 117506563],
      .node 9 [
        .num 2049,
        .num 2050],
      .node 11 [
        .num 9,
        .num 2306],
      .node 12 [.num 2561],
      .node 13 [
        .num 2817,
        .num 2818],
      .node 14 [
        .num 3073,
        .num 3074],
      .node 15 [.num 3329],
      .node 16 [.num 3585],
      -- two-slot entries (JVMS indices 44-45 and 46-47), last so that no index used above moves
      .node 7 [
        .num 251724291,
        .num 251921670],
      .node 8 [
        .num 268501507,
        .num 268698886]],
    .num 33025,
    .num 33026,
    .num 33027,
    .list [
      .num 33281,
      .num 33282],
    .list [
      .node 0 [
        .num 33537,
        .num 33538,
        .num 33539,
        .list [
          .node 0 [
            .num 1,
            .num 20737],
          .node 6 [.num 7],
          .node 7 [
            .num 8,
            .num 20993],
          .node 13 [.num 14],
          .node 14 [
            .num 15,
            .list [
              .node 0 [
                .num 21248,
                .list [
                  .node 0 [
                    .num 21249,
                    .node 0 [.num 21250]],
                  .node 0 [
                    .num 21251,
                    .node 9 [
                      .num 21252,
                      .num 21253]]]]]],
          .node 15 [
            .num 16,
            .list [
              .node 0 [
                .num 21504,
                .list [
                  .node 0 [
                    .num 21505,
                    .node 0 [.num 21506]],
                  .node 0 [
                    .num 21507,
                    .node 9 [
                      .num 21508,
                      .num 21509]]]]]]]]],
    .list [
      .node 0 [
        .num 33793,
        .num 33794,
        .num 33795,
        .list [
          .node 1 [
            .num 2,
            .num 16641,
            .num 16642,
            .list [.num 42, .num 177],
            .list [
              .node 0 [
                .num 16897,
                .num 16898,
                .num 16899,
                .num 16900]],
            .list [
              .node 2 [
                .num 3,
                .list [
                  .node 0 [.num 33],
                  .node 1 [
                    .num 34,
                    .node 1 []],
                  .node 2 [
                    .num 8961,
                    .node 5 [.num 8962]],
                  .node 3 [
                    .num 2,
                    .num 9217],
                  .node 4 [.num 9473],
                  .node 5 [
                    .num 9729,
                    .list [
                      .node 2 [],
                      .node 3 []]],
                  .node 6 [
                    .num 9985,
                    .list [
                      .node 0 [],
                      .node 1 [],
                      .node 2 [],
                      .node 8 [],
                      .node 7 [],
                      .node 3 [],
                      .node 4 [],
                      .node 5 [.num 4353],
                      .node 6 [.num 4354]],
                    .list [.node 0 []]]]],
              .node 10 [
                .num 11,
                .list [
                  .node 0 [
                    .num 12545,
                    .num 12546]]],
              .node 11 [
                .num 12,
                .list [
                  .node 0 [
                    .num 12801,
                    .num 12802,
                    .num 12803,
                    .num 12804,
                    .num 12805]]],
              .node 12 [
                .num 13,
                .list [
                  .node 0 [
                    .num 13057,
                    .num 13058,
                    .num 13059,
                    .num 13060,
                    .num 13061]]]]],
          .node 3 [
            .num 4,
            .list [
              .num 17153,
              .num 17154]],
          .node 16 [
            .num 17,
            .list [
              .node 0 [
                .list [
                  .node 0 [
                    .num 17408,
                    .list [
                      .node 0 [
                        .num 17409,
                        .node 0 [.num 17410]],
                      .node 0 [
                        .num 17411,
                        .node 9 [
                          .num 17412,
                          .num 17413]]]]]],
              .node 0 [.list []]]],
          .node 17 [
            .num 18,
            .list [
              .node 0 [
                .list [
                  .node 0 [
                    .num 17664,
                    .list [
                      .node 0 [
                        .num 17665,
                        .node 0 [.num 17666]],
                      .node 0 [
                        .num 17667,
                        .node 9 [
                          .num 17668,
                          .num 17669]]]]]]]],
          .node 18 [
            .num 19,
            .node 12 [
              .list [
                .node 1 [.num 17921],
                .node 2 [.num 17922],
                .node 3 [.num 17923],
                .node 4 [.num 17924],
                .node 5 [.num 17925],
                .node 6 [.num 17926],
                .node 7 [.num 17927],
                .node 8 [.num 17928],
                .node 10 [.num 17929],
                .node 11 [
                  .node 0 [
                    .num 18176,
                    .list [
                      .node 0 [
                        .num 18177,
                        .node 0 [.num 18178]],
                      .node 0 [
                        .num 18179,
                        .node 9 [
                          .num 18180,
                          .num 18181]]]]]]]],
          .node 20 [
            .num 21,
            .list [
              .node 0 [
                .num 18433,
                .num 18434]]]]]],
    .list [
      .node 4 [
        .num 5,
        .list [
          .node 0 [
            .num 24833,
            .num 24834,
            .num 24835,
            .num 24836]]],
      .node 5 [
        .num 6,
        .num 25089,
        .num 25090],
      .node 8 [
        .num 9,
        .num 25345],
      .node 9 [
        .num 10,
        .list [.num 100, .num 101, .num 102]],
      .node 19 [
        .num 20,
        .list [
          .node 0 [
            .num 26369,
            .list [
              .num 26370,
              .num 26371]]]],
      .node 21 [
        .num 22,
        .num 26625,
        .num 26626,
        .num 26627,
        .list [
          .node 0 [
            .num 26881,
            .num 26882,
            .num 26883]],
        .list [
          .node 0 [
            .num 27137,
            .num 27138,
            .list [.num 27139]]],
        .list [
          .node 0 [
            .num 27393,
            .num 27394,
            .list [
              .num 27395,
              .num 27396]]],
        .list [.num 27649],
        .list [
          .node 0 [
            .num 27905,
            .list [.num 27906]]]],
      .node 22 [
        .num 23,
        .list [.num 28161]],
      .node 23 [
        .num 24,
        .num 28417],
      .node 24 [
        .num 25,
        .num 28673],
      .node 25 [
        .num 26,
        .list [
          .num 28929,
          .num 28930]],
      .node 26 [
        .num 27,
        .list [
          .node 0 [
            .num 29185,
            .num 29186,
            .list [
              .node 7 [
                .num 8,
                .num 29187]]]]],
      .node 27 [
        .num 28,
        .list [.num 29441]],
      .node 28 [
        .num 29,
        .list [.num 116, .num 117]]]]

end RawLayout
