import FeatherModel.Model.TinyDiff

/-!
# Specification side of C04: the action × target-state table, well-formedness, content equality, proved domains
Everything here is decidable and is evaluated by the driver (`Driver/C04.lean`) on the very inputs the harness sends, so
the domain predicates of the theorems are correspondence-checked against their Rust twins in `harness/src/bin/c04.rs`.
-/

namespace DiffModel

/-! ## the table of `apply_exact` -/

section spec
variable {K D T : Type}

/-- **The 4 × 3 table.** What applying the diff entry `d?` (absent = key not in the diff) does to the target entry `t?`
(absent = key not in the target) under key `k`, in namespace `ns` of `N`:
outer `none` = the whole application is refused, `some none` = no entry afterwards, `some (some t)` = entry `t`.
`child` is the application of the entry's children/javadoc diff; it runs for None/Add/Edit only. -/
def applySpec (ops : Ops K D T) (ns N : Nat) (child : D → T → Option T) (k : K) :
    Option D → Option T → Option (Option T)
  | .none, t => some t
  | some d, .none =>
    match ops.action d with
    | .add b =>
      let t := ops.fromKey N k
      if ns ≠ 0 ∧ (ops.names t)[ns]? = some .none
      then (child d (ops.setNames t ((ops.names t).set ns (some b)))).map some else .none
    | _ => .none
  | some d, some t =>
    match ops.action d with
    | .none => (child d t).map some
    | .add b =>
      if ns ≠ 0 ∧ (ops.names t)[ns]? = some .none
      then (child d (ops.setNames t ((ops.names t).set ns (some b)))).map some else .none
    | .remove a =>
      if ns ≠ 0 ∧ (ops.names t)[ns]? = some (some a) then some .none else .none
    | .edit a b =>
      if ns ≠ 0 ∧ (ops.names t)[ns]? = some (some a)
      then (child d (ops.setNames t ((ops.names t).set ns (some b)))).map some else .none

/-- the table evaluated at every key of diff, target and result (used by `oracle-apply-exact`) -/
def exactAt [BEq K] [BEq T] (ops : Ops K D T) (ns N : Nat) (child : D → T → Option T)
    (diffs : AList K D) (targets results : AList K T) : Bool :=
  (diffs.keys ++ targets.keys ++ results.keys).all fun k =>
    applySpec ops ns N child k (AList.lookup k diffs) (AList.lookup k targets) == some (AList.lookup k results)

/-- some key of the table refuses -/
def refusedAt [BEq K] (ops : Ops K D T) (ns N : Nat) (child : D → T → Option T)
    (diffs : AList K D) (targets : AList K T) : Bool :=
  (diffs.keys ++ targets.keys).any fun k =>
    (applySpec ops ns N child k (AList.lookup k diffs) (AList.lookup k targets)).isNone

end spec

/-! ## well-formedness (what `IndexMap` and `ToKey` guarantee for trees built through the public API) -/

def NoDup {K V : Type} (m : AList K V) : Prop := m.keys.Nodup

instance {K V : Type} [DecidableEq K] (m : AList K V) : Decidable (NoDup m) := by unfold NoDup; infer_instance

def Param.WF (N : Nat) (k : Nat) (p : Param) : Prop := p.index = k ∧ p.names.length = N

def Field.WF (N : Nat) (k : MemberKey) (f : Field) : Prop :=
  f.desc = k.2 ∧ f.names.length = N ∧ f.names[0]? = some (some k.1)

def Method.WF (N : Nat) (k : MemberKey) (m : Method) : Prop :=
  m.desc = k.2 ∧ m.names.length = N ∧ m.names[0]? = some (some k.1) ∧
    NoDup m.params ∧ ∀ e ∈ m.params, Param.WF N e.1 e.2

def Class.WF (N : Nat) (k : JStr) (c : Class) : Prop :=
  c.names.length = N ∧ c.names[0]? = some (some k) ∧
    NoDup c.fields ∧ (∀ e ∈ c.fields, Field.WF N e.1 e.2) ∧
    NoDup c.methods ∧ (∀ e ∈ c.methods, Method.WF N e.1 e.2)

/-- keys unique at every level, every entry stored under the key its first-namespace name (+ descriptor / index) gives,
every name row as long as the namespace list -/
def WF (m : Mappings) : Prop :=
  NoDup m.classes ∧ ∀ e ∈ m.classes, Class.WF m.ns.length e.1 e.2

instance (N k p) : Decidable (Param.WF N k p) := by unfold Param.WF; infer_instance
instance (N k f) : Decidable (Field.WF N k f) := by unfold Field.WF; infer_instance
instance (N k m) : Decidable (Method.WF N k m) := by unfold Method.WF; infer_instance
instance (N k c) : Decidable (Class.WF N k c) := by unfold Class.WF; infer_instance
instance (m) : Decidable (WF m) := by unfold WF; infer_instance

/-- key uniqueness of a diff tree at every level (`IndexMap`) -/
def Diff.WF (d : Diff) : Prop :=
  NoDup d.classes ∧ ∀ c ∈ d.classes, NoDup c.2.fields ∧ NoDup c.2.methods ∧ ∀ m ∈ c.2.methods, NoDup m.2.params

instance (d) : Decidable (Diff.WF d) := by unfold Diff.WF; infer_instance

/-- key uniqueness of a mapping tree at every level (`IndexMap`); implied by `WF` -/
def KeysUnique (m : Mappings) : Prop :=
  NoDup m.classes ∧ ∀ c ∈ m.classes, NoDup c.2.fields ∧ NoDup c.2.methods ∧ ∀ me ∈ c.2.methods, NoDup me.2.params

instance (m) : Decidable (KeysUnique m) := by unfold KeysUnique; infer_instance

/-! ## the domain of `diff`: every entry has a name in the second namespace -/

def named (names : Names) : Bool := (nameAt names 1).isSome
def namedParam (p : Param) : Bool := named p.names
def namedField (f : Field) : Bool := named f.names
def namedMethod (m : Method) : Bool := named m.names && m.params.all fun e => namedParam e.2
def namedClass (c : Class) : Bool :=
  named c.names && (c.fields.all fun e => namedField e.2) && c.methods.all fun e => namedMethod e.2
/-- every class, field, method and parameter has a name in namespace 1 -/
def allNamed (m : Mappings) : Bool := m.classes.all fun e => namedClass e.2

/-! ## the proved domain of `diff_apply` -/

def methodParams (m : Mappings) (c : JStr) (k : MemberKey) : AList Nat Param :=
  match AList.lookup c m.classes with
  | none => []
  | some cl =>
    match AList.lookup k cl.methods with
    | none => []
    | some me => me.params

/-- **ParamSrcless**: a parameter of `b` has the first-namespace name of the parameter of `a` under the same key, and none
at all when `a` has no such parameter (the diff carries only the target column, `from_key` creates parameters with all
names absent) -/
def ParamSrcless (a b : Mappings) : Prop :=
  ∀ c ∈ b.classes, ∀ m ∈ c.2.methods, ∀ p ∈ m.2.params,
    p.2.names[0]? = some (match AList.lookup p.1 (methodParams a c.1 m.1) with
      | some pa => nameAt pa.names 0
      | none => none)

instance (a b) : Decidable (ParamSrcless a b) := by unfold ParamSrcless; infer_instance

/-! ## content equality (same entry under every key, recursively; order of entries ignored) -/

def eqvMap {K V : Type} [BEq K] (r : V → V → Bool) (a b : AList K V) : Bool :=
  (a.keys ++ b.keys).all fun k =>
    match AList.lookup k a, AList.lookup k b with
    | some x, some y => r x y
    | none, none => true
    | _, _ => false

def eqvParam (a b : Param) : Bool := a == b
def eqvField (a b : Field) : Bool := a == b
def eqvMethod (a b : Method) : Bool :=
  a.desc == b.desc && a.names == b.names && a.doc == b.doc && eqvMap eqvParam a.params b.params
def eqvClass (a b : Class) : Bool :=
  a.names == b.names && a.doc == b.doc && eqvMap eqvField a.fields b.fields && eqvMap eqvMethod a.methods b.methods
def eqvMappings (a b : Mappings) : Bool :=
  a.ns == b.ns && a.doc == b.doc && eqvMap eqvClass a.classes b.classes

/-! ## the textual domain -/

/-- `Edit(a, a)` has no textual form: the reader turns two equal cells into `None` -/
def normAction : Action JStr → Action JStr
  | .edit a b => if a = b then .none else .edit a b
  | a => a

def normParam (p : PDiff) : PDiff := { info := normAction p.info, doc := normAction p.doc }
def normField (f : FDiff) : FDiff := { info := normAction f.info, doc := normAction f.doc }
def normMethod (m : MDiff) : MDiff :=
  { info := normAction m.info, doc := normAction m.doc, params := m.params.map fun e => (e.1, normParam e.2) }
def normClass (c : CDiff) : CDiff :=
  { info := normAction c.info, doc := normAction c.doc,
    fields := c.fields.map fun e => (e.1, normField e.2), methods := c.methods.map fun e => (e.1, normMethod e.2) }
/-- what `read (writeSpec d)` gives back -/
def normDiff (d : Diff) : Diff :=
  { info := .none, doc := .none, classes := d.classes.map fun e => (e.1, normClass e.2) }

def actionAll (p : JStr → Bool) : Action JStr → Bool
  | .none => true
  | .add b => p b
  | .remove a => p a
  | .edit a b => p a && p b

/-- a Unicode scalar value (the text travels as UTF-8 through a file; `BufRead::lines` rejects anything else) -/
def scalar (c : Nat) : Bool := c < 55296 || (57343 < c && c < 1114112)

/-- a cell that survives a line of text: no TAB, LF, CR; scalar values only -/
def plainCell (s : JStr) : Bool := s.all fun c => !(c == 9 || c == 10 || c == 13) && scalar c

/-- a comment that survives: not empty (an empty cell means "absent"); scalar values only. TAB, LF, CR and backslash are
escaped by the writer and decoded by the reader -/
def plainDoc (s : JStr) : Bool := s != [] && s.all scalar

def nameCell (valid : JStr → Bool) (s : JStr) : Bool := valid s && plainCell s

def writableParam (e : Nat × PDiff) : Bool :=
  e.1 < 18446744073709551616 && actionAll (nameCell TinyDiff.validUnqualified) e.2.info && actionAll plainDoc e.2.doc
def writableField (e : MemberKey × FDiff) : Bool :=
  nameCell TinyDiff.validUnqualified e.1.1 && plainCell e.1.2 &&
    actionAll (nameCell TinyDiff.validUnqualified) e.2.info && actionAll plainDoc e.2.doc
def writableMethod (e : MemberKey × MDiff) : Bool :=
  nameCell TinyDiff.validMethodName e.1.1 && plainCell e.1.2 &&
    actionAll (nameCell TinyDiff.validMethodName) e.2.info && actionAll plainDoc e.2.doc && e.2.params.all writableParam
def writableClass (e : JStr × CDiff) : Bool :=
  nameCell TinyDiff.validObjClass e.1 && actionAll (nameCell TinyDiff.validObjClass) e.2.info &&
    actionAll plainDoc e.2.doc && e.2.fields.all writableField && e.2.methods.all writableMethod

/-- **Writable**: the diffs whose specification text the reader reads back (as `normDiff d`): unique keys, valid names
without TAB/LF/CR, non-empty comments, no surrogate code points
(the text is UTF-8), parameter indices below 2^64, no action on the namespace name, no change of the top-level comment (`None` or `Edit(a, a)`): the
format has no syntax for either (`TinyDiff.read` always returns `info = doc = None`) -/
def Writable (d : Diff) : Prop :=
  d.info = .none ∧ normAction d.doc = .none ∧ Diff.WF d ∧ d.classes.all writableClass = true

instance (d) : Decidable (Writable d) := by unfold Writable; infer_instance

end DiffModel
