import FeatherModel.Model.VisitFull

/-!
# C17 — the tree-building visitor (`duke/src/visitor/implementations/tree.rs`) and replay (`duke/src/tree/*.rs accept`)

`build` files a sequence of visitor events into a class tree the way `ClassFile` / `Field` / `Method` / `Code` /
`RecordComponent` do as visitors: `insert_if_empty` slots fail when filled twice, annotation vectors are extended, unknown
attributes are pushed, members are pushed when they finish. `accept cfg t` replays a tree into a visitor described by `cfg`
the way `ClassFile::accept`, `Field::accept`, `Method::accept`, `Code::accept`, `RecordComponent::accept` do:
Deprecated/Synthetic first, then the known attributes in a fixed order (only those the interests ask for, annotation
vectors only when non-empty), record components, unknown attributes, fields, methods.

(`ClassInterests.fields` / `.methods` are honoured by `accept` and — since 52da0aa — by the reader alike.)
Differences from reading that are mirrored as they are in the code:
* `Code::accept` keeps one vector of local variable entries and cannot tell which table an empty vector came from: a
  code visitor interested in one of the two tables is handed `visit_local_variables(vec![])` whenever the vector is
  empty, the reader calls it only when a table the visitor asked for is present (otherwise — e55a129 — the entries and
  halves of entries of the tables asked for, like the reader; stack map frames are stripped for a visitor without
  `stack_map_table` interest by both, 47a6ce7);
* inside `Code`, type annotations and unknown attributes come after the instructions (the reader delivers them before).
-/

namespace Visit

def isMulti : K → Bool
  | .rva | .ria | .rvta | .rita => true
  | _ => false

/-- attribute slots of one tree object -/
structure Slots where
  /-- `Option<_>` fields filled through `insert_if_empty` -/
  single : K → Option Pay := fun _ => none
  /-- annotation vectors (`extend`) -/
  multi : K → Pay := fun _ => []
  /-- `attributes: Vec<Attribute>` -/
  attrs : List (K × Pay) := []

def upd {α : Type} (f : K → α) (k : K) (v : α) : K → α := fun k' => if k' = k then v else f k'

/-- one attribute event arriving at a tree object whose visitor trait offers the kinds `ord` (there is no method to
deliver any other known kind to it): unknown attributes are pushed, annotation vectors extended, the rest goes through
`insert_if_empty` -/
def Slots.add (ord : List K) (s : Slots) (unk : Bool) (k : K) (pay : Pay) : Option Slots :=
  if unk then some { s with attrs := s.attrs ++ [(k, pay)] }
  else if !ord.contains k then none
  else if isMulti k then some { s with multi := upd s.multi k (s.multi k ++ pay) }
  else if (s.single k).isSome then none
  else some { s with single := upd s.single k (some pay) }

structure CodeTree where
  maxs : Option Nat := none
  insns : List (Option Pay × Nat) := []
  exc : Nat := 0
  lines : Option (List Pay) := none
  locals : Option (List LvPart) := none
  slots : Slots := {}

structure MethodTree where
  h : Nat
  dep : Bool := false
  syn : Bool := false
  slots : Slots := {}
  code : Option CodeTree := none

structure FieldTree where
  h : Nat
  dep : Bool := false
  syn : Bool := false
  slots : Slots := {}

structure RecTree where
  h : Nat
  slots : Slots := {}

structure ClassTree where
  h : Nat
  dep : Bool := false
  syn : Bool := false
  slots : Slots := {}
  recs : List RecTree := []
  fields : List FieldTree := []
  methods : List MethodTree := []

/-! ## the kinds each visitor trait offers, in the order `accept` replays them -/

def classOrder : List K :=
  [.innerClasses, .enclosingMethod, .signature, .sourceFile, .sourceDebugExtension, .rva, .ria, .rvta, .rita,
   .module, .modulePackages, .moduleMainClass, .nestHost, .nestMembers, .permittedSubclasses]
def fieldOrder : List K := [.constantValue, .signature, .rva, .ria, .rvta, .rita]
def methodOrder : List K :=
  [.exceptions, .signature, .rva, .ria, .rvta, .rita, .annotationDefault, .methodParameters]
def recOrder : List K := [.signature, .rva, .ria, .rvta, .rita]
def codeOrder : List K := [.rvta, .rita]

/-! ## the tree builder as a visitor -/

structure BSt where
  cls : Option ClassTree := none
  rc : Option RecTree := none
  fld : Option FieldTree := none
  mth : Option MethodTree := none
  code : Option CodeTree := none
  done : Bool := false

def step (st : BSt) (e : Ev) : Option BSt :=
  match e with
  | .classBegin h => if st.cls.isSome then none else some { st with cls := some { h := h } }
  | .cAttr unk k pay => do
    let c ← st.cls
    let s ← c.slots.add classOrder unk k pay
    pure { st with cls := some { c with slots := s } }
  | .recBegin _ h => some { st with rc := some { h := h } }
  | .rAttr _ unk k pay => do
    let r ← st.rc
    let s ← r.slots.add recOrder unk k pay
    pure { st with rc := some { r with slots := s } }
  | .recEnd _ => do
    let c ← st.cls
    let r ← st.rc
    pure { st with cls := some { c with recs := c.recs ++ [r] }, rc := none }
  | .classFlags d s => do
    let c ← st.cls
    pure { st with cls := some { c with dep := d, syn := s } }
  | .fieldBegin _ h => some { st with fld := some { h := h } }
  | .fAttr _ unk k pay => do
    let f ← st.fld
    let s ← f.slots.add fieldOrder unk k pay
    pure { st with fld := some { f with slots := s } }
  | .fieldFlags _ d s => do
    let f ← st.fld
    pure { st with fld := some { f with dep := d, syn := s } }
  | .fieldEnd _ => do
    let c ← st.cls
    let f ← st.fld
    pure { st with cls := some { c with fields := c.fields ++ [f] }, fld := none }
  | .methodBegin _ h => some { st with mth := some { h := h } }
  | .mAttr _ unk k pay => do
    let m ← st.mth
    let s ← m.slots.add methodOrder unk k pay
    pure { st with mth := some { m with slots := s } }
  | .methodFlags _ d s => do
    let m ← st.mth
    pure { st with mth := some { m with dep := d, syn := s } }
  | .methodEnd _ => do
    let c ← st.cls
    let m ← st.mth
    pure { st with cls := some { c with methods := c.methods ++ [m] }, mth := none }
  | .codeBegin _ => some { st with code := some {} }
  | .codeMaxs _ h => do
    let k ← st.code
    pure { st with code := some { k with maxs := some h } }
  | .kAttr _ unk k pay => do
    let c ← st.code
    let s ← c.slots.add codeOrder unk k pay
    pure { st with code := some { c with slots := s } }
  | .codeInsns _ fr h => do
    let k ← st.code
    pure { st with code := some { k with insns := k.insns ++ [(fr, h)] } }
  | .codeExc _ h => do
    let k ← st.code
    pure { st with code := some { k with exc := h } }
  | .codeLines _ parts => do
    let k ← st.code
    if k.lines.isSome then none else pure { st with code := some { k with lines := some parts } }
  | .codeLocals _ parts => do
    let k ← st.code
    if k.locals.isSome then none else pure { st with code := some { k with locals := some parts } }
  | .codeEnd _ => do
    let m ← st.mth
    let k ← st.code
    if m.code.isSome then none else pure { st with mth := some { m with code := some k }, code := none }
  | .classEnd => some { st with done := true }

def run (st : BSt) (evs : List Ev) : Option BSt := evs.foldlM step st

/-- the class the tree-building visitor ends up with -/
def build (evs : List Ev) : Option ClassTree := do
  let st ← run {} evs
  if st.done then st.cls else none

/-! ## replay -/

/-- an attribute event without its owner: unknown?, kind, payload -/
abbrev Item := Bool × K × Pay

def kindItem (m : Mask) (s : Slots) (k : K) : Option Item :=
  if m k then
    if isMulti k then (if (s.multi k).isEmpty then none else some (false, k, s.multi k))
    else (s.single k).map (fun p => (false, k, p))
  else none

/-- `if interests.x { if let Some(x) = self.x { visit_x(x) } }` (annotation vectors: `&& !is_empty()`), in `order` -/
def kindItems (m : Mask) (order : List K) (s : Slots) : List Item := order.filterMap (kindItem m s)

/-- `if interests.unknown_attributes { for attribute in self.attributes { .. } }` -/
def unkItems (m : Mask) (s : Slots) : List Item :=
  if m .other then s.attrs.map (fun kp => (true, kp.1, kp.2)) else []

def toEv (mk : Bool → K → Pay → Ev) (it : Item) : Ev := mk it.1 it.2.1 it.2.2

def emitKinds (m : Mask) (order : List K) (mk : Bool → K → Pay → Ev) (s : Slots) : List Ev :=
  (kindItems m order s).map (toEv mk)

def emitUnknown (m : Mask) (mk : Bool → K → Pay → Ev) (s : Slots) : List Ev :=
  (unkItems m s).map (toEv mk)

def acceptRec (cfg : Cfg) (r : Nat) (t : RecTree) : List Ev :=
  match cfg.recc r with
  | none => [Ev.recBegin r t.h]
  | some m => Ev.recBegin r t.h :: emitKinds m recOrder (Ev.rAttr r) t.slots ++ emitUnknown m (Ev.rAttr r) t.slots
      ++ [Ev.recEnd r]

def acceptRecs (cfg : Cfg) : Nat → List RecTree → List Ev
  | _, [] => []
  | r, t :: ts => acceptRec cfg r t ++ acceptRecs cfg (r + 1) ts

def acceptField (cfg : Cfg) (i : Nat) (t : FieldTree) : List Ev :=
  match cfg.field i with
  | none => [Ev.fieldBegin i t.h]
  | some m => Ev.fieldBegin i t.h :: Ev.fieldFlags i t.dep t.syn ::
      emitKinds m fieldOrder (Ev.fAttr i) t.slots ++ emitUnknown m (Ev.fAttr i) t.slots ++ [Ev.fieldEnd i]

def acceptFields (cfg : Cfg) : Nat → List FieldTree → List Ev
  | _, [] => []
  | i, t :: ts => acceptField cfg i t ++ acceptFields cfg (i + 1) ts

/-- `Code::accept` on `Some(local_variables)` (e55a129): every entry keeps the halves of the tables the visitor is
interested in, entries left with neither are dropped; the visitor is called if something is left or the vector was
empty to begin with -/
def acceptLocals (i : Nat) (cm : Mask) (p : List LvPart) : List Ev :=
  if lvNone p || !lvNone (lvProj cm p) then [Ev.codeLocals i (lvProj cm p)] else []

def acceptCode (i : Nat) (mc : MethodCfg) (t : CodeTree) : List Ev :=
  if mc.code then
    match mc.codeV with
    | none => [Ev.codeBegin i]
    | some cm =>
      Ev.codeBegin i :: (match t.maxs with | some h => [Ev.codeMaxs i h] | none => [])
        ++ t.insns.map (fun x => Ev.codeInsns i (if cm .stackMapTable then x.1 else none) x.2) ++ [Ev.codeExc i t.exc]
        ++ (if cm .lineNumberTable then (match t.lines with | some p => [Ev.codeLines i p] | none => []) else [])
        ++ (if cm .lvt || cm .lvtt then (match t.locals with | some p => acceptLocals i cm p | none => []) else [])
        ++ emitKinds cm codeOrder (Ev.kAttr i) t.slots ++ emitUnknown cm (Ev.kAttr i) t.slots ++ [Ev.codeEnd i]
  else []

def acceptMethod (cfg : Cfg) (i : Nat) (t : MethodTree) : List Ev :=
  match cfg.method i with
  | none => [Ev.methodBegin i t.h]
  | some mc => Ev.methodBegin i t.h :: Ev.methodFlags i t.dep t.syn ::
      (match t.code with | some k => acceptCode i mc k | none => [])
      ++ emitKinds mc.mask methodOrder (Ev.mAttr i) t.slots ++ emitUnknown mc.mask (Ev.mAttr i) t.slots
      ++ [Ev.methodEnd i]

def acceptMethods (cfg : Cfg) : Nat → List MethodTree → List Ev
  | _, [] => []
  | i, t :: ts => acceptMethod cfg i t ++ acceptMethods cfg (i + 1) ts

/-- `ClassFile::accept` -/
def accept (cfg : Cfg) (t : ClassTree) : List Ev :=
  match cfg.cls with
  | none => [Ev.classBegin t.h]
  | some m => Ev.classBegin t.h :: Ev.classFlags t.dep t.syn ::
      emitKinds m classOrder Ev.cAttr t.slots
      ++ (if m .record then acceptRecs cfg 0 t.recs else [])
      ++ emitUnknown m Ev.cAttr t.slots
      ++ (if cfg.fieldsI then acceptFields cfg 0 t.fields else [])
      ++ (if cfg.methodsI then acceptMethods cfg 0 t.methods else [])
      ++ [Ev.classEnd]

/-! ## the projection `accept` realises (see `Lemmas/VisitAccept.lean`: `accept cfg t = (accept full t).filterMap (projA cfg)`) -/

def fieldMaskOfA (cfg : Cfg) (i : Nat) : Option Mask :=
  match cfg.cls with
  | some _ => if cfg.fieldsI then cfg.field i else none
  | none => none

def methodCfgOfA (cfg : Cfg) (i : Nat) : Option MethodCfg :=
  match cfg.cls with
  | some _ => if cfg.methodsI then cfg.method i else none
  | none => none

def codeMaskOfA (cfg : Cfg) (i : Nat) : Option Mask :=
  match methodCfgOfA cfg i with
  | some mc => if mc.code then mc.codeV else none
  | none => none

/-- what a visitor configured by `cfg` receives of an event of the full replay -/
def projA (cfg : Cfg) (e : Ev) : Option Ev :=
  match e with
  | .classBegin _ => some e
  | .cAttr unk k _ => match cfg.cls with | some m => keepIf (m (evBit unk k)) e | none => none
  | .recBegin _ _ => match cfg.cls with | some m => keepIf (m .record) e | none => none
  | .rAttr r unk k _ => match recMaskOf cfg r with | some rm => keepIf (rm (evBit unk k)) e | none => none
  | .recEnd r => keepIf (recMaskOf cfg r).isSome e
  | .classFlags _ _ | .classEnd => keepIf cfg.cls.isSome e
  | .fieldBegin _ _ => keepIf (cfg.cls.isSome && cfg.fieldsI) e
  | .fAttr i unk k _ => match fieldMaskOfA cfg i with | some fm => keepIf (fm (evBit unk k)) e | none => none
  | .fieldFlags i _ _ | .fieldEnd i => keepIf (fieldMaskOfA cfg i).isSome e
  | .methodBegin _ _ => keepIf (cfg.cls.isSome && cfg.methodsI) e
  | .mAttr i unk k _ => match methodCfgOfA cfg i with | some mc => keepIf (mc.mask (evBit unk k)) e | none => none
  | .methodFlags i _ _ | .methodEnd i => keepIf (methodCfgOfA cfg i).isSome e
  | .codeBegin i => match methodCfgOfA cfg i with | some mc => keepIf mc.code e | none => none
  | .codeMaxs i _ | .codeExc i _ | .codeEnd i => keepIf (codeMaskOfA cfg i).isSome e
  | .codeInsns i fr h =>
    match codeMaskOfA cfg i with
    | some cm => some (.codeInsns i (if cm .stackMapTable then fr else none) h)
    | none => none
  | .kAttr i unk k _ => match codeMaskOfA cfg i with | some cm => keepIf (cm (evBit unk k)) e | none => none
  | .codeLines i _ => match codeMaskOfA cfg i with | some cm => keepIf (cm .lineNumberTable) e | none => none
  | .codeLocals i parts =>
    match codeMaskOfA cfg i with
    | some cm =>
      if (cm .lvt || cm .lvtt) && (lvNone parts || !lvNone (lvProj cm parts)) then some (.codeLocals i (lvProj cm parts))
      else none
    | none => none


/-! ## local variable vectors without entries; trees that hold entries with both halves -/

/-- a local variable event without entries (`visit_local_variables(vec![])`) -/
def Ev.vacuous : Ev → Bool
  | .codeLocals _ parts => lvNone parts
  | _ => false

/-- every local variable event has entries, part by part: what the replay of a tree read from a class whose local
variable tables all have entries looks like. A vector without entries (`Some(vec![])`) does not say which of the two
tables was present and empty, so `Code::accept` hands it to every visitor interested in one of them. -/
def localsHaveEntries (evs : List Ev) : Bool :=
  evs.all (fun e => match e with
    | .codeLocals _ parts => !parts.isEmpty && parts.all (fun x => x.2.sum != 0)
    | _ => true)

/-- the tree with a `descriptor` and a `signature` in every local variable entry (what merging the two tables by hand
gives; the reader never builds such a tree) -/
def ClassTree.bothHalves (t : ClassTree) : ClassTree :=
  { t with methods := t.methods.map (fun m =>
      { m with code := m.code.map (fun k => { k with locals := k.locals.map (fun p => p.map (fun x => (LvK.both, x.2))) }) }) }

/-! ## per item and kind, what an event sequence says (the digest a tree keeps of it) -/

/-- key of an event: owner level, owner index, what -/
def Ev.key : Ev → Nat × Nat × Nat × Nat
  | .classBegin _ => (0, 0, 0, 0)
  | .cAttr u k _ => (0, 0, 1 + u.toNat, k.ctorIdx)
  | .classFlags _ _ => (0, 0, 3, 0)
  | .classEnd => (0, 0, 4, 0)
  | .recBegin r _ => (1, r, 0, 0)
  | .rAttr r u k _ => (1, r, 1 + u.toNat, k.ctorIdx)
  | .recEnd r => (1, r, 4, 0)
  | .fieldBegin i _ => (2, i, 0, 0)
  | .fAttr i u k _ => (2, i, 1 + u.toNat, k.ctorIdx)
  | .fieldFlags i _ _ => (2, i, 3, 0)
  | .fieldEnd i => (2, i, 4, 0)
  | .methodBegin i _ => (3, i, 0, 0)
  | .mAttr i u k _ => (3, i, 1 + u.toNat, k.ctorIdx)
  | .methodFlags i _ _ => (3, i, 3, 0)
  | .methodEnd i => (3, i, 4, 0)
  | .codeBegin i => (4, i, 0, 0)
  | .kAttr i u k _ => (4, i, 1 + u.toNat, k.ctorIdx)
  | .codeEnd i => (4, i, 4, 0)
  | .codeMaxs i _ => (4, i, 5, 0)
  | .codeInsns i _ _ => (4, i, 6, 0)
  | .codeExc i _ => (4, i, 7, 0)
  | .codeLines i _ => (4, i, 8, 0)
  | .codeLocals i _ => (4, i, 9, 0)

/-- the content of an event as a list of items -/
def Ev.items : Ev → List (List Nat)
  | .classBegin h | .recBegin _ h | .fieldBegin _ h | .methodBegin _ h | .codeMaxs _ h | .codeExc _ h => [[h]]
  | .cAttr _ _ p | .rAttr _ _ _ p | .fAttr _ _ _ p | .mAttr _ _ _ p | .kAttr _ _ _ p => p.map (fun x => [x])
  | .classFlags d s | .fieldFlags _ d s | .methodFlags _ d s => [[d.toNat, s.toNat]]
  | .classEnd | .recEnd _ | .fieldEnd _ | .methodEnd _ | .codeBegin _ | .codeEnd _ => [[]]
  | .codeInsns _ fr h => [h :: (fr.getD [])]
  | .codeLines _ parts => parts
  | .codeLocals _ parts => (parts.filter (fun x => x.2.sum != 0)).map (fun x => x.1.ctorIdx :: x.2)

def digestAdd (d : List ((Nat × Nat × Nat × Nat) × List (List Nat))) (e : Ev) :
    List ((Nat × Nat × Nat × Nat) × List (List Nat)) :=
  match d with
  | [] => [(e.key, e.items)]
  | (k, v) :: rest => if k = e.key then (k, v ++ e.items) :: rest else (k, v) :: digestAdd rest e

/-- per key the concatenated items, keys with nothing dropped -/
def digest (evs : List Ev) : List ((Nat × Nat × Nat × Nat) × List (List Nat)) :=
  (evs.foldl digestAdd []).filter (fun kv => !kv.2.isEmpty)

/-- same digest up to the order in which the keys were first seen -/
def sameDigest (a b : List Ev) : Bool :=
  let da := digest a
  let db := digest b
  da.length == db.length && da.all (fun kv => db.contains kv)

end Visit
