import FeatherModel.Model.ClassReadBase
import FeatherModel.Model.Mutf8

/-!
# C01 — `duke/src/class_reader/pool.rs`

Raw constant-pool entries (`PoolEntry`), `PoolRead::read` (slot 0 and the slot after a `Long`/`Double` are `None`),
lazy resolution `PoolEntry::as_*` / `PoolRead::get_*` including the `BootstrapMethods` indirection of `Dynamic` /
`InvokeDynamic`, and the name checks done by the `try_from` conversions (`tree/mod.rs` `names`).

Descriptors and signatures are *not* validated by the reader (`check_valid` is `Ok(())` for them), names are
(a class name starting with `[` must be an array field descriptor).
`get_loadable` recurses through bootstrap arguments with a depth counter (`get_loadable_at_depth`,
`MAX_BOOTSTRAP_ARGUMENT_DEPTH = 16`): nesting level `d` is entered with fuel `17 - d`; at level 17 the reader bails
(`err`), so a `Dynamic` constant reachable from its own bootstrap arguments is an error.
-/

namespace ClassRead

open Outcome

inductive PoolEntry where
  | utf8 (s : JStr)
  | int (v : Int)
  | float (bits : Nat)
  | long (v : Int)
  | double (bits : Nat)
  | cls (name : Nat)
  | str (idx : Nat)
  | fieldRef (cls nt : Nat)
  | methodRef (cls nt : Nat)
  | ifaceMethodRef (cls nt : Nat)
  | nameAndType (name desc : Nat)
  | methodHandle (kind idx : Nat)
  | methodType (desc : Nat)
  | dynamic (bsm nt : Nat)
  | invokeDynamic (bsm nt : Nat)
  | module (name : Nat)
  | package (name : Nat)
  deriving DecidableEq, Repr, Inhabited

/-- `PoolRead.inner` -/
abbrev Pool := List (Option PoolEntry)

/-- one `cp_info`; the second component is the number of slots it occupies -/
def readPoolEntry : Rd (PoolEntry × Nat) := fun s => do
  let (tag, s) ← u8 s
  match tag with
  | 1 => do
    let (len, s) ← u16 s
    let (b, s) ← takeN len s
    let str ← ofOption (Mutf8.decode b)
    pure ((.utf8 str, 1), s)
  | 3 => do let (v, s) ← i32 s; pure ((.int v, 1), s)
  | 4 => do let (v, s) ← u32 s; pure ((.float v, 1), s)
  | 5 => do let (v, s) ← i64 s; pure ((.long v, 2), s)
  | 6 => do let (v, s) ← u64 s; pure ((.double v, 2), s)
  | 7 => do let (i, s) ← u16 s; pure ((.cls i, 1), s)
  | 8 => do let (i, s) ← u16 s; pure ((.str i, 1), s)
  | 9 => do let (c, s) ← u16 s; let (n, s) ← u16 s; pure ((.fieldRef c n, 1), s)
  | 10 => do let (c, s) ← u16 s; let (n, s) ← u16 s; pure ((.methodRef c n, 1), s)
  | 11 => do let (c, s) ← u16 s; let (n, s) ← u16 s; pure ((.ifaceMethodRef c n, 1), s)
  | 12 => do let (c, s) ← u16 s; let (n, s) ← u16 s; pure ((.nameAndType c n, 1), s)
  | 15 => do let (k, s) ← u8 s; let (i, s) ← u16 s; pure ((.methodHandle k i, 1), s)
  | 16 => do let (i, s) ← u16 s; pure ((.methodType i, 1), s)
  | 17 => do let (b, s) ← u16 s; let (n, s) ← u16 s; pure ((.dynamic b n, 1), s)
  | 18 => do let (b, s) ← u16 s; let (n, s) ← u16 s; pure ((.invokeDynamic b n, 1), s)
  | 19 => do let (i, s) ← u16 s; pure ((.module i, 1), s)
  | 20 => do let (i, s) ← u16 s; pure ((.package i, 1), s)
  | _ => err

/-- `while pool.len() < constant_pool_count`; `racc` is the pool so far in reverse, `len` its length.
`fuel` bounds the number of iterations (`count` is always enough: every iteration adds a slot). -/
def readPoolLoop : Nat → Nat → List (Option PoolEntry) → Nat → Rd Pool
  | 0, _, racc, _, s => ok (racc.reverse, s)
  | fuel + 1, count, racc, len, s =>
    if len < count then do
      let ((e, slots), s) ← readPoolEntry s
      if slots = 2 then readPoolLoop fuel count (none :: some e :: racc) (len + 2) s
      else readPoolLoop fuel count (some e :: racc) (len + 1) s
    else ok (racc.reverse, s)

/-- `PoolRead::read` -/
def readPool : Rd Pool := fun s => do
  let (count, s) ← u16 s
  readPoolLoop count count [none] 1 s

/-! ## names (`duke/src/tree/mod.rs`, `mod names`) -/

/-- none of `.` `;` `[` `/` -/
def unqChar (c : Nat) : Bool := c != 46 && c != 59 && c != 91 && c != 47

def validUnqualified (s : JStr) : Bool := !s.isEmpty && s.all unqChar

/-- `x.split('/').all(is_valid_unqualified_name)`: every `/`-separated segment (there is always at least one) is
non-empty and free of `.` `;` `[`.  `cur` = "the current segment is non-empty so far". -/
def segmentsOk : JStr → Bool → Bool
  | [], cur => cur
  | c :: r, cur =>
    if c = 47 then cur && segmentsOk r false
    else c != 46 && c != 59 && c != 91 && segmentsOk r true

def validObjClassName (s : JStr) : Bool := s.head? != some 91 && segmentsOk s false

/-- `is_valid_arr_class_name`: the string parses as an array field descriptor (`FieldDescriptorSlice::parse`):
1 to 255 `[`, then a base type letter, or `L`, an object class name, `;` — and nothing after it -/
def validArrayDesc (s : JStr) : Bool :=
  let dims := (s.takeWhile (· == 91)).length
  dims ≤ 255 &&
    match s.dropWhile (· == 91) with
    | [] => false
    | c :: r =>
      if c == 66 || c == 67 || c == 68 || c == 70 || c == 73 || c == 74 || c == 83 || c == 90 then r.isEmpty
      else if c == 76 then
        match r.dropWhile (· != 59) with
        | [] => false
        | _ :: after => after.isEmpty && validObjClassName (r.takeWhile (· != 59))
      else false

def validClassName (s : JStr) : Bool := if s.head? == some 91 then validArrayDesc s else segmentsOk s false

def INIT : JStr := [60, 105, 110, 105, 116, 62]
def CLINIT : JStr := [60, 99, 108, 105, 110, 105, 116, 62]

def validMethodName (s : JStr) : Bool :=
  s == INIT || s == CLINIT || (!s.isEmpty && s.all (fun c => unqChar c && c != 60 && c != 62))

/-- the `try_from` conversions: the string itself when valid -/
def checked (valid : JStr → Bool) (s : JStr) : Outcome JStr := if valid s then ok s else err

/-! ## facts the pool resolves to -/

/-- `FieldRef` / `MethodRef` -/
structure MemberRef where
  cls : JStr
  name : JStr
  desc : JStr
  deriving DecidableEq, Repr, Inhabited

/-- `Handle`: `kind` is the `reference_kind` (1..9); `itf` is the bool of `InvokeStatic`/`InvokeSpecial` (kinds 6, 7),
`false` for the other kinds -/
structure Handle where
  kind : Nat
  ref : MemberRef
  itf : Bool
  deriving DecidableEq, Repr, Inhabited

inductive Loadable where
  | int (v : Int)
  | float (bits : Nat)
  | long (v : Int)
  | double (bits : Nat)
  | cls (name : JStr)
  | str (s : JStr)
  | handle (h : Handle)
  | mtype (desc : JStr)
  | dyn (name desc : JStr) (h : Handle) (args : List Loadable)
  deriving Repr, Inhabited

structure InvokeDynamic where
  name : JStr
  desc : JStr
  handle : Handle
  args : List Loadable
  deriving Repr, Inhabited

inductive ConstantValue where
  | int (v : Int)
  | float (bits : Nat)
  | long (v : Int)
  | double (bits : Nat)
  | str (s : JStr)
  deriving DecidableEq, Repr, Inhabited

/-- `BootstrapMethodRead` -/
structure Bsm where
  handle : Handle
  args : List Nat
  deriving Repr, Inhabited

/-! ## resolution -/

namespace Pool

/-- `PoolRead::get` -/
def get (p : Pool) (i : Nat) : Outcome PoolEntry :=
  match p[i]? with
  | some (some e) => ok e
  | _ => err

def getUtf8 (p : Pool) (i : Nat) : Outcome JStr := do
  match ← p.get i with
  | .utf8 s => ok s
  | _ => err

/-- `get_optional` -/
def getOptional {α : Type} (p : Pool) (i : Nat) (f : Pool → Nat → Outcome α) : Outcome (Option α) :=
  if i = 0 then ok none else do let a ← f p i; pure (some a)

def getClass (p : Pool) (i : Nat) : Outcome JStr := do
  match ← p.get i with
  | .cls n => do let s ← p.getUtf8 n; checked validClassName s
  | _ => err

def getObjClass (p : Pool) (i : Nat) : Outcome JStr := do
  match ← p.get i with
  | .cls n => do let s ← p.getUtf8 n; checked validObjClassName s
  | _ => err

def getPackage (p : Pool) (i : Nat) : Outcome JStr := do
  match ← p.get i with
  | .package n => p.getUtf8 n
  | _ => err

def getModule (p : Pool) (i : Nat) : Outcome JStr := do
  match ← p.get i with
  | .module n => p.getUtf8 n
  | _ => err

def getString (p : Pool) (i : Nat) : Outcome JStr := do
  match ← p.get i with
  | .str n => p.getUtf8 n
  | _ => err

/-- `as_name_and_type` -/
def getNameAndType (p : Pool) (i : Nat) : Outcome (JStr × JStr) := do
  match ← p.get i with
  | .nameAndType n d => do
    let name ← p.getUtf8 n
    let desc ← p.getUtf8 d
    pure (name, desc)
  | _ => err

def getFieldNameAndType (p : Pool) (i : Nat) : Outcome (JStr × JStr) := do
  let (n, d) ← p.getNameAndType i
  let n ← checked validUnqualified n
  pure (n, d)

def getMethodNameAndType (p : Pool) (i : Nat) : Outcome (JStr × JStr) := do
  let (n, d) ← p.getNameAndType i
  let n ← checked validMethodName n
  pure (n, d)

def getFieldRef (p : Pool) (i : Nat) : Outcome MemberRef := do
  match ← p.get i with
  | .fieldRef c nt => do
    let cls ← p.getObjClass c
    let (n, d) ← p.getFieldNameAndType nt
    pure ⟨cls, n, d⟩
  | _ => err

def getMethodRef (p : Pool) (i : Nat) : Outcome MemberRef := do
  match ← p.get i with
  | .methodRef c nt => do
    let cls ← p.getClass c
    let (n, d) ← p.getMethodNameAndType nt
    pure ⟨cls, n, d⟩
  | _ => err

def getInterfaceMethodRef (p : Pool) (i : Nat) : Outcome MemberRef := do
  match ← p.get i with
  | .ifaceMethodRef c nt => do
    let cls ← p.getClass c
    let (n, d) ← p.getMethodNameAndType nt
    pure ⟨cls, n, d⟩
  | _ => err

/-- `get_method_ref_or_interface_method_ref`: the bool is `true` for `InterfaceMethodRef` -/
def getMethodRefOrInterface (p : Pool) (i : Nat) : Outcome (MemberRef × Bool) := do
  match ← p.get i with
  | .methodRef c nt => do
    let cls ← p.getClass c
    let (n, d) ← p.getMethodNameAndType nt
    pure (⟨cls, n, d⟩, false)
  | .ifaceMethodRef c nt => do
    let cls ← p.getClass c
    let (n, d) ← p.getMethodNameAndType nt
    pure (⟨cls, n, d⟩, true)
  | _ => err

def getInteger (p : Pool) (i : Nat) : Outcome Int := do
  match ← p.get i with
  | .int v => ok v
  | _ => err

def getLong (p : Pool) (i : Nat) : Outcome Int := do
  match ← p.get i with
  | .long v => ok v
  | _ => err

def getFloat (p : Pool) (i : Nat) : Outcome Nat := do
  match ← p.get i with
  | .float v => ok v
  | _ => err

def getDouble (p : Pool) (i : Nat) : Outcome Nat := do
  match ← p.get i with
  | .double v => ok v
  | _ => err

/-- `as_method_handle` -/
def getMethodHandle (p : Pool) (i : Nat) : Outcome Handle := do
  match ← p.get i with
  | .methodHandle kind idx =>
    match kind with
    | 1 | 2 | 3 | 4 => do let r ← p.getFieldRef idx; pure ⟨kind, r, false⟩
    | 5 => do let r ← p.getMethodRef idx; pure ⟨kind, r, false⟩
    | 6 | 7 => do let (r, itf) ← p.getMethodRefOrInterface idx; pure ⟨kind, r, itf⟩
    | 8 => do let r ← p.getMethodRef idx; pure ⟨kind, r, false⟩
    | 9 => do let r ← p.getInterfaceMethodRef idx; pure ⟨kind, r, false⟩
    | _ => err
  | _ => err

def getMethodType (p : Pool) (i : Nat) : Outcome JStr := do
  match ← p.get i with
  | .methodType d => p.getUtf8 d
  | _ => err

def getConstantValue (p : Pool) (i : Nat) : Outcome ConstantValue := do
  match ← p.get i with
  | .int v => ok (.int v)
  | .float v => ok (.float v)
  | .long v => ok (.long v)
  | .double v => ok (.double v)
  | .str n => do let s ← p.getUtf8 n; pure (.str s)
  | _ => err

/-- the `for &argument in &method.arguments` loop of `as_dynamic` / `as_invoke_dynamic` -/
def mapArgs (f : Nat → Outcome Loadable) : List Nat → Outcome (List Loadable)
  | [] => ok []
  | a :: r => do
    let v ← f a
    let vs ← mapArgs f r
    pure (v :: vs)

/-- `bootstrap_methods.as_ref()` then `.get(index)` -/
def bsmAt (bsms : Option (List Bsm)) (i : Nat) : Outcome Bsm :=
  match bsms with
  | none => err
  | some l => ofOption l[i]?

/-- `get_loadable_at_depth` (and `as_dynamic`); the first argument is `17 - depth`: `depth > 16` is an error -/
def getLoadableFuel (p : Pool) (bsms : Option (List Bsm)) : Nat → Nat → Outcome Loadable
  | 0, _ => err
  | fuel + 1, i => do
    match ← p.get i with
    | .int v => ok (.int v)
    | .float v => ok (.float v)
    | .long v => ok (.long v)
    | .double v => ok (.double v)
    | .cls _ => do let c ← p.getClass i; pure (.cls c)
    | .str n => do let s ← p.getUtf8 n; pure (.str s)
    | .methodHandle _ _ => do let h ← p.getMethodHandle i; pure (.handle h)
    | .methodType d => do let s ← p.getUtf8 d; pure (.mtype s)
    | .dynamic b nt => do
      let (name, desc) ← p.getFieldNameAndType nt
      let m ← bsmAt bsms b
      let args ← mapArgs (getLoadableFuel p bsms fuel) m.args
      pure (.dyn name desc m.handle args)
    | _ => err

/-- `get_loadable`: depth 0 -/
def getLoadable (p : Pool) (bsms : Option (List Bsm)) (i : Nat) : Outcome Loadable :=
  getLoadableFuel p bsms 17 i

/-- `get_invoke_dynamic` -/
def getInvokeDynamic (p : Pool) (bsms : Option (List Bsm)) (i : Nat) : Outcome InvokeDynamic := do
  match ← p.get i with
  | .invokeDynamic b nt => do
    let (name, desc) ← p.getMethodNameAndType nt
    let m ← bsmAt bsms b
    -- `get_loadable_at_depth(argument, bootstrap_methods, 1)`
    let args ← mapArgs (getLoadableFuel p bsms 16) m.args
    pure ⟨name, desc, m.handle, args⟩
  | _ => err

end Pool

end ClassRead
