/-!
# C17 — the class reader at the granularity of its dispatch logic (`duke/src/class_reader.rs`)

A class file is described by its *framing*: header (magic .. interfaces), fields and methods with their attributes,
class attributes; every attribute = kind (its name), declared `attribute_length`, the number of bytes its parser consumes
when it is parsed (`used`) and an abstract payload (what the visitor is told). `Code` and `Record` carry their nested
structure. The frame describes the bytes the way the *declared lengths* lay them out (what `skip` sees).

`readWith cfg c avail` mirrors `class_reader::read` for a visitor described by `cfg` (interest masks at the class, field,
method, code and record-component level, and which classes / fields / methods / record components / `Code`s it declines):
which attributes are parsed, which are skipped by their declared length, in which order events are delivered (class
attributes first, members afterwards through `with_pos`), what `ControlFlow::Break` / `visit_code() -> None` do
(`skip_attributes` / `skip(length)`), and where the cursor ends. Positions are relative to the start of the class file;
`avail` = number of bytes available from there (reads beyond it fail, `skip` beyond it does not: `Cursor::seek`).

Quirks mirrored as they are in the code:
* `Deprecated` / `Synthetic` are neither parsed nor skipped (the reader relies on `attribute_length == 0`);
* `RuntimeVisible/InvisibleParameterAnnotations` are skipped whatever the interest flag says;
* `BootstrapMethods` is always parsed; a second one, a second parsed `Record`, a second parsed `StackMapTable`/`StackMap` fail;
* `ClassInterests.fields = false`: inside `with_pos` every field is skipped (6 bytes unchecked + `skip_attributes`, the
  same loop as the one before `visit_class`): its name / descriptor are not resolved, no attribute is parsed;
  `ClassInterests.methods = false`: the methods are not read at all (not even `methods_count`) — whatever is wrong inside
  them goes unnoticed; the cursor returns to the end of the class attributes either way (`with_pos`);
* unknown attributes are read by their declared length; names known at another level are unknown here
  (`Deprecated` in a record component, `Signature` inside `Code`, ...);
* inside `Code`, stack map frames, line numbers and local variables are delivered after all code attributes were read,
  line numbers / local variables merged over all parsed tables; type annotations and unknown attributes immediately.

Outcome `desync`: a parsed attribute consumed a number of bytes different from its declared length — everything after
it is read from the wrong offset and the framing says nothing about what happens (model gives up, never on `FramesExact`).
-/

namespace Visit

/-- attribute names the reader knows at some level (`other` = any other name) -/
inductive K where
  | deprecated | synthetic | innerClasses | enclosingMethod | signature | sourceFile | sourceDebugExtension
  | rva | ria | rvta | rita | module | modulePackages | moduleMainClass | nestHost | nestMembers
  | permittedSubclasses | record | bootstrapMethods | constantValue | code | exceptions | rvpa | ripa
  | annotationDefault | methodParameters | stackMapTable | stackMap | lineNumberTable | lvt | lvtt | other
  deriving DecidableEq, Repr, Inhabited

abbrev Pay := List Nat

/-- interest mask of one visitor: `m k` = the `interests.<k>` flag (`m .other` = `unknown_attributes`) -/
abbrev Mask := K → Bool

/-- a leaf attribute -/
structure Attr where
  k : K
  /-- declared `attribute_length` -/
  len : Nat
  /-- bytes the parser of this kind consumes -/
  used : Nat
  pay : Pay
  deriving DecidableEq, Repr, Inhabited

/-- what a level of the reader does with an attribute name -/
inductive Act where
  | flagDep | flagSyn
  /-- `name == X && !interests.x => skip(length)`, otherwise parse and deliver -/
  | gated
  /-- parsed whatever the visitor says, nothing delivered (`BootstrapMethods`) -/
  | always
  /-- skipped in both arms (parameter annotations, `TODO` in the reader) -/
  | skipOnly
  /-- `_ if !interests.unknown_attributes => skip`, otherwise `read_u8_vec(length)` -/
  | unknown
  deriving DecidableEq, Repr

def classAct : K → Act
  | .deprecated => .flagDep | .synthetic => .flagSyn
  | .innerClasses | .enclosingMethod | .signature | .sourceFile | .sourceDebugExtension
  | .rva | .ria | .rvta | .rita | .module | .modulePackages | .moduleMainClass | .nestHost | .nestMembers
  | .permittedSubclasses => .gated
  | .bootstrapMethods => .always
  | _ => .unknown

def fieldAct : K → Act
  | .deprecated => .flagDep | .synthetic => .flagSyn
  | .constantValue | .signature | .rva | .ria | .rvta | .rita => .gated
  | _ => .unknown

def methodAct : K → Act
  | .deprecated => .flagDep | .synthetic => .flagSyn
  | .exceptions | .signature | .rva | .ria | .rvta | .rita | .annotationDefault | .methodParameters => .gated
  | .rvpa | .ripa => .skipOnly
  | _ => .unknown

def recAct : K → Act
  | .signature | .rva | .ria | .rvta | .rita => .gated
  | _ => .unknown

/-- the nested `Code` attribute of a method -/
structure Code where
  len : Nat
  /-- bytes of max_stack, max_locals, code_length, code, exception table -/
  hdr : Nat
  maxs : Nat
  insns : Nat
  exc : Nat
  attrs : List Attr
  deriving DecidableEq, Repr, Inhabited

inductive MAttr where
  | leaf (a : Attr)
  | code (c : Code)
  deriving DecidableEq, Repr, Inhabited

structure RecComp where
  h : Nat
  attrs : List Attr
  deriving DecidableEq, Repr, Inhabited

inductive CAttr where
  | leaf (a : Attr)
  | record (len : Nat) (comps : List RecComp)
  deriving DecidableEq, Repr, Inhabited

structure Field where
  h : Nat
  attrs : List Attr
  /-- `name_index` / `descriptor_index` resolve to a valid `FieldName` / `FieldDescriptor` (`read_field` fails before
  `visit_field` otherwise; the skipping loops never look at them) -/
  ok : Bool := true
  deriving DecidableEq, Repr, Inhabited

structure Method where
  h : Nat
  attrs : List MAttr
  /-- `name_index` / `descriptor_index` resolve to a valid `MethodName` / `MethodDescriptor` -/
  ok : Bool := true
  deriving DecidableEq, Repr, Inhabited

structure ClassFrame where
  /-- magic, version, constant pool, access, this, super, interfaces parse without error -/
  hdrOk : Bool
  /-- their length in bytes -/
  hdr : Nat
  h : Nat
  fields : List Field
  methods : List Method
  attrs : List CAttr
  deriving DecidableEq, Repr, Inhabited

/-! ## visitor configuration -/

structure MethodCfg where
  mask : Mask
  /-- `MethodInterests.code` -/
  code : Bool
  /-- `visit_code()`: `none` = declines, `some m` = a code visitor with interests `m` -/
  codeV : Option Mask

structure Cfg where
  /-- `visit_class`: `none` = `ControlFlow::Break` -/
  cls : Option Mask
  /-- `ClassInterests.fields` / `.methods`: honoured by the reader (52da0aa) and by `ClassFile::accept` -/
  fieldsI : Bool
  methodsI : Bool
  /-- `visit_field` for the i-th field: `none` = Break -/
  field : Nat → Option Mask
  method : Nat → Option MethodCfg
  /-- `visit_record_component` for the r-th component -/
  recc : Nat → Option Mask

def allMask : Mask := fun _ => true

/-- the full read: interested in everything, declines nothing -/
def full : Cfg where
  cls := some allMask
  fieldsI := true
  methodsI := true
  field := fun _ => some allMask
  method := fun _ => some { mask := allMask, code := true, codeV := some allMask }
  recc := fun _ => some allMask

/-! ## local variable entries -/

/-- which halves the entries of one part of a method's local variable vector carry: the `descriptor` (entries of a
`LocalVariableTable`), the `signature` (entries of a `LocalVariableTypeTable`) or both (the reader never produces such an
entry, a tree built or merged by hand can hold it) -/
inductive LvK where
  | d | s | both
  deriving DecidableEq, Repr, Inhabited

/-- a run of entries of one kind; the payload is the fingerprint of the entries (their number) -/
abbrev LvPart := LvK × Pay

/-- what is left of an entry for a code visitor with interests `cm`: the halves of the tables it asks for -/
def LvK.strip (cm : Mask) : LvK → Option LvK
  | .d => if cm .lvt then some .d else none
  | .s => if cm .lvtt then some .s else none
  | .both => if cm .lvt then (if cm .lvtt then some .both else some .d) else (if cm .lvtt then some .s else none)

/-- the entries (and halves of entries) of the tables a code visitor with interests `cm` asks for -/
def lvProj (cm : Mask) (parts : List LvPart) : List LvPart :=
  parts.filterMap (fun x => (x.1.strip cm).map (fun k => (k, x.2)))

/-- no entry at all (`Vec::is_empty`): every part counts zero entries -/
def lvNone (parts : List LvPart) : Bool := parts.all (fun x => x.2.sum == 0)

/-! ## events -/

inductive Ev where
  | classBegin (h : Nat)
  | cAttr (unk : Bool) (k : K) (pay : Pay)
  | recBegin (r h : Nat)
  | rAttr (r : Nat) (unk : Bool) (k : K) (pay : Pay)
  | recEnd (r : Nat)
  | classFlags (dep syn : Bool)
  | fieldBegin (i h : Nat)
  | fAttr (i : Nat) (unk : Bool) (k : K) (pay : Pay)
  | fieldFlags (i : Nat) (dep syn : Bool)
  | fieldEnd (i : Nat)
  | methodBegin (i h : Nat)
  | mAttr (i : Nat) (unk : Bool) (k : K) (pay : Pay)
  /-- `visit_code()` was called (also when it answers `None`) -/
  | codeBegin (i : Nat)
  | codeMaxs (i h : Nat)
  /-- type annotations / unknown attributes of `Code`, delivered while the attributes are read -/
  | kAttr (i : Nat) (unk : Bool) (k : K) (pay : Pay)
  /-- the `visit_instruction` sequence; `frames` = the parsed stack map table, if any -/
  | codeInsns (i : Nat) (frames : Option Pay) (h : Nat)
  | codeExc (i h : Nat)
  /-- `visit_line_numbers`: one part per parsed `LineNumberTable` -/
  | codeLines (i : Nat) (parts : List Pay)
  /-- `visit_local_variables`: one part per parsed `LocalVariableTable` (`.d`) / `LocalVariableTypeTable` (`.s`) -/
  | codeLocals (i : Nat) (parts : List LvPart)
  | codeEnd (i : Nat)
  | methodFlags (i : Nat) (dep syn : Bool)
  | methodEnd (i : Nat)
  | classEnd
  deriving DecidableEq, Repr, Inhabited

/-! ## the reader -/

inductive Fail where
  | err | desync
  deriving DecidableEq, Repr

abbrev R := Except Fail

instance {α : Type} [DecidableEq α] : DecidableEq (R α) := fun a b =>
  match a, b with
  | .ok x, .ok y => if h : x = y then isTrue (by rw [h]) else isFalse (by intro h'; cases h'; exact h rfl)
  | .error x, .error y => if h : x = y then isTrue (by rw [h]) else isFalse (by intro h'; cases h'; exact h rfl)
  | .ok _, .error _ => isFalse (by intro h; cases h)
  | .error _, .ok _ => isFalse (by intro h; cases h)

/-- a read of `n` bytes at `pos` -/
def need (avail pos n : Nat) : R Nat :=
  if pos + n ≤ avail then .ok (pos + n) else .error .err

/-- `desync` unless the parser consumed what the length field declares -/
def exactly (used len : Nat) : R Unit :=
  if used = len then .ok () else .error .desync

/-- `skip_attributes` after the count: per attribute name + length are read, the body is skipped -/
def skipAttrsGo (avail : Nat) : List Nat → Nat → R Nat
  | [], p => .ok p
  | l :: ls, p => do
    let p ← need avail p 6
    skipAttrsGo avail ls (p + l)

def skipAttrs (avail : Nat) (lens : List Nat) (pos : Nat) : R Nat := do
  let p ← need avail pos 2
  skipAttrsGo avail lens p

/-- result of one attribute: new position, events, Deprecated / Synthetic seen -/
structure Step where
  pos : Nat
  evs : List Ev
  dep : Bool := false
  syn : Bool := false

/-- one leaf attribute at a level with action table `act` (position is after name and length) -/
def leaf1 (avail : Nat) (act : K → Act) (m : Mask) (mk : Bool → K → Pay → Ev) (a : Attr) (pos : Nat) : R Step :=
  match act a.k with
  | .flagDep => do exactly 0 a.len; pure { pos := pos, evs := [], dep := true }
  | .flagSyn => do exactly 0 a.len; pure { pos := pos, evs := [], syn := true }
  | .gated =>
    if m a.k then do
      let p ← need avail pos a.used
      exactly a.used a.len
      pure { pos := p, evs := [mk false a.k a.pay] }
    else pure { pos := pos + a.len, evs := [] }
  | .always => do
    let p ← need avail pos a.used
    exactly a.used a.len
    pure { pos := p, evs := [] }
  | .skipOnly => pure { pos := pos + a.len, evs := [] }
  | .unknown =>
    if m .other then do
      let p ← need avail pos a.len
      pure { pos := p, evs := [mk true a.k a.pay] }
    else pure { pos := pos + a.len, evs := [] }

/-- attribute loop of a field / record component (leaf attributes only) -/
def readLeafs (avail : Nat) (act : K → Act) (m : Mask) (mk : Bool → K → Pay → Ev) :
    List Attr → Nat → R (Nat × List Ev × Bool × Bool)
  | [], p => .ok (p, [], false, false)
  | a :: as, p => do
    let p ← need avail p 6
    let s ← leaf1 avail act m mk a p
    let (p', evs, d, sy) ← readLeafs avail act m mk as s.pos
    pure (p', s.evs ++ evs, s.dep || d, s.syn || sy)

def attrLens (as : List Attr) : List Nat := as.map (·.len)

/-- `FieldName::try_from(pool.get_utf8(..)?)?` and its siblings: the member header names a valid name and descriptor -/
def named (ok : Bool) : R Unit := if ok then .ok () else .error .err

/-! ### record components -/

def readRecComp (avail : Nat) (cfg : Cfg) (r : Nat) (rc : RecComp) (pos : Nat) : R (Nat × List Ev) := do
  let p ← need avail pos 4
  match cfg.recc r with
  | none => do
    let p ← skipAttrs avail (attrLens rc.attrs) p
    pure (p, [Ev.recBegin r rc.h])
  | some m => do
    let p ← need avail p 2
    let (p, evs, _, _) ← readLeafs avail recAct m (Ev.rAttr r) rc.attrs p
    pure (p, Ev.recBegin r rc.h :: evs ++ [Ev.recEnd r])

def readRecComps (avail : Nat) (cfg : Cfg) : Nat → List RecComp → Nat → R (Nat × List Ev)
  | _, [], p => .ok (p, [])
  | r, rc :: rcs, p => do
    let (p, e1) ← readRecComp avail cfg r rc p
    let (p, e2) ← readRecComps avail cfg (r + 1) rcs p
    pure (p, e1 ++ e2)

/-! ### class attributes -/

/-- state of the class attribute loop that influences control flow -/
structure CSt where
  hadRecord : Bool := false
  hadBsm : Bool := false

def readClassAttrs (avail : Nat) (cfg : Cfg) (m : Mask) :
    CSt → List CAttr → Nat → R (Nat × List Ev × Bool × Bool)
  | _, [], p => .ok (p, [], false, false)
  | st, .leaf a :: as, p => do
    let p ← need avail p 6
    if classAct a.k = .always ∧ st.hadBsm then .error .err else do
      let s ← leaf1 avail classAct m Ev.cAttr a p
      let st' : CSt := if classAct a.k = .always then { st with hadBsm := true } else st
      let (p', evs, d, sy) ← readClassAttrs avail cfg m st' as s.pos
      pure (p', s.evs ++ evs, s.dep || d, s.syn || sy)
  | st, .record len comps :: as, p => do
    let p ← need avail p 6
    if m .record then
      if st.hadRecord then .error .err else do
        let q ← need avail p 2
        let (q, e1) ← readRecComps avail cfg 0 comps q
        exactly (q - p) len
        let (p', evs, d, sy) ← readClassAttrs avail cfg m { st with hadRecord := true } as q
        pure (p', e1 ++ evs, d, sy)
    else do
      let (p', evs, d, sy) ← readClassAttrs avail cfg m st as (p + len)
      pure (p', evs, d, sy)

/-! ### fields -/

def readField (avail : Nat) (cfg : Cfg) (i : Nat) (f : Field) (pos : Nat) : R (Nat × List Ev) := do
  let p ← need avail pos 6
  named f.ok
  match cfg.field i with
  | none => do
    let p ← skipAttrs avail (attrLens f.attrs) p
    pure (p, [Ev.fieldBegin i f.h])
  | some m => do
    let p ← need avail p 2
    let (p, evs, d, sy) ← readLeafs avail fieldAct m (Ev.fAttr i) f.attrs p
    pure (p, Ev.fieldBegin i f.h :: evs ++ [Ev.fieldFlags i d sy, Ev.fieldEnd i])

def readFields (avail : Nat) (cfg : Cfg) : Nat → List Field → Nat → R (Nat × List Ev)
  | _, [], p => .ok (p, [])
  | i, f :: fs, p => do
    let (p, e1) ← readField avail cfg i f p
    let (p, e2) ← readFields avail cfg (i + 1) fs p
    pure (p, e1 ++ e2)

/-! ### code -/

/-- what the attribute loop of `read_code` accumulates -/
structure KAcc where
  evs : List Ev := []
  frames : Option Pay := none
  /-- one part per parsed table; the `Option<Vec<_>>` of the reader is `Some` iff there is a part -/
  lines : List Pay := []
  locals : List LvPart := []

/-- the interest flag `read_code` consults for an attribute name (`other` = `unknown_attributes`; `StackMap` is
guarded by `stack_map_table` too) -/
def codeBit : K → K
  | .stackMapTable | .stackMap => .stackMapTable
  | .lineNumberTable => .lineNumberTable
  | .lvt => .lvt
  | .lvtt => .lvtt
  | .rvta => .rvta
  | .rita => .rita
  | _ => .other

/-- bytes consumed when the attribute is not skipped: unknown attributes are read by their declared length -/
def codeUsed (a : Attr) : Nat := if codeBit a.k = .other then a.len else a.used

/-- what a parsed code attribute does: stack map frames (`StackMapTable`, or the old `StackMap` format whose entries
the reader orders by bytecode offset — 69346bc), line numbers and local variables are kept for later (a second stack map
fails: `insert_if_empty`), type annotations and unknown attributes are delivered at once -/
def accAdd (i : Nat) (a : Attr) (acc : KAcc) : R KAcc :=
  match a.k with
  | .stackMapTable | .stackMap =>
    if acc.frames.isSome then .error .err else .ok { acc with frames := some a.pay }
  | .lineNumberTable => .ok { acc with lines := acc.lines ++ [a.pay] }
  | .lvt => .ok { acc with locals := acc.locals ++ [(.d, a.pay)] }
  | .lvtt => .ok { acc with locals := acc.locals ++ [(.s, a.pay)] }
  | .rvta | .rita => .ok { acc with evs := acc.evs ++ [Ev.kAttr i false a.k a.pay] }
  | _ => .ok { acc with evs := acc.evs ++ [Ev.kAttr i true a.k a.pay] }

def readCodeAttrs (avail : Nat) (i : Nat) (m : Mask) : KAcc → List Attr → Nat → R (Nat × KAcc)
  | acc, [], p => .ok (p, acc)
  | acc, a :: as, p => do
    let p ← need avail p 6
    if m (codeBit a.k) then do
      let q ← need avail p (codeUsed a)
      exactly (codeUsed a) a.len
      let acc' ← accAdd i a acc
      readCodeAttrs avail i m acc' as q
    else readCodeAttrs avail i m acc as (p + a.len)

/-- events `read_code` delivers once the attributes are read -/
def codeTail (i : Nat) (c : Code) (acc : KAcc) : List Ev :=
  acc.evs ++ [Ev.codeInsns i acc.frames c.insns, Ev.codeExc i c.exc]
    ++ (if acc.lines.isEmpty then [] else [Ev.codeLines i acc.lines])
    ++ (if acc.locals.isEmpty then [] else [Ev.codeLocals i acc.locals])

/-- the `Code` arm of `read_method` (position is after name and length) -/
def readCode (avail : Nat) (i : Nat) (mc : MethodCfg) (c : Code) (pos : Nat) : R (Nat × List Ev) :=
  if mc.code then
    match mc.codeV with
    | none => .ok (pos + c.len, [Ev.codeBegin i])
    | some cm => do
      let p ← need avail pos c.hdr
      let p ← need avail p 2
      let (q, acc) ← readCodeAttrs avail i cm {} c.attrs p
      exactly (q - pos) c.len
      pure (q, Ev.codeBegin i :: Ev.codeMaxs i c.maxs :: codeTail i c acc ++ [Ev.codeEnd i])
  else .ok (pos + c.len, [])

/-! ### methods -/

def readMethodAttrs (avail : Nat) (i : Nat) (mc : MethodCfg) :
    List MAttr → Nat → R (Nat × List Ev × Bool × Bool)
  | [], p => .ok (p, [], false, false)
  | .leaf a :: as, p => do
    let p ← need avail p 6
    let s ← leaf1 avail methodAct mc.mask (Ev.mAttr i) a p
    let (p', evs, d, sy) ← readMethodAttrs avail i mc as s.pos
    pure (p', s.evs ++ evs, s.dep || d, s.syn || sy)
  | .code c :: as, p => do
    let p ← need avail p 6
    let (q, e1) ← readCode avail i mc c p
    let (p', evs, d, sy) ← readMethodAttrs avail i mc as q
    pure (p', e1 ++ evs, d, sy)

def mattrLen : MAttr → Nat
  | .leaf a => a.len
  | .code c => c.len

def mattrLens (as : List MAttr) : List Nat := as.map mattrLen

def readMethod (avail : Nat) (cfg : Cfg) (i : Nat) (mt : Method) (pos : Nat) : R (Nat × List Ev) := do
  let p ← need avail pos 6
  named mt.ok
  match cfg.method i with
  | none => do
    let p ← skipAttrs avail (mattrLens mt.attrs) p
    pure (p, [Ev.methodBegin i mt.h])
  | some mc => do
    let p ← need avail p 2
    let (p, evs, d, sy) ← readMethodAttrs avail i mc mt.attrs p
    pure (p, Ev.methodBegin i mt.h :: evs ++ [Ev.methodFlags i d sy, Ev.methodEnd i])

def readMethods (avail : Nat) (cfg : Cfg) : Nat → List Method → Nat → R (Nat × List Ev)
  | _, [], p => .ok (p, [])
  | i, mt :: ms, p => do
    let (p, e1) ← readMethod avail cfg i mt p
    let (p, e2) ← readMethods avail cfg (i + 1) ms p
    pure (p, e1 ++ e2)

/-! ### the class -/

/-- the loop that skips the fields (methods) before `visit_class`: 6 bytes skipped unchecked, then `skip_attributes` -/
def skipMembers (avail : Nat) : List (List Nat) → Nat → R Nat
  | [], p => .ok p
  | lens :: rest, p => do
    let p ← skipAttrs avail lens (p + 6)
    skipMembers avail rest p

def cattrLen : CAttr → Nat
  | .leaf a => a.len
  | .record len _ => len

def cattrLens (as : List CAttr) : List Nat := as.map cattrLen

/-- the fields inside `with_pos` (position is after `fields_count`): visited when the class visitor reports
`interests.fields`, otherwise each one skipped — `skip(2 + 2 + 2)` unchecked, then `skip_attributes` -/
def readFieldsI (avail : Nat) (cfg : Cfg) (fs : List Field) (q : Nat) : R (Nat × List Ev) :=
  if cfg.fieldsI then readFields avail cfg 0 fs q
  else do
    let q ← skipMembers avail (fs.map (fun f => attrLens f.attrs)) q
    pure (q, [])

/-- the methods inside `with_pos` (position is the end of the fields): `methods_count` and the methods are read only when
the class visitor reports `interests.methods` -/
def readMethodsI (avail : Nat) (cfg : Cfg) (ms : List Method) (q : Nat) : R (List Ev) :=
  if cfg.methodsI then do
    let q ← need avail q 2
    let (_, mevs) ← readMethods avail cfg 0 ms q
    pure mevs
  else pure []

/-- `class_reader::read` for one class file starting at position 0 with `avail` bytes available;
answer: position of the cursor afterwards (= bytes consumed) and the events delivered -/
def readWith (cfg : Cfg) (c : ClassFrame) (avail : Nat) : R (Nat × List Ev) := do
  let fieldsStart ← need avail 0 c.hdr
  if !c.hdrOk then .error .err else do
  let p ← need avail fieldsStart 2
  let p ← skipMembers avail (c.fields.map (fun f => attrLens f.attrs)) p
  let p ← need avail p 2
  let p ← skipMembers avail (c.methods.map (fun m => mattrLens m.attrs)) p
  match cfg.cls with
  | none => do
    let p ← skipAttrs avail (cattrLens c.attrs) p
    pure (p, [Ev.classBegin c.h])
  | some m => do
    let p ← need avail p 2
    let (p, evs, d, sy) ← readClassAttrs avail cfg m {} c.attrs p
    -- `with_pos(fields_start, ..)`: members are read from the remembered position, the cursor returns to `p`
    let q ← need avail fieldsStart 2
    let (q, fevs) ← readFieldsI avail cfg c.fields q
    let mevs ← readMethodsI avail cfg c.methods q
    pure (p, Ev.classBegin c.h :: evs ++ [Ev.classFlags d sy] ++ fevs ++ mevs ++ [Ev.classEnd])

/-! ## sizes and exact framing -/

def attrsSize (lens : List Nat) : Nat := 2 + (lens.map (· + 6)).sum

def Code.size (c : Code) : Nat := c.hdr + attrsSize (attrLens c.attrs)

def RecComp.size (rc : RecComp) : Nat := 4 + attrsSize (attrLens rc.attrs)

def recSize (comps : List RecComp) : Nat := 2 + (comps.map RecComp.size).sum

def Field.size (f : Field) : Nat := 6 + attrsSize (attrLens f.attrs)

def Method.size (m : Method) : Nat := 6 + attrsSize (mattrLens m.attrs)

/-- the length of the class file in bytes as its declared lengths lay it out -/
def ClassFrame.size (c : ClassFrame) : Nat :=
  c.hdr + (2 + (c.fields.map Field.size).sum) + (2 + (c.methods.map Method.size).sum) + attrsSize (cattrLens c.attrs)

/-- a leaf attribute consumes exactly its declared length whenever the level's reader parses it -/
def leafExact (act : K → Act) (a : Attr) : Bool :=
  match act a.k with
  | .flagDep | .flagSyn => a.len == 0
  | .gated | .always => a.used == a.len
  | .skipOnly | .unknown => true

def codeAttrExact (a : Attr) : Bool := codeUsed a == a.len

def Code.exact (c : Code) : Bool := c.len == c.size && c.attrs.all codeAttrExact

def mattrExact : MAttr → Bool
  | .leaf a => leafExact methodAct a
  | .code c => c.exact

def cattrExact : CAttr → Bool
  | .leaf a => leafExact classAct a
  | .record len comps => len == recSize comps && comps.all (fun rc => rc.attrs.all (leafExact recAct))

/-- `FramesExact`: every attribute the reader may parse consumes exactly its declared length
(true of every well-formed class file) -/
def framesExact (c : ClassFrame) : Bool :=
  c.fields.all (fun f => f.attrs.all (leafExact fieldAct))
    && c.methods.all (fun m => m.attrs.all mattrExact)
    && c.attrs.all cattrExact

/-! ## projection of the events of a full read onto a configuration -/

/-- the interest bit that guards an attribute event -/
def evBit (unk : Bool) (k : K) : K := if unk then .other else k

def codeMaskOf (cfg : Cfg) (i : Nat) : Option Mask :=
  match cfg.cls, cfg.method i with
  | some _, some mc => if cfg.methodsI && mc.code then mc.codeV else none
  | _, _ => none

/-- is the record component `r` visited with a visitor, and with which mask -/
def recMaskOf (cfg : Cfg) (r : Nat) : Option Mask :=
  match cfg.cls with
  | some m => if m .record then cfg.recc r else none
  | none => none

def keepIf (b : Bool) (e : Ev) : Option Ev := if b then some e else none

/-- what a visitor configured by `cfg` receives of an event of the full read: nothing of the fields (methods, and their
`Code`s) unless the class visitor reports `interests.fields` (`interests.methods`) -/
def proj (cfg : Cfg) (e : Ev) : Option Ev :=
  match e with
  | .classBegin _ => some e
  | .cAttr unk k _ => match cfg.cls with | some m => keepIf (m (evBit unk k)) e | none => none
  | .recBegin _ _ => match cfg.cls with | some m => keepIf (m .record) e | none => none
  | .rAttr r unk k _ => match recMaskOf cfg r with | some rm => keepIf (rm (evBit unk k)) e | none => none
  | .recEnd r => keepIf (recMaskOf cfg r).isSome e
  | .classFlags _ _ => keepIf cfg.cls.isSome e
  | .fieldBegin _ _ => keepIf (cfg.cls.isSome && cfg.fieldsI) e
  | .fAttr i unk k _ =>
    match cfg.cls, cfg.field i with
    | some _, some fm => keepIf (cfg.fieldsI && fm (evBit unk k)) e | _, _ => none
  | .fieldFlags i _ _ | .fieldEnd i => keepIf (cfg.cls.isSome && cfg.fieldsI && (cfg.field i).isSome) e
  | .methodBegin _ _ => keepIf (cfg.cls.isSome && cfg.methodsI) e
  | .mAttr i unk k _ =>
    match cfg.cls, cfg.method i with
    | some _, some mc => keepIf (cfg.methodsI && mc.mask (evBit unk k)) e | _, _ => none
  | .methodFlags i _ _ | .methodEnd i => keepIf (cfg.cls.isSome && cfg.methodsI && (cfg.method i).isSome) e
  | .codeBegin i =>
    match cfg.cls, cfg.method i with
    | some _, some mc => keepIf (cfg.methodsI && mc.code) e | _, _ => none
  | .codeMaxs i _ | .codeExc i _ | .codeEnd i => keepIf (codeMaskOf cfg i).isSome e
  | .kAttr i unk k _ =>
    match codeMaskOf cfg i with | some cm => keepIf (cm (evBit unk k)) e | none => none
  | .codeInsns i fr h =>
    match codeMaskOf cfg i with
    | some cm => some (.codeInsns i (if cm .stackMapTable then fr else none) h)
    | none => none
  | .codeLines i _ =>
    match codeMaskOf cfg i with | some cm => keepIf (cm .lineNumberTable) e | none => none
  | .codeLocals i parts =>
    match codeMaskOf cfg i with
    | some cm =>
      let parts' := lvProj cm parts
      if parts'.isEmpty then none else some (.codeLocals i parts')
    | none => none
  | .classEnd => keepIf cfg.cls.isSome e

/-! ## streams of concatenated class files -/

/-- successive reads on one stream holding the class files `cs` back to back, `total` bytes in all; the k-th read
uses `cfgs[k]`. A read that does not end on the boundary of its file leaves the next read inside a file: `desync`. -/
def readStream : List Cfg → List ClassFrame → (base total : Nat) → List (R (Nat × List Ev))
  | cfg :: cfgs, c :: cs, base, total =>
    match readWith cfg c (total - base) with
    | .ok (n, evs) =>
      .ok (n, evs) :: (if n = c.size then readStream cfgs cs (base + n) total
                       else if cs.isEmpty then [] else [.error .desync])
    | .error e => [.error e]
  | _, _, _, _ => []

end Visit
