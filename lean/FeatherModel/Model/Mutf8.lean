import FeatherModel.Base.Sexp

/-!
# C01 — `duke/src/jstring.rs` + `java_string::JavaString::from_modified_utf8`

`jstring::from_vec_to_string(vec)` is `JavaString::from_modified_utf8(vec)`:

1. `JavaString::from_full_utf8(vec)` = `std::str::from_utf8`: if the bytes are *strict* UTF-8 they are the string
   (so a raw `0x00` and 4-byte sequences are accepted although they are not modified UTF-8) — `utf8Strict`;
2. otherwise `from_modified_utf8_internal` (`mutf8Internal`): `c0 80` is NUL, a raw `0x00` is an error, 1–3 byte
   sequences are taken over (overlong and 4-byte forms are errors), a 3-byte high surrogate followed by a 3-byte
   low surrogate becomes one supplementary code point, unpaired surrogates stay single code points.

A `JavaString` is modelled by its code points (`JStr`).
-/

namespace Mutf8

def isCont (b : Nat) : Bool := 128 ≤ b && b < 192

/-- one scalar value of strict UTF-8 (the validity table of `core::str::from_utf8`) -/
def strictStep : Bytes → Option (Nat × Bytes)
  | [] => none
  | b0 :: r =>
    if b0 < 128 then some (b0, r)
    else if 194 ≤ b0 && b0 < 224 then
      match r with
      | b1 :: r => if isCont b1 then some ((b0 - 192) * 64 + (b1 - 128), r) else none
      | _ => none
    else if 224 ≤ b0 && b0 < 240 then
      match r with
      | b1 :: b2 :: r =>
        let ok1 :=
          if b0 = 224 then 160 ≤ b1 && b1 < 192
          else if b0 = 237 then 128 ≤ b1 && b1 < 160
          else isCont b1
        if ok1 && isCont b2 then some (((b0 - 224) * 64 + (b1 - 128)) * 64 + (b2 - 128), r) else none
      | _ => none
    else if 240 ≤ b0 && b0 < 245 then
      match r with
      | b1 :: b2 :: b3 :: r =>
        let ok1 :=
          if b0 = 240 then 144 ≤ b1 && b1 < 192
          else if b0 = 244 then 128 ≤ b1 && b1 < 144
          else isCont b1
        if ok1 && isCont b2 && isCont b3 then
          some ((((b0 - 240) * 64 + (b1 - 128)) * 64 + (b2 - 128)) * 64 + (b3 - 128), r)
        else none
      | _ => none
    else none

/-- one step of `from_modified_utf8_internal` -/
def internalStep : Bytes → Option (Nat × Bytes)
  | [] => none
  | b0 :: r =>
    if b0 = 0 then none
    else if b0 < 128 then some (b0, r)
    else if b0 = 192 then
      match r with
      | b1 :: r => if b1 = 128 then some (0, r) else none
      | _ => none
    else
      -- `let w = utf8_char_width(first); let second = next_cont!(..)`
      match r with
      | [] => none
      | b1 :: r =>
        if !isCont b1 then none
        else if 194 ≤ b0 && b0 < 224 then some ((b0 - 192) * 64 + (b1 - 128), r)
        else if 224 ≤ b0 && b0 < 240 then
          match r with
          | [] => none
          | b2 :: r =>
            if !isCont b2 then none
            else
              let cp := ((b0 - 224) * 64 + (b1 - 128)) * 64 + (b2 - 128)
              if (b0 = 224 && 160 ≤ b1) || (225 ≤ b0 && b0 ≤ 236) || (b0 = 237 && b1 < 160)
                  || (238 ≤ b0) || (b0 = 237 && 176 ≤ b1) then some (cp, r)
              else if b0 = 237 && 160 ≤ b1 && b1 < 176 then
                -- first half of a surrogate pair: peek for the second half
                match r with
                | b3 :: b4 :: b5 :: r' =>
                  if b3 = 237 && 176 ≤ b4 && b4 < 192 && isCont b5 then
                    let s1 := 0xd000 + (b1 - 128) * 64 + (b2 - 128)
                    let s2 := 0xd000 + (b4 - 128) * 64 + (b5 - 128)
                    some (0x10000 + ((s1 - 0xd800) * 1024 + (s2 - 0xdc00)), r')
                  else some (cp, r)
                | _ => some (cp, r)
              else none
        else none

/-- iterate a step function over the whole input (`fuel` = number of input bytes is always enough) -/
def decodeAll (step : Bytes → Option (Nat × Bytes)) : Nat → Bytes → Option JStr
  | _, [] => some []
  | 0, _ :: _ => none
  | n + 1, s =>
    match step s with
    | none => none
    | some (c, r) => (decodeAll step n r).map (c :: ·)

def utf8Strict (b : Bytes) : Option JStr := decodeAll strictStep b.length b
def mutf8Internal (b : Bytes) : Option JStr := decodeAll internalStep b.length b

/-- `JavaString::from_modified_utf8` -/
def decode (b : Bytes) : Option JStr :=
  match utf8Strict b with
  | some s => some s
  | none => mutf8Internal b

/-! ## specification side: JVMS §4.4.7 encoder (independent of `java_string`) -/

def encCp (c : Nat) : Bytes :=
  if c = 0 then [192, 128]
  else if c < 128 then [c]
  else if c < 2048 then [192 + c / 64, 128 + c % 64]
  else if c < 65536 then [224 + c / 4096, 128 + c / 64 % 64, 128 + c % 64]
  else
    let v := c - 65536
    let hi := 0xd800 + v / 1024
    let lo := 0xdc00 + v % 1024
    [237, 128 + hi / 64 % 64, 128 + hi % 64, 237, 128 + lo / 64 % 64, 128 + lo % 64]

def encode (s : JStr) : Bytes := s.flatMap encCp

def isHigh (c : Nat) : Bool := 0xd800 ≤ c && c < 0xdc00
def isLow (c : Nat) : Bool := 0xdc00 ≤ c && c < 0xe000

/-- code points are Unicode scalar values or single surrogates, and no high surrogate is directly followed by a low
surrogate (such a pair *is* the encoding of a supplementary code point, so it cannot be read back as two) -/
def Encodable : JStr → Bool
  | [] => true
  | [c] => c < 0x110000
  | c :: d :: r => c < 0x110000 && !(isHigh c && isLow d) && Encodable (d :: r)

end Mutf8
