import FeatherModel.Model.ClassRead

/-!
# C01 — reading label ids back as instruction positions

The reader delivers opaque `Label { id }`s: an instruction entry carries `label = some id` when some table refers
to its offset, `last_label` is the label of `code_length`.  `Code.resolve` replaces every label id that occurs in
an operand, in the exception table, the line/local tables, a frame or a type-annotation target by the *index of
the instruction entry carrying that label* (`insns.length` for `last_label`), and erases the carriers
(`label := none`, `lastLabel := none`).  It fails (`none`) when an id is carried by no entry — a dangling label.
The result is the label-free description a class file denotes; this is what the fidelity theorem compares.
-/

namespace ClassRead

/-- (label id, instruction index) for every labelled entry, then the last label -/
def labelIndex (insns : List InsnEntry) (lastLabel : Option Nat) : List (Nat × Nat) :=
  let rec go : List InsnEntry → Nat → List (Nat × Nat)
    | [], i => match lastLabel with | some id => [(id, i)] | none => []
    | e :: r, i => match e.label with
      | some id => (id, i) :: go r (i + 1)
      | none => go r (i + 1)
  go insns 0

def lookupLabel (m : List (Nat × Nat)) (id : Nat) : Option Nat := (m.find? (fun p => p.1 == id)).map (·.2)

def mapM' {α β : Type} (f : α → Option β) : List α → Option (List β)
  | [] => some []
  | a :: r => do let b ← f a; let bs ← mapM' f r; pure (b :: bs)

def Insn.resolve (m : List (Nat × Nat)) : Insn → Option Insn
  | .branch op t => do let t ← lookupLabel m t; pure (.branch op t)
  | .goto t => do let t ← lookupLabel m t; pure (.goto t)
  | .jsr t => do let t ← lookupLabel m t; pure (.jsr t)
  | .tableswitch d lo hi tbl => do
    let d ← lookupLabel m d
    let tbl ← mapM' (lookupLabel m) tbl
    pure (.tableswitch d lo hi tbl)
  | .lookupswitch d pairs => do
    let d ← lookupLabel m d
    let pairs ← mapM' (fun (k, t) => do let t ← lookupLabel m t; pure (k, t)) pairs
    pure (.lookupswitch d pairs)
  | i => some i

def VType.resolve (m : List (Nat × Nat)) : VType → Option VType
  | .uninit l => do let l ← lookupLabel m l; pure (.uninit l)
  | v => some v

def Frame.resolve (m : List (Nat × Nat)) : Frame → Option Frame
  | .same1 v => do let v ← v.resolve m; pure (.same1 v)
  | .append vs => do let vs ← mapM' (VType.resolve m) vs; pure (.append vs)
  | .full l s => do let l ← mapM' (VType.resolve m) l; let s ← mapM' (VType.resolve m) s; pure (.full l s)
  | f => some f

def Target.resolve (m : List (Nat × Nat)) : Target → Option Target
  | .localVar t tbl => do
    let tbl ← mapM' (fun (a, b, i) => do let a ← lookupLabel m a; let b ← lookupLabel m b; pure (a, b, i)) tbl
    pure (.localVar t tbl)
  | .offset t l => do let l ← lookupLabel m l; pure (.offset t l)
  | .offsetArg t l i => do let l ← lookupLabel m l; pure (.offsetArg t l i)
  | t => some t

def TypeAnno.resolve (m : List (Nat × Nat)) (a : TypeAnno) : Option TypeAnno := do
  let t ← a.target.resolve m
  pure { a with target := t }

def InsnEntry.resolve (m : List (Nat × Nat)) (e : InsnEntry) : Option InsnEntry := do
  let i ← e.insn.resolve m
  let f ← match e.frame with
    | none => some none
    | some f => (f.resolve m).map some
  pure ⟨none, f, i⟩

def resolveExceptions (m : List (Nat × Nat)) (es : List ExceptionEntry) : Option (List ExceptionEntry) :=
  mapM' (fun (e : ExceptionEntry) => do
    let a ← lookupLabel m e.start; let b ← lookupLabel m e.end_; let h ← lookupLabel m e.handler
    pure (⟨a, b, h, e.catch_⟩ : ExceptionEntry)) es

def resolveLines (m : List (Nat × Nat)) : Option (List (Nat × Nat)) → Option (Option (List (Nat × Nat)))
  | none => some none
  | some ls => (mapM' (fun (ln : Nat × Nat) => do let l ← lookupLabel m ln.1; pure (l, ln.2)) ls).map some

def resolveLocals (m : List (Nat × Nat)) : Option (List Lv) → Option (Option (List Lv))
  | none => some none
  | some ls => (mapM' (fun (v : Lv) => do
      let a ← lookupLabel m v.start; let b ← lookupLabel m v.end_
      pure ({ v with start := a, end_ := b } : Lv)) ls).map some

def Code.resolve (c : Code) : Option Code := do
  let m := labelIndex c.insns c.lastLabel
  let insns ← mapM' (InsnEntry.resolve m) c.insns
  let exceptions ← resolveExceptions m c.exceptions
  let lines ← resolveLines m c.lines
  let locals ← resolveLocals m c.locals
  let rvta ← mapM' (TypeAnno.resolve m) c.rvta
  let ritva ← mapM' (TypeAnno.resolve m) c.ritva
  pure { c with insns := insns, exceptions := exceptions, lastLabel := none, lines := lines, locals := locals,
                rvta := rvta, ritva := ritva }

def MethodFacts.resolve (mth : MethodFacts) : Option MethodFacts :=
  match mth.code with
  | none => some mth
  | some c => do let c ← c.resolve; pure { mth with code := some c }

def ClassFacts.resolve (c : ClassFacts) : Option ClassFacts := do
  let ms ← mapM' MethodFacts.resolve c.methods
  pure { c with methods := ms }

end ClassRead
