import FeatherModel.Base.Sexp

/-!
# Model of `write_code` in `duke/src/simple_class_writer.rs` (the code array, its label table and the tables written from it)

Mirrors the Rust *as it is*:

* one **attempt** = one pass over the instruction list appending to the byte vector `w`; before each instruction
  `opcode_pos = u16::try_from(w.len())` (error above 65535) is recorded for the instruction index and for its label;
  jumps whose label is already known (backward, or to the instruction itself) are resolved on the spot
  (`if_helper`, `goto_helper`, `switch_helper`), all others push an `UnwrittenLabel` and reserve `i16::MAX` (narrow)
  or `i32::MAX` (wide: instruction index ∈ `wide`, or a switch);
* after the pass the last label gets `w.len() as u16` (truncating), the unwritten labels are patched in push order;
  the first narrow one that does not fit `i16` inserts its instruction index into `wide` and restarts (`continue 'a`);
* then `code_length` must be in 1..=65535.

Restriction of the domain (stated, not hidden): instructions are the set below (all of `Instruction`); every instruction `k`
carries the label `k`, the last label is `n = instructions.len()`; any other label number is an unknown label.
`ldc` is given the pool index `PoolWrite::put_loadable` returns (the put is idempotent, see `Thm.C02.pool_put_idem`).

Unchecked `u16`/`i32` arithmetic of the Rust (overflow checks on) would be an explicit `Fail.panic`.  The three such
sites the model used to have — `opcode_pos + 1 + 2` in `if_helper`, `high - low + 1` in the `tableswitch` arm,
`end - start` in `Labels::try_get_range` — are checked operations returning an error since the `fix:` commits 136eeb3,
dc41ad9, f538c01; no function below produces `Fail.panic` any more (`Thm.C02.write_fails_cleanly`).
-/

namespace CodeWrite

inductive Cond where
  | eq | ne | lt | ge | gt | le
  | icmpeq | icmpne | icmplt | icmpge | icmpgt | icmple
  | acmpeq | acmpne | null | nonnull
  deriving DecidableEq, Repr

/-- `opcode::IFEQ` … as passed to `if_helper` -/
def Cond.opcode : Cond → Nat
  | .eq => 0x99 | .ne => 0x9a | .lt => 0x9b | .ge => 0x9c | .gt => 0x9d | .le => 0x9e
  | .icmpeq => 0x9f | .icmpne => 0xa0 | .icmplt => 0xa1 | .icmpge => 0xa2 | .icmpgt => 0xa3 | .icmple => 0xa4
  | .acmpeq => 0xa5 | .acmpne => 0xa6 | .null => 0xc6 | .nonnull => 0xc7

/-- the `opposite_opcode` argument `write_code` passes for each `if` -/
def Cond.opposite : Cond → Cond
  | .eq => .ne | .ne => .eq | .lt => .ge | .ge => .lt | .gt => .le | .le => .gt
  | .icmpeq => .icmpne | .icmpne => .icmpeq | .icmplt => .icmpge | .icmpge => .icmplt
  | .icmpgt => .icmple | .icmple => .icmpgt
  | .acmpeq => .acmpne | .acmpne => .acmpeq | .null => .nonnull | .nonnull => .null

inductive Insn where
  /-- any operand-less one-byte instruction (`nop`, `iadd`, `return`, …), given by its opcode -/
  | simple (op : Nat)
  | bipush (v : Int)
  | sipush (v : Int)
  /-- `Instruction::Ldc` after `put_loadable` returned `idx`; `two` = long/double constant -/
  | ldc (idx : Nat) (two : Bool)
  /-- `ILoad..ALoad`, `kind` 0..4 = i l f d a -/
  | load (kind : Nat) (idx : Nat)
  | store (kind : Nat) (idx : Nat)
  | iinc (idx : Nat) (v : Int)
  | ret (idx : Nat)
  | ifc (c : Cond) (t : Nat)
  | goto (t : Nat)
  | jsr (t : Nat)
  | tableswitch (dflt : Nat) (low high : Int) (table : List Nat)
  | lookupswitch (dflt : Nat) (pairs : List (Int × Nat))
  /-- three-byte instructions with a constant-pool index: `getstatic` … `invokestatic` (0xb2–0xb8), `new` (0xbb),
  `anewarray` (0xbd), `checkcast` (0xc0), `instanceof` (0xc1); `idx` is what `put_field_ref` /
  `put_method_ref…` / `put_class` returned -/
  | cp (op : Nat) (idx : Nat)
  /-- the `count` operand is computed from the method descriptor by `MethodDescriptor::get_arguments_size` -/
  | invokeinterface (idx : Nat) (desc : JStr)
  | newarray (atype : Nat)
  | multianewarray (idx : Nat) (dims : Nat)
  /-- `idx` = the `InvokeDynamic` pool entry `put_invoke_dynamic` returned -/
  | invokedynamic (idx : Nat)
  deriving DecidableEq, Repr

inductive Fail where
  | err
  | panic
  deriving DecidableEq, Repr

/-- `UnwrittenLabel` -/
structure Unwritten where
  opcodePos : Nat
  insnIdx : Nat
  label : Nat
  writePos : Nat
  wide : Bool
  deriving DecidableEq, Repr

/-! ## big-endian two's complement -/

def u16b (n : Nat) : Bytes := [n / 256 % 256, n % 256]
def i8b (v : Int) : Nat := (v % 256).toNat
def i16b (v : Int) : Bytes := u16b (v % 65536).toNat
def u32b (n : Nat) : Bytes := [n / 16777216 % 256, n / 65536 % 256, n / 256 % 256, n % 256]
def i32b (v : Int) : Bytes := u32b (v % 4294967296).toNat

/-- `compute_signed_offset` -/
def offs (opcodePos target : Nat) : Int := (target : Int) - (opcodePos : Int)

/-- `i16::try_from(branch).is_ok()` -/
def fitsI16 (v : Int) : Bool := decide (-32768 ≤ v) && decide (v ≤ 32767)

def GOTO_W : Nat := 0xc8
def I16MAX : Int := 32767
def I32MAX : Int := 2147483647

/-! ## instructions without labels -/

def encLocal (base base0 kind idx : Nat) : Bytes :=
  if idx < 4 then [kind * 4 + idx + base0]
  else if idx ≤ 255 then [base + kind, idx]
  else 0xc4 :: (base + kind) :: u16b idx

def encLdc (idx : Nat) (two : Bool) : Bytes :=
  if two then 0x14 :: u16b idx
  else if idx ≤ 255 then [0x12, idx]
  else 0x13 :: u16b idx

def encIinc (idx : Nat) (v : Int) : Bytes :=
  if idx ≤ 255 ∧ -128 ≤ v ∧ v ≤ 127 then [0x84, idx, i8b v]
  else 0xc4 :: 0x84 :: (u16b idx ++ i16b v)

def encRet (idx : Nat) : Bytes :=
  if idx ≤ 255 then [0xa9, idx] else 0xc4 :: 0xa9 :: u16b idx

/-! ## `MethodDescriptor::get_arguments_size` (duke/src/tree/descriptor.rs): 1 for `this` + argument slots, in a `u8` -/

/-- skip the rest of a class name up to and including `;` -/
def skipClass : List Nat → Option (List Nat)
  | [] => none
  | c :: cs => if c = 59 then some cs else skipClass cs

def skipBrackets : List Nat → List Nat
  | c :: cs => if c = 91 then skipBrackets cs else c :: cs
  | [] => []

/-- the loop of `get_arguments_size`; `fuel` ≥ number of characters. `size.checked_add(…)` on a `u8`: error above 255 -/
def argsLoop : Nat → List Nat → Nat → Except Fail Nat
  | 0, _, _ => .error .err
  | fuel + 1, cs, size =>
    match cs with
    | [] => .error .err   -- `chars.next()` returns `None`: "unexpected abrupt ending"
    | c :: rest =>
      if c = 41 then .ok size
      else if c = 68 ∨ c = 74 then
        if size + 2 > 255 then .error .err else argsLoop fuel rest (size + 2)
      else
        match skipBrackets (c :: rest) with
        | [] => .error .err
        | c' :: rest' =>
          if c' = 76 then
            match skipClass rest' with
            | none => .error .err
            | some rest'' => if size + 1 > 255 then .error .err else argsLoop fuel rest'' (size + 1)
          else if size + 1 > 255 then .error .err else argsLoop fuel rest' (size + 1)

def argsSize (desc : JStr) : Except Fail Nat :=
  match desc with
  | 40 :: rest => argsLoop (rest.length + 1) rest 1
  | _ => .error .err

/-! ## `if_helper`, `goto_helper`, `switch_helper` -/

abbrev Enc := Except Fail (Bytes × List Unwritten)

def encIf (c : Cond) (isWide : Bool) (lbl : Nat → Option Nat) (p k t : Nat) : Enc :=
  match lbl t with
  | some tp =>
    if fitsI16 (offs p tp) then .ok (c.opcode :: i16b (offs p tp), [])
    else if p + 3 > 65535 then .error .err
    else .ok (c.opposite.opcode :: (i16b 8 ++ GOTO_W :: i32b (offs (p + 3) tp)), [])
  | none =>
    if isWide then
      if p + 3 > 65535 then .error .err
      else .ok (c.opposite.opcode :: (i16b 8 ++ GOTO_W :: i32b I32MAX), [⟨p + 3, k, t, p + 4, true⟩])
    else .ok (c.opcode :: i16b I16MAX, [⟨p, k, t, p + 1, false⟩])

def encGoto (op wop : Nat) (isWide : Bool) (lbl : Nat → Option Nat) (p k t : Nat) : Enc :=
  match lbl t with
  | some tp =>
    if fitsI16 (offs p tp) then .ok (op :: i16b (offs p tp), [])
    else .ok (wop :: i32b (offs p tp), [])
  | none =>
    if isWide then .ok (wop :: i32b I32MAX, [⟨p, k, t, p + 1, true⟩])
    else .ok (op :: i16b I16MAX, [⟨p, k, t, p + 1, false⟩])

def swLabel (lbl : Nat → Option Nat) (p k wp t : Nat) : Bytes × List Unwritten :=
  match lbl t with
  | some tp => (i32b (offs p tp), [])
  | none => (i32b I32MAX, [⟨p, k, t, wp, true⟩])

def swTable (lbl : Nat → Option Nat) (p k : Nat) : Nat → List Nat → Bytes × List Unwritten
  | _, [] => ([], [])
  | wp, t :: ts =>
    ((swLabel lbl p k wp t).1 ++ (swTable lbl p k (wp + 4) ts).1,
     (swLabel lbl p k wp t).2 ++ (swTable lbl p k (wp + 4) ts).2)

def swPairs (lbl : Nat → Option Nat) (p k : Nat) : Nat → List (Int × Nat) → Bytes × List Unwritten
  | _, [] => ([], [])
  | wp, kt :: ps =>
    (i32b kt.1 ++ (swLabel lbl p k (wp + 4) kt.2).1 ++ (swPairs lbl p k (wp + 8) ps).1,
     (swLabel lbl p k (wp + 4) kt.2).2 ++ (swPairs lbl p k (wp + 8) ps).2)

/-- zero bytes `align_to_4_byte_boundary` appends after the opcode at `p` -/
def padLen (p : Nat) : Nat := 3 - p % 4

/-- `pairs.windows(2).all(|x| x[0].0 <= x[1].0)` -/
def sortedKeys : List (Int × Nat) → Bool
  | [] => true
  | [_] => true
  | a :: b :: rest => decide (a.1 ≤ b.1) && sortedKeys (b :: rest)

def encTableSwitch (lbl : Nat → Option Nat) (p k dflt : Nat) (low high : Int) (table : List Nat) : Enc :=
  let hd := 0xaa :: List.replicate (padLen p) 0
  let d := swLabel lbl p k (p + 1 + padLen p) dflt
  if low > high then .error .err
  else if high - low ≥ 2147483647 then .error .err
  else if (table.length : Int) ≠ high - low + 1 then .error .err
  else
    let t := swTable lbl p k (p + 1 + padLen p + 12) table
    .ok (hd ++ d.1 ++ i32b low ++ i32b high ++ t.1, d.2 ++ t.2)

def encLookupSwitch (lbl : Nat → Option Nat) (p k dflt : Nat) (pairs : List (Int × Nat)) : Enc :=
  let hd := 0xab :: List.replicate (padLen p) 0
  if !sortedKeys pairs then .error .err
  else
    let d := swLabel lbl p k (p + 1 + padLen p) dflt
    let t := swPairs lbl p k (p + 1 + padLen p + 8) pairs
    .ok (hd ++ d.1 ++ i32b pairs.length ++ t.1, d.2 ++ t.2)

/-- the `match &instruction.instruction` of `write_code` for the modelled instructions -/
def encInsn (isWide : Bool) (lbl : Nat → Option Nat) (p k : Nat) : Insn → Enc
  | .simple op => .ok ([op], [])
  | .bipush v => .ok ([0x10, i8b v], [])
  | .sipush v => .ok (0x11 :: i16b v, [])
  | .ldc idx two => .ok (encLdc idx two, [])
  | .load kind idx => .ok (encLocal 0x15 0x1a kind idx, [])
  | .store kind idx => .ok (encLocal 0x36 0x3b kind idx, [])
  | .iinc idx v => .ok (encIinc idx v, [])
  | .ret idx => .ok (encRet idx, [])
  | .ifc c t => encIf c isWide lbl p k t
  | .goto t => encGoto 0xa7 0xc8 isWide lbl p k t
  | .jsr t => encGoto 0xa8 0xc9 isWide lbl p k t
  | .tableswitch d lo hi tb => encTableSwitch lbl p k d lo hi tb
  | .lookupswitch d ps => encLookupSwitch lbl p k d ps
  | .cp op idx => .ok (op :: u16b idx, [])
  | .invokeinterface idx desc =>
    match argsSize desc with
    | .error e => .error e
    | .ok c => .ok (0xb9 :: (u16b idx ++ [c, 0]), [])
  | .newarray a => .ok ([0xbc, a], [])
  | .multianewarray idx d => .ok (0xc5 :: (u16b idx ++ [d]), [])
  | .invokedynamic idx => .ok (0xba :: (u16b idx ++ [0, 0]), [])

/-! ## one attempt -/

structure St where
  /-- the byte vector `w` -/
  w : Array Nat
  /-- `Labels.index_to_offset` / `Labels.labels` restricted to instruction labels: position of instruction `k` -/
  pos : Array Nat
  /-- `unwritten`, in push order -/
  unw : Array Unwritten

def St.init : St := { w := #[], pos := #[], unw := #[] }

/-- body of the `for (instruction_index, instruction)` loop -/
def step (wide : List Nat) (i : Insn) (s : St) : Except Fail St :=
  match s with
  | ⟨w, pos, unw⟩ =>
    let p := w.size
    let k := pos.size
    if p > 65535 then .error .err
    else
      let pos' := pos.push p
      match encInsn (wide.contains k) (fun t => pos'[t]?) p k i with
      | .error e => .error e
      | .ok r => .ok ⟨w ++ r.1, pos', unw ++ r.2⟩

def pass (wide : List Nat) : List Insn → St → Except Fail St
  | [], s => .ok s
  | i :: is, s =>
    match step wide i s with
    | .error e => .error e
    | .ok s' => pass wide is s'

/-- the label table after the pass: instruction labels, then `last_label ↦ w.len() as u16` -/
def labelPos (pos : Array Nat) (len : Nat) (t : Nat) : Option Nat :=
  match pos[t]? with
  | some p => some p
  | none => if t = pos.size then some (len % 65536) else none

def putBytes (w : Array Nat) (at_ : Nat) : Bytes → Array Nat
  | [] => w
  | b :: bs => putBytes (w.setIfInBounds at_ b) (at_ + 1) bs

inductive Resolved where
  | done (w : Array Nat)
  | retry (idx : Nat)
  | fail
  deriving Repr

/-- `for unwritten in unwritten { … }` -/
def resolve (lp : Nat → Option Nat) : List Unwritten → Array Nat → Resolved
  | [], w => .done w
  | u :: us, w =>
    match lp u.label with
    | none => .fail
    | some tp =>
      if u.wide then resolve lp us (putBytes w u.writePos (i32b (offs u.opcodePos tp)))
      else if fitsI16 (offs u.opcodePos tp) then resolve lp us (putBytes w u.writePos (i16b (offs u.opcodePos tp)))
      else .retry u.insnIdx

structure Result where
  code : Bytes
  /-- position of every instruction in the final attempt -/
  pos : Array Nat
  /-- the `wide` set of the final attempt, newest first (one element per failed attempt) -/
  wide : List Nat
  deriving Repr

inductive Outcome where
  | ok (r : Result)
  | err
  | panic
  | outOfFuel
  deriving Repr

/-- the `'a: loop`; `fuel` bounds the number of attempts -/
def write (is : List Insn) : Nat → List Nat → Outcome
  | 0, _ => .outOfFuel
  | fuel + 1, wide =>
    match pass wide is St.init with
    | .error .err => .err
    | .error .panic => .panic
    | .ok s =>
      match resolve (labelPos s.pos s.w.size) s.unw.toList s.w with
      | .fail => .err
      | .retry idx => write is fuel (idx :: wide)
      | .done w =>
        if w.size = 0 ∨ w.size > 65535 then .err
        else .ok { code := w.toList, pos := s.pos, wide := wide }

/-- `write_code`'s code array: at most one attempt per instruction plus one -/
def writeCode (is : List Insn) : Outcome := write is (is.length + 1) []

/-- label table used for everything written after the code array -/
def Result.label (r : Result) (t : Nat) : Option Nat := labelPos r.pos r.code.length t

/-! ## tables written from the labels

Each table is a list of rows of `u16` values; `rowsBytes` is what `write_slice` / the loops emit. -/

def rowsBytes (rows : List (List Nat)) : Bytes := rows.flatMap (fun r => r.flatMap u16b)

structure Exc where
  start : Nat
  stop : Nat
  handler : Nat
  /-- pool index of the catch type, 0 = any -/
  catchIdx : Nat
  deriving Repr

/-- exception table rows `(start_pc, end_pc, handler_pc, catch_type)`; `none` = a label without bytecode offset -/
def excRows (lp : Nat → Option Nat) : List Exc → Option (List (List Nat))
  | [] => some []
  | e :: es =>
    match lp e.start, lp e.stop, lp e.handler, excRows lp es with
    | some a, some b, some c, some rest => some ([a, b, c, e.catchIdx] :: rest)
    | _, _, _, _ => none

/-- `LineNumberTable` rows `(start_pc, line_number)` from entries `(start label, line)` -/
def lineRows (lp : Nat → Option Nat) : List (Nat × Nat) → Option (List (List Nat))
  | [] => some []
  | e :: es =>
    match lp e.1, lineRows lp es with
    | some a, some rest => some ([a, e.2] :: rest)
    | _, _ => none

structure Lv where
  start : Nat
  stop : Nat
  nameIdx : Nat
  descIdx : Nat
  index : Nat
  deriving Repr

/-- `Labels::try_get_range`: `(start, end - start)`, an error when the range ends before it starts (f538c01) -/
def range (lp : Nat → Option Nat) (a b : Nat) : Except Fail (Nat × Nat) :=
  match lp a with
  | none => .error .err
  | some s =>
    match lp b with
    | none => .error .err
    | some e => if e < s then .error .err else .ok (s, e - s)

/-- `LocalVariable(Type)Table` rows `(start_pc, length, name_index, descriptor_index, index)` -/
def lvRows (lp : Nat → Option Nat) : List Lv → Except Fail (List (List Nat))
  | [] => .ok []
  | v :: vs =>
    match range lp v.start v.stop with
    | .error e => .error e
    | .ok r =>
      match lvRows lp vs with
      | .error e => .error e
      | .ok rest => .ok ([r.1, r.2, v.nameIdx, v.descIdx, v.index] :: rest)

end CodeWrite
