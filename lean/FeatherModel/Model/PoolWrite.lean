import FeatherModel.Base.Sexp

/-!
# Model of `duke/src/simple_class_writer/pool.rs` (`PoolWrite`)

Hash-consing constant pool writer: `put` returns the index of an equal entry if there is one, otherwise hands out
`count` and advances it by 1 (2 for long/double), failing when `count` would leave `u16`.
`HashMap<PoolEntry,u16>` + `Vec<PoolEntry>` are one association list (newest first); the Rust uses the map for
membership/lookup only.
-/

namespace PoolWrite

inductive Entry where
  | utf8 (s : JStr)
  | int (v : Int)
  | float (bits : Nat)
  | long (v : Int)
  | double (bits : Nat)
  | cls (name : Nat)
  | str (s : Nat)
  | fieldRef (c nt : Nat)
  | methodRef (c nt : Nat)
  | ifaceMethodRef (c nt : Nat)
  | nameAndType (n d : Nat)
  | methodHandle (kind idx : Nat)
  | methodType (d : Nat)
  | dynamic (b nt : Nat)
  | invokeDynamic (b nt : Nat)
  | module (n : Nat)
  | package (n : Nat)
  deriving DecidableEq, Repr

/-- number of pool slots an entry occupies (`inc` in `PoolWrite::put`) -/
def slots : Entry → Nat
  | .long _ => 2
  | .double _ => 2
  | _ => 1

structure Pool where
  /-- value written as `constant_pool_count`; next index handed out -/
  count : Nat
  /-- entries with their indices, newest first (`inner` is the reverse of the first components) -/
  entries : List (Entry × Nat)
  deriving Repr

def empty : Pool := { count := 1, entries := [] }

def find (e : Entry) : List (Entry × Nat) → Option Nat
  | [] => none
  | (e', i) :: rest => if e' = e then some i else find e rest

/-- `PoolWrite::put`; `none` = "pool count overflowed" -/
def put (p : Pool) (e : Entry) : Option (Nat × Pool) :=
  match find e p.entries with
  | some i => some (i, p)
  | none =>
    if p.count + slots e > 65535 then none
    else some (p.count, { count := p.count + slots e, entries := (e, p.count) :: p.entries })

/-- a sequence of puts, collecting the indices -/
def putAll : Pool → List Entry → Option (List Nat × Pool)
  | p, [] => some ([], p)
  | p, e :: es =>
    match put p e with
    | none => none
    | some (i, p') =>
      match putAll p' es with
      | none => none
      | some (is, p'') => some (i :: is, p'')

/-- the entry stored at index `i` -/
def Pool.get (p : Pool) (i : Nat) : Option Entry :=
  match p.entries.find? (fun x => x.2 == i) with
  | some x => some x.1
  | none => none

/-- the entries in the order they are written to the class file (`inner`) -/
def inner (p : Pool) : List Entry := (p.entries.map (·.1)).reverse

/-! ## derived puts used by the code writer (`put_utf8`, `put_class`, `put_string`, `put_loadable`) -/

def putUtf8 (p : Pool) (s : JStr) : Option (Nat × Pool) := put p (.utf8 s)

def putClass (p : Pool) (name : JStr) : Option (Nat × Pool) :=
  match putUtf8 p name with
  | none => none
  | some (i, p') => put p' (.cls i)

def putString (p : Pool) (s : JStr) : Option (Nat × Pool) :=
  match putUtf8 p s with
  | none => none
  | some (i, p') => put p' (.str i)

/-- `put_name_and_type`: name, descriptor, then the pair -/
def putNameAndType (p : Pool) (name desc : JStr) : Option (Nat × Pool) :=
  match putUtf8 p name with
  | none => none
  | some (n, p) =>
    match putUtf8 p desc with
    | none => none
    | some (d, p) => put p (.nameAndType n d)

/-- `put_field_ref` / `put_method_ref` / `put_interface_method_ref`: class, name-and-type, then the reference
(`kind` 9 = Fieldref, 10 = Methodref, 11 = InterfaceMethodref) -/
def putRef (p : Pool) (kind : Nat) (cls name desc : JStr) : Option (Nat × Pool) :=
  match putClass p cls with
  | none => none
  | some (c, p) =>
    match putNameAndType p name desc with
    | none => none
    | some (nt, p) =>
      put p (if kind = 9 then .fieldRef c nt else if kind = 10 then .methodRef c nt else .ifaceMethodRef c nt)

/-! ## byte image (`PoolWrite::write`); strings restricted to code points 1..127 where MUTF-8 is the identity -/

def be16 (n : Nat) : Bytes := [n / 256 % 256, n % 256]
def be32 (n : Nat) : Bytes := [n / 16777216 % 256, n / 65536 % 256, n / 256 % 256, n % 256]
def be64 (n : Nat) : Bytes := be32 (n / 4294967296 % 4294967296) ++ be32 (n % 4294967296)
def i32bits (v : Int) : Nat := (v % 4294967296).toNat
def i64bits (v : Int) : Nat := (v % 18446744073709551616).toNat

def entryBytes : Entry → Bytes
  | .utf8 s => 1 :: be16 s.length ++ s
  | .int v => 3 :: be32 (i32bits v)
  | .float b => 4 :: be32 b
  | .long v => 5 :: be64 (i64bits v)
  | .double b => 6 :: be64 b
  | .cls n => 7 :: be16 n
  | .str s => 8 :: be16 s
  | .fieldRef c nt => 9 :: be16 c ++ be16 nt
  | .methodRef c nt => 10 :: be16 c ++ be16 nt
  | .ifaceMethodRef c nt => 11 :: be16 c ++ be16 nt
  | .nameAndType n d => 12 :: be16 n ++ be16 d
  | .methodHandle k i => 15 :: (k % 256) :: be16 i
  | .methodType d => 16 :: be16 d
  | .dynamic b nt => 17 :: be16 b ++ be16 nt
  | .invokeDynamic b nt => 18 :: be16 b ++ be16 nt
  | .module n => 19 :: be16 n
  | .package n => 20 :: be16 n

def bytes (p : Pool) : Bytes := be16 p.count ++ (inner p).flatMap entryBytes

end PoolWrite
