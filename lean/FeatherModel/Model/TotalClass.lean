import FeatherModel.Model.TotalBase
import FeatherModel.Model.ClassRead

/-!
# C16 — whole class files: the class reader model of C01 (`ClassRead.read`, imported read-only) as an outcome class

Since e3534dd / 4853513 / 6b80d4b / cb2ce34 every place where C01's model could `crash` is an `Err` of the Rust code, so
the outcome class of a whole file is `ok` or `err`; a `crash` the imported model may still report is an error here.
The unchecked operations of the reader are modelled, with their guards, by `TotalCode` / `TotalAnno` / `TotalDyn`.
-/

namespace Total

def classReadOp (b : Bytes) : TM Unit :=
  match ClassRead.read b with
  | .ok _ => pure ()
  | _ => TM.fail

end Total
