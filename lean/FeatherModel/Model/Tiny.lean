import FeatherModel.Model.Mappings

/-!
# Tiny v2 reader and writer (C03)
`quill/src/tiny_v2.rs` (`read`, `write`, `escape`, `unescape`, `add_comment`), `quill/src/lines.rs`
(`TinyLine`, `WithMoreIdentIter`), `quill/src/tree/mappings.rs` (`add_child`), name checks of
`duke/src/tree/mod.rs` (`mod names`).

Text is a list of code points. The model mirrors the code *as it is* (after the fixes a79b1fd, 4f3eba6 and the header
section fix), including:
* comments are escaped (`\\`, `\n`, `\r`, `\t`) and `unescape` keeps a backslash that starts no escape sequence;
* `write` refuses (clean `Err`, `write? = none`) a namespace, name or descriptor that contains TAB / LF / CR or is not
  valid UTF-8 (lone surrogate) - function `cell` of `tiny_v2.rs`;
* the comment of the mapping set itself is written as a property line of the header section (indentation 1, directly
  after the header line) and `read` consumes that section before the class loop: a `c` line there sets the comment (a
  second one is an error), other property lines are ignored, deeper indentation is an error (`headerSec`).
-/

namespace Tiny

/-! ## text primitives -/

/-- `escape`: `s.replace('\\', "\\\\").replace('\n', "\\n").replace('\r', "\\r").replace('\t', "\\t")`. The four replacements act
on different characters and none produces a character a later one looks for (the backslashes produced by the later ones
come after the backslash replacement), so the chain is this simultaneous substitution. -/
def escape (s : JStr) : JStr := s.flatMap fun c =>
  if c = 92 then [92, 92] else if c = 10 then [92, 110] else if c = 13 then [92, 114] else if c = 9 then [92, 116] else [c]

/-- `unescape`: left to right; backslash followed by `\`, `n`, `r`, `t` is one character, any other backslash stays -/
def unescape : JStr → JStr
  | [] => []
  | [c] => [c]
  | a :: b :: rest =>
    if a = 92 then
      if b = 92 then 92 :: unescape rest
      else if b = 110 then 10 :: unescape rest
      else if b = 114 then 13 :: unescape rest
      else if b = 116 then 9 :: unescape rest
      else 92 :: unescape (b :: rest)
    else a :: unescape (b :: rest)

/-- `str::split(sep)`: always at least one piece -/
def splitOn (sep : Nat) : List Nat → List (List Nat)
  | [] => [[]]
  | c :: rest =>
    if c = sep then [] :: splitOn sep rest
    else match splitOn sep rest with
      | [] => [[c]]
      | f :: fs => (c :: f) :: fs

/-- `BufRead::lines`: split on LF, a CR directly before the LF is dropped (one only, and only when the LF is there);
a final line without LF counts when it is non-empty -/
def lines : List Nat → List (List Nat)
  | [] => []
  | [c] => if c = 10 then [[]] else [[c]]
  | a :: b :: rest =>
    if a = 10 then [] :: lines (b :: rest)
    else if a = 13 ∧ b = 10 then [] :: lines rest
    else match lines (b :: rest) with
      | [] => [[a]]
      | l :: ls => (a :: l) :: ls

structure TLine where
  indent : Nat
  first : JStr
  fields : List JStr
  deriving Repr, DecidableEq

/-- `TinyLine::new` (never fails: `split` yields at least one piece) -/
def tinyLine (l : List Nat) : TLine :=
  let i := (l.takeWhile (· == 9)).length
  match splitOn 9 (l.drop i) with
  | [] => { indent := i, first := [], fields := [] }
  | f :: fs => { indent := i, first := f, fields := fs }

def textLines (text : List Nat) : List TLine := (lines text).map tinyLine

/-! ## name checks (`duke/src/tree/mod.rs`, `mod names`) and `usize` parsing -/

/-- `is_valid_unqualified_name`: non-empty, none of `.` `;` `[` `/` -/
def validUnq (s : JStr) : Bool := !s.isEmpty && s.all fun c => c != 46 && c != 59 && c != 91 && c != 47

/-- `is_valid_obj_class_name` -/
def validClass (s : JStr) : Bool := s.head? != some 91 && (splitOn 47 s).all validUnq

/-- `is_valid_method_name` -/
def validMethod (s : JStr) : Bool :=
  s == [60, 105, 110, 105, 116, 62] || s == [60, 99, 108, 105, 110, 105, 116, 62] ||
    (!s.isEmpty && s.all fun c => c != 46 && c != 59 && c != 91 && c != 47 && c != 60 && c != 62)

def USIZE_LIMIT : Nat := 18446744073709551616

def stripPlus : JStr → JStr
  | 43 :: r => r
  | s => s

/-- `str::parse::<usize>()`: optional `+`, then one or more ASCII digits, value below 2^64.
(Rust checks overflow step by step; prefixes of a digit string have smaller values, so checking the final value is the same function.) -/
def parseUsize (s : JStr) : Option Nat :=
  if (stripPlus s).isEmpty then none
  else if (stripPlus s).all (fun c => decide (48 ≤ c) && decide (c ≤ 57)) then
    if (stripPlus s).foldl (fun a c => a * 10 + (c - 48)) 0 < USIZE_LIMIT then
      some ((stripPlus s).foldl (fun a c => a * 10 + (c - 48)) 0)
    else none
  else none

def digitsAux : Nat → Nat → List Nat → List Nat
  | 0, _, acc => acc
  | fuel + 1, n, acc => if n < 10 then (48 + n) :: acc else digitsAux fuel (n / 10) ((48 + n % 10) :: acc)

/-- decimal digits of a number (`Display for usize`) -/
def natDigits (n : Nat) : List Nat := digitsAux (n + 1) n []

/-- `TinyLine::into_names::<N, T>` with `valid` the check of `T::try_from` -/
def intoNames (valid : JStr → Bool) (n : Nat) (fields : List JStr) : Option Names :=
  if fields.any (fun f => !f.isEmpty && !valid f) then none
  else if fields.length ≠ n then none
  else some (fields.map fun f => if f.isEmpty then none else some f)

/-- `Names::first_name` -/
def firstName (names : Names) : Option JStr :=
  match names with
  | some k :: _ => some k
  | _ => none

/-! ## sort keys: derived `Ord` of `ClassMapping`, `FieldMapping`, `MethodMapping`, `ParameterMapping` -/

def natLe (a b : Nat) : Bool := decide (a ≤ b)

/-- lexicographic order of slices / arrays -/
def lexLe {α : Type} (le : α → α → Bool) : List α → List α → Bool
  | [], _ => true
  | _ :: _, [] => false
  | a :: as, b :: bs => if le a b then (if le b a then lexLe le as bs else true) else false

/-- `None < Some` -/
def optLe {α : Type} (le : α → α → Bool) : Option α → Option α → Bool
  | none, _ => true
  | some _, none => false
  | some a, some b => le a b

/-- lexicographic order of two struct fields -/
def pairLe {α β : Type} (le1 : α → α → Bool) (le2 : β → β → Bool) (a b : α × β) : Bool :=
  if le1 a.1 b.1 then (if le1 b.1 a.1 then le2 a.2 b.2 else true) else false

/-- strings compare as UTF-8 bytes, which is code point order -/
def strLe : JStr → JStr → Bool := lexLe natLe
def namesLe : Names → Names → Bool := lexLe (optLe strLe)

def classLe (a b : Class) : Bool := namesLe a.names b.names
def fieldLe (a b : Field) : Bool := pairLe strLe namesLe (a.desc, a.names) (b.desc, b.names)
def methodLe (a b : Method) : Bool := pairLe strLe namesLe (a.desc, a.names) (b.desc, b.names)
def paramLe (a b : Param) : Bool := pairLe natLe namesLe (a.index, a.names) (b.index, b.names)

/-- stable insertion (an element goes before the first element that is not smaller) -/
def insertBy {α : Type} (le : α → α → Bool) (a : α) : List α → List α
  | [] => [a]
  | b :: l => if le a b then a :: b :: l else b :: insertBy le a l

/-- `sort_by_key` (stable): insertion sort -/
def sortBy {α : Type} (le : α → α → Bool) (l : List α) : List α := l.foldr (insertBy le) []

/-! ## `write` -/

def isSurrogate (c : Nat) : Bool := decide (55296 ≤ c) && decide (c ≤ 57343)

/-- `write_names`: a TAB before every cell, absent names are empty cells -/
def namesCells (names : Names) : List Nat := names.flatMap fun o => 9 :: o.getD []

def docLines (indent : Nat) : Option JStr → List (List Nat)
  | none => []
  | some d => [List.replicate indent 9 ++ [99, 9] ++ escape d]

def paramLines (p : Param) : List (List Nat) :=
  ([9, 9, 112, 9] ++ natDigits p.index ++ namesCells p.names) :: docLines 3 p.doc

def fieldLines (f : Field) : List (List Nat) :=
  ([9, 102, 9] ++ f.desc ++ namesCells f.names) :: docLines 2 f.doc

def methodLines (m : Method) : List (List Nat) :=
  ([9, 109, 9] ++ m.desc ++ namesCells m.names) :: (docLines 2 m.doc ++
    (sortBy paramLe m.params.values).flatMap paramLines)

def classLines (c : Class) : List (List Nat) :=
  ([99] ++ namesCells c.names) :: (docLines 1 c.doc ++
    ((sortBy fieldLe c.fields.values).flatMap fieldLines ++
     (sortBy methodLe c.methods.values).flatMap methodLines))

def headerLine (ns : List JStr) : List Nat := [116, 105, 110, 121, 9, 50, 9, 48] ++ ns.flatMap (9 :: ·)

def writeLines (m : Mappings) : List (List Nat) :=
  headerLine m.ns :: (docLines 1 m.doc ++ (sortBy classLe m.classes.values).flatMap classLines)

/-- the text `write` produces when it does not refuse a cell -/
def write (m : Mappings) : List Nat := (writeLines m).flatMap (· ++ [10])

/-- function `cell`: valid UTF-8 (no lone surrogate) and none of TAB, LF, CR -/
def cellOk (s : JStr) : Bool := s.all fun c => c != 9 && c != 10 && c != 13 && !isSurrogate c

def namesWritable (names : Names) : Bool :=
  names.all fun o => match o with
    | none => true
    | some s => cellOk s

/-- every namespace, present name and descriptor passes `cell` -/
def writeOk (m : Mappings) : Bool :=
  m.ns.all cellOk && m.classes.all fun (_, c) => namesWritable c.names &&
    c.fields.all (fun (_, f) => cellOk f.desc && namesWritable f.names) &&
    c.methods.all (fun (_, me) => cellOk me.desc && namesWritable me.names && me.params.all (fun (_, p) => namesWritable p.names))

/-- `write_vec`: `none` is the `Err` of the first refused cell (nothing else can fail: the sink is a `Vec`) -/
def write? (m : Mappings) : Option (List Nat) := if writeOk m then some (write m) else none

/-! ## `read`
The reader inserts every node into its parent's map when its line is met (`add_child`) and then keeps mutating that
*last* entry while the nested `WithMoreIdentIter` loops consume the deeper lines. The state is therefore the tree built
so far, the depth of the innermost active loop, and whether the open member (depth 2) is a field or a method. -/

inductive Kind where
  | field | method
  deriving Repr, DecidableEq

structure St where
  depth : Nat
  kind : Kind
  classes : AList JStr Class
  deriving Repr, DecidableEq

/-- mutate the last element (the `&mut` returned by `add_child`) -/
def modLast {α : Type} (f : α → Option α) : List α → Option (List α)
  | [] => none
  | [x] => (f x).map fun y => [y]
  | x :: y :: r => (modLast f (y :: r)).map fun l => x :: l

def modLastV {K V : Type} (f : V → Option V) (m : AList K V) : Option (AList K V) :=
  modLast (fun e => (f e.2).map fun v => (e.1, v)) m

/-- `TinyLine::end` then `unescape` -/
def commentOf (l : TLine) : Option JStr :=
  match l.fields with
  | [c] => some (unescape c)
  | _ => none

/-- `add_comment` -/
def setDoc (old : Option JStr) (l : TLine) : Option (Option JStr) :=
  match commentOf l with
  | none => none
  | some c => if old.isSome then none else some (some c)

def C_ : JStr := [99]
def F_ : JStr := [102]
def M_ : JStr := [109]
def P_ : JStr := [112]

def addClass (n : Nat) (l : TLine) (cs : AList JStr Class) : Option (AList JStr Class) :=
  match intoNames validClass n l.fields with
  | none => none
  | some names =>
    match firstName names with
    | none => none
    | some key => AList.insertNew key { names := names, doc := none, fields := [], methods := [] } cs

def addField (n : Nat) (l : TLine) (c : Class) : Option Class :=
  match l.fields with
  | [] => none
  | desc :: rest =>
    match intoNames validUnq n rest with
    | none => none
    | some names =>
      match firstName names with
      | none => none
      | some name =>
        match AList.insertNew (name, desc) { desc := desc, names := names, doc := none } c.fields with
        | none => none
        | some fs => some { c with fields := fs }

def addMethod (n : Nat) (l : TLine) (c : Class) : Option Class :=
  match l.fields with
  | [] => none
  | desc :: rest =>
    match intoNames validMethod n rest with
    | none => none
    | some names =>
      match firstName names with
      | none => none
      | some name =>
        match AList.insertNew (name, desc) { desc := desc, names := names, doc := none, params := [] } c.methods with
        | none => none
        | some ms => some { c with methods := ms }

def addParam (n : Nat) (l : TLine) (m : Method) : Option Method :=
  match l.fields with
  | [] => none
  | idx :: rest =>
    match parseUsize idx with
    | none => none
    | some index =>
      match intoNames validUnq n rest with
      | none => none
      | some names =>
        match AList.insertNew index { index := index, names := names, doc := none } m.params with
        | none => none
        | some ps => some { m with params := ps }

def classDoc (l : TLine) (c : Class) : Option Class := (setDoc c.doc l).map fun d => { c with doc := d }
def fieldDoc (l : TLine) (f : Field) : Option Field := (setDoc f.doc l).map fun d => { f with doc := d }
def methodDoc (l : TLine) (m : Method) : Option Method := (setDoc m.doc l).map fun d => { m with doc := d }
def paramDoc (l : TLine) (p : Param) : Option Param := (setDoc p.doc l).map fun d => { p with doc := d }

def inLastField (f : Field → Option Field) (c : Class) : Option Class :=
  (modLastV f c.fields).map fun fs => { c with fields := fs }
def inLastMethod (f : Method → Option Method) (c : Class) : Option Class :=
  (modLastV f c.methods).map fun ms => { c with methods := ms }
def inLastParam (f : Param → Option Param) (m : Method) : Option Method :=
  (modLastV f m.params).map fun ps => { m with params := ps }

/-- one line through the nested `on_every_line` loops: a line deeper than the innermost active loop is an error, a
shallower one ends the deeper loops, a line with an unknown first field is ignored (and opens no deeper loop) -/
def step (n : Nat) (s : St) (l : TLine) : Option St :=
  if s.depth < l.indent then none
  else match l.indent with
  | 0 =>
    if l.first = C_ then (addClass n l s.classes).map fun cs => { s with depth := 1, classes := cs }
    else some { s with depth := 0 }
  | 1 =>
    if l.first = F_ then (modLastV (addField n l) s.classes).map fun cs => { depth := 2, kind := .field, classes := cs }
    else if l.first = M_ then (modLastV (addMethod n l) s.classes).map fun cs => { depth := 2, kind := .method, classes := cs }
    else if l.first = C_ then (modLastV (classDoc l) s.classes).map fun cs => { s with depth := 1, classes := cs }
    else some { s with depth := 1 }
  | 2 =>
    match s.kind with
    | .field =>
      if l.first = C_ then (modLastV (inLastField (fieldDoc l)) s.classes).map fun cs => { s with depth := 2, classes := cs }
      else some { s with depth := 2 }
    | .method =>
      if l.first = P_ then (modLastV (inLastMethod (addParam n l)) s.classes).map fun cs => { s with depth := 3, classes := cs }
      else if l.first = C_ then (modLastV (inLastMethod (methodDoc l)) s.classes).map fun cs => { s with depth := 2, classes := cs }
      else some { s with depth := 2 }
  | 3 =>
    if l.first = C_ then
      (modLastV (inLastMethod (inLastParam (paramDoc l))) s.classes).map fun cs => { s with depth := 3, classes := cs }
    else some { s with depth := 3 }
  | _ => none

def run (n : Nat) : St → List TLine → Option St
  | s, [] => some s
  | s, l :: ls =>
    match step n s l with
    | none => none
    | some s' => run n s' ls

def TINY : JStr := [116, 105, 110, 121]

/-- the section of the header itself, `WithMoreIdentIter::new(&mut lines).next_level().on_every_line(..)`: the loop at
depth 1 directly after the header line. A line at indentation 0 (or the end of the input) ends it and is left for the
class loop; a deeper line is the iterator's error; a `c` line is `add_comment(&mut mappings.javadoc, line)`; every other
property line is ignored. Result: the comment and the lines that are left. -/
def headerSec : Option JStr → List TLine → Option (Option JStr × List TLine)
  | doc, [] => some (doc, [])
  | doc, l :: ls =>
    match l.indent with
    | 0 => some (doc, l :: ls)
    | 1 =>
      if l.first = C_ then
        match setDoc doc l with
        | none => none
        | some d => headerSec d ls
      else headerSec doc ls
    | _ => none

/-- `tiny_v2::read::<N>`. The final "expected end of input" check of the Rust code is unreachable: the depth-0 loop only
stops at the end of the input. The indentation of the header line is not looked at. -/
def read (n : Nat) (text : List Nat) : Option Mappings :=
  if n < 2 then none
  else match textLines text with
  | [] => none
  | h :: ls =>
    if h.first ≠ TINY then none
    else match h.fields with
    | two :: zero :: nss =>
      if two ≠ [50] then none
      else if zero ≠ [48] then none
      else if nss.length ≠ n then none
      else if nss.any (·.isEmpty) then none
      else match headerSec none ls with
        | none => none
        | some (doc, body) =>
          match run n { depth := 0, kind := .field, classes := [] } body with
          | none => none
          | some s => some { ns := nss, doc := doc, classes := s.classes }
    | _ => none

/-! ## canonical form, well-formedness and the proved domain (all decidable, shared with the driver) -/

def sortKV {K V : Type} (le : V → V → Bool) (m : AList K V) : AList K V := sortBy (fun a b => le a.2 b.2) m

def canonMethod (m : Method) : Method := { m with params := sortKV paramLe m.params }
def canonClass (c : Class) : Class :=
  { c with fields := sortKV fieldLe c.fields, methods := sortKV methodLe (AList.mapVals canonMethod c.methods) }
/-- every level in the order `write` emits it -/
def canon (m : Mappings) : Mappings := { m with classes := sortKV classLe (AList.mapVals canonClass m.classes) }

def keysNodup {K V : Type} [BEq K] : AList K V → Bool
  | [] => true
  | (k, _) :: rest => !(AList.contains k rest) && keysNodup rest

/-- map invariants of `quill`: keys are unique and equal to the key derived from the entry (`ToKey`) -/
def wfMethod (m : Method) : Bool := keysNodup m.params && m.params.all fun (k, p) => k == p.index
def wfClass (c : Class) : Bool :=
  keysNodup c.fields && (c.fields.all fun (k, f) => firstName f.names == some k.1 && k.2 == f.desc) &&
  keysNodup c.methods && (c.methods.all fun (k, m) => firstName m.names == some k.1 && k.2 == m.desc && wfMethod m)
def wf (m : Mappings) : Bool :=
  keysNodup m.classes && m.classes.all fun (k, c) => firstName c.names == some k && wfClass c

def namesOk (valid : JStr → Bool) (n : Nat) (names : Names) : Bool :=
  names.length == n && names.all fun o => match o with
    | none => true
    | some s => !s.isEmpty && cellOk s && valid s

def paramOk (n : Nat) (p : Param) : Bool := decide (p.index < USIZE_LIMIT) && namesOk validUnq n p.names
def fieldOk (n : Nat) (f : Field) : Bool := cellOk f.desc && namesOk validUnq n f.names
def methodOk (n : Nat) (m : Method) : Bool :=
  cellOk m.desc && namesOk validMethod n m.names && m.params.all fun (_, p) => paramOk n p
def classOk (n : Nat) (c : Class) : Bool :=
  namesOk validClass n c.names && (c.fields.all fun (_, f) => fieldOk n f) && c.methods.all fun (_, m) => methodOk n m

/-- the proved domain of the round trip and of the fixed point: what `write` accepts (`cellOk`), names valid for their
newtype and present in the first namespace where they are keys (`wf`). All comments - of the mapping set itself, of
classes, fields, methods and parameters - are arbitrary. -/
def writable (n : Nat) (m : Mappings) : Bool :=
  decide (2 ≤ n) && m.ns.length == n && (m.ns.all fun s => !s.isEmpty && cellOk s) &&
    wf m && m.classes.all fun (_, c) => classOk n c

/-! ### content equality: the same entries in any insertion order at every level (decided through key order) -/

def keyStrLe (a b : JStr × Class) : Bool := strLe a.1 b.1
def memberKeyLe (a b : MemberKey) : Bool := pairLe strLe strLe a b

def paramsEqB (a b : AList Nat Param) : Bool :=
  decide (sortBy (fun x y => natLe x.1 y.1) a = sortBy (fun x y => natLe x.1 y.1) b)

def all2B {α β : Type} (r : α → β → Bool) : List α → List β → Bool
  | [], [] => true
  | a :: as, b :: bs => r a b && all2B r as bs
  | _, _ => false

def methodEqB (a b : Method) : Bool :=
  a.desc == b.desc && a.names == b.names && a.doc == b.doc && paramsEqB a.params b.params

def classEqB (a b : Class) : Bool :=
  a.names == b.names && a.doc == b.doc &&
    decide (sortBy (fun x y => memberKeyLe x.1 y.1) a.fields = sortBy (fun x y => memberKeyLe x.1 y.1) b.fields) &&
    all2B (fun x y => x.1 == y.1 && methodEqB x.2 y.2)
      (sortBy (fun x y => memberKeyLe x.1 y.1) a.methods) (sortBy (fun x y => memberKeyLe x.1 y.1) b.methods)

def contentEqB (a b : Mappings) : Bool :=
  a.ns == b.ns && a.doc == b.doc &&
    all2B (fun x y => x.1 == y.1 && classEqB x.2 y.2)
      (sortBy (fun x y => strLe x.1 y.1) a.classes) (sortBy (fun x y => strLe x.1 y.1) b.classes)


/-! ### how the reader classifies lines; entry counts (used by the `read_counts` theorem and its oracle) -/

/-- the lines after the header line that belong to the header's own section: everything before the first line at
indentation 0 (a function of the text alone) -/
def headerPart (ls : List TLine) : List TLine := ls.takeWhile fun l => l.indent != 0

/-- the lines the class loop sees: from the first line at indentation 0 on -/
def bodyPart (ls : List TLine) : List TLine := ls.dropWhile fun l => l.indent != 0

/-- the comment lines of a header section -/
def headerDocLines (ls : List TLine) : List TLine := (headerPart ls).filter fun l => l.first == C_

/-- the comment a header section yields, from the text alone: the cell of its first comment line, unescaped -/
def headerDoc (ls : List TLine) : Option JStr := (headerDocLines ls).head?.bind commentOf

/-- decidable shape of a refused header section: a line deeper than a property line, or more than one comment -/
def headerBad (ls : List TLine) : Bool :=
  (headerPart ls).any (fun l => decide (2 ≤ l.indent)) || decide (2 ≤ (headerDocLines ls).length)

/-- `ls'` is `ls` without its line `k`, which stands in the header section and is a property line other than a comment -/
def ignoredAt (ls ls' : List TLine) (k : Nat) : Bool :=
  match ls[k]? with
  | some l => ((ls.take k).all fun x => x.indent != 0) && l.indent == 1 && l.first != C_ && ls' == ls.eraseIdx k
  | none => false

/-- line `k` stands at indentation 0 and is no class line, line `k + 1` is indented -/
def orphanAt (ls : List TLine) (k : Nat) : Bool :=
  match ls[k]?, ls[k + 1]? with
  | some l0, some l => l0.indent == 0 && l0.first != C_ && decide (1 ≤ l.indent)
  | _, _ => false

/-- how `step` treats a line, given the kind of the member that was opened last -/
inductive LineKind where
  | cls | fld | mth | par | doc | skip
  deriving Repr, DecidableEq

def lineKind (k : Kind) (l : TLine) : LineKind :=
  match l.indent with
  | 0 => if l.first = C_ then .cls else .skip
  | 1 => if l.first = F_ then .fld else if l.first = M_ then .mth else if l.first = C_ then .doc else .skip
  | 2 =>
    match k with
    | .field => if l.first = C_ then .doc else .skip
    | .method => if l.first = P_ then .par else if l.first = C_ then .doc else .skip
  | _ => if l.first = C_ then .doc else .skip

/-- the member kind after a line: only `f` and `m` lines at indentation 1 change it -/
def kindAfter (k : Kind) (l : TLine) : Kind :=
  if l.indent = 1 then (if l.first = F_ then .field else if l.first = M_ then .method else k) else k

/-- the classification of every line of a body, from the text alone -/
def lineKinds : Kind → List TLine → List LineKind
  | _, [] => []
  | k, l :: ls => lineKind k l :: lineKinds (kindAfter k l) ls

def docN (d : Option JStr) : Nat := if d.isSome then 1 else 0

/-- comments in a method entry -/
def methodDocs (m : Method) : Nat := docN m.doc + (m.params.map fun e => docN e.2.doc).sum
/-- comments in a class entry -/
def classDocs (c : Class) : Nat :=
  docN c.doc + (c.fields.map fun e => docN e.2.doc).sum + (c.methods.map fun e => methodDocs e.2).sum
def classParams (c : Class) : Nat := (c.methods.map fun e => e.2.params.length).sum

/-- number of entries of one kind in a class map (`.doc`: comments at all levels below the top) -/
def countOf : LineKind → AList JStr Class → Nat
  | .cls, cs => cs.length
  | .fld, cs => (cs.map fun e => e.2.fields.length).sum
  | .mth, cs => (cs.map fun e => e.2.methods.length).sum
  | .par, cs => (cs.map fun e => classParams e.2).sum
  | .doc, cs => (cs.map fun e => classDocs e.2).sum
  | .skip, _ => 0

/-- the class-map part of `wf` -/
def wfCs (cs : AList JStr Class) : Bool :=
  keysNodup cs && cs.all fun (k, c) => firstName c.names == some k && wfClass c


/-! ### decidable shapes of two sibling lines with the same key (domain of the `read_dup` theorems and their oracle) -/

def isLine (indent : Nat) (first : JStr) (l : TLine) : Bool := l.indent == indent && l.first == first

/-- the lines strictly between positions `i` and `j` -/
def between (ls : List TLine) (i j : Nat) : List TLine := (ls.drop (i + 1)).take (j - i - 1)

/-- lines `i < j` are class lines with the same first cell -/
def dupClassAt (ls : List TLine) (i j : Nat) : Bool :=
  match ls[i]?, ls[j]? with
  | some a, some b => decide (i < j) && isLine 0 C_ a && isLine 0 C_ b && a.fields.head? == b.fields.head?
  | _, _ => false

/-- lines `i < j` are field (method) lines of one class with the same descriptor and first name -/
def dupMemberAt (first : JStr) (ls : List TLine) (i j : Nat) : Bool :=
  match ls[i]?, ls[j]? with
  | some a, some b =>
    decide (i < j) && isLine 1 first a && isLine 1 first b && a.fields.take 2 == b.fields.take 2 &&
      (between ls i j).all fun l => decide (1 ≤ l.indent)
  | _, _ => false

/-- lines `i < j` are parameter lines with the same index under the method line `m` -/
def dupParamAt (ls : List TLine) (m i j : Nat) : Bool :=
  match ls[m]?, ls[i]?, ls[j]? with
  | some lm, some a, some b =>
    decide (m < i) && decide (i < j) && isLine 1 M_ lm && isLine 2 P_ a && isLine 2 P_ b &&
      (a.fields.head?.bind parseUsize == b.fields.head?.bind parseUsize) &&
      ((between ls m i).all fun l => decide (2 ≤ l.indent)) && ((between ls i j).all fun l => decide (2 ≤ l.indent))
  | _, _, _ => false

def dupAt (ls : List TLine) (m i j : Nat) : Bool :=
  dupClassAt ls i j || dupMemberAt F_ ls i j || dupMemberAt M_ ls i j || dupParamAt ls m i j


end Tiny
