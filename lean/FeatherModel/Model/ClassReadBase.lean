import FeatherModel.Base.Sexp

/-!
# C01 (reused by C16/C17) — base of the class-file reader model

Mirrors `duke/src/lib.rs` (`trait ClassRead` over `Read + Seek`).

* `Outcome`: `ok` / `err` (every `bail!`, `?` on an I/O error, `try_from` failure; the error text is not modelled) /
  `crash site` (an unchecked Rust operation reachable from input; overflow checks are on).
* The reader state is the *unread suffix* of the input (`Bytes`); `marker()`/`goto()` become "remember a suffix /
  continue from a remembered suffix".  `skip(n)` is `SeekFrom::Current(n)` on a `Cursor`: it may move past the end
  without an error, every later read of >= 1 byte then fails; `List.drop` has exactly this behaviour.
* Integers are `Nat`/`Int`; big endian; `i8/i16/i32/i64` are two's complement reinterpretations.
-/

namespace ClassRead

/-- Sites of unchecked operations of the reader that were reachable from input (Rust built with overflow checks).
All four were repaired upstream (e3534dd, 4853513, 6b80d4b, cb2ce34: each is an `err` now); the model of the current
reader produces no `crash` any more.  The type and its constructors are kept because C16 refers to them. -/
inductive Site where
  /-- `labels.rs` `get_or_create_range`: `start_pc + length` in `u16` -/
  | labelsRangeAdd
  /-- `labels.rs` `get_or_add_unchecked`: `self.max_id += 1` in `u16` (the 65536th label) -/
  | labelsMaxId
  /-- `class_reader.rs` StackMapTable: `offset += offset_delta + (if i == 0 {0} else {1})` in `u16` -/
  | frameOffsetAdd
  /-- unbounded recursion (`Dynamic` constant reachable from its own bootstrap arguments): stack exhaustion -/
  | recursion
  deriving DecidableEq, Repr, Inhabited

/-- table "site -> what the harness reports for it" (file of the panic location; line numbers are not compared) -/
def Site.file : Site → String
  | .labelsRangeAdd => "labels"
  | .labelsMaxId => "labels"
  | .frameOffsetAdd => "class_reader"
  | .recursion => "stack"

inductive Outcome (α : Type) where
  | ok (a : α)
  | err
  | crash (s : Site)
  deriving Repr, Inhabited

namespace Outcome

@[inline] def bind {α β : Type} : Outcome α → (α → Outcome β) → Outcome β
  | ok a, f => f a
  | err, _ => err
  | crash s, _ => crash s

instance : Monad Outcome where
  pure := ok
  bind := bind

@[simp] theorem pure_eq {α : Type} (a : α) : (pure a : Outcome α) = ok a := rfl
@[simp] theorem ok_bind {α β : Type} (a : α) (f : α → Outcome β) : (ok a >>= f) = f a := rfl
@[simp] theorem err_bind {α β : Type} (f : α → Outcome β) : ((err : Outcome α) >>= f) = err := rfl
@[simp] theorem crash_bind {α β : Type} (s : Site) (f : α → Outcome β) : ((crash s : Outcome α) >>= f) = crash s := rfl
@[simp] theorem map_ok {α β : Type} (f : α → β) (a : α) : (f <$> (ok a : Outcome α)) = ok (f a) := rfl

/-- `Option` results of pure helper functions: `None`/`Err` becomes `err` -/
def ofOption {α : Type} : Option α → Outcome α
  | some a => ok a
  | none => err

@[simp] theorem ofOption_some {α : Type} (a : α) : ofOption (some a) = ok a := rfl
@[simp] theorem ofOption_none {α : Type} : ofOption (none : Option α) = err := rfl

def isOk {α : Type} : Outcome α → Bool
  | ok _ => true
  | _ => false

end Outcome

open Outcome

/-- a reader: consumes a prefix of the unread bytes -/
abbrev Rd (α : Type) := Bytes → Outcome (α × Bytes)

def u8 : Rd Nat
  | a :: r => ok (a, r)
  | _ => err

def u16 : Rd Nat
  | a :: b :: r => ok (a * 256 + b, r)
  | _ => err

def u32 : Rd Nat
  | a :: b :: c :: d :: r => ok (((a * 256 + b) * 256 + c) * 256 + d, r)
  | _ => err

def u64 : Rd Nat := fun s => do
  let (h, s) ← u32 s
  let (l, s) ← u32 s
  pure (h * 4294967296 + l, s)

def toI8 (n : Nat) : Int := if n < 128 then (n : Int) else (n : Int) - 256
def toI16 (n : Nat) : Int := if n < 32768 then (n : Int) else (n : Int) - 65536
def toI32 (n : Nat) : Int := if n < 2147483648 then (n : Int) else (n : Int) - 4294967296
def toI64 (n : Nat) : Int := if n < 9223372036854775808 then (n : Int) else (n : Int) - 18446744073709551616

def i8 : Rd Int := fun s => do let (n, s) ← u8 s; pure (toI8 n, s)
def i16 : Rd Int := fun s => do let (n, s) ← u16 s; pure (toI16 n, s)
def i32 : Rd Int := fun s => do let (n, s) ← u32 s; pure (toI32 n, s)
def i64 : Rd Int := fun s => do let (n, s) ← u64 s; pure (toI64 n, s)

/-- `n ≤ s.length` without walking further than `n` elements -/
def lengthGe : Bytes → Nat → Bool
  | _, 0 => true
  | [], _ + 1 => false
  | _ :: r, n + 1 => lengthGe r n

/-- `read_u8_vec(n)`: exactly `n` bytes or an error -/
def takeN (n : Nat) : Rd Bytes := fun s =>
  if lengthGe s n then ok (s.take n, s.drop n) else err

/-- `skip(n)`: seek forward, possibly past the end -/
def skipN (n : Nat) : Rd Unit := fun s => ok ((), s.drop n)

/-- `read_vec(size, elem)` once the size is known: `n` elements in order -/
def readVec {α : Type} (elem : Rd α) : Nat → Rd (List α)
  | 0, s => ok ([], s)
  | n + 1, s => do
    let (x, s) ← elem s
    let (xs, s) ← readVec elem n s
    pure (x :: xs, s)

/-- `read_vec(|r| r.read_u16_as_usize(), elem)` -/
def readVec16 {α : Type} (elem : Rd α) : Rd (List α) := fun s => do
  let (n, s) ← u16 s
  readVec elem n s

/-- `read_vec` whose element reader threads a state (the label table) -/
def readVecS {σ α : Type} (elem : σ → Bytes → Outcome (α × σ × Bytes)) : Nat → σ → Bytes → Outcome (List α × σ × Bytes)
  | 0, st, s => ok ([], st, s)
  | n + 1, st, s => do
    let (x, st, s) ← elem st s
    let (xs, st, s) ← readVecS elem n st s
    pure (x :: xs, st, s)

/-- `Option::insert_if_empty` -/
def insertIfEmpty {α : Type} : Option α → α → Outcome (Option α)
  | none, a => ok (some a)
  | some _, _ => err

/-! ## big-endian writers (used by the specification side and by examples) -/

def be8 (n : Nat) : Bytes := [n % 256]
def be16 (n : Nat) : Bytes := [n / 256 % 256, n % 256]
def be32 (n : Nat) : Bytes := [n / 16777216 % 256, n / 65536 % 256, n / 256 % 256, n % 256]
def be64 (n : Nat) : Bytes := be32 (n / 4294967296) ++ be32 (n % 4294967296)

def ofI8 (v : Int) : Nat := (v % 256).toNat
def ofI16 (v : Int) : Nat := (v % 65536).toNat
def ofI32 (v : Int) : Nat := (v % 4294967296).toNat
def ofI64 (v : Int) : Nat := (v % 18446744073709551616).toNat

end ClassRead
