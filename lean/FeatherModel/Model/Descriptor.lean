import FeatherModel.Base.Sexp

/-!
# Descriptors and name predicates (C18)

Model of `duke/src/tree/descriptor.rs` (`read_field_type`, `write_field_type`, the three `parse`s, the three
`write`s, `get_arguments_size`, `FieldDescriptor::from_class`), of `duke/src/tree/mod.rs` `mod names` and of the
checked newtypes built on it (`ClassName`, `ArrClassName`, `ObjClassName`, `FieldName`, `MethodName`, `ParameterName`,
`LocalVariableName`; the unchecked `FieldDescriptor` / `MethodDescriptor` / `ReturnDescriptor`),
`ArrClassNameSlice::dimension`, `ObjClassNameSlice::get_simple_name`.

Strings are `JStr = List Nat` (code points).  Every error of the Rust code is `none` (the correspondence prints
`err e`); the two places where the Rust code can *panic* are modelled explicitly:

* `write_field_type` contains `assert!(!class_name.starts_with('['))` in the `Type::Object` and in the
  `ArrayType::Object` arm.  `Type::Object` holds an `ObjClassName`, whose validity excludes a leading `[`, and
  `ObjClassName::from_inner_unchecked` is `unsafe`: that arm's assert is **not** reachable through safe API.
  `ArrayType::Object` holds a `ClassName`, and `ClassName::try_from("[I")` succeeds (array class names are class names),
  so `ParsedFieldDescriptor(Type::Array(1, ArrayType::Object("[I"))).write()` panics through safe API: `printTy` returns
  `none` there (theorem `print_assert_witness` in `Thm/C18.lean`).
* `get_arguments_size` accumulates in a `u8` with `checked_add` (an error above 255 since cf30e8c; `ArgRes.overflow`, the
  former panic of the overflow-checked build, is no longer produced); `ArrClassNameSlice::dimension` casts the count `as u8` and `assert_ne!(dimension, 0)`
  (`dimension = none`; unreachable for a valid `ArrClassName` since b182f7d, theorem `dimension_total`).
-/

namespace Descriptor

/-! ## characters -/
def cB : Nat := 66
def cC : Nat := 67
def cD : Nat := 68
def cF : Nat := 70
def cI : Nat := 73
def cJ : Nat := 74
def cL : Nat := 76
def cS : Nat := 83
def cV : Nat := 86
def cZ : Nat := 90
def LBRACKET : Nat := 91
def LPAREN : Nat := 40
def RPAREN : Nat := 41
def SEMI : Nat := 59
def SLASH : Nat := 47
def DOT : Nat := 46
def cLT : Nat := 60
def cGT : Nat := 62

/-! ## types: mirror of `Type` / `ArrayType` -/

inductive Prim where
  | B | C | D | F | I | J | S | Z
  deriving DecidableEq, Repr, Inhabited

/-- `ArrayType`: a primitive or `ArrayType::Object(ClassName)`; also the payload shared with `Type` -/
inductive Base where
  | prim (p : Prim)
  | obj (name : JStr)
  deriving DecidableEq, Repr, Inhabited

/-- `Type`: `B … Z`, `Object(ObjClassName)`, `Array(u8, ArrayType)`.  As in Rust, `arr 0 b` is a value different from
the non-array type (and printed like it). -/
inductive Ty where
  | prim (p : Prim)
  | obj (name : JStr)
  | arr (dims : Nat) (b : Base)
  deriving DecidableEq, Repr, Inhabited

def Prim.char : Prim → Nat
  | .B => cB | .C => cC | .D => cD | .F => cF | .I => cI | .J => cJ | .S => cS | .Z => cZ

def primOf (c : Nat) : Option Prim :=
  if c = cB then some .B else if c = cC then some .C else if c = cD then some .D else if c = cF then some .F
  else if c = cI then some .I else if c = cJ then some .J else if c = cS then some .S else if c = cZ then some .Z
  else none

/-! ## `mod names` -/

/-- `JavaStr::split(c)`: always at least one piece -/
def splitOn (c : Nat) : JStr → List JStr
  | [] => [[]]
  | x :: xs =>
    if x = c then [] :: splitOn c xs
    else match splitOn c xs with
      | [] => [[x]]   -- unreachable
      | p :: ps => (x :: p) :: ps

def startsWithBracket (s : JStr) : Bool := s.head? == some LBRACKET

/-- `is_valid_unqualified_name` (field, parameter, local variable names) -/
def validUnqualified (s : JStr) : Bool :=
  !s.isEmpty && s.all (fun c => !(c == DOT || c == SEMI || c == LBRACKET || c == SLASH))

/-- `is_valid_method_name` -/
def validMethod (s : JStr) : Bool :=
  s == jstr "<init>" || s == jstr "<clinit>" ||
    (!s.isEmpty && s.all (fun c => !(c == DOT || c == SEMI || c == LBRACKET || c == SLASH || c == cLT || c == cGT)))

/-- `is_valid_obj_class_name` -/
def validObj (s : JStr) : Bool :=
  !startsWithBracket s && (splitOn SLASH s).all validUnqualified

/-- `FieldDescriptor::check_valid`, `MethodDescriptor::check_valid`, `ReturnDescriptor::check_valid`: `Ok(())` with
a `TODO: parse the desc and fail if invalid`; the descriptor newtypes accept every string, validation happens in
`parse()` only -/
def validDescriptorNewtype (_ : JStr) : Bool := true

/-- `ArrClassNameSlice::dimension`: `take_while(== '[').count() as u8`, then `assert_ne!(dimension, 0)`; `none` = panic -/
def countBrackets : JStr → Nat
  | [] => 0
  | c :: rest => if c = LBRACKET then countBrackets rest + 1 else 0

def dimension (s : JStr) : Option Nat :=
  let d := countBrackets s % 256
  if d = 0 then none else some d

/-- `str::rsplit_once('/')` then the part after it, or everything: `ObjClassNameSlice::get_simple_name` -/
def simpleName : JStr → JStr
  | [] => []
  | x :: xs => if SLASH ∈ xs then simpleName xs else if x = SLASH then xs else x :: xs

/-! ## reading -/

/-- the `while chars.next_if_eq(&'[')` loop of `read_field_type` with its 255 cap -/
def readBrackets : Nat → JStr → Option (Nat × JStr)
  | n, [] => some (n, [])
  | n, c :: rest =>
    if c = LBRACKET then (if n = 255 then none else readBrackets (n + 1) rest)
    else some (n, c :: rest)

/-- the `while char != ';'` loop: the characters before the first `;` and the rest after it -/
def readName : JStr → Option (JStr × JStr)
  | [] => none
  | c :: rest =>
    if c = SEMI then some ([], rest)
    else match readName rest with
      | some (n, r) => some (c :: n, r)
      | none => none

/-- the `match char` of `read_field_type` (identical in both branches up to the constructor) -/
def readBase : JStr → Option (Base × JStr)
  | [] => none
  | c :: rest =>
    match primOf c with
    | some p => some (.prim p, rest)
    | none =>
      if c = cL then
        match readName rest with
        | some (n, r) => if validObj n then some (.obj n, r) else none
        | none => none
      else none

def mkTy : Nat → Base → Ty
  | 0, .prim p => .prim p
  | 0, .obj n => .obj n
  | d + 1, b => .arr (d + 1) b

/-- `read_field_type`: the type and the unconsumed rest -/
def readFieldType (s : JStr) : Option (Ty × JStr) :=
  match readBrackets 0 s with
  | none => none
  | some (d, r) =>
    match readBase r with
    | none => none
    | some (b, r') => some (mkTy d b, r')

/-- `FieldDescriptorSlice::parse` -/
def parseField (s : JStr) : Option Ty :=
  match readFieldType s with
  | some (t, []) => some t
  | _ => none

/-- `is_valid_arr_class_name` (since b182f7d): starts with `[` and `FieldDescriptorSlice::parse` accepts it
(`<&FieldDescriptorSlice>::try_from` never fails, `validDescriptorNewtype`) -/
def validArr (s : JStr) : Bool := startsWithBracket s && (parseField s).isSome

/-- `is_valid_class_name`: the array check for `[`-prefixed strings, otherwise `/`-separated unqualified names -/
def validClass (s : JStr) : Bool :=
  if startsWithBracket s then validArr s else (splitOn SLASH s).all validUnqualified

/-- `read_field_type` or the `V` shortcut, shared by return and method descriptors -/
def readReturn (s : JStr) : Option (Option Ty × JStr) :=
  match s with
  | c :: rest =>
    if c = cV then some (none, rest)
    else match readFieldType s with
      | some (t, r) => some (some t, r)
      | none => none
  | [] => none

/-- `ReturnDescriptorSlice::parse` -/
def parseReturn (s : JStr) : Option (Option Ty) :=
  match readReturn s with
  | some (t, []) => some t
  | _ => none

/-- the parameter `loop` of `MethodDescriptorSlice::parse`.  Every iteration consumes at least one character, so
`fuel = s.length` suffices (`readParams_fuel` in `Lemmas/DescriptorParse.lean`). -/
def readParams : Nat → JStr → Option (List Ty × JStr)
  | _, [] => none       -- read_field_type fails at the end of input
  | fuel, c :: rest =>
    if c = RPAREN then some ([], rest)
    else match fuel with
      | 0 => none
      | fuel + 1 =>
        match readFieldType (c :: rest) with
        | none => none
        | some (t, r) =>
          match readParams fuel r with
          | none => none
          | some (ts, r') => some (t :: ts, r')

/-- `MethodDescriptorSlice::parse` -/
def parseMethod (s : JStr) : Option (List Ty × Option Ty) :=
  match s with
  | c :: rest =>
    if c = LPAREN then
      match readParams rest.length rest with
      | none => none
      | some (ps, r) =>
        match readReturn r with
        | some (rt, []) => some (ps, rt)
        | _ => none
    else none
  | [] => none

/-! ## writing -/

def printBase : Base → Option JStr
  | .prim p => some [p.char]
  | .obj n => if startsWithBracket n then none else some (cL :: n ++ [SEMI])

/-- `write_field_type`; `none` = the `assert!` fires -/
def printTy : Ty → Option JStr
  | .prim p => some [p.char]
  | .obj n => if startsWithBracket n then none else some (cL :: n ++ [SEMI])
  | .arr d b =>
    match printBase b with
    | some s => some (List.replicate d LBRACKET ++ s)
    | none => none

def printTys : List Ty → Option JStr
  | [] => some []
  | t :: ts =>
    match printTy t, printTys ts with
    | some a, some b => some (a ++ b)
    | _, _ => none

/-- `ParsedReturnDescriptor::write` -/
def printReturn : Option Ty → Option JStr
  | none => some [cV]
  | some t => printTy t

/-- `ParsedMethodDescriptor::write` -/
def printMethod (ps : List Ty) (rt : Option Ty) : Option JStr :=
  match printTys ps, printReturn rt with
  | some a, some b => some (LPAREN :: a ++ RPAREN :: b)
  | _, _ => none

/-- `FieldDescriptor::from_class` = `from_arr_class` / `from_obj_class` -/
def fromClass (n : JStr) : JStr :=
  if startsWithBracket n then n else cL :: n ++ [SEMI]

/-! ## `get_arguments_size` -/

inductive ArgRes where
  | ok (n : Nat)
  | err
  | overflow
  deriving DecidableEq, Repr, Inhabited

def skipBrackets : JStr → JStr
  | [] => []
  | c :: rest => if c = LBRACKET then skipBrackets rest else c :: rest

/-- the loop of `get_arguments_size`; `size` is a `u8`, additions are `checked_add` (cf30e8c): an error above 255 -/
def argsLoop : Nat → Nat → JStr → ArgRes
  | _, _, [] => .err
  | fuel, size, c :: rest =>
    if c = RPAREN then .ok size
    else match fuel with
      | 0 => .err
      | fuel + 1 =>
        if c = cD ∨ c = cJ then
          (if size + 2 > 255 then .err else argsLoop fuel (size + 2) rest)
        else
          match skipBrackets (c :: rest) with
          | [] => .err
          | x :: r =>
            if x = cL then
              match readName r with
              | none => .err
              | some (_, r') => if size + 1 > 255 then .err else argsLoop fuel (size + 1) r'
            else if size + 1 > 255 then .err else argsLoop fuel (size + 1) r

/-- `MethodDescriptorSlice::get_arguments_size` (counts the implicit `this`; ignores the return descriptor) -/
def argsSize (s : JStr) : ArgRes :=
  match s with
  | c :: rest => if c = LPAREN then argsLoop rest.length 1 rest else .err
  | [] => .err

/-- what the property says a parameter occupies -/
def Ty.slots : Ty → Nat
  | .prim .J => 2
  | .prim .D => 2
  | _ => 1

def slotsSum : List Ty → Nat
  | [] => 0
  | t :: ts => t.slots + slotsSum ts

/-! ## well-formed values (what safe Rust can construct and the parser can produce) -/

def Base.wf : Base → Bool
  | .prim _ => true
  | .obj n => validObj n

def Ty.wf : Ty → Bool
  | .prim _ => true
  | .obj n => validObj n
  | .arr d b => 1 ≤ d && d ≤ 255 && b.wf

end Descriptor
