import FeatherModel.Model.ClassRead

/-!
# C01 — canonical S-expression of `ClassFacts` (line protocol; mirrored by `harness/src/c01facts.rs`)

Labels are printed as their raw ids (`Label { id }`): the model mirrors the order in which the reader hands
out ids, so they must agree with the implementation.
-/

namespace ClassRead

open Sexp

def sxOpt {α : Type} (f : α → Sexp) : Option α → Sexp := ofOption f
def sxList {α : Type} (f : α → Sexp) (xs : List α) : Sexp := list (xs.map f)

def MemberRef.toSexp (r : MemberRef) : Sexp := list [ofJStr r.cls, ofJStr r.name, ofJStr r.desc]
def Handle.toSexp (h : Handle) : Sexp := list [ofNat h.kind, h.ref.toSexp, ofBool h.itf]

partial def Loadable.toSexp : Loadable → Sexp
  | .int v => list [tag "int", ofInt v]
  | .float b => list [tag "float", ofNat b]
  | .long v => list [tag "long", ofInt v]
  | .double b => list [tag "double", ofNat b]
  | .cls n => list [tag "cls", ofJStr n]
  | .str s => list [tag "str", ofJStr s]
  | .handle h => list [tag "handle", h.toSexp]
  | .mtype d => list [tag "mtype", ofJStr d]
  | .dyn n d h args => list [tag "dyn", ofJStr n, ofJStr d, h.toSexp, list (args.map Loadable.toSexp)]

def ConstantValue.toSexp : ConstantValue → Sexp
  | .int v => list [tag "int", ofInt v]
  | .float b => list [tag "float", ofNat b]
  | .long v => list [tag "long", ofInt v]
  | .double b => list [tag "double", ofNat b]
  | .str s => list [tag "str", ofJStr s]

def Insn.toSexp : Insn → Sexp
  | .simple op => list [tag "simple", ofNat op]
  | .bipush v => list [tag "bipush", ofInt v]
  | .sipush v => list [tag "sipush", ofInt v]
  | .ldc c => list [tag "ldc", c.toSexp]
  | .load k i => list [tag "load", ofNat k, ofNat i]
  | .store k i => list [tag "store", ofNat k, ofNat i]
  | .iinc i v => list [tag "iinc", ofNat i, ofInt v]
  | .branch op t => list [tag "branch", ofNat op, ofNat t]
  | .goto t => list [tag "goto", ofNat t]
  | .jsr t => list [tag "jsr", ofNat t]
  | .ret i => list [tag "ret", ofNat i]
  | .tableswitch d lo hi tbl => list [tag "tableswitch", ofNat d, ofInt lo, ofInt hi, sxList ofNat tbl]
  | .lookupswitch d pairs => list [tag "lookupswitch", ofNat d, sxList (fun (k, t) => list [ofInt k, ofNat t]) pairs]
  | .field op r => list [tag "field", ofNat op, r.toSexp]
  | .invokevirtual m => list [tag "invokevirtual", m.toSexp]
  | .invokespecial m itf => list [tag "invokespecial", m.toSexp, ofBool itf]
  | .invokestatic m itf => list [tag "invokestatic", m.toSexp, ofBool itf]
  | .invokeinterface m => list [tag "invokeinterface", m.toSexp]
  | .invokedynamic d => list [tag "invokedynamic", ofJStr d.name, ofJStr d.desc, d.handle.toSexp, sxList Loadable.toSexp d.args]
  | .new c => list [tag "new", ofJStr c]
  | .newarray a => list [tag "newarray", ofNat a]
  | .anewarray c => list [tag "anewarray", ofJStr c]
  | .checkcast c => list [tag "checkcast", ofJStr c]
  | .instanceof c => list [tag "instanceof", ofJStr c]
  | .multianewarray c d => list [tag "multianewarray", ofJStr c, ofNat d]

def VType.toSexp : VType → Sexp
  | .top => tag "top" | .int => tag "int" | .float => tag "float" | .double => tag "double" | .long => tag "long"
  | .null => tag "null" | .uninitThis => tag "uninit-this"
  | .object c => list [tag "object", ofJStr c]
  | .uninit l => list [tag "uninit", ofNat l]

def Frame.toSexp : Frame → Sexp
  | .same => tag "same"
  | .same1 v => list [tag "same1", v.toSexp]
  | .chop k => list [tag "chop", ofNat k]
  | .append vs => list [tag "append", sxList VType.toSexp vs]
  | .full l s => list [tag "full", sxList VType.toSexp l, sxList VType.toSexp s]

def Attr.toSexp (a : Attr) : Sexp := list [ofJStr a.name, ofBytes a.bytes]

mutual
partial def ElemVal.toSexp : ElemVal → Sexp
  | .const t v => list [tag "const", ofNat t, ofInt v]
  | .str s => list [tag "str", ofJStr s]
  | .enum ty n => list [tag "enum", ofJStr ty, ofJStr n]
  | .cls d => list [tag "cls", ofJStr d]
  | .anno a => list [tag "anno", a.toSexp]
  | .arr vs => list [tag "arr", list (vs.map ElemVal.toSexp)]
partial def Annotation.toSexp : Annotation → Sexp
  | .mk ty pairs => list [ofJStr ty, list (pairs.map fun (n, v) => list [ofJStr n, v.toSexp])]
end

def Target.toSexp : Target → Sexp
  | .typeParam t i => list [tag "type-param", ofNat t, ofNat i]
  | .extends_ => tag "extends"
  | .implements i => list [tag "implements", ofNat i]
  | .typeParamBound t a b => list [tag "type-param-bound", ofNat t, ofNat a, ofNat b]
  | .field => tag "field"
  | .ret => tag "ret"
  | .receiver => tag "receiver"
  | .formalParam i => list [tag "formal-param", ofNat i]
  | .throws i => list [tag "throws", ofNat i]
  | .localVar t tbl => list [tag "local-var", ofNat t, sxList (fun (a, b, i) => list [ofNat a, ofNat b, ofNat i]) tbl]
  | .exceptionParam i => list [tag "exception-param", ofNat i]
  | .offset t l => list [tag "offset", ofNat t, ofNat l]
  | .offsetArg t l i => list [tag "offset-arg", ofNat t, ofNat l, ofNat i]

def TypeAnno.toSexp (a : TypeAnno) : Sexp :=
  list [a.target.toSexp, sxList (fun (k, i) => list [ofNat k, ofNat i]) a.path, a.anno.toSexp]

def InsnEntry.toSexp (e : InsnEntry) : Sexp := list [sxOpt ofNat e.label, sxOpt Frame.toSexp e.frame, e.insn.toSexp]

def ExceptionEntry.toSexp (e : ExceptionEntry) : Sexp :=
  list [ofNat e.start, ofNat e.end_, ofNat e.handler, sxOpt ofJStr e.catch_]

def Lv.toSexp (v : Lv) : Sexp :=
  list [ofNat v.start, ofNat v.end_, ofJStr v.name, sxOpt ofJStr v.desc, sxOpt ofJStr v.sig, ofNat v.index]

def Code.toSexp (c : Code) : Sexp :=
  list [tag "code", ofNat c.maxStack, ofNat c.maxLocals, sxList InsnEntry.toSexp c.insns,
    sxList ExceptionEntry.toSexp c.exceptions, sxOpt ofNat c.lastLabel,
    sxOpt (sxList fun (l, n) => list [ofNat l, ofNat n]) c.lines, sxOpt (sxList Lv.toSexp) c.locals,
    sxList TypeAnno.toSexp c.rvta, sxList TypeAnno.toSexp c.ritva, sxList Attr.toSexp c.attrs]

def FieldFacts.toSexp (f : FieldFacts) : Sexp :=
  list [tag "field", ofNat f.access, ofJStr f.name, ofJStr f.desc, ofBool f.deprecated, ofBool f.synthetic,
    sxOpt ConstantValue.toSexp f.constant, sxOpt ofJStr f.signature,
    sxList Annotation.toSexp f.rva, sxList Annotation.toSexp f.ria,
    sxList TypeAnno.toSexp f.rvta, sxList TypeAnno.toSexp f.rita, sxList Attr.toSexp f.attrs]

def MethodParam.toSexp (p : MethodParam) : Sexp := list [sxOpt ofJStr p.name, ofNat p.flags]

def MethodFacts.toSexp (m : MethodFacts) : Sexp :=
  list [tag "method", ofNat m.access, ofJStr m.name, ofJStr m.desc, ofBool m.deprecated, ofBool m.synthetic,
    sxOpt Code.toSexp m.code, sxOpt (sxList ofJStr) m.exceptions, sxOpt ofJStr m.signature,
    sxList Annotation.toSexp m.rva, sxList Annotation.toSexp m.ria,
    sxList TypeAnno.toSexp m.rvta, sxList TypeAnno.toSexp m.rita,
    sxOpt ElemVal.toSexp m.annotationDefault, sxOpt (sxList MethodParam.toSexp) m.params, sxList Attr.toSexp m.attrs]

def RecordComponent.toSexp (r : RecordComponent) : Sexp :=
  list [ofJStr r.name, ofJStr r.desc, sxOpt ofJStr r.signature,
    sxList Annotation.toSexp r.rva, sxList Annotation.toSexp r.ria,
    sxList TypeAnno.toSexp r.rvta, sxList TypeAnno.toSexp r.rita, sxList Attr.toSexp r.attrs]

def InnerClass.toSexp (i : InnerClass) : Sexp :=
  list [ofJStr i.inner, sxOpt ofJStr i.outer, sxOpt ofJStr i.name, ofNat i.flags]

def Module.toSexp (m : Module) : Sexp :=
  list [ofJStr m.name, ofNat m.flags, sxOpt ofJStr m.version,
    sxList (fun (r : ModuleRequires) => list [ofJStr r.name, ofNat r.flags, sxOpt ofJStr r.version]) m.requires,
    sxList (fun (e : ModuleExports) => list [ofJStr e.name, ofNat e.flags, sxList ofJStr e.to]) m.exports,
    sxList (fun (e : ModuleExports) => list [ofJStr e.name, ofNat e.flags, sxList ofJStr e.to]) m.opens,
    sxList ofJStr m.uses,
    sxList (fun (p : ModuleProvides) => list [ofJStr p.name, sxList ofJStr p.with_]) m.provides]

def ClassFacts.toSexp (c : ClassFacts) : Sexp :=
  list [tag "class", ofNat c.minor, ofNat c.major, ofNat c.access, ofJStr c.name, sxOpt ofJStr c.super,
    sxList ofJStr c.interfaces, sxList FieldFacts.toSexp c.fields, sxList MethodFacts.toSexp c.methods,
    ofBool c.deprecated, ofBool c.synthetic, sxOpt (sxList InnerClass.toSexp) c.innerClasses,
    sxOpt (fun (cls, m) => list [ofJStr cls, sxOpt (fun (n, d) => list [ofJStr n, ofJStr d]) m]) c.enclosingMethod,
    sxOpt ofJStr c.signature, sxOpt ofJStr c.sourceFile, sxOpt ofJStr c.sourceDebugExtension,
    sxList Annotation.toSexp c.rva, sxList Annotation.toSexp c.ria,
    sxList TypeAnno.toSexp c.rvta, sxList TypeAnno.toSexp c.rita,
    sxOpt Module.toSexp c.module, sxOpt (sxList ofJStr) c.modulePackages, sxOpt ofJStr c.moduleMainClass,
    sxOpt ofJStr c.nestHost, sxOpt (sxList ofJStr) c.nestMembers, sxOpt (sxList ofJStr) c.permittedSubclasses,
    sxList RecordComponent.toSexp c.recordComponents, sxList Attr.toSexp c.attrs]

end ClassRead
