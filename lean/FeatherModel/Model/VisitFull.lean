import FeatherModel.Model.Visit

/-!
# C17 — what a full read delivers, as a function of the framing alone

`fullEvents c` lists the events of reading `c` with the tree-building configuration (`Visit.full`) without cursor,
`avail` or failure: the specification against which masked / declining reads are projected. `wellFormed c` collects the
conditions under which the full read succeeds on `c.size` available bytes: exact framing, a good header, at most one
`BootstrapMethods`, at most one `Record`, at most one stack map per `Code`, valid member names and descriptors.
-/

namespace Visit

def leafEv (act : K → Act) (mk : Bool → K → Pay → Ev) (a : Attr) : List Ev × Bool × Bool :=
  match act a.k with
  | .flagDep => ([], true, false)
  | .flagSyn => ([], false, true)
  | .gated => ([mk false a.k a.pay], false, false)
  | .always => ([], false, false)
  | .skipOnly => ([], false, false)
  | .unknown => ([mk true a.k a.pay], false, false)

def leafsEv (act : K → Act) (mk : Bool → K → Pay → Ev) : List Attr → List Ev × Bool × Bool
  | [] => ([], false, false)
  | a :: as =>
    let s := leafEv act mk a
    let r := leafsEv act mk as
    (s.1 ++ r.1, s.2.1 || r.2.1, s.2.2 || r.2.2)

def recCompEv (r : Nat) (rc : RecComp) : List Ev :=
  Ev.recBegin r rc.h :: (leafsEv recAct (Ev.rAttr r) rc.attrs).1 ++ [Ev.recEnd r]

def recCompsEv : Nat → List RecComp → List Ev
  | _, [] => []
  | r, rc :: rcs => recCompEv r rc ++ recCompsEv (r + 1) rcs

def classAttrsEv : List CAttr → List Ev × Bool × Bool
  | [] => ([], false, false)
  | .leaf a :: as =>
    let s := leafEv classAct Ev.cAttr a
    let r := classAttrsEv as
    (s.1 ++ r.1, s.2.1 || r.2.1, s.2.2 || r.2.2)
  | .record _ comps :: as =>
    let r := classAttrsEv as
    (recCompsEv 0 comps ++ r.1, r.2.1, r.2.2)

def fieldEv (i : Nat) (f : Field) : List Ev :=
  let r := leafsEv fieldAct (Ev.fAttr i) f.attrs
  Ev.fieldBegin i f.h :: r.1 ++ [Ev.fieldFlags i r.2.1 r.2.2, Ev.fieldEnd i]

def fieldsEv : Nat → List Field → List Ev
  | _, [] => []
  | i, f :: fs => fieldEv i f ++ fieldsEv (i + 1) fs

/-- `accAdd` without the duplicate check -/
def accAddPure (i : Nat) (a : Attr) (acc : KAcc) : KAcc :=
  match a.k with
  | .stackMapTable | .stackMap => { acc with frames := some a.pay }
  | .lineNumberTable => { acc with lines := acc.lines ++ [a.pay] }
  | .lvt => { acc with locals := acc.locals ++ [(.d, a.pay)] }
  | .lvtt => { acc with locals := acc.locals ++ [(.s, a.pay)] }
  | .rvta | .rita => { acc with evs := acc.evs ++ [Ev.kAttr i false a.k a.pay] }
  | _ => { acc with evs := acc.evs ++ [Ev.kAttr i true a.k a.pay] }

def codeAcc (i : Nat) : KAcc → List Attr → KAcc
  | acc, [] => acc
  | acc, a :: as => codeAcc i (accAddPure i a acc) as

def codeEv (i : Nat) (c : Code) : List Ev :=
  Ev.codeBegin i :: Ev.codeMaxs i c.maxs :: codeTail i c (codeAcc i {} c.attrs) ++ [Ev.codeEnd i]

def methodAttrsEv (i : Nat) : List MAttr → List Ev × Bool × Bool
  | [] => ([], false, false)
  | .leaf a :: as =>
    let s := leafEv methodAct (Ev.mAttr i) a
    let r := methodAttrsEv i as
    (s.1 ++ r.1, s.2.1 || r.2.1, s.2.2 || r.2.2)
  | .code c :: as =>
    let r := methodAttrsEv i as
    (codeEv i c ++ r.1, r.2.1, r.2.2)

def methodEv (i : Nat) (m : Method) : List Ev :=
  let r := methodAttrsEv i m.attrs
  Ev.methodBegin i m.h :: r.1 ++ [Ev.methodFlags i r.2.1 r.2.2, Ev.methodEnd i]

def methodsEv : Nat → List Method → List Ev
  | _, [] => []
  | i, m :: ms => methodEv i m ++ methodsEv (i + 1) ms

/-- the events of a full read, in the order the reader delivers them: class attributes (file order, record components
inline), the class's Deprecated/Synthetic flags, fields, methods -/
def fullEvents (c : ClassFrame) : List Ev :=
  let r := classAttrsEv c.attrs
  Ev.classBegin c.h :: r.1 ++ [Ev.classFlags r.2.1 r.2.2] ++ fieldsEv 0 c.fields ++ methodsEv 0 c.methods
    ++ [Ev.classEnd]

/-! ## conditions for the full read to succeed -/

def isFramesKind : K → Bool
  | .stackMapTable | .stackMap => true
  | _ => false

def codeAttrsWf : Bool → List Attr → Bool
  | _, [] => true
  | has, a :: as => if isFramesKind a.k then !has && codeAttrsWf true as else codeAttrsWf has as

def mattrWf : MAttr → Bool
  | .leaf _ => true
  | .code c => codeAttrsWf false c.attrs

def classAttrsWf : CSt → List CAttr → Bool
  | _, [] => true
  | st, .leaf a :: as =>
    if classAct a.k = .always then !st.hadBsm && classAttrsWf { st with hadBsm := true } as
    else classAttrsWf st as
  | st, .record _ _ :: as => !st.hadRecord && classAttrsWf { st with hadRecord := true } as

/-- exact framing, readable header, no attribute the reader refuses to see twice, every member header names a valid
name and descriptor -/
def wellFormed (c : ClassFrame) : Bool :=
  framesExact c && c.hdrOk && classAttrsWf {} c.attrs && c.methods.all (fun m => m.attrs.all mattrWf)
    && c.fields.all (·.ok) && c.methods.all (·.ok)

/-- the part of `wellFormed` that a read which skips the members (class declined, or `fields = methods = false`) depends
on: readable header, class attributes exactly framed and none refused twice — nothing about the members -/
def classLevelWf (c : ClassFrame) : Bool :=
  c.attrs.all cattrExact && c.hdrOk && classAttrsWf {} c.attrs

/-- the events of a full read that belong to the class itself and its record components -/
def classEvents (c : ClassFrame) : List Ev :=
  let r := classAttrsEv c.attrs
  Ev.classBegin c.h :: r.1 ++ [Ev.classFlags r.2.1 r.2.2] ++ [Ev.classEnd]

end Visit
