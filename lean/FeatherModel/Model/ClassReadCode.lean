import FeatherModel.Model.ClassReadAnno

/-!
# C01 — `read_code` (`duke/src/class_reader.rs`) and `Labels` (`duke/src/class_reader/labels.rs`)

* `Labels`: the Rust table is `HashMap<u16, Label>` plus the counter `max_id`; a new key gets the id `max_id`.
  The model keeps the map as an array indexed by bytecode offset (`0..=code_length`, the only keys that pass the
  bounds checks) and the counter.  The hash map is only used for lookup, so nothing else is observable.
* pass 1 (`pass1`): walks the code array, creates a label for every branch / switch target (bounds check
  `pc >= code_length`), checks that the last instruction ends exactly at `code_length`.
* exception table, then the attributes of `Code` in file order (they may create further labels):
  `StackMapTable`, `StackMap` (CLDC), `LineNumberTable`, `LocalVariableTable`, `LocalVariableTypeTable`,
  `Runtime(In)VisibleTypeAnnotations`, unknown attributes byte for byte.  The declared `attribute_length` of a known
  attribute is not compared with what its parser consumes (the Rust code does not either).
* pass 2 (`pass2`): decodes every instruction, resolves operands through the pool and branch targets through the
  label table (`try_get`), attaches `labels.get(pc)` and the next stack-map frame if its label is the label here.

The cursor over the code array is modelled by `(pc, rest)` with `rest = code.drop pc`.
Seam for C17: `readCode` is written for a visitor with `CodeInterests::all()`; an interest mask would turn each
attribute arm into "skip `length` bytes".
-/

namespace ClassRead

open Outcome

/-! ## label table -/

structure Labels where
  codeLength : Nat
  /-- `labels`: slot `pc` holds the id of the label at bytecode offset `pc`; size `codeLength + 1` (every key the
  Rust code inserts has passed a bounds check `pc <= code_length`) -/
  tbl : Array (Option Nat)
  /-- `max_id` -/
  count : Nat
  deriving Repr, Inhabited

namespace Labels

def new (codeLength : Nat) : Labels := ⟨codeLength, Array.replicate (codeLength + 1) none, 0⟩

/-- `get` -/
def get (l : Labels) (pc : Nat) : Option Nat :=
  match l.tbl[pc]? with
  | some (some id) => some id
  | _ => none

/-- `try_get` -/
def tryGet (l : Labels) (pc : Nat) : Outcome Nat := ofOption (l.get pc)

/-- `get_or_add_unchecked`: the counter `max_id` is a `u32`, ids are `max_id as u16` (there are at most 65536 distinct
`u16` keys, so the counter reaches at most 65536 and an id never truncates) -/
def addUnchecked (l : Labels) (pc : Nat) : Outcome (Nat × Labels) :=
  match l.get pc with
  | some id => ok (id, l)
  | none => ok (l.count % 65536, { l with tbl := l.tbl.setIfInBounds pc (some (l.count % 65536)), count := l.count + 1 })

/-- `create` -/
def create (l : Labels) (pc : Nat) : Outcome Labels :=
  if pc ≥ l.codeLength then err else do let (_, l) ← l.addUnchecked pc; pure l

/-- `get_or_create` -/
def getOrCreate (l : Labels) (pc : Nat) : Outcome (Nat × Labels) :=
  if pc ≥ l.codeLength then err else l.addUnchecked pc

/-- `get_or_create_check_exclusive` -/
def getOrCreateExcl (l : Labels) (pc : Nat) : Outcome (Nat × Labels) :=
  if pc > l.codeLength then err else l.addUnchecked pc

/-- `get_or_create_range`: the start label is created first, then `start_pc.checked_add(length)` (past 65535: error) -/
def getOrCreateRange (l : Labels) (start len : Nat) : Outcome ((Nat × Nat) × Labels) := do
  let (a, l) ← l.getOrCreate start
  if start + len > 65535 then err
  else do
    let (b, l) ← l.getOrCreateExcl (start + len)
    pure ((a, b), l)

end Labels

/-! ## instructions (labels are `Label.id`s here) -/

inductive Insn where
  /-- an instruction without operands, identified by its opcode (`nop` … `monitorexit`) -/
  | simple (op : Nat)
  | bipush (v : Int)
  | sipush (v : Int)
  | ldc (c : Loadable)
  /-- `ILoad`..`ALoad`: `kind` 0..4 = I L F D A -/
  | load (kind : Nat) (index : Nat)
  | store (kind : Nat) (index : Nat)
  | iinc (index : Nat) (v : Int)
  /-- the 16 conditional branches (`op` = opcode `0x99..0xa6`, `0xc6`, `0xc7`) -/
  | branch (op : Nat) (target : Nat)
  | goto (target : Nat)
  | jsr (target : Nat)
  | ret (index : Nat)
  | tableswitch (dflt : Nat) (low high : Int) (table : List Nat)
  | lookupswitch (dflt : Nat) (pairs : List (Int × Nat))
  /-- `GetStatic PutStatic GetField PutField` (`op` = opcode `0xb2..0xb5`) -/
  | field (op : Nat) (r : MemberRef)
  | invokevirtual (m : MemberRef)
  | invokespecial (m : MemberRef) (itf : Bool)
  | invokestatic (m : MemberRef) (itf : Bool)
  | invokeinterface (m : MemberRef)
  | invokedynamic (d : InvokeDynamic)
  | new (c : JStr)
  | newarray (atype : Nat)
  | anewarray (c : JStr)
  | checkcast (c : JStr)
  | instanceof (c : JStr)
  | multianewarray (c : JStr) (dims : Nat)
  deriving Repr, Inhabited

/-- opcodes of the operand-less instructions that pass 2 maps to a unit variant of `Instruction` -/
def isSimpleOp (op : Nat) : Bool :=
  op ≤ 0x0f || (0x2e ≤ op && op ≤ 0x35) || (0x4f ≤ op && op ≤ 0x83) || (0x85 ≤ op && op ≤ 0x98)
    || (0xac ≤ op && op ≤ 0xb1) || op == 0xbe || op == 0xbf || op == 0xc2 || op == 0xc3

/-- `IFEQ..=JSR | IFNULL | IFNONNULL` minus goto/jsr: the conditional branches -/
def isCondBranchOp (op : Nat) : Bool := (0x99 ≤ op && op ≤ 0xa6) || op == 0xc6 || op == 0xc7

/-! ## cursor over the code array -/

/-- `(pc, rest)` -/
abbrev Cur := Nat × Bytes

def cU8 (c : Cur) : Outcome (Nat × Cur) := do let (v, r) ← u8 c.2; pure (v, (c.1 + 1, r))
def cU16 (c : Cur) : Outcome (Nat × Cur) := do let (v, r) ← u16 c.2; pure (v, (c.1 + 2, r))
def cI8 (c : Cur) : Outcome (Int × Cur) := do let (v, r) ← i8 c.2; pure (v, (c.1 + 1, r))
def cI16 (c : Cur) : Outcome (Int × Cur) := do let (v, r) ← i16 c.2; pure (v, (c.1 + 2, r))
def cI32 (c : Cur) : Outcome (Int × Cur) := do let (v, r) ← i32 c.2; pure (v, (c.1 + 4, r))

/-- `r.skip(n)` in pass 1.  A skip past the end is not an error in Rust, but it ends the loop with
`position != len`, which is one; the model reports the error here. -/
def cSkip (n : Nat) (c : Cur) : Outcome Cur :=
  if lengthGe c.2 n then ok (c.1 + n, c.2.drop n) else err

/-- `opcode_pos.checked_add_signed(branch)` / `(opcode_pos as u32).checked_add_signed(branch)` + `try_into::<u16>` -/
def branchTarget (pos : Nat) (off : Int) : Outcome Nat :=
  let t : Int := (pos : Int) + off
  if t < 0 || t > 65535 then err else ok t.toNat

def cBranch16 (pos : Nat) (c : Cur) : Outcome (Nat × Cur) := do
  let (off, c) ← cI16 c
  let t ← branchTarget pos off
  pure (t, c)

def cBranch32 (pos : Nat) (c : Cur) : Outcome (Nat × Cur) := do
  let (off, c) ← cI32 c
  let t ← branchTarget pos off
  pure (t, c)

/-- `align_to_4_byte_boundary`: `marker() & 3` is the position after the opcode byte -/
def cAlign (c : Cur) : Outcome Cur :=
  match c.1 % 4 with
  | 0 => ok c
  | 1 => do let (_, c) ← cU8 c; let (_, c) ← cU8 c; let (_, c) ← cU8 c; pure c
  | 2 => do let (_, c) ← cU8 c; let (_, c) ← cU8 c; pure c
  | _ => do let (_, c) ← cU8 c; pure c

/-- the `n` of a tableswitch: `high.checked_sub(low).and_then(|n| n.checked_add(1))` after `low > high` is excluded -/
def tableCount (low high : Int) : Outcome Nat :=
  if low > high then err
  else if high - low > 2147483646 then err
  else ok (high - low + 1).toNat

/-! ## pass 1 -/

/-- `for _ in 0..n { labels.create(r.read_i32_as_branch_target_label(opcode_pos)?)?; }` -/
def pass1Table (pos : Nat) : Nat → Labels → Cur → Outcome (Labels × Cur)
  | 0, l, c => ok (l, c)
  | n + 1, l, c => do
    let (t, c) ← cBranch32 pos c
    let l ← l.create t
    pass1Table pos n l c

def pass1Pairs (pos : Nat) : Nat → Labels → Cur → Outcome (Labels × Cur)
  | 0, l, c => ok (l, c)
  | n + 1, l, c => do
    let (_, c) ← cI32 c
    let (t, c) ← cBranch32 pos c
    let l ← l.create t
    pass1Pairs pos n l c

/-- the arms of the `match r.read_u8()?` of the first loop, by what they do with the operand bytes -/
inductive P1Kind where
  | skip (n : Nat)
  | wide
  | branch16
  | branch32
  | tableswitch
  | lookupswitch
  | invalid
  deriving DecidableEq, Repr

/-- which arm of the first loop an opcode selects -/
def p1Kind (op : Nat) : P1Kind :=
  if op ≤ 0x0f || (0x1a ≤ op && op ≤ 0x35) || (0x3b ≤ op && op ≤ 0x83) || (0x85 ≤ op && op ≤ 0x98)
      || (0xac ≤ op && op ≤ 0xb1) || op == 0xbe || op == 0xbf || op == 0xc2 || op == 0xc3 then .skip 0
  else if op == 0x10 || op == 0x12 || (0x15 ≤ op && op ≤ 0x19) || (0x36 ≤ op && op ≤ 0x3a) || op == 0xa9 || op == 0xbc then .skip 1
  else if op == 0x11 || op == 0x13 || op == 0x14 || op == 0x84 || (0xb2 ≤ op && op ≤ 0xb8) || op == 0xbb || op == 0xbd
      || op == 0xc0 || op == 0xc1 then .skip 2
  else if op == 0xc5 then .skip 3
  else if op == 0xb9 || op == 0xba then .skip 4
  else if op == 0xc4 then .wide
  else if (0x99 ≤ op && op ≤ 0xa8) || op == 0xc6 || op == 0xc7 then .branch16
  else if op == 0xc8 || op == 0xc9 then .branch32
  else if op == 0xaa then .tableswitch
  else if op == 0xab then .lookupswitch
  else .invalid

/-- one iteration of the first loop: the instruction at `c.1` -/
def pass1Step (l : Labels) (c : Cur) : Outcome (Labels × Cur) := do
  let pos := c.1
  let (op, c) ← cU8 c
  match p1Kind op with
  | .skip 0 => pure (l, c)
  | .skip n => do let c ← cSkip n c; pure (l, c)
  | .wide => do
    let (w, c) ← cU8 c
    if (0x15 ≤ w && w ≤ 0x19) || (0x36 ≤ w && w ≤ 0x3a) || w == 0xa9 then do
      let c ← cSkip 2 c; pure (l, c)
    else if w == 0x84 then do
      let c ← cSkip 4 c; pure (l, c)
    else err
  | .branch16 => do
    let (t, c) ← cBranch16 pos c
    let l ← l.create t
    pure (l, c)
  | .branch32 => do
    let (t, c) ← cBranch32 pos c
    let l ← l.create t
    pure (l, c)
  | .tableswitch => do
    let c ← cAlign c
    let (t, c) ← cBranch32 pos c
    let l ← l.create t
    let (low, c) ← cI32 c
    let (high, c) ← cI32 c
    let n ← tableCount low high
    pass1Table pos n l c
  | .lookupswitch => do
    let c ← cAlign c
    let (t, c) ← cBranch32 pos c
    let l ← l.create t
    let (n, c) ← cI32 c
    if n < 0 then err else pass1Pairs pos n.toNat l c
  | .invalid => err

/-- the first loop; `fuel` = code length is enough (every iteration consumes the opcode byte) -/
def pass1 : Nat → Labels → Cur → Outcome Labels
  | 0, l, c => if c.2.isEmpty then ok l else err
  | fuel + 1, l, c =>
    if c.2.isEmpty then ok l
    else do
      let (l, c) ← pass1Step l c
      pass1 fuel l c

/-! ## facts of a `Code` attribute -/

inductive VType where
  | top | int | float | double | long | null | uninitThis
  | object (c : JStr)
  | uninit (label : Nat)
  deriving Repr, Inhabited

inductive Frame where
  | same
  | same1 (v : VType)
  | chop (k : Nat)
  | append (locals : List VType)
  | full (locals stack : List VType)
  deriving Repr, Inhabited

structure InsnEntry where
  label : Option Nat
  frame : Option Frame
  insn : Insn
  deriving Repr, Inhabited

structure ExceptionEntry where
  start : Nat
  end_ : Nat
  handler : Nat
  catch_ : Option JStr
  deriving Repr, Inhabited

structure Lv where
  start : Nat
  end_ : Nat
  name : JStr
  desc : Option JStr
  sig : Option JStr
  index : Nat
  deriving Repr, Inhabited

/-- `Attribute` -/
structure Attr where
  name : JStr
  bytes : Bytes
  deriving DecidableEq, Repr, Inhabited

structure Code where
  maxStack : Nat
  maxLocals : Nat
  insns : List InsnEntry
  exceptions : List ExceptionEntry
  lastLabel : Option Nat
  lines : Option (List (Nat × Nat))
  locals : Option (List Lv)
  rvta : List TypeAnno
  ritva : List TypeAnno
  attrs : List Attr
  deriving Inhabited

/-! ## pass 2 -/

def pass2Table (l : Labels) (pos : Nat) : Nat → Cur → Outcome (List Nat × Cur)
  | 0, c => ok ([], c)
  | n + 1, c => do
    let (t, c) ← cBranch32 pos c
    let id ← l.tryGet t
    let (rest, c) ← pass2Table l pos n c
    pure (id :: rest, c)

def pass2Pairs (l : Labels) (pos : Nat) : Nat → Cur → Outcome (List (Int × Nat) × Cur)
  | 0, c => ok ([], c)
  | n + 1, c => do
    let (k, c) ← cI32 c
    let (t, c) ← cBranch32 pos c
    let id ← l.tryGet t
    let (rest, c) ← pass2Pairs l pos n c
    pure ((k, id) :: rest, c)

/-- the arms of the `match r.read_u8()?` of the second loop -/
inductive OpKind where
  | simple | bipush | sipush | ldc | ldcW
  | load (kind : Nat) | loadN (kind index : Nat) | store (kind : Nat) | storeN (kind index : Nat)
  | iinc | cond | goto | jsr | ret | tableswitch | lookupswitch
  | field | invokevirtual | invokespecial | invokestatic | invokeinterface | invokedynamic
  | new | newarray | anewarray | checkcast | instanceof | wide | multianewarray | gotoW | jsrW
  | invalid
  deriving DecidableEq, Repr

/-- which arm of the second loop an opcode selects -/
def opKind (op : Nat) : OpKind :=
  if isSimpleOp op then .simple
  else if op == 0x10 then .bipush
  else if op == 0x11 then .sipush
  else if op == 0x12 then .ldc
  else if op == 0x13 || op == 0x14 then .ldcW
  else if 0x15 ≤ op && op ≤ 0x19 then .load (op - 0x15)
  else if 0x1a ≤ op && op ≤ 0x2d then .loadN ((op - 0x1a) / 4) ((op - 0x1a) % 4)
  else if 0x36 ≤ op && op ≤ 0x3a then .store (op - 0x36)
  else if 0x3b ≤ op && op ≤ 0x4e then .storeN ((op - 0x3b) / 4) ((op - 0x3b) % 4)
  else if op == 0x84 then .iinc
  else if isCondBranchOp op then .cond
  else if op == 0xa7 then .goto
  else if op == 0xa8 then .jsr
  else if op == 0xa9 then .ret
  else if op == 0xaa then .tableswitch
  else if op == 0xab then .lookupswitch
  else if 0xb2 ≤ op && op ≤ 0xb5 then .field
  else if op == 0xb6 then .invokevirtual
  else if op == 0xb7 then .invokespecial
  else if op == 0xb8 then .invokestatic
  else if op == 0xb9 then .invokeinterface
  else if op == 0xba then .invokedynamic
  else if op == 0xbb then .new
  else if op == 0xbc then .newarray
  else if op == 0xbd then .anewarray
  else if op == 0xc0 then .checkcast
  else if op == 0xc1 then .instanceof
  else if op == 0xc4 then .wide
  else if op == 0xc5 then .multianewarray
  else if op == 0xc8 then .gotoW
  else if op == 0xc9 then .jsrW
  else .invalid

/-- the `wide` arm of the second loop -/
def decodeWide (c : Cur) : Outcome (Insn × Cur) := do
  let (w, c) ← cU8 c
  if 0x15 ≤ w && w ≤ 0x19 then do let (i, c) ← cU16 c; pure (.load (w - 0x15) i, c)
  else if 0x36 ≤ w && w ≤ 0x3a then do let (i, c) ← cU16 c; pure (.store (w - 0x36) i, c)
  else if w == 0xa9 then do let (i, c) ← cU16 c; pure (.ret i, c)
  else if w == 0x84 then do
    let (i, c) ← cU16 c
    let (v, c) ← cI16 c
    pure (.iinc i v, c)
  else err

/-- decode the instruction at `c.1` -/
def decodeInsn (p : Pool) (bsms : Option (List Bsm)) (l : Labels) (c : Cur) : Outcome (Insn × Cur) := do
  let pos := c.1
  let (op, c) ← cU8 c
  match opKind op with
  | .simple => pure (.simple op, c)
  | .bipush => do let (v, c) ← cI8 c; pure (.bipush v, c)
  | .sipush => do let (v, c) ← cI16 c; pure (.sipush v, c)
  | .ldc => do
    let (i, c) ← cU8 c
    let k ← p.getLoadable bsms i
    pure (.ldc k, c)
  | .ldcW => do
    let (i, c) ← cU16 c
    let k ← p.getLoadable bsms i
    pure (.ldc k, c)
  | .load k => do let (i, c) ← cU8 c; pure (.load k i, c)
  | .loadN k i => pure (.load k i, c)
  | .store k => do let (i, c) ← cU8 c; pure (.store k i, c)
  | .storeN k i => pure (.store k i, c)
  | .iinc => do
    let (i, c) ← cU8 c
    let (v, c) ← cI8 c
    pure (.iinc i v, c)
  | .cond => do
    let (t, c) ← cBranch16 pos c
    let id ← l.tryGet t
    pure (.branch op id, c)
  | .goto => do let (t, c) ← cBranch16 pos c; let id ← l.tryGet t; pure (.goto id, c)
  | .jsr => do let (t, c) ← cBranch16 pos c; let id ← l.tryGet t; pure (.jsr id, c)
  | .ret => do let (i, c) ← cU8 c; pure (.ret i, c)
  | .tableswitch => do
    let c ← cAlign c
    let (t, c) ← cBranch32 pos c
    let dflt ← l.tryGet t
    let (low, c) ← cI32 c
    let (high, c) ← cI32 c
    let n ← tableCount low high
    let (table, c) ← pass2Table l pos n c
    pure (.tableswitch dflt low high table, c)
  | .lookupswitch => do
    let c ← cAlign c
    let (t, c) ← cBranch32 pos c
    let dflt ← l.tryGet t
    let (n, c) ← cI32 c
    if n < 0 then err
    else do
      let (pairs, c) ← pass2Pairs l pos n.toNat c
      pure (.lookupswitch dflt pairs, c)
  | .field => do
    let (i, c) ← cU16 c
    let r ← p.getFieldRef i
    pure (.field op r, c)
  | .invokevirtual => do let (i, c) ← cU16 c; let m ← p.getMethodRef i; pure (.invokevirtual m, c)
  | .invokespecial => do
    let (i, c) ← cU16 c
    let (m, itf) ← p.getMethodRefOrInterface i
    pure (.invokespecial m itf, c)
  | .invokestatic => do
    let (i, c) ← cU16 c
    let (m, itf) ← p.getMethodRefOrInterface i
    pure (.invokestatic m itf, c)
  | .invokeinterface => do
    let (i, c) ← cU16 c
    let m ← p.getInterfaceMethodRef i
    let (_, c) ← cU8 c
    let (_, c) ← cU8 c
    pure (.invokeinterface m, c)
  | .invokedynamic => do
    let (i, c) ← cU16 c
    let d ← p.getInvokeDynamic bsms i
    let (_, c) ← cU8 c
    let (_, c) ← cU8 c
    pure (.invokedynamic d, c)
  | .new => do let (i, c) ← cU16 c; let k ← p.getClass i; pure (.new k, c)
  | .newarray => do
    let (a, c) ← cU8 c
    if 4 ≤ a && a ≤ 11 then pure (.newarray a, c) else err
  | .anewarray => do let (i, c) ← cU16 c; let k ← p.getClass i; pure (.anewarray k, c)
  | .checkcast => do let (i, c) ← cU16 c; let k ← p.getClass i; pure (.checkcast k, c)
  | .instanceof => do let (i, c) ← cU16 c; let k ← p.getClass i; pure (.instanceof k, c)
  | .wide => decodeWide c
  | .multianewarray => do
    let (i, c) ← cU16 c
    let k ← p.getClass i
    let (d, c) ← cU8 c
    pure (.multianewarray k d, c)
  | .gotoW => do let (t, c) ← cBranch32 pos c; let id ← l.tryGet t; pure (.goto id, c)
  | .jsrW => do let (t, c) ← cBranch32 pos c; let id ← l.tryGet t; pure (.jsr id, c)
  | .invalid => err

/-- the stack-map part of one iteration of the second loop: the frame attached to the instruction whose label is
`label`, and the frames that remain -/
def takeFrame (frames : Option (List (Nat × Frame))) (label : Option Nat) : Option Frame × Option (List (Nat × Frame)) :=
  match frames, label with
  | some ((fl, f) :: rest), some lb => if fl = lb then (some f, some rest) else (none, frames)
  | _, _ => (none, frames)

/-- the second loop; the entries are accumulated in reverse.  `fuel` = code length is enough. -/
def pass2 (p : Pool) (bsms : Option (List Bsm)) (l : Labels) :
    Nat → Option (List (Nat × Frame)) → List InsnEntry → Cur → Outcome (List InsnEntry)
  | 0, _, acc, c => if c.2.isEmpty then ok acc.reverse else err
  | fuel + 1, frames, acc, c =>
    if c.2.isEmpty then ok acc.reverse
    else do
      let pos := c.1
      let (insn, c) ← decodeInsn p bsms l c
      let label := l.get pos
      let (frame, frames) := takeFrame frames label
      pass2 p bsms l fuel frames (⟨label, frame, insn⟩ :: acc) c

/-! ## the tables between the two passes -/

/-- one `exception_table` entry -/
def readException (p : Pool) (l : Labels) (s : Bytes) : Outcome (ExceptionEntry × Labels × Bytes) := do
  let (a, s) ← u16 s
  let (start, l) ← l.getOrCreate a
  let (b, s) ← u16 s
  let (end_, l) ← l.getOrCreateExcl b
  let (h, s) ← u16 s
  let (handler, l) ← l.getOrCreate h
  let (ct, s) ← u16 s
  let catch_ ← p.getOptional ct Pool.getClass
  pure (⟨start, end_, handler, catch_⟩, l, s)

/-- `read_verification_type_info` -/
def readVType (p : Pool) (l : Labels) (s : Bytes) : Outcome (VType × Labels × Bytes) := do
  let (tag, s) ← u8 s
  match tag with
  | 0 => pure (.top, l, s)
  | 1 => pure (.int, l, s)
  | 2 => pure (.float, l, s)
  | 3 => pure (.double, l, s)
  | 4 => pure (.long, l, s)
  | 5 => pure (.null, l, s)
  | 6 => pure (.uninitThis, l, s)
  | 7 => do
    let (i, s) ← u16 s
    let c ← p.getClass i
    pure (.object c, l, s)
  | 8 => do
    let (o, s) ← u16 s
    let (id, l) ← l.getOrCreate o
    pure (.uninit id, l, s)
  | _ => err

def readVTypes16 (p : Pool) (l : Labels) (s : Bytes) : Outcome (List VType × Labels × Bytes) := do
  let (n, s) ← u16 s
  readVecS (readVType p) n l s

/-- `read_stack_map_frame`: (offset_delta, frame) -/
def readFrame (p : Pool) (l : Labels) (s : Bytes) : Outcome ((Nat × Frame) × Labels × Bytes) := do
  let (t, s) ← u8 s
  if t ≤ 63 then pure ((t, .same), l, s)
  else if t ≤ 127 then do
    let (v, l, s) ← readVType p l s
    pure ((t - 64, .same1 v), l, s)
  else if t ≤ 246 then err
  else if t = 247 then do
    let (d, s) ← u16 s
    let (v, l, s) ← readVType p l s
    pure ((d, .same1 v), l, s)
  else if t ≤ 250 then do
    let (d, s) ← u16 s
    pure ((d, .chop (251 - t)), l, s)
  else if t = 251 then do
    let (d, s) ← u16 s
    pure ((d, .same), l, s)
  else if t ≤ 254 then do
    let (d, s) ← u16 s
    let (vs, l, s) ← readVecS (readVType p) (t - 251) l s
    pure ((d, .append vs), l, s)
  else do
    let (d, s) ← u16 s
    let (locals, l, s) ← readVTypes16 p l s
    let (stack, l, s) ← readVTypes16 p l s
    pure ((d, .full locals stack), l, s)

/-- the frame loop of `StackMapTable`; `first` = "`i == 0`", `offset` the running `u16` sum (`checked_add` twice: a sum
past 65535 is an error) -/
def readFrames (p : Pool) : Nat → Bool → Nat → Labels → Bytes → Outcome (List (Nat × Frame) × Labels × Bytes)
  | 0, _, _, l, s => ok ([], l, s)
  | n + 1, first, offset, l, s => do
    let ((delta, f), l, s) ← readFrame p l s
    let inc := if first then delta else delta + 1
    if offset + inc > 65535 then err
    else do
      let offset := offset + inc
      let (id, l) ← l.getOrCreate offset
      let (rest, l, s) ← readFrames p n false offset l s
      pure ((id, f) :: rest, l, s)

/-- the entry loop of the CLDC `StackMap` attribute: (bytecode offset, frame); labels of `Uninitialized` types are
created while reading, the labels of the entries themselves only after sorting -/
def readCldcFrames (p : Pool) : Nat → Labels → Bytes → Outcome (List (Nat × Frame) × Labels × Bytes)
  | 0, l, s => ok ([], l, s)
  | n + 1, l, s => do
    let (o, s) ← u16 s
    let (locals, l, s) ← readVTypes16 p l s
    let (stack, l, s) ← readVTypes16 p l s
    let (rest, l, s) ← readCldcFrames p n l s
    pure ((o, .full locals stack) :: rest, l, s)

/-- `frames.into_iter().map(|(offset, data)| Ok((labels.get_or_create(offset)?, data)))` -/
def labelFrames : List (Nat × Frame) → Labels → Outcome (List (Nat × Frame) × Labels)
  | [], l => ok ([], l)
  | (o, f) :: r, l => do
    let (id, l) ← l.getOrCreate o
    let (rest, l) ← labelFrames r l
    pure ((id, f) :: rest, l)

/-- one `line_number_table` entry -/
def readLine (l : Labels) (s : Bytes) : Outcome ((Nat × Nat) × Labels × Bytes) := do
  let (o, s) ← u16 s
  let (id, l) ← l.getOrCreate o
  let (line, s) ← u16 s
  pure ((id, line), l, s)

def readLines (n : Nat) (l : Labels) (s : Bytes) : Outcome (List (Nat × Nat) × Labels × Bytes) :=
  readVecS readLine n l s

/-- one `local_variable_table` (`typeTable = false`) / `local_variable_type_table` (`true`) entry -/
def readLv (p : Pool) (typeTable : Bool) (l : Labels) (s : Bytes) : Outcome (Lv × Labels × Bytes) := do
  let (start, s) ← u16 s
  let (len, s) ← u16 s
  let ((a, b), l) ← l.getOrCreateRange start len
  let (ni, s) ← u16 s
  let name0 ← p.getUtf8 ni
  let name ← checked validUnqualified name0
  let (di, s) ← u16 s
  let d ← p.getUtf8 di
  let (index, s) ← u16 s
  pure (if typeTable then ⟨a, b, name, none, some d, index⟩ else ⟨a, b, name, some d, none, index⟩, l, s)

/-- `read_type_reference_code` -/
def readTargetCode (l : Labels) (s : Bytes) : Outcome (Target × Labels × Bytes) := do
  let (tag, s) ← u8 s
  if tag = 0x40 || tag = 0x41 then do
    let (n, s) ← u16 s
    let (table, l, s) ← readVecS (fun l s => do
      let (start, s) ← u16 s
      let (len, s) ← u16 s
      let ((a, b), l) ← l.getOrCreateRange start len
      let (index, s) ← u16 s
      pure ((a, b, index), l, s)) n l s
    pure (.localVar tag table, l, s)
  else if tag = 0x42 then do
    let (i, s) ← u16 s
    pure (.exceptionParam i, l, s)
  else if 0x43 ≤ tag && tag ≤ 0x46 then do
    let (o, s) ← u16 s
    let (id, l) ← l.getOrCreate o
    pure (.offset tag id, l, s)
  else if 0x47 ≤ tag && tag ≤ 0x4b then do
    let (o, s) ← u16 s
    let (id, l) ← l.getOrCreate o
    let (i, s) ← u8 s
    pure (.offsetArg tag id i, l, s)
  else err

/-- `read_type_annotations_attribute_code` -/
def readTypeAnnosCode (p : Pool) (l : Labels) (s : Bytes) : Outcome (List TypeAnno × Labels × Bytes) := do
  let (n, s) ← u16 s
  readVecS (fun l s => do
    let (t, l, s) ← readTargetCode l s
    let (path, s) ← readTypePath s
    let (a, s) ← readAnnotation p s
    pure (⟨t, path, a⟩, l, s)) n l s

/-! ## attribute names -/

/-- `"Code"` -/
def sCode : JStr := [67, 111, 100, 101]
/-- `"StackMapTable"` -/
def sStackMapTable : JStr := [83, 116, 97, 99, 107, 77, 97, 112, 84, 97, 98, 108, 101]
/-- `"StackMap"` -/
def sStackMap : JStr := [83, 116, 97, 99, 107, 77, 97, 112]
/-- `"LineNumberTable"` -/
def sLineNumberTable : JStr := [76, 105, 110, 101, 78, 117, 109, 98, 101, 114, 84, 97, 98, 108, 101]
/-- `"LocalVariableTable"` -/
def sLocalVariableTable : JStr := [76, 111, 99, 97, 108, 86, 97, 114, 105, 97, 98, 108, 101, 84, 97, 98, 108, 101]
/-- `"LocalVariableTypeTable"` -/
def sLocalVariableTypeTable : JStr := [76, 111, 99, 97, 108, 86, 97, 114, 105, 97, 98, 108, 101, 84, 121, 112, 101, 84, 97, 98, 108, 101]
/-- `"RuntimeVisibleTypeAnnotations"` -/
def sRVTA : JStr := [82, 117, 110, 116, 105, 109, 101, 86, 105, 115, 105, 98, 108, 101, 84, 121, 112, 101, 65, 110, 110, 111, 116, 97, 116, 105, 111, 110, 115]
/-- `"RuntimeInvisibleTypeAnnotations"` -/
def sRITA : JStr := [82, 117, 110, 116, 105, 109, 101, 73, 110, 118, 105, 115, 105, 98, 108, 101, 84, 121, 112, 101, 65, 110, 110, 111, 116, 97, 116, 105, 111, 110, 115]

/-- mutable state of the attribute loop of `read_code` -/
structure CodeAttrState where
  labels : Labels
  frames : Option (List (Nat × Frame))
  lines : Option (List (Nat × Nat))
  locals : Option (List Lv)
  rvta : List TypeAnno
  ritva : List TypeAnno
  attrs : List Attr
  deriving Inhabited

/-- one iteration of the attribute loop of `read_code` -/
def readCodeAttr (p : Pool) (st : CodeAttrState) (s : Bytes) : Outcome (CodeAttrState × Bytes) := do
  let (ni, s) ← u16 s
  let name ← p.getUtf8 ni
  let (length, s) ← u32 s
  if name = sStackMapTable then do
    let (n, s) ← u16 s
    let (frames, l, s) ← readFrames p n true 0 st.labels s
    let fr ← insertIfEmpty st.frames frames
    pure ({ st with labels := l, frames := fr }, s)
  else if name = sStackMap then do
    let (n, s) ← u16 s
    let (frames, l, s) ← readCldcFrames p n st.labels s
    -- `frames.sort_by_key(|&(offset, _)| offset)`: stable, by bytecode offset; labels are created afterwards
    let frames := frames.mergeSort (fun a b => decide (a.1 ≤ b.1))
    let (frames, l) ← labelFrames frames l
    let fr ← insertIfEmpty st.frames frames
    pure ({ st with labels := l, frames := fr }, s)
  else if name = sLineNumberTable then do
    let (n, s) ← u16 s
    let (entries, l, s) ← readLines n st.labels s
    pure ({ st with labels := l, lines := some (st.lines.getD [] ++ entries) }, s)
  else if name = sLocalVariableTable then do
    let (n, s) ← u16 s
    let (entries, l, s) ← readVecS (readLv p false) n st.labels s
    pure ({ st with labels := l, locals := some (st.locals.getD [] ++ entries) }, s)
  else if name = sLocalVariableTypeTable then do
    let (n, s) ← u16 s
    let (entries, l, s) ← readVecS (readLv p true) n st.labels s
    pure ({ st with labels := l, locals := some (st.locals.getD [] ++ entries) }, s)
  else if name = sRVTA then do
    let (annos, l, s) ← readTypeAnnosCode p st.labels s
    pure ({ st with labels := l, rvta := st.rvta ++ annos }, s)
  else if name = sRITA then do
    let (annos, l, s) ← readTypeAnnosCode p st.labels s
    pure ({ st with labels := l, ritva := st.ritva ++ annos }, s)
  else do
    let (bytes, s) ← takeN length s
    pure ({ st with attrs := st.attrs ++ [⟨name, bytes⟩] }, s)

def readCodeAttrs (p : Pool) : Nat → CodeAttrState → Bytes → Outcome (CodeAttrState × Bytes)
  | 0, st, s => ok (st, s)
  | n + 1, st, s => do
    let (st, s) ← readCodeAttr p st s
    readCodeAttrs p n st s

/-- `read_code` (the body of a `Code` attribute, after name and length) -/
def readCode (p : Pool) (bsms : Option (List Bsm)) (s : Bytes) : Outcome (Code × Bytes) := do
  let (maxStack, s) ← u16 s
  let (maxLocals, s) ← u16 s
  let (codeLength, s) ← u32 s
  if codeLength = 0 || codeLength > 65535 then err
  else do
    let (code, s) ← takeN codeLength s
    let l ← pass1 codeLength (Labels.new codeLength) (0, code)
    let (n, s) ← u16 s
    let (exceptions, l, s) ← readVecS (readException p) n l s
    let (ac, s) ← u16 s
    let (st, s) ← readCodeAttrs p ac ⟨l, none, none, none, [], [], []⟩ s
    let insns ← pass2 p bsms st.labels codeLength st.frames [] (0, code)
    pure (⟨maxStack, maxLocals, insns, exceptions, st.labels.get codeLength, st.lines, st.locals,
      st.rvta, st.ritva, st.attrs⟩, s)

end ClassRead
