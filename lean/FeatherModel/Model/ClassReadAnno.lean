import FeatherModel.Model.ClassReadPool

/-!
# C01 — annotations, element values, type annotations outside of `Code`, type paths
(`read_annotations_attribute`, `read_element_values_named`, `read_element_values_unnamed`,
`read_element_value_unnamed`, `read_type_annotations_attribute`, `TargetInfoRead`, `read_type_path`)

The Rust functions recurse on the nesting of `@`/`[` element values and carry the nesting `depth`:
`read_element_values_named` / `read_element_values_unnamed` bail when `depth > MAX_ELEMENT_VALUE_DEPTH = 255`
(`check_element_value_depth`), nested annotations and arrays are read at `depth + 1`, the pairs of a top-level
annotation and an `AnnotationDefault` value at depth 0.  For termination the model additionally takes fuel
`2 * bytes + 2`: one unit per loop iteration and one per element value; it cannot run out (`err` in that unreachable
case).
-/

namespace ClassRead

open Outcome

mutual
inductive ElemVal where
  /-- `Object::{Byte, Char, Double, Float, Integer, Long, Short, Boolean}`: `tag` is the ASCII tag byte, `v` the
  value after the cast the reader applies (`as i8`, `as u16`, `as i16`, `!= 0`; float/double: bit pattern) -/
  | const (tag : Nat) (v : Int)
  | str (s : JStr)
  | enum (ty : JStr) (name : JStr)
  | cls (desc : JStr)
  | anno (a : Annotation)
  | arr (vs : List ElemVal)
inductive Annotation where
  | mk (ty : JStr) (pairs : List (JStr × ElemVal))
end

instance : Inhabited ElemVal := ⟨.str []⟩
instance : Inhabited Annotation := ⟨.mk [] []⟩

/-- `x as i8` etc. of an `i32` -/
def wrapI8 (v : Int) : Int := toI8 (v % 256).toNat
def wrapI16 (v : Int) : Int := toI16 (v % 65536).toNat
def wrapU16 (v : Int) : Int := v % 65536

/-- the constant-valued tags `B C D F I J S Z s` -/
def readConstElem (p : Pool) (tag : Nat) : Rd ElemVal := fun s => do
  let (i, s) ← u16 s
  match tag with
  | 66 => do let v ← p.getInteger i; pure (.const 66 (wrapI8 v), s)
  | 67 => do let v ← p.getInteger i; pure (.const 67 (wrapU16 v), s)
  | 68 => do let v ← p.getDouble i; pure (.const 68 v, s)
  | 70 => do let v ← p.getFloat i; pure (.const 70 v, s)
  | 73 => do let v ← p.getInteger i; pure (.const 73 v, s)
  | 74 => do let v ← p.getLong i; pure (.const 74 v, s)
  | 83 => do let v ← p.getInteger i; pure (.const 83 (wrapI16 v), s)
  | 90 => do let v ← p.getInteger i; pure (.const 90 (if v != 0 then 1 else 0), s)
  | 115 => do let v ← p.getUtf8 i; pure (.str v, s)
  | _ => err

def isConstTag (tag : Nat) : Bool :=
  tag == 66 || tag == 67 || tag == 68 || tag == 70 || tag == 73 || tag == 74 || tag == 83 || tag == 90 || tag == 115

/-- `MAX_ELEMENT_VALUE_DEPTH` -/
def maxElemDepth : Nat := 255

mutual
/-- `read_element_value_unnamed` at nesting `depth` (the part after the optional name of `read_element_values_named`
is identical); arguments: fuel, depth -/
def readElemVal (p : Pool) : Nat → Nat → Rd ElemVal
  | 0, _, _ => err
  | fuel + 1, d, s => do
    let (tag, s) ← u8 s
    if isConstTag tag then readConstElem p tag s
    else if tag = 101 then do
      let (t, s) ← u16 s
      let ty ← p.getUtf8 t
      let (c, s) ← u16 s
      let name ← p.getUtf8 c
      pure (.enum ty name, s)
    else if tag = 99 then do
      let (c, s) ← u16 s
      let d ← p.getUtf8 c
      pure (.cls d, s)
    else if tag = 64 then do
      let (t, s) ← u16 s
      let ty ← p.getUtf8 t
      -- `read_element_values_named(.., depth + 1)`: `check_element_value_depth` first
      if d + 1 > maxElemDepth then err
      else do
        let (n, s) ← u16 s
        let (pairs, s) ← readNamedPairs p fuel (d + 1) n s
        pure (.anno (.mk ty pairs), s)
    else if tag = 91 then do
      -- `read_element_values_unnamed(.., depth + 1)`
      if d + 1 > maxElemDepth then err
      else do
        let (n, s) ← u16 s
        let (vs, s) ← readUnnamed p fuel (d + 1) n s
        pure (.arr vs, s)
    else err
/-- the loop of `read_element_values_named` at nesting `depth` (depth checked and count read by the caller);
arguments: fuel, depth, remaining count -/
def readNamedPairs (p : Pool) : Nat → Nat → Nat → Rd (List (JStr × ElemVal))
  | 0, _, _, _ => err
  | _ + 1, _, 0, s => ok ([], s)
  | fuel + 1, d, n + 1, s => do
    let (ni, s) ← u16 s
    let name ← p.getUtf8 ni
    let (v, s) ← readElemVal p fuel d s
    let (rest, s) ← readNamedPairs p fuel d n s
    pure ((name, v) :: rest, s)
/-- the loop of `read_element_values_unnamed` at nesting `depth` (depth checked and count read by the caller) -/
def readUnnamed (p : Pool) : Nat → Nat → Nat → Rd (List ElemVal)
  | 0, _, _, _ => err
  | _ + 1, _, 0, s => ok ([], s)
  | fuel + 1, d, n + 1, s => do
    let (v, s) ← readElemVal p fuel d s
    let (rest, s) ← readUnnamed p fuel d n s
    pure (v :: rest, s)
end

def annoFuel (s : Bytes) : Nat := 2 * s.length + 2

/-- one `annotation` structure: type index, then the named pairs -/
def readAnnotation (p : Pool) : Rd Annotation := fun s => do
  let (t, s) ← u16 s
  let ty ← p.getUtf8 t
  let (n, s) ← u16 s
  let (pairs, s) ← readNamedPairs p (annoFuel s) 0 n s
  pure (.mk ty pairs, s)

/-- `read_annotations_attribute` -/
def readAnnotations (p : Pool) : Rd (List Annotation) := readVec16 (readAnnotation p)

/-- `AnnotationDefault`: `read_element_value_unnamed` -/
def readAnnotationDefault (p : Pool) : Rd ElemVal := fun s => readElemVal p (annoFuel s) 0 s

/-! ## type annotations -/

inductive Target where
  /-- `0x00` class / `0x01` method type parameter -/
  | typeParam (tag : Nat) (index : Nat)
  | extends_
  | implements (index : Nat)
  /-- `0x11` class / `0x12` method type parameter bound -/
  | typeParamBound (tag : Nat) (param bound : Nat)
  | field
  | ret
  | receiver
  | formalParam (index : Nat)
  | throws (index : Nat)
  /-- `0x40` local variable / `0x41` resource variable: (start label, end label, index) -/
  | localVar (tag : Nat) (table : List (Nat × Nat × Nat))
  | exceptionParam (index : Nat)
  /-- `0x43`..`0x46`: instanceof, new, constructor reference, method reference -/
  | offset (tag : Nat) (label : Nat)
  /-- `0x47`..`0x4b`: cast and the four type-argument targets -/
  | offsetArg (tag : Nat) (label : Nat) (index : Nat)
  deriving Repr, Inhabited

structure TypeAnno where
  target : Target
  /-- `TypePath.path`: (kind 0..3, type argument index) -/
  path : List (Nat × Nat)
  anno : Annotation
  deriving Inhabited

/-- `read_type_path` -/
def readTypePath : Rd (List (Nat × Nat)) := fun s => do
  let (n, s) ← u8 s
  readVec (fun s => do
    let (kind, s) ← u8 s
    let (idx, s) ← u8 s
    if kind ≤ 2 then (if idx != 0 then err else pure ((kind, 0), s))
    else if kind = 3 then pure ((3, idx), s)
    else err) n s

def readTargetClass : Rd Target := fun s => do
  let (tag, s) ← u8 s
  match tag with
  | 0x00 => do let (i, s) ← u8 s; pure (.typeParam 0x00 i, s)
  | 0x10 => do let (i, s) ← u16 s; pure (if i = 65535 then .extends_ else .implements i, s)
  | 0x11 => do let (a, s) ← u8 s; let (b, s) ← u8 s; pure (.typeParamBound 0x11 a b, s)
  | _ => err

def readTargetField : Rd Target := fun s => do
  let (tag, s) ← u8 s
  match tag with
  | 0x13 => pure (.field, s)
  | _ => err

def readTargetMethod : Rd Target := fun s => do
  let (tag, s) ← u8 s
  match tag with
  | 0x01 => do let (i, s) ← u8 s; pure (.typeParam 0x01 i, s)
  | 0x12 => do let (a, s) ← u8 s; let (b, s) ← u8 s; pure (.typeParamBound 0x12 a b, s)
  | 0x14 => pure (.ret, s)
  | 0x15 => pure (.receiver, s)
  | 0x16 => do let (i, s) ← u8 s; pure (.formalParam i, s)
  | 0x17 => do let (i, s) ← u16 s; pure (.throws i, s)
  | _ => err

/-- `read_type_annotations_attribute` for the given target reader -/
def readTypeAnnos (p : Pool) (target : Rd Target) : Rd (List TypeAnno) :=
  readVec16 (fun s => do
    let (t, s) ← target s
    let (path, s) ← readTypePath s
    let (a, s) ← readAnnotation p s
    pure (⟨t, path, a⟩, s))

end ClassRead
