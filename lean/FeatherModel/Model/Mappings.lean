import FeatherModel.Base.Sexp
import FeatherModel.Base.AList

/-!
# quill mapping trees (`quill/src/tree/mappings.rs`)
`N` is a value: name rows are `List (Option JStr)`; maps are `AList`s in `IndexMap` order with explicit keys.
-/

abbrev Names := List (Option JStr)

structure Param where
  index : Nat
  names : Names
  doc : Option JStr
  deriving Repr, BEq, DecidableEq

structure Field where
  desc : JStr
  names : Names
  doc : Option JStr
  deriving Repr, BEq, DecidableEq

structure Method where
  desc : JStr
  names : Names
  doc : Option JStr
  params : AList Nat Param
  deriving Repr, BEq, DecidableEq

/-- member keys are `(name, desc)` -/
abbrev MemberKey := JStr × JStr

structure Class where
  names : Names
  doc : Option JStr
  fields : AList MemberKey Field
  methods : AList MemberKey Method
  deriving Repr, BEq, DecidableEq

structure Mappings where
  ns : List JStr
  doc : Option JStr
  classes : AList JStr Class
  deriving Repr, BEq, DecidableEq

namespace Mappings

/-- `Namespaces::get_namespace` -/
def getNamespace (m : Mappings) (name : JStr) : Option Nat :=
  let rec go : List JStr → Nat → Option Nat
    | [], _ => none
    | n :: rest, i => if n == name then some i else go rest (i + 1)
  go m.ns 0

end Mappings

/-! ## S-expression codec (mirror of `harness/src/mapcodec.rs`) -/

namespace Codec
open Sexp

def namesTo (n : Names) : Sexp := ofList (ofOption ofJStr) n
def docTo (d : Option JStr) : Sexp := ofOption ofJStr d

def paramTo (e : Nat × Param) : Sexp :=
  list [ofNat e.1, ofNat e.2.index, namesTo e.2.names, docTo e.2.doc]
def fieldTo (e : MemberKey × Field) : Sexp :=
  list [ofJStr e.1.1, ofJStr e.1.2, ofJStr e.2.desc, namesTo e.2.names, docTo e.2.doc]
def methodTo (e : MemberKey × Method) : Sexp :=
  list [ofJStr e.1.1, ofJStr e.1.2, ofJStr e.2.desc, namesTo e.2.names, docTo e.2.doc, ofList paramTo e.2.params]
def classTo (e : JStr × Class) : Sexp :=
  list [ofJStr e.1, namesTo e.2.names, docTo e.2.doc, ofList fieldTo e.2.fields, ofList methodTo e.2.methods]
def mappingsTo (m : Mappings) : Sexp :=
  list [ofList ofJStr m.ns, docTo m.doc, ofList classTo m.classes]

def namesFrom (s : Sexp) : Option Names := toListOf? (toOption? toJStr?) s
def docFrom (s : Sexp) : Option (Option JStr) := toOption? toJStr? s

def paramFrom : Sexp → Option (Nat × Param)
  | list [k, i, n, d] => do
    let k ← toNat? k; let i ← toNat? i; let n ← namesFrom n; let d ← docFrom d
    pure (k, { index := i, names := n, doc := d })
  | _ => none
def fieldFrom : Sexp → Option (MemberKey × Field)
  | list [kn, kd, desc, n, d] => do
    let kn ← toJStr? kn; let kd ← toJStr? kd; let desc ← toJStr? desc; let n ← namesFrom n; let d ← docFrom d
    pure ((kn, kd), { desc := desc, names := n, doc := d })
  | _ => none
def methodFrom : Sexp → Option (MemberKey × Method)
  | list [kn, kd, desc, n, d, ps] => do
    let kn ← toJStr? kn; let kd ← toJStr? kd; let desc ← toJStr? desc; let n ← namesFrom n; let d ← docFrom d
    let ps ← toListOf? paramFrom ps
    pure ((kn, kd), { desc := desc, names := n, doc := d, params := ps })
  | _ => none
def classFrom : Sexp → Option (JStr × Class)
  | list [k, n, d, fs, ms] => do
    let k ← toJStr? k; let n ← namesFrom n; let d ← docFrom d
    let fs ← toListOf? fieldFrom fs; let ms ← toListOf? methodFrom ms
    pure (k, { names := n, doc := d, fields := fs, methods := ms })
  | _ => none
def mappingsFrom : Sexp → Option Mappings
  | list [ns, d, cs] => do
    let ns ← toListOf? toJStr? ns; let d ← docFrom d; let cs ← toListOf? classFrom cs
    pure { ns := ns, doc := d, classes := cs }
  | _ => none

end Codec
