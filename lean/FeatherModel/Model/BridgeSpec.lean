import FeatherModel.Model.Bridge

/-!
# Declarative reading of the bridge predicate (C15)

What `Thm/C15.lean` states the executable model of `get_specialized_methods` against: reachability in the class
hierarchy instead of the work-list walk, propositions instead of the short-circuiting loops.
-/

namespace Bridge

/-- `a` is reachable from `c` in one or more steps of the graph `g` (`class ↦ direct successors`);
with `g = idx.parents`: `a` is a proper ancestor of `c`, with `g = idx.children`: a proper descendant -/
inductive Reach (g : AList JStr (List JStr)) : JStr → JStr → Prop
  | step {c p : JStr} : p ∈ nexts g c → Reach g c p
  | trans {c p a : JStr} : p ∈ nexts g c → Reach g p a → Reach g c a

/-- "bridge-compatible" types, as the code defines it: equal, or both object types and the bridge's type is
`java/lang/Object`, or a class the jar does not contain, or the specialized type has an ancestor (through the
hierarchy recorded for the jar) that is the bridge's type or a class the jar does not contain -/
def Compat (idx : Index) (tb ts : Ty) : Prop :=
  tb = ts ∨ ∃ b s, tb = .obj b ∧ ts = .obj s ∧
    (b = JLO ∨ b ∉ idx.classes ∨ ∃ a, Reach idx.parents s a ∧ (a = b ∨ a ∉ idx.classes))

/-- return types: both `void`, or both values of compatible types -/
def RetCompat (idx : Index) : Option Ty → Option Ty → Prop
  | some b, some s => Compat idx b s
  | none, none => True
  | _, _ => False

/-- inheritable, same arity, position-wise compatible parameters, compatible return type -/
def Potential (idx : Index) (b : MRef) (acc : Access) (s : MRef) : Prop :=
  acc.priv = false ∧ acc.static = false ∧ acc.final = false ∧
  ∃ pb rb ps rs, parseMethodDesc b.desc = some (pb, rb) ∧ parseMethodDesc s.desc = some (ps, rs) ∧
    pb.length = ps.length ∧ (∀ p, p ∈ List.zip pb ps → Compat idx p.1 p.2) ∧ RetCompat idx rb rs

/-- the stated conditions: `b` is a synthetic method of the jar whose body invokes exactly one distinct method, `s`,
and it is flagged as a bridge or is a potential bridge of `s` -/
def IsBridgePair (idx : Index) (b s : MRef) : Prop :=
  ∃ acc, AList.lookup b idx.methods = some acc ∧ acc.synthetic = true ∧ AList.lookup b idx.refs = some [s] ∧
    (acc.bridge = true ∨ Potential idx b acc s)

/-- the tie-break of the loop, as a fold over the bridges found for one specialized method, in order:
the first one is recorded; a later one replaces the recorded one when `get_higher_method` picks it -/
def foldHigher (w : Walks) : Option MRef → List MRef → Option (Option MRef)
  | cur, [] => some cur
  | none, b :: bs => foldHigher w (some b) bs
  | some o, b :: bs =>
    match higher w b o with
    | none => none
    | some h => foldHigher w (some h) bs

/-! ## the mapping side -/

/-- the pair `(b, s)` writes the method entry `k` of class `c` -/
def touches (c : JStr) (k : MemberKey) (p : MRef × MRef) : Bool := p.1.cls == c && (p.2.name, p.2.desc) == k

/-- the last pair of the list writing `(c, k)` -/
def lastTouch (ps : List (MRef × MRef)) (c : JStr) (k : MemberKey) : Option (MRef × MRef) :=
  (ps.filter (touches c k)).getLast?

/-- the method entry `k` of class `c` -/
def methodAt (m : Mappings) (c : JStr) (k : MemberKey) : Option Method :=
  match AList.lookup c m.classes with
  | some cl => AList.lookup k cl.methods
  | none => none

end Bridge
