import FeatherModel.Model.CodeWrite
import FeatherModel.Model.PoolWrite

/-!
# Model of the framing done by `duke/src/simple_class_writer.rs` around the code array

`write_attribute` (body buffered, `attribute_length` measured), the body of the `Code` attribute as `write_code` lays it
out, members, and the class file as `write` assembles it (pool last, but placed in front). Counts go through
`write_usize_as_u16` / `write_usize_as_u32`: a count that does not fit is an error, never a truncation.
-/

namespace ClassWrite
open CodeWrite (u16b u32b rowsBytes)

/-- an attribute as it is stored: pool index of its name, body -/
abbrev Attr := Nat × Bytes

/-- `write_attribute` after the body is complete: name index, measured `attribute_length`, body -/
def attrBytes (a : Attr) : Bytes := u16b a.1 ++ u32b a.2.length ++ a.2

def attrsBytes (as : List Attr) : Bytes := as.flatMap attrBytes

/-- a table attribute body: `u16` count, rows of `u16` -/
def tableBody (rows : List (List Nat)) : Bytes := u16b rows.length ++ rowsBytes rows

structure CodeAttr where
  maxStack : Nat
  maxLocals : Nat
  code : Bytes
  excRows : List (List Nat)
  attrs : List Attr
  deriving Repr, DecidableEq

/-- the body `write_code` writes -/
def codeBody (c : CodeAttr) : Bytes :=
  u16b c.maxStack ++ u16b c.maxLocals ++ u32b c.code.length ++ c.code ++ u16b c.excRows.length ++ rowsBytes c.excRows ++
    u16b c.attrs.length ++ attrsBytes c.attrs

structure Member where
  access : Nat
  nameIdx : Nat
  descIdx : Nat
  attrs : List Attr
  deriving Repr, DecidableEq

/-- `write_field` / `write_method` -/
def memberBytes (m : Member) : Bytes :=
  u16b m.access ++ u16b m.nameIdx ++ u16b m.descIdx ++ u16b m.attrs.length ++ attrsBytes m.attrs

def membersBytes (ms : List Member) : Bytes := u16b ms.length ++ ms.flatMap memberBytes

structure ClassImg where
  minor : Nat
  major : Nat
  /-- `constant_pool_count` and the entries in file order -/
  poolCount : Nat
  poolEntries : List PoolWrite.Entry
  access : Nat
  thisIdx : Nat
  superIdx : Nat
  interfaces : List Nat
  fields : List Member
  methods : List Member
  attrs : List Attr
  deriving Repr, DecidableEq

/-- `write`: magic, version, pool, then everything that was buffered while the pool grew -/
def classBytes (c : ClassImg) : Bytes :=
  [0xca, 0xfe, 0xba, 0xbe] ++ u16b c.minor ++ u16b c.major ++
    u16b c.poolCount ++ c.poolEntries.flatMap PoolWrite.entryBytes ++
    u16b c.access ++ u16b c.thisIdx ++ u16b c.superIdx ++
    u16b c.interfaces.length ++ c.interfaces.flatMap u16b ++
    membersBytes c.fields ++ membersBytes c.methods ++
    u16b c.attrs.length ++ attrsBytes c.attrs

/-- counts and lengths that `write_usize_as_u16/u32` accept -/
def attrFits (a : Attr) : Bool := decide (a.2.length ≤ 4294967295)

end ClassWrite
