import FeatherModel.Model.Mappings

/-!
# Merging two mapping sets (C09)
`quill/src/action/merge.rs`: `Mappings::<2,_>::merge(a, b) -> Mappings<3,_>` with its helpers `merge_namespaces`,
`merge_names`, `merge_equal`, `merge_javadoc`, `merge_javadoc_ab`;
`quill/src/action/diff_mappings.rs` `mod diff_and_merge`: `Combination`, `map_combine_one_side`, `zip_map`,
`zip_map_combination` (the key-union zip shared with `diff`; modelled here, not imported from the diff model).

`N` is a run-time value: the inputs have rows of length 2, the result rows of length 3; rows of any other length
(not expressible in the Rust types) make the model fail. All `anyhow` errors are one class (`none`).
-/

namespace Merge
open AList

variable {K V W α β : Type}

/-- `enum Combination<T> { A(T), B(T), AB(T, T) }` -/
inductive Comb (α : Type) where
  | a (x : α)
  | b (y : α)
  | ab (x y : α)
  deriving Repr

/-- `Combination::map` -/
def Comb.map (f : α → β) : Comb α → Comb β
  | .a x => .a (f x)
  | .b y => .b (f y)
  | .ab x y => .ab (f x) (f y)

/-- the A side of a combination, if any -/
def Comb.left : Comb α → Option α
  | .a x => some x
  | .b _ => none
  | .ab x _ => some x

/-- the B side of a combination, if any -/
def Comb.right : Comb α → Option α
  | .a _ => none
  | .b y => some y
  | .ab _ y => some y

/-- `a.keys().chain(b.keys()).collect::<IndexSet<_>>()`: first occurrences, in order -/
def dedup [BEq K] : List K → List K
  | [] => []
  | k :: ks => k :: (dedup ks).filter (fun x => !(x == k))

def unionKeys [BEq K] (m n : AList K V) : List K := dedup (m.keys ++ n.keys)

/-- the `match (a.get(key), b.get(key))` of `zip_map`; `(None, None)` is `unreachable!()` there -/
def combOf : Option α → Option α → Option (Comb α)
  | some x, none => some (.a x)
  | none, some y => some (.b y)
  | some x, some y => some (.ab x y)
  | none, none => none

/-- `iter.map(|key| Ok((key, g(key)?))).collect::<Result<IndexMap<_,_>>>()` -/
def collectOpt (g : K → Option W) : List K → Option (AList K W)
  | [] => some []
  | k :: ks =>
    match g k with
    | none => none
    | some w =>
      match collectOpt g ks with
      | none => none
      | some r => some ((k, w) :: r)

/-- `zip_map` -/
def zipMap [BEq K] (m n : AList K V) (f : Comb V → Option W) : Option (AList K W) :=
  collectOpt (fun k =>
    match combOf (lookup k m) (lookup k n) with
    | none => none
    | some c => f c) (unionKeys m n)

/-- `zip_map_combination` (one-sided: `map_combine_one_side`) -/
def zipComb [BEq K] (ab : Comb (AList K V)) (f : Comb V → Option W) : Option (AList K W) :=
  match ab with
  | .a m => mapValsM (fun _ v => f (.a v)) m
  | .b n => mapValsM (fun _ v => f (.b v)) n
  | .ab m n => zipMap m n f

/-- `merge_javadoc` (and `merge_javadoc_ab` for `.ab`) -/
def mergeDoc : Comb (Option JStr) → Option (Option JStr)
  | .a x => some x
  | .b y => some y
  | .ab none none => some none
  | .ab none (some b) => some (some b)
  | .ab (some a) none => some (some a)
  | .ab (some a) (some b) => if a == b then some (some a) else none

/-- `TryFrom<[Option<T>; N]> for Names`: an existing name must not be the empty string -/
def namesOk (r : Names) : Bool := !r.any (fun x => x == some [])

def mkNames (r : Names) : Option Names := if namesOk r then some r else none

/-- `merge_names` -/
def mergeNames : Comb Names → Option Names
  | .a [a0, a1] => mkNames [a0, a1, none]
  | .b [b0, b1] => mkNames [b0, none, b1]
  | .ab [a0, a1] [b0, b1] => if a0 != b0 then none else mkNames [a0, a1, b1]
  | _ => none

/-- `merge_equal` -/
def mergeEq [BEq α] : Comb α → Option α
  | .a x => some x
  | .b y => some y
  | .ab x y => if x != y then none else some x

/-- `merge_namespaces`; `try_into` refuses empty namespace names -/
def mergeNamespaces (a b : List JStr) : Option (List JStr) :=
  match a, b with
  | [a0, a1], [b0, b1] =>
    if a0 != b0 then none
    else if [a0, a1, b1].any (fun s => s.isEmpty) then none
    else some [a0, a1, b1]
  | _, _ => none

def mergeParam (ab : Comb Param) : Option Param :=
  match mergeEq (ab.map (·.index)), mergeNames (ab.map (·.names)), mergeDoc (ab.map (·.doc)) with
  | some i, some n, some d => some { index := i, names := n, doc := d }
  | _, _, _ => none

def mergeField (ab : Comb Field) : Option Field :=
  match mergeEq (ab.map (·.desc)), mergeNames (ab.map (·.names)), mergeDoc (ab.map (·.doc)) with
  | some de, some n, some d => some { desc := de, names := n, doc := d }
  | _, _, _ => none

def mergeMethod (ab : Comb Method) : Option Method :=
  match mergeEq (ab.map (·.desc)), mergeNames (ab.map (·.names)),
      zipComb (ab.map (·.params)) mergeParam, mergeDoc (ab.map (·.doc)) with
  | some de, some n, some ps, some d => some { desc := de, names := n, doc := d, params := ps }
  | _, _, _, _ => none

def mergeClass (ab : Comb Class) : Option Class :=
  match mergeNames (ab.map (·.names)), zipComb (ab.map (·.fields)) mergeField,
      zipComb (ab.map (·.methods)) mergeMethod, mergeDoc (ab.map (·.doc)) with
  | some n, some fs, some ms, some d => some { names := n, doc := d, fields := fs, methods := ms }
  | _, _, _, _ => none

/-- `Mappings::merge` -/
def merge (A B : Mappings) : Option Mappings :=
  match mergeNamespaces A.ns B.ns, zipMap A.classes B.classes mergeClass, mergeDoc (.ab A.doc B.doc) with
  | some ns, some cs, some d => some { ns := ns, doc := d, classes := cs }
  | _, _, _ => none

/-! ## Vocabulary of the specification (used by `Thm/C09.lean` and evaluated by `Driver/C09.lean`) -/

/-- entries by path -/
def cls (M : Mappings) (kc : JStr) : Option Class := lookup kc M.classes
def fld (M : Mappings) (kc : JStr) (kf : MemberKey) : Option Field := (cls M kc).bind (fun c => lookup kf c.fields)
def mth (M : Mappings) (kc : JStr) (km : MemberKey) : Option Method := (cls M kc).bind (fun c => lookup km c.methods)
def prm (M : Mappings) (kc : JStr) (km : MemberKey) (kp : Nat) : Option Param :=
  (mth M kc km).bind (fun m => lookup kp m.params)

/-- column `i` of an optional row; an absent row, an absent cell and an absent name are all `none` -/
def col (r : Option Names) (i : Nat) : Option JStr := (r.bind (fun n => n[i]?)).join

/-- the row `[s, a?, b?]` of an entry whose rows in A and B are `ra`, `rb` (absent side: `none`) -/
def joinRow (ra rb : Option Names) : Names :=
  [match ra with | some _ => col ra 0 | none => col rb 0, col ra 1, col rb 1]

/-- comment of a merged node: A's if it has one, otherwise B's -/
def joinDoc (da db : Option JStr) : Option JStr :=
  match da with | some d => some d | none => db

/-- keys of a child map of a merged node: one-sided keep the side's order, two-sided `unionKeys` -/
def sideKeys [BEq K] (om on : Option (AList K V)) : List K :=
  match om, on with
  | some m, some n => unionKeys m n
  | some m, none => m.keys
  | none, some n => n.keys
  | none, none => []

/-- projection of a row onto two columns -/
def projRow (i j : Nat) (r : Names) : Names := [(r[i]?).join, (r[j]?).join]

def projParam (i j : Nat) (p : Param) : Param := { p with names := projRow i j p.names }
def projField (i j : Nat) (f : Field) : Field := { f with names := projRow i j f.names }
def projMethod (i j : Nat) (m : Method) : Method :=
  { m with names := projRow i j m.names, params := mapVals (projParam i j) m.params }
def projClass (i j : Nat) (c : Class) : Class :=
  { c with names := projRow i j c.names, fields := mapVals (projField i j) c.fields,
           methods := mapVals (projMethod i j) c.methods }

/-- projection of a mapping set onto namespaces `i`, `j` (keys, order, descriptors, indices, comments kept) -/
def project (i j : Nat) (M : Mappings) : Mappings :=
  { ns := [M.ns[i]?.getD [], M.ns[j]?.getD []], doc := M.doc, classes := mapVals (projClass i j) M.classes }

/-- `P` restricted to the keys of `A` gives back `A`: every entry of `A` (at every level) is an entry of `P` under the
same key with the same names row, descriptor and parameter index, and carries `A`'s comment wherever `A` has one -/
def AgreesOn (A P : Mappings) : Prop :=
  P.ns = A.ns ∧ (∀ d, A.doc = some d → P.doc = some d) ∧
  (∀ kc a, cls A kc = some a → ∃ p, cls P kc = some p ∧ p.names = a.names ∧ (∀ d, a.doc = some d → p.doc = some d)) ∧
  (∀ kc kf a, fld A kc kf = some a → ∃ p, fld P kc kf = some p ∧ p.names = a.names ∧ p.desc = a.desc ∧
    (∀ d, a.doc = some d → p.doc = some d)) ∧
  (∀ kc km a, mth A kc km = some a → ∃ p, mth P kc km = some p ∧ p.names = a.names ∧ p.desc = a.desc ∧
    (∀ d, a.doc = some d → p.doc = some d)) ∧
  (∀ kc km kp a, prm A kc km kp = some a → ∃ p, prm P kc km kp = some p ∧ p.names = a.names ∧ p.index = a.index ∧
    (∀ d, a.doc = some d → p.doc = some d))

/-! ### invariants of the Rust types of the inputs -/

/-- `Names<2, _>`: two cells, no present-but-empty name -/
def ShapeNames (r : Names) : Prop := r.length = 2 ∧ some [] ∉ r

def ShapeMethod (m : Method) : Prop :=
  ShapeNames m.names ∧ NoDupKeys m.params ∧ ∀ e ∈ m.params, ShapeNames e.2.names

def ShapeClass (c : Class) : Prop :=
  ShapeNames c.names ∧ NoDupKeys c.fields ∧ (∀ e ∈ c.fields, ShapeNames e.2.names) ∧
  NoDupKeys c.methods ∧ ∀ e ∈ c.methods, ShapeMethod e.2

/-- `Mappings<2, _>`: two non-empty namespace names, `IndexMap`s have unique keys, rows are `Names<2, _>` -/
def Shape (M : Mappings) : Prop :=
  M.ns.length = 2 ∧ [] ∉ M.ns ∧ NoDupKeys M.classes ∧ ∀ e ∈ M.classes, ShapeClass e.2

/-- every entry is stored under the key derived from its own info (`ToKey`), as every reader of the crate guarantees
(the maps are `pub`, so the type does not enforce it) -/
def KeysConsistent (M : Mappings) : Prop :=
  ∀ e ∈ M.classes, e.2.names[0]? = some (some e.1) ∧
    (∀ f ∈ e.2.fields, f.2.names[0]? = some (some f.1.1) ∧ f.2.desc = f.1.2) ∧
    (∀ m ∈ e.2.methods, m.2.names[0]? = some (some m.1.1) ∧ m.2.desc = m.1.2 ∧
      ∀ p ∈ m.2.params, p.2.index = p.1)

/-! ### the conflicts `merge` reports, as an executable predicate -/

def docConflict (x y : Option JStr) : Bool :=
  match x, y with
  | some a, some b => a != b
  | _, _ => false

/-- some key is in both maps and `conf` holds of the two entries -/
def anyShared [BEq K] (m n : AList K V) (conf : V → V → Bool) : Bool :=
  m.any (fun e => match lookup e.1 n with | some y => conf e.2 y | none => false)

def srcConflict (x y : Names) : Bool := x[0]? != y[0]?

def paramConflict (p q : Param) : Bool :=
  p.index != q.index || srcConflict p.names q.names || docConflict p.doc q.doc

def fieldConflict (f g : Field) : Bool :=
  f.desc != g.desc || srcConflict f.names g.names || docConflict f.doc g.doc

def methodConflict (m n : Method) : Bool :=
  m.desc != n.desc || srcConflict m.names n.names || anyShared m.params n.params paramConflict ||
  docConflict m.doc n.doc

def classConflict (c d : Class) : Bool :=
  srcConflict c.names d.names || anyShared c.fields d.fields fieldConflict ||
  anyShared c.methods d.methods methodConflict || docConflict c.doc d.doc

def conflict (A B : Mappings) : Bool :=
  A.ns[0]? != B.ns[0]? || anyShared A.classes B.classes classConflict || docConflict A.doc B.doc

/-- the conflicts that remain possible between key-consistent inputs -/
def Conflict (A B : Mappings) : Prop :=
  A.ns[0]? ≠ B.ns[0]? ∨ docConflict A.doc B.doc = true ∨
  (∃ kc a b, cls A kc = some a ∧ cls B kc = some b ∧ docConflict a.doc b.doc = true) ∨
  (∃ kc kf a b, fld A kc kf = some a ∧ fld B kc kf = some b ∧ docConflict a.doc b.doc = true) ∨
  (∃ kc km a b, mth A kc km = some a ∧ mth B kc km = some b ∧ docConflict a.doc b.doc = true) ∨
  (∃ kc km kp a b, prm A kc km kp = some a ∧ prm B kc km kp = some b ∧
    (a.names[0]? ≠ b.names[0]? ∨ docConflict a.doc b.doc = true))

end Merge

/-! ### decidability of the domain predicates (the driver evaluates them) -/

namespace Merge
open AList
variable {K V : Type}

def decNoDupKeys [BEq K] : (m : AList K V) → Decidable (NoDupKeys m)
  | [] => isTrue trivial
  | (k, _) :: rest =>
    match decNoDupKeys rest with
    | isTrue h => if hc : contains k rest = false then isTrue ⟨hc, h⟩ else isFalse (fun hn => hc hn.1)
    | isFalse h => isFalse (fun hn => h hn.2)

instance [BEq K] (m : AList K V) : Decidable (NoDupKeys m) := decNoDupKeys m
instance (r : Names) : Decidable (ShapeNames r) := by unfold ShapeNames; exact inferInstance
instance (m : Method) : Decidable (ShapeMethod m) := by unfold ShapeMethod; exact inferInstance
instance (c : Class) : Decidable (ShapeClass c) := by unfold ShapeClass; exact inferInstance
instance (M : Mappings) : Decidable (Shape M) := by unfold Shape; exact inferInstance
instance (M : Mappings) : Decidable (KeysConsistent M) := by unfold KeysConsistent; exact inferInstance

end Merge
